#!/usr/bin/env python3
"""Regenerates MANIFEST.json from manifest_src.json (claims) so that it stays schema-valid."""
import json, sys
src = json.load(open('/verif/manifest_src.json'))
props = [json.loads(l) for l in open('/verif/properties.jsonl')]
checks, na = [], []
for p in props:
    pid = p['id']
    c = src['claims'].get(pid)
    if c and c.get('claimed'):
        checks.append({
            "property_id": pid,
            "quick_cmd": f"./check {pid} quick",
            "thorough_cmd": f"./check {pid} thorough",
            "evidence_file": f"/verif/evidence/{pid}.json",
            "replay_cmd_template": "cat {path}",
            "engine": "chverif",
            "level_claimed": {"category": "other", "text": c['text'], "design_ref": f"DESIGN.md section 4 {pid}"},
            "level_note": c['note'],
            "technique": c['technique'],
        })
    else:
        na.append({"property_id": pid, "reason": (c or {}).get('reason', 'no static rule built yet for any clause of this property; see DESIGN.md section 4 for the planned rules')})
m = {
    "version": 1,
    "setup_cmd": "cd /verif/chverif && GOFLAGS=-mod=mod GOPROXY=off GOSUMDB=off GOTOOLCHAIN=local GOWORK=off go build -o /verif/bin/chverif ./cmd/chverif",
    "hooks": {"guard": "verif", "enable": "none needed: static analysis reads the unmodified source", "baseline_off_cmd": src['baseline_off_cmd'], "source_commits": [], "add_only": True},
    "engines": [{"name": "chverif", "path": "/verif/chverif", "serves_properties": [c['property_id'] for c in checks], "kind_free_text": "repository-specific static analyser over go/packages + go/types + go/ssa (x/tools v0.29.0): error-discipline, CFG dominance / must-pass-through, append-only buffer discipline, path-language containment, effects/ownership, constant-table extraction"}],
    "checks": checks,
    "notes": src.get('notes', ''),
    "not_applicable": na,
}
json.dump(m, open('/verif/MANIFEST.json', 'w'), indent=1)
print(len(checks), "claimed;", len(na), "not applicable")
