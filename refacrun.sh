#!/bin/bash
# usage: refacrun.sh <dir with patch.diff>  -- applies a behaviour-preserving refactoring to a scratch copy of /repo
# and runs ALL quick checks on the copy (one process, shared load); any VIOLATION / FATAL is a false alarm of the checker.
export GOFLAGS=-mod=mod GOPROXY=off GOSUMDB=off GOTOOLCHAIN=local GOWORK=off
d="$1"; name=$(basename "$d")
cp /verif/known_findings.txt /root/scratch/seedverif/known_findings.txt
sc=$(mktemp -d /root/scratch/rf_XXXXXX)
rsync -a --exclude .git --exclude _golden /repo/ "$sc/"
( cd "$sc" && patch -p1 -s < "$d/patch.diff" ) || { echo "REFAC $name patch-failed"; rm -rf "$sc"; exit 2; }
out=$(/verif/bin/chverif -prop all -tier quick -verif /root/scratch/seedverif -repo "$sc" -no-selftest 2>&1); rc=$?
rm -rf "$sc"
if [ $rc = 0 ]; then echo "REFAC $name QUIET"; else echo "REFAC $name ALARM $(echo "$out" | grep -E 'VIOLATED|UNDECIDED|FATAL' | head -6 | tr '\n' '|' | cut -c1-600)"; fi
