#!/bin/bash
# usage: seedrun.sh <seed-dir> [prop]   -- applies the seeded patch to a scratch copy of /repo and runs the quick check on the copy.
# Prints DETECTED/MISSED. Nothing is executed from the copy; it is removed afterwards.
export GOFLAGS=-mod=mod GOPROXY=off GOSUMDB=off GOTOOLCHAIN=local GOWORK=off
d="$1"; name=$(basename "$d"); prop="${2:-$(jq -r .property "$d/meta.json")}"
cp /verif/known_findings.txt /root/scratch/seedverif/known_findings.txt
sc=$(mktemp -d /root/scratch/rc_XXXXXX)
rsync -a --exclude .git --exclude _golden /repo/ "$sc/" 
( cd "$sc" && patch -p1 -s < "$d/patch.diff" ) || { echo "SEED $name patch-failed"; rm -rf "$sc"; exit 2; }
out=$(/verif/bin/chverif -prop "$prop" -tier quick -verif /root/scratch/seedverif -repo "$sc" -no-selftest 2>&1); rc=$?
rm -rf "$sc"
if [ $rc = 1 ] && echo "$out" | grep -q "^VIOLATION property=$prop"; then
  echo "SEED $name prop=$prop DETECTED: $(echo "$out" | grep -E 'VIOLATED|UNDECIDED' | head -3 | tr '\n' '|')"
else
  echo "SEED $name prop=$prop MISSED rc=$rc $(echo "$out" | grep -E 'FATAL' | head -2)"
fi
