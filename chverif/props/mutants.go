package props

// Scripted one-place mutants of /repo (thorough tier self-tests). Each is
// applied through a go/packages overlay; the named rule must newly report the
// named construct. A mutant whose target text is gone is skipped and listed.

func init() {
	mutants["C01"] = []Mutant{
		{Name: "int64-append-arr-skips-first", File: "proto/col_int64_gen.go", Old: "\t*c = append(*c, vs...)", New: "\t*c = append(*c, vs[1:]...)", Rule: "C01.clones", Construct: "col_int64_gen.go"},
		{Name: "put256-limbs-swapped", File: "proto/int256.go", Old: "\tbinary.LittleEndian.PutUint64(b[128/8:192/8], v.High.Low)\n\tbinary.LittleEndian.PutUint64(b[64/8:128/8], v.Low.High)", New: "\tbinary.LittleEndian.PutUint64(b[128/8:192/8], v.Low.High)\n\tbinary.LittleEndian.PutUint64(b[64/8:128/8], v.High.Low)", Rule: "C01.endian", Construct: "proto.binPutUInt256"},
		{Name: "named-decodestate-pointer-receiver", File: "proto/col_tuple.go", Old: "func (c ColNamed[T]) DecodeState(r *Reader) error {", New: "func (c *ColNamed[T]) DecodeState(r *Reader) error {", Rule: "C01.stateset", Construct: "ColNamed"},
		{Name: "nullable-row-polarity", File: "proto/col_nullable.go", Old: "Set:   c.Nulls.Row(i) == boolFalse,", New: "Set:   c.Nulls.Row(i) == boolTrue,", Rule: "C01.nullflag", Construct: "ColNullable"},
		{Name: "clientinfo-swap-whole-buffer", File: "proto/client_info.go", Old: "bswap.Swap64(b.Buf[start:]) // https://github.com/ClickHouse/ClickHouse/issues/34369\n\t\t\t}\n\t\t\t{\n\t\t\t\tv := c.Span.SpanID()", New: "bswap.Swap64(b.Buf[start-start:]) // https://github.com/ClickHouse/ClickHouse/issues/34369\n\t\t\t}\n\t\t\t{\n\t\t\t\tv := c.Span.SpanID()", Rule: "C01.append", Construct: "ClientInfo"},
		{Name: "str-truncates-buffer", File: "proto/col_str.go", Old: "func (c ColStr) EncodeColumn(b *Buffer) {\n", New: "func (c ColStr) EncodeColumn(b *Buffer) {\n\tb.Buf = b.Buf[:0]\n", Rule: "C01.append", Construct: "ColStr"},
		{Name: "arr-swap-offsets-data", File: "proto/col_arr.go", Old: "\tc.Offsets.EncodeColumn(b)\n\tc.Data.EncodeColumn(b)", New: "\tc.Data.EncodeColumn(b)\n\tc.Offsets.EncodeColumn(b)", Rule: "C01.shape", Construct: "ColArr"},
		{Name: "lc-first-threshold", File: "proto/col_low_cardinality.go", Old: "n < math.MaxUint8 {", New: "n < math.MaxUint16 {", Rule: "C01.keywidth", Construct: "width8"},
		{Name: "lc-case16-uses-keys8", File: "proto/col_low_cardinality.go", Old: "\tcase KeyUInt16:\n\t\tc.keys16.EncodeColumn(b)", New: "\tcase KeyUInt16:\n\t\tc.keys8.EncodeColumn(b)", Rule: "C01.keywidth", Construct: "EncodeColumn/case16"},
		{Name: "map-drops-value-state", File: "proto/col_map.go", Old: "\tif s, ok := c.Values.(StateEncoder); ok {\n\t\ts.EncodeState(b)\n\t}\n", New: "", Rule: "C01.forward", Construct: "ColMap/EncodeState"},
		{Name: "uint32-size", File: "proto/col_uint32_unsafe_gen.go", Old: "\tconst size = 32 / 8\n\ts.Len *= size", New: "\tconst size = 16 / 8\n\ts.Len *= size", Rule: "C01.width", Construct: "ColUInt32"},
	}
	mutants["C02"] = []Mutant{
		{Name: "lz4hc-selects-lz4", File: "client.go", Old: "\tcase CompressionLZ4HC:\n\t\tcompression = proto.CompressionEnabled\n\t\tcompressionMethod = compress.LZ4HC", New: "\tcase CompressionLZ4HC:\n\t\tcompression = proto.CompressionEnabled\n\t\tcompressionMethod = compress.LZ4", Rule: "C02.compression", Construct: "CompressionLZ4HC"},
		{Name: "no-terminator-after-query", File: "query.go", Old: "\tif err := c.encodeBlankBlock(ctx); err != nil {\n\t\treturn errors.Wrap(err, \"external data end\")\n\t}\n", New: "", Rule: "C02.order", Construct: "sendQuery"},
		{Name: "secret-from-quota-key", File: "query.go", Old: "Secret:      q.Secret,", New: "Secret:      q.QuotaKey,", Rule: "C02.wiring", Construct: "Query.Secret"},
		{Name: "settings-order", File: "query.go", Old: "\tfor _, s := range c.settings {", New: "\tfor _, s := range q.Settings {", Nth: 1, Rule: "C02.wiring", Construct: "querySettings"},
		{Name: "library-revision-in-block", File: "query.go", Old: "b.WriteBlock(c.writer, c.protocolVersion, input)", New: "b.WriteBlock(c.writer, proto.Version, input)", Rule: "C02.version", Construct: "encodeBlock"},
		{Name: "keep-raw-bytes", File: "query.go", Old: "buf.Buf = append(buf.Buf[:start], c.compressor.Data...)", New: "buf.Buf = append(buf.Buf, c.compressor.Data...)", Rule: "C02.block", Construct: "compressed"},
		{Name: "writer-datasize-offset", File: "compress/writer.go", Old: "binary.LittleEndian.PutUint32(w.Data[hDataSize:], uint32(len(buf)))", New: "binary.LittleEndian.PutUint32(w.Data[hDataSize-1:], uint32(len(buf)))", Rule: "C02.frame", Construct: "layout"},
	}
	mutants["C03"] = []Mutant{
		{Name: "end-ignores-rows", File: "proto/block.go", Old: "\treturn b.Columns == 0 && b.Rows == 0", New: "\treturn b.Columns == 0", Rule: "C03.endmarker", Construct: "Block.End"},
		{Name: "reset-write-deadline", File: "client.go", Old: "\t\t\t_ = c.conn.SetReadDeadline(time.Time{})", New: "\t\t\t_ = c.conn.SetWriteDeadline(time.Time{})", Rule: "C03.packet-read", Construct: "reset"},
		{Name: "log-skip-tests-other-callback", File: "query.go", Old: "if ce == nil && q.OnLogs == nil && q.OnLog == nil {", New: "if ce == nil && q.OnLogs == nil && q.OnProfileEvent == nil {", Rule: "C03.delivery", Construct: "OnLog"},
		{Name: "chain-preallocated-with-length", File: "client.go", Old: "\tfor _, next := range list[1:] {", New: "\tif len(list) > 1 {\n\t\te.Next = make([]Exception, len(list)-1)\n\t}\n\tfor _, next := range list[1:] {", Rule: "C03.exception", Construct: "chain-root"},
		{Name: "handler-before-end-check", File: "query.go", Old: "\tif block.End() {\n\t\treturn nil\n\t}\n", New: "", Rule: "C03.handler", Construct: "decodeBlock"},
		{Name: "progress-error-ignored", File: "query.go", Old: "\t\t\tif err := f(ctx, p); err != nil {\n\t\t\t\treturn errors.Wrap(err, \"progress\")\n\t\t\t}", New: "\t\t\t_ = f(ctx, p)", Rule: "C03.callbacks", Construct: "OnProgress"},
		{Name: "totals-not-dispatched", File: "query.go", Old: "case proto.ServerCodeData, proto.ServerCodeTotals:", New: "case proto.ServerCodeData:", Rule: "C03.dispatch", Construct: "ServerCodeTotals"},
		{Name: "exception-recreated", File: "query.go", Old: "\t\treturn e\n\tcase proto.ServerCodeProgress:", New: "\t\treturn errors.New(e.Error())\n\tcase proto.ServerCodeProgress:", Rule: "C03.exception", Construct: "exception-return"},
		{Name: "nil-on-unknown", File: "query.go", Old: "\t\t\tcase proto.ServerCodeEndOfStream:\n\t\t\t\treturn nil", New: "\t\t\tcase proto.ServerCodeEndOfStream, proto.ServerCodePong:\n\t\t\t\treturn nil", Rule: "C03.nil", Construct: ""},
	}
	mutants["C04"] = []Mutant{
		{Name: "closed-after-conn-close", File: "client.go", Old: "\tc.closed = true\n\tif err := c.conn.Close(); err != nil {\n\t\treturn errors.Wrap(err, \"conn\")\n\t}\n", New: "\tif err := c.conn.Close(); err != nil {\n\t\treturn errors.Wrap(err, \"conn\")\n\t}\n\tc.closed = true\n", Rule: "C04.close-marks", Construct: "Close"},
		{Name: "later-deadline-wins", File: "client.go", Old: "(d.Before(deadline) || deadline.IsZero())", New: "(deadline.Before(d) || deadline.IsZero())", Rule: "C04.deadline", Construct: "earlier"},
		{Name: "ping-without-guard", File: "ping.go", Old: "\tif c.IsClosed() {\n\t\treturn ErrClosed\n\t}\n", New: "", Rule: "C04.guard", Construct: "Ping"},
		{Name: "flag-for-every-error", File: "query.go", Old: "\t\t\t\t\tif IsException(err) {\n\t\t\t\t\t\t// Prevent query cancellation on exception.\n\t\t\t\t\t\tgotException.Store(true)\n\t\t\t\t\t}", New: "\t\t\t\t\tgotException.Store(true)", Rule: "C04.exception-flag", Construct: ""},
		{Name: "do-keeps-pending-output", File: "query.go", Old: "\t\tc.writer.Reset()\n\t\treturn err\n\t}\n\treturn nil\n}", New: "\t\treturn err\n\t}\n\treturn nil\n}", Rule: "C04.discard-do", Construct: "Do"},
		{Name: "flush-keeps-pending-output", File: "client.go", Old: "\t\t// Do not keep data of failed request queued.\n\t\tc.writer.Reset()\n", New: "", Rule: "C04.discard-flush", Construct: "flush"},
		{Name: "failure-flag-after-close", File: "query.go", Old: "\t\tdefer close(done)\n\t\tdefer func() {\n\t\t\t// Errgroup cancels context only after this function returns, i.e.\n\t\t\t// after done is closed.\n\t\t\treceiveFailed.Store(err != nil)\n\t\t}()\n", New: "\t\tdefer func() {\n\t\t\treceiveFailed.Store(err != nil)\n\t\t}()\n\t\tdefer close(done)\n", Rule: "C04.watch-order", Construct: ""},
		{Name: "watch-ignores-failure-flag", File: "query.go", Old: "if (ctx.Err() != nil || receiveFailed.Load()) && !gotException.Load() {", New: "if ctx.Err() != nil && !gotException.Load() {", Rule: "C04.watch-order", Construct: ""},
	}
	mutants["C05"] = []Mutant{
		{Name: "zstd-method-byte", File: "compress/compress.go", Old: "encodedZSTD  methodEncoding = 0x90", New: "encodedZSTD  methodEncoding = 0x91", Rule: "C05.methods", Construct: "ZSTD"},
		{Name: "block-limit-above-documented", File: "compress/compress.go", Old: "\tmaxBlockSize = maxDataSize\n", New: "\tmaxBlockSize = maxDataSize + maxDataSize/255 + 16\n", Rule: "C05.bounds", Construct: "size#1"},
		{Name: "dst-sized-by-source", File: "compress/writer.go", Old: "\tmaxSize := lz4.CompressBlockBound(len(buf))\n", New: "\tmaxSize := len(buf)\n\tif w.lz4 != nil {\n\t\tmaxSize = lz4.CompressBlockBound(len(buf))\n\t}\n", Rule: "C05.dst", Construct: ""},
		{Name: "no-datasize-limit", File: "compress/reader.go", Old: "if dataSize < 0 || dataSize > maxDataSize {", New: "if dataSize < 0 {", Rule: "C05.bounds", Construct: ""},
		{Name: "hash-skips-header", File: "compress/reader.go", Old: "h := city.CH128(r.raw[hMethod:])", New: "h := city.CH128(r.raw[headerSize:])", Rule: "C05.verify", Construct: "region"},
		{Name: "reference-is-computed", File: "compress/reader.go", Old: "Reference: hGot,", New: "Reference: h,", Rule: "C05.err", Construct: "literal"},
		{Name: "refill-too-late", File: "compress/reader.go", Old: "if r.pos >= int64(len(r.data)) {", New: "if r.pos > int64(len(r.data)) {", Rule: "C05.state", Construct: "refill"},
		{Name: "error-leaves-data", File: "compress/reader.go", Old: "\t\t\tr.data = r.data[:0]\n\t\t\tr.pos = 0\n", New: "", Rule: "C05.state", Construct: "exhausted-on-error"},
	}
	mutants["C06"] = []Mutant{
		{Name: "map-offsets-against-last", File: "proto/col_map.go", Old: "\t\tif offset < prev {\n", New: "\t\tif offset > c.Offsets[rows-1] {\n", Rule: "C06.index", Construct: "offsets/ColMap"},
		{Name: "elem-unordered-parens", File: "proto/column.go", Old: "\tif start <= 0 || end <= 0 || end < start {\n\t\t// No element.", New: "\tif start <= 0 || end <= 0 {\n\t\t// No element.", Rule: "C06.slices", Construct: "Elem"},
		{Name: "arr-no-checkrows", File: "proto/col_arr.go", Old: "\tif err := checkRows(size); err != nil {\n\t\treturn errors.Wrap(err, \"array size\")\n\t}\n", New: "", Rule: "C06.rows", Construct: "ColArr"},
		{Name: "lc-no-key-range", File: "proto/col_low_cardinality.go", Old: "if int64(idx) >= indexRows || idx < 0 {", New: "if idx < 0 {", Rule: "C06.index", Construct: "ColLowCardinality"},
		{Name: "blockinfo-continue-on-unknown", File: "proto/block.go", Old: "\t\tdefault:\n\t\t\treturn errors.Errorf(\"unknown field %d\", f)", New: "\t\tdefault:\n\t\t\tfor f > 1000 {\n\t\t\t}", Rule: "C06.loops", Construct: "BlockInfo"},
		{Name: "blockinfo-panics-on-unknown-field", File: "proto/block.go", Old: "\t\tdefault:\n\t\t\treturn errors.Errorf(\"unknown field %d\", f)", New: "\t\tdefault:\n\t\t\tpanic(fmt.Sprintf(\"unknown field %d\", f))", Rule: "C06.panic", Construct: "BlockInfo"},
		{Name: "arr-offsets-unchecked", File: "proto/col_arr.go", Old: "\t\t\treturn errors.Errorf(\"offset [%d] (%d) is less than previous (%d)\", i, offset, prev)\n", New: "\t\t\t_ = i\n", Rule: "C06.index", Construct: "offsets/ColArr"},
	}
	mutants["C07"] = []Mutant{
		{Name: "header-loop-over-target", File: "proto/results.go", Nth: 2, Old: "\tfor i := 0; i < b.Columns; i++ {\n\t\tcolumnName, err := r.Str()", New: "\tfor i := range s {\n\t\tcolumnName, err := r.Str()", Rule: "C07.colcount", Construct: "DecodeResult"},
		{Name: "str-break-on-short-read", File: "proto/col_str.go", Old: "\t\tif err := r.ReadFull(c.Buf[p.Start:p.End]); err != nil {\n\t\t\treturn errors.Wrapf(err, \"row %d: read full\", i)\n\t\t}", New: "\t\tif err := r.ReadFull(c.Buf[p.Start:p.End]); err != nil {\n\t\t\tbreak\n\t\t}", Rule: "C07.errors", Construct: "ColStr"},
		{Name: "lc-keys-error-ignored", File: "proto/col_low_cardinality.go", Old: "\t\tif err := c.keys8.DecodeColumn(r, rows); err != nil {\n\t\t\treturn errors.Wrap(err, \"keys\")\n\t\t}", New: "\t\t_ = c.keys8.DecodeColumn(r, rows)", Rule: "C07.errors", Construct: "ColLowCardinality"},
		{Name: "blockinfo-eof-is-ok", File: "proto/block.go", Old: "\t\t\treturn errors.Wrap(err, \"field id\")", New: "\t\t\tif f == 0 {\n\t\t\t\treturn nil\n\t\t\t}\n\t\t\treturn errors.Wrap(err, \"field id\")", Rule: "C07.errors", Construct: "BlockInfo"},
	}
	mutants["C08"] = []Mutant{
		{Name: "timeout-nonzero", File: "client.go", Old: "\tif timeout > 0 {\n\t\tdeadline = time.Now().Add(timeout)", New: "\tif timeout != 0 {\n\t\tdeadline = time.Now().Add(timeout)", Rule: "C08.deadline", Construct: "positive"},
		{Name: "readfull-single-read", File: "proto/reader.go", Old: "\tif _, err := io.ReadFull(r, buf); err != nil {", New: "\tif _, err := r.Read(buf); err != nil {", Rule: "C08.readfull", Construct: "ReadFull"},
		{Name: "retry-every-error", File: "query.go", Old: "if errors.As(err, &opErr) && opErr.Timeout() {", New: "if errors.As(err, &opErr) {", Rule: "C08.retry", Construct: "packet"},
		{Name: "two-reads-in-packet", File: "client.go", Old: "\tn, err := c.reader.UVarInt()\n\tif err != nil {\n\t\treturn 0, errors.Wrap(err, \"uvarint\")\n\t}\n", New: "\tn, err := c.reader.UVarInt()\n\tif err != nil {\n\t\treturn 0, errors.Wrap(err, \"uvarint\")\n\t}\n\tif n > 1000 {\n\t\tif n, err = c.reader.UVarInt(); err != nil {\n\t\t\treturn 0, err\n\t\t}\n\t}\n", Rule: "C08.retry", Construct: "one-read"},
	}
	mutants["C09"] = []Mutant{
		{Name: "blank-first-round-ends-stream", File: "query.go", Old: "\t\t\tif q.Input[0].Data.Rows() == 0 {\n\t\t\t\tgoto End // initial input was blank\n\t\t\t}\n\t\t\t// Initial input is also the last one, writing it as single block.\n\t\t\tf = nil\n\t\t}\n", New: "\t\t\tif q.Input[0].Data.Rows() == 0 {\n\t\t\t\tgoto End // initial input was blank\n\t\t\t}\n\t\t\t// Initial input is also the last one, writing it as single block.\n\t\t\tf = nil\n\t\t}\n\t\tif q.Input[0].Data.Rows() == 0 {\n\t\t\tgoto End\n\t\t}\n", Rule: "C09.more", Construct: ""},
		{Name: "enum-prepare-accumulates", File: "proto/col_enum.go", Old: "\te.raw8 = e.raw8[:0]\n\te.raw16 = e.raw16[:0]\n", New: "", Rule: "C09.rebuild", Construct: "ColEnum"},
		{Name: "flush-after-callback", File: "query.go", Old: "\t\t// Flushing the buffer to prevent high memory consumption.\n\t\tif err := c.flush(ctx); err != nil {\n\t\t\treturn errors.Wrap(err, \"flush\")\n\t\t}\n\t\tif err := f(ctx); err != nil {", New: "\t\terr := f(ctx)\n\t\tif ferr := c.flush(ctx); ferr != nil {\n\t\t\treturn errors.Wrap(ferr, \"flush\")\n\t\t}\n\t\tif err != nil {", Rule: "C09.flush", Construct: "encodeBlock"},
		{Name: "second-terminator", File: "query.go", Old: "\tif err := c.encodeBlankBlock(ctx); err != nil {\n\t\treturn errors.Wrap(err, \"write end of data\")\n\t}\n", New: "\tif err := c.encodeBlankBlock(ctx); err != nil {\n\t\treturn errors.Wrap(err, \"write end of data\")\n\t}\n\tif err := c.encodeBlankBlock(ctx); err != nil {\n\t\treturn errors.Wrap(err, \"write end of data\")\n\t}\n", Rule: "C09.terminator", Construct: "after"},
		{Name: "tail-rows-dropped", File: "query.go", Old: "\t\t\t\t\tf = nil\n\t\t\t\t\tcontinue\n", New: "\t\t\t\t\tbreak\n", Rule: "C09.tail", Construct: ""},
		{Name: "callback-error-swallowed", File: "query.go", Old: "\t\t\treturn errors.Wrap(err, \"next input (server already persisted previous blocks)\")", New: "\t\t\tbreak", Rule: "C09.callback", Construct: ""},
	}
	mutants["C10"] = []Mutant{
		{Name: "second-addendum-after-wait", File: "handshake.go", Old: "\t\treturn errors.Wrap(err, \"failed\")\n\t}\n\n\treturn nil\n}", New: "\t\treturn errors.Wrap(err, \"failed\")\n\t}\n\tif proto.FeatureAddendum.In(c.protocolVersion) {\n\t\tc.encodeAddendum()\n\t\tif err := c.flush(ctx); err != nil {\n\t\t\treturn err\n\t\t}\n\t}\n\n\treturn nil\n}", Rule: "C10.handshake", Construct: "covered"},
		{Name: "addendum-after-wait", File: "handshake.go", Old: "\t\tif proto.FeatureAddendum.In(c.protocolVersion) {\n\t\t\tc.lg.Debug(\"Writing addendum\")\n\t\t\tc.encodeAddendum()\n\t\t\tif err := c.flush(wgCtx); err != nil {\n\t\t\t\treturn errors.Wrap(err, \"flush\")\n\t\t\t}\n\t\t}\n\n\t\treturn nil\n\t})", New: "\t\treturn nil\n\t})\n\tdefer func() {\n\t\tif proto.FeatureAddendum.In(c.protocolVersion) {\n\t\t\tc.encodeAddendum()\n\t\t\t_ = c.flush(ctx)\n\t\t}\n\t}()", Rule: "C10.handshake", Construct: "covered"},
		{Name: "cancel-buffer-nonempty", File: "query.go", Old: "Buf: make([]byte, 0, 1),", New: "Buf: make([]byte, 1),", Rule: "C10.packet", Construct: "buffer-literal"},
		{Name: "colinfo-wait-without-ctx", File: "query.go", Old: "\t\t\tselect {\n\t\t\tcase <-ctx.Done():\n\t\t\t\treturn ctx.Err()\n\t\t\tcase v := <-colInfo:\n\t\t\t\tinfo = v\n\t\t\t}", New: "\t\t\tinfo = <-colInfo", Rule: "C10.leak", Construct: ""},
		{Name: "cancel-error-without-ctx", File: "query.go", Old: "err := multierr.Append(ctx.Err(), c.cancelQuery())", New: "err := multierr.Append(nil, c.cancelQuery())", Rule: "C10.error", Construct: ""},
		{Name: "loop-does-not-retest-ctx", File: "query.go", Old: "\t\t\tif ctx.Err() != nil {\n\t\t\t\treturn ctx.Err()\n\t\t\t}\n\t\t\tcode, err := c.packet(ctx)", New: "\t\t\tcode, err := c.packet(ctx)", Rule: "C10.leak", Construct: "packet"},
	}
	mutants["C11"] = []Mutant{
		{Name: "ping-bypasses-release", File: "chpool/pool.go", Old: "\tc, err := p.Acquire(ctx)\n\tif err != nil {\n\t\treturn err\n\t}\n\tdefer c.Release()\n\n\treturn c.Ping(ctx)", New: "\tres, err := p.pool.Acquire(ctx)\n\tif err != nil {\n\t\treturn err\n\t}\n\tdefer res.Release()\n\n\treturn res.Value().client.Ping(ctx)", Rule: "C11.bypass", Construct: "Ping"},
		{Name: "slab-recycled", File: "chpool/conn.go", Old: "cr.clients = make([]Client, 128)", New: "cr.clients = cr.clients[:cap(cr.clients)]", Rule: "C11.slab", Construct: ""},
		{Name: "release-closed-client", File: "chpool/client.go", Old: "if client.IsClosed() || time.Since(", New: "if !client.IsClosed() || time.Since(", Rule: "C11.release", Construct: "Release"},
		{Name: "idle-branch-releases", File: "chpool/pool.go", Old: "\t\t} else if res.IdleDuration() > p.options.MaxConnIdleTime {\n\t\t\tres.Destroy()", New: "\t\t} else if res.IdleDuration() > p.options.MaxConnIdleTime {\n\t\t\tres.ReleaseUnused()", Rule: "C11.health", Construct: ""},
		{Name: "dial-in-acquire", File: "chpool/pool.go", Old: "\tres, err := p.pool.Acquire(ctx)\n\tif err != nil {\n\t\treturn nil, err\n\t}\n\n\treturn res.Value().getConn(p, res), nil", New: "\tres, err := p.pool.Acquire(ctx)\n\tif err != nil {\n\t\tif c, derr := ch.Dial(ctx, p.options.ClientOptions); derr == nil {\n\t\t\t_ = c.Close()\n\t\t}\n\t\treturn nil, err\n\t}\n\n\treturn res.Value().getConn(p, res), nil", Rule: "C11.factory", Construct: "Acquire"},
		{Name: "handle-keeps-res", File: "chpool/client.go", Old: "\tres := c.res\n\tc.res = nil\n", New: "\tres := c.res\n", Rule: "C11.handle", Construct: "Release"},
	}
	mutants["C12"] = []Mutant{
		{Name: "dial-writes-callers-dialer", File: "client.go", Old: "\t\t\tnetDialer = d\n\t\t}\n", New: "\t\t\tnetDialer = d\n\t\t}\n\t\tif netDialer.Timeout == 0 {\n\t\t\tnetDialer.Timeout = opt.DialTimeout\n\t\t}\n", Rule: "C12.borrowed", Construct: "ch.Dial"},
		{Name: "global-lazy-decoder", File: "compress/reader.go", Old: "\t\t\tr.zstd = zstdReader\n", New: "\t\t\tr.zstd = zstdReader\n\t\t\tmethodTable[None] = encodedNone\n", Rule: "C12.globals", Construct: ""},
		{Name: "close-logs", File: "client.go", Old: "\tc.closed = true\n\tif err := c.conn.Close(); err != nil {", New: "\tc.closed = true\n\tc.lg.Debug(\"closing\")\n\tif err := c.conn.Close(); err != nil {", Rule: "C12.owner", Construct: "foreign/Close"},
		{Name: "isclosed-without-lock", File: "client.go", Old: "func (c *Client) IsClosed() bool {\n\tc.mux.Lock()\n\tdefer c.mux.Unlock()\n", New: "func (c *Client) IsClosed() bool {\n", Rule: "C12.owner", Construct: "IsClosed/closed"},
		{Name: "shared-query-written-in-receiver", File: "query.go", Old: "\t\tonResult := c.resultHandler(q)\n", New: "\t\tonResult := c.resultHandler(q)\n\t\tq.QueryID = \"\"\n", Rule: "C12.captured", Construct: "captured/q"},
		{Name: "metrics-without-lock", File: "query_metrics.go", Old: "\tv.mux.Lock()\n\tdefer v.mux.Unlock()\n", New: "", Rule: "C12.ctxvalue", Construct: "sharedQueryMetrics"},
	}
	mutants["C13"] = []Mutant{
		{Name: "handshake-drops-error-on-ctx-done", File: "handshake.go", Old: "return errors.Wrap(multierr.Append(err, ctxErr), \"parent context done\")", New: "_ = multierr.Append(err, ctxErr)\n\t\t\treturn errors.Wrap(ctxErr, \"parent context done\")", Rule: "C13.fail", Construct: "carries"},
		{Name: "dial-timeout-bounds-handshake", File: "client.go", Old: "\tconn, err := opt.Dialer.DialContext(ctx, \"tcp\", opt.Address)", New: "\tctx, cancelDial := context.WithTimeout(ctx, opt.DialTimeout)\n\tdefer cancelDial()\n\tconn, err := opt.Dialer.DialContext(ctx, \"tcp\", opt.Address)", Rule: "C13.ctx", Construct: "Dial"},
		{Name: "downgrade-direction", File: "handshake.go", Old: "if c.protocolVersion > c.server.Revision {", New: "if c.protocolVersion < c.server.Revision {", Rule: "C13.min", Construct: "store-protocolVersion"},
		{Name: "hello-decoded-with-server-revision", File: "client.go", Old: "\treturn v.DecodeAware(c.reader, c.protocolVersion)", New: "\treturn v.DecodeAware(c.reader, c.server.Revision)", Rule: "C13.version", Construct: "decode"},
		{Name: "dial-leaks-conn", File: "client.go", Old: "\t\t// Connection was dialed here, so nobody else can close it.\n\t\t_ = conn.Close()\n", New: "", Rule: "C13.dialclose", Construct: "Dial"},
		{Name: "timeout-before-handshake", File: "client.go", Old: "\t\tquotaKey: opt.QuotaKey,\n", New: "\t\tquotaKey: opt.QuotaKey,\n\t\treadTimeout: opt.ReadTimeout,\n", Rule: "C13.timeout", Construct: "handshake"},
	}
	mutants["C14"] = []Mutant{
		{Name: "map-write-guard-on-keys", File: "proto/col_map.go", Old: "func (c ColMap[K, V]) WriteColumn(w *Writer) {\n\tif c.Rows() == 0 {", New: "func (c ColMap[K, V]) WriteColumn(w *Writer) {\n\tif c.Keys.Rows() == 0 {", Rule: "C14.guard", Construct: "ColMap"},
		{Name: "append-before-cut", File: "proto/writer.go", Old: "\tw.cutBuffer()\n\tw.vec = append(w.vec, data)", New: "\tw.vec = append(w.vec, data)\n\tw.cutBuffer()", Rule: "C14.cutfirst", Construct: "ChainWrite"},
		{Name: "offset-not-advanced", File: "proto/writer.go", Old: "\tw.bufOffset = newOffset\n", New: "", Rule: "C14.cut", Construct: "cutBuffer"},
		{Name: "reset-forgets-offset", File: "proto/writer.go", Old: "func (w *Writer) reset() {\n\tw.bufOffset = 0\n", New: "func (w *Writer) reset() {\n", Rule: "C14.reset", Construct: "reset"},
		{Name: "flush-error-skips-reset", File: "proto/writer.go", Old: "\tn, err = w.vec.WriteTo(w.conn)\n\tw.reset()", New: "\tn, err = w.vec.WriteTo(w.conn)\n\tif err != nil {\n\t\treturn n, err\n\t}\n\tw.reset()", Rule: "C14.flush", Construct: "Flush"},
	}
	mutants["C15"] = []Mutant{
		{Name: "uint32-safe-loop-drops-last", File: "proto/col_uint32_safe_gen.go", Old: "for i := 0; i <= len(data)-size; i += size {", New: "for i := 0; i < len(data)-size; i += size {", Rule: "C15.clones", Construct: "col_uint32_safe_gen.go"},
		{Name: "date32-safe-uint16", File: "proto/col_date32_safe_gen.go", Old: "Date32(binary.LittleEndian.Uint32(data[i:i+size])),", New: "Date32(binary.LittleEndian.Uint16(data[i:i+size])),", Rule: "C15.endian", Construct: "ColDate32"},
		{Name: "readraw-bypasses-selection", File: "proto/reader.go", Old: "\tif err := r.readFull(n); err != nil {\n\t\treturn nil, errors.Wrap(err, \"read full\")\n\t}\n", New: "\tr.b.Ensure(n)\n\tif _, err := io.ReadFull(r.raw, r.b.Buf); err != nil {\n\t\treturn nil, errors.Wrap(err, \"read full\")\n\t}\n", Rule: "C15.source", Construct: "ReadRaw"},
		{Name: "safe-uint32-size", File: "proto/col_uint32_safe_gen.go", Old: "\tconst size = 32 / 8\n\tdata, err := r.ReadRaw(rows * size)", New: "\tconst size = 16 / 8\n\tdata, err := r.ReadRaw(rows * size)", Rule: "C15.width", Construct: "ColUInt32"},
		{Name: "safe-big-endian", File: "proto/col_uint16_safe_gen.go", Old: "\t\t\tbinary.LittleEndian.Uint16(data[i:i+size]),", New: "\t\t\tbinary.BigEndian.Uint16(data[i:i+size]),", Rule: "C15.endian", Construct: "ColUInt16"},
		{Name: "uint128-halves-swapped", File: "proto/int128.go", Old: "binary.LittleEndian.PutUint64(b[0:64/8], v.Low)", New: "binary.LittleEndian.PutUint64(b[0:64/8], v.High)", Rule: "C15.endian", Construct: "binPutUInt128"},
		{Name: "safe-bool-no-validation", File: "proto/col_bool_safe.go", Old: "\t\tdefault:\n\t\t\treturn errors.Errorf(\"[%d]: bad value %d for Bool\", i, data[i])", New: "\t\tdefault:\n\t\t\tv[i] = true", Rule: "C15.shape", Construct: "ColBool.DecodeColumn"},
	}
	mutants["C16"] = []Mutant{
		{Name: "enum-appendarr-adopts", File: "proto/col_enum.go", Old: "func (e *ColEnum) AppendArr(vs []string) {\n", New: "func (e *ColEnum) AppendArr(vs []string) {\n\tif len(e.Values) == 0 {\n\t\te.Values = vs\n\t\treturn\n\t}\n", Rule: "C16.alias", Construct: "ColEnum.AppendArr"},
		{Name: "lc-reset-forgets-keys8", File: "proto/col_low_cardinality.go", Old: "\tc.keys8 = c.keys8[:0]\n", New: "", Rule: "C16.reset", Construct: "ColLowCardinality"},
		{Name: "str-reset-forgets-pos", File: "proto/col_str.go", Old: "\tc.Pos = c.Pos[:0]\n}", New: "}", Rule: "C16.reset", Construct: "ColStr"},
		{Name: "decoderesult-no-reset", File: "proto/results.go", Old: "\t\tt.Data.Reset()\n\t\tif b.Rows == 0 {", New: "\t\tif b.Rows == 0 {", Rule: "C16.before", Construct: "DecodeResult"},
		{Name: "lc-map-kept", File: "proto/col_low_cardinality.go", Old: "\t} else {\n\t\tclear(c.kv)\n\t}\n", New: "\t}\n", Rule: "C16.dict", Construct: "Prepare"},
	}
	mutants["C17"] = []Mutant{
		{Name: "feature-in-strict", File: "proto/feature.go", Old: "return v >= f.Version()", New: "return v > f.Version()", Rule: "C17.thresholds", Construct: "Feature.In"},
		{Name: "setting-flags-iota", File: "proto/query.go", Old: "\tsettingFlagImportant = 0x01\n\tsettingFlagCustom    = 0x02\n\tsettingFlagObsolete  = 0x04", New: "\tsettingFlagImportant = iota + 1\n\tsettingFlagCustom\n\tsettingFlagObsolete", Rule: "C17.flags", Construct: "flags/Setting"},
		{Name: "progress-gate-decoder-only", File: "proto/progress.go", Old: "\tif FeatureClientWriteInfo.In(version) {\n\t\t{\n\t\t\tv, err := r.UVarInt()", New: "\tif FeatureServerLogs.In(version) {\n\t\t{\n\t\t\tv, err := r.UVarInt()", Rule: "C17.shape", Construct: "Progress"},
		{Name: "serverhello-fields-swapped", File: "proto/server_hello.go", Old: "\tif FeatureTimezone.In(v) {\n\t\tb.PutString(s.Timezone)\n\t}\n\tif FeatureDisplayName.In(v) {\n\t\tb.PutString(s.DisplayName)\n\t}", New: "\tif FeatureDisplayName.In(v) {\n\t\tb.PutString(s.DisplayName)\n\t}\n\tif FeatureTimezone.In(v) {\n\t\tb.PutString(s.Timezone)\n\t}", Rule: "C17.fieldorder", Construct: "ServerHello"},
		{Name: "bucket-written-as-int64", File: "proto/block.go", Old: "b.PutInt32(int32(i.BucketNum))", New: "b.PutInt64(int64(i.BucketNum))", Rule: "C17.shape", Construct: "BlockInfo"},
		{Name: "stage-constant-again", File: "proto/query.go", Old: "\tq.Stage.Encode(b)", New: "\tStageComplete.Encode(b)", Rule: "C17.fields", Construct: "Query.Stage"},
		{Name: "uint32-big-endian", File: "proto/reader.go", Old: "return binary.LittleEndian.Uint32(r.b.Buf), nil", New: "return binary.BigEndian.Uint32(r.b.Buf), nil", Rule: "C17.prims", Construct: "UInt32"},
	}
	mutants["C18"] = []Mutant{
		{Name: "end-ignores-rows", File: "proto/block.go", Old: "\treturn b.Columns == 0 && b.Rows == 0", New: "\treturn b.Columns == 0", Rule: "C18.endmarker", Construct: "Block.End"},
		{Name: "enum8-int16-both-sides", File: "proto/column.go", Old: "(cBase == ColumnTypeEnum16 && b == ColumnTypeInt16) ||\n\t\t(bBase == ColumnTypeEnum8 && c == ColumnTypeInt8) ||\n\t\t(bBase == ColumnTypeEnum16 && c == ColumnTypeInt16) {", New: "(cBase == ColumnTypeEnum8 && b == ColumnTypeInt16) ||\n\t\t(bBase == ColumnTypeEnum8 && c == ColumnTypeInt8) ||\n\t\t(bBase == ColumnTypeEnum8 && c == ColumnTypeInt16) {", Rule: "C18.symm", Construct: "enumwidth"},
		{Name: "no-name-check", File: "proto/results.go", Old: "\t\tif t.Name != columnName {\n\t\t\treturn errors.Errorf(\"[%d]: unexpected column %q (%q expected)\", i, columnName, t.Name)\n\t\t}\n", New: "", Rule: "C18.order", Construct: ""},
		{Name: "no-conflicts-check", File: "proto/results.go", Old: "\t\tif gotType.Conflicts(hasType) {", New: "\t\tif false && gotType.Conflicts(hasType) {", Rule: "C18.order", Construct: ""},
		{Name: "flag-ignored", File: "proto/results.go", Old: "\t\t\tif customSerialization {\n\t\t\t\t// Not implemented.\n\t\t\t\treturn errors.Wrapf(err, \"column [%d] has custom serialization (not supported)\", i)\n\t\t\t}\n\t\t}\n\t\tif noTarget {", New: "\t\t\t_ = customSerialization\n\t\t}\n\t\tif noTarget {", Rule: "C18.custom", Construct: "DecodeResult"},
	}
	mutants["C19"] = []Mutant{
		{Name: "mirrored-enum-disjunct-missing", File: "proto/column.go", Old: "\t\t(bBase == ColumnTypeEnum8 && c == ColumnTypeInt8) ||\n", New: "", Rule: "C19.symm", Construct: "symmetric"},
		{Name: "downcast-one-side", File: "proto/column.go", Old: "return c.decimalDowncast() != b.decimalDowncast()", New: "return c.decimalDowncast() != b", Rule: "C19.symm", Construct: "symmetric"},
		{Name: "int16-inferred-as-int8", File: "proto/col_auto_gen.go", Old: "\tcase ColumnTypeInt16:\n\t\treturn new(ColInt16)", New: "\tcase ColumnTypeInt16:\n\t\treturn new(ColInt8)", Rule: "C19.table", Construct: "Int16"},
		{Name: "decimal64-boundary", File: "proto/col_auto.go", Old: "case prec >= 10 && prec < 19:", New: "case prec >= 10 && prec < 20:", Rule: "C19.decimal", Construct: ""},
	}
	mutants["C20"] = []Mutant{
		{Name: "scale-starts-at-ten", File: "proto/datetime64.go", Old: "\td := int64(1)\n\tfor i := PrecisionNano; i > p; i-- {", New: "\td := int64(10)\n\tfor i := PrecisionNano; i > p; i-- {", Rule: "C20.scale", Construct: "Scale"},
		{Name: "ipv6-unmap", File: "proto/ipv6.go", Old: "\treturn netip.AddrFrom16(v)\n", New: "\treturn netip.AddrFrom16(v).Unmap()\n", Rule: "C20.ipinverse", Construct: "proto.(IPv6).ToIP"},
		{Name: "int256-middle-word-not-extended", File: "proto/int256.go", Old: "\t\tlo.High = math.MaxUint64\n", New: "", Rule: "C20.signext", Construct: "proto.Int256FromInt"},
		{Name: "int128-from-uint64-signed", File: "proto/int128.go", Old: "func Int128FromUInt64(v uint64) Int128 {\n\treturn Int128(UInt128FromUInt64(v))", New: "func Int128FromUInt64(v uint64) Int128 {\n\treturn Int128FromInt(int(v))", Rule: "C20.widen", Construct: "Int128FromUInt64"},
		{Name: "week-six-days", File: "proto/col_interval.go", Old: "int(i.Value)*7", New: "int(i.Value)*6", Rule: "C20.interval", Construct: "IntervalWeek"},
		{Name: "hour-is-minute", File: "proto/col_interval.go", Old: "t.Add(time.Hour * time.Duration(i.Value))", New: "t.Add(time.Minute * time.Duration(i.Value))", Rule: "C20.interval", Construct: "IntervalHour"},
		{Name: "toip-little-endian", File: "proto/ipv4.go", Old: "binary.BigEndian.PutUint32(buf[:], uint32(v))", New: "binary.LittleEndian.PutUint32(buf[:], uint32(v))", Rule: "C20.endian", Construct: "IPv4"},
		{Name: "date32-truncates-again", File: "proto/date32.go", Old: "\tif sec%secInDay < 0 {\n\t\t// Rounding down (not to zero) for dates before 1970.\n\t\tdays--\n\t}\n", New: "", Rule: "C20.trunc", Construct: "ToDate32"},
	}
}
