package props

// Mutants written in the shapes the refactoring round 7 introduced: the generalised recognisers must still
// tell a wrong constant from a different shape.

func init() {
	add := func(prop string, ms ...Mutant) { mutants[prop] = append(mutants[prop], ms...) }

	add("C20",
		Mutant{Name: "scale-countdown-one-too-many", File: "proto/datetime64.go", Old: "\tfor i := PrecisionNano; i > p; i-- {", New: "\tfor n := int(PrecisionNano) - int(p) + 1; n > 0; n-- {", Rule: "C20.scale", Construct: "Scale"},
		Mutant{Name: "scale-countup-inclusive", File: "proto/datetime64.go", Old: "\tfor i := PrecisionNano; i > p; i-- {", New: "\tfor i := p; i <= PrecisionNano; i++ {", Rule: "C20.scale", Construct: "Scale"},
	)
	add("C19",
		Mutant{Name: "decimal-ifchain-wrong-boundary", File: "proto/column.go", Old: "\tswitch {\n\tcase prec < 10:\n\t\treturn ColumnTypeDecimal32\n\tcase prec < 19:\n\t\treturn ColumnTypeDecimal64\n\tcase prec < 39:\n\t\treturn ColumnTypeDecimal128\n\tcase prec < 77:\n\t\treturn ColumnTypeDecimal256\n\tdefault:\n\t\treturn c\n\t}", New: "\tif prec < 10 {\n\t\treturn ColumnTypeDecimal32\n\t}\n\tif prec <= 19 {\n\t\treturn ColumnTypeDecimal64\n\t}\n\tif prec < 39 {\n\t\treturn ColumnTypeDecimal128\n\t}\n\tif prec < 77 {\n\t\treturn ColumnTypeDecimal256\n\t}\n\treturn c", Rule: "C19.decimal", Construct: "decimal"},
	)
	add("C13",
		Mutant{Name: "temp-table-gate-helper-fed-library-revision", File: "query.go", Old: "func (c *Client) decodeBlock(ctx context.Context, opt decodeOptions) error {\n\tif opt.ProtocolVersion == 0 {\n\t\topt.ProtocolVersion = c.protocolVersion\n\t}\n\tif proto.FeatureTempTables.In(opt.ProtocolVersion) {", New: "func (c *Client) hasTempTables(revision int) bool {\n\treturn proto.FeatureTempTables.In(revision)\n}\n\nfunc (c *Client) decodeBlock(ctx context.Context, opt decodeOptions) error {\n\tif opt.ProtocolVersion == 0 {\n\t\topt.ProtocolVersion = c.protocolVersion\n\t}\n\tif c.hasTempTables(proto.Version) {", Rule: "C13.version", Construct: "hasTempTables"},
	)
	add("C15",
		Mutant{Name: "uuid-view-helper-half-width", File: "proto/col_uuid_unsafe.go", Old: "\ts := *(*slice)(unsafe.Pointer(c)) // #nosec: G103 // memory layout matches\n\tconst size = 16\n", New: "\ts := *(*slice)(unsafe.Pointer(c)) // #nosec: G103 // memory layout matches\n\tconst size = 8\n", Rule: "C15.width", Construct: "ColUUID"},
	)
}

// Reverts of the three defects repaired in round 9.
func init() {
	add := func(prop string, ms ...Mutant) { mutants[prop] = append(mutants[prop], ms...) }
	add("C04",
		Mutant{Name: "column-info-sent-for-every-header", File: "query.go", Old: "\t\t\tif gotColInfo {\n\t\t\t\t// Sender waits for column info only once.\n\t\t\t\treturn errors.New(\"unexpected data block: column info already received\")\n\t\t\t}\n\t\t\tgotColInfo = true\n", New: "\t\t\t_ = gotColInfo\n", Rule: "C04.send-once", Construct: "send#1"},
		Mutant{Name: "column-info-flag-never-raised", File: "query.go", Old: "\t\t\tgotColInfo = true\n", New: "", Rule: "C04.send-once", Construct: "send#1"},
	)
	add("C06",
		Mutant{Name: "string-offset-sum-unchecked", File: "proto/col_str.go", Old: "\t\tif n > math.MaxInt-p.End {\n\t\t\treturn errors.Errorf(\"row %d: length %d overflows column size\", i, n)\n\t\t}\n", New: "\t\t_ = math.MaxInt\n", Rule: "C06.sum-overflow", Construct: "ColStr"},
		Mutant{Name: "zstd-decoder-uncapped", File: "compress/reader.go", Old: "\t\t\t\tzstd.WithDecoderMaxMemory(maxDataSize),\n", New: "", Rule: "C06.zstd-cap", Construct: "zstd.NewReader"},
		Mutant{Name: "zstd-decoder-cap-too-large", File: "compress/reader.go", Old: "zstd.WithDecoderMaxMemory(maxDataSize)", New: "zstd.WithDecoderMaxMemory(64 * maxDataSize)", Rule: "C06.zstd-cap", Construct: "zstd.NewReader"},
	)
}

// Mutants for the rules added in seeding round 9.
func init() {
	add := func(prop string, ms ...Mutant) { mutants[prop] = append(mutants[prop], ms...) }
	add("C01",
		Mutant{Name: "string-length-under-row-limit", File: "proto/reader.go", Old: "\tif n < 0 {\n\t\treturn 0, errors.Errorf(\"size %d is invalid\", n)\n\t}\n\n\treturn n, nil", New: "\tif err := checkRows(n); err != nil {\n\t\treturn 0, errors.Wrap(err, \"size\")\n\t}\n\n\treturn n, nil", Rule: "C01.strlen", Construct: "StrLen"},
		Mutant{Name: "block-rows-under-column-limit-c01", File: "proto/block.go", Old: "\t\tif err := checkRows(v); err != nil {\n\t\t\treturn errors.Wrap(err, \"rows count\")\n\t\t}", New: "\t\tif v > maxColumnsInBlock || v < 0 {\n\t\t\treturn errors.Errorf(\"invalid rows number %d\", v)\n\t\t}", Rule: "C01.limits", Construct: "Block.Rows"},
	)
	add("C02",
		Mutant{Name: "uuid-swap-from-advanced-cursor", File: "proto/col_uuid_safe.go", Old: "\tbswap.Swap64(b.Buf[start:]) // BE <-> LE", New: "\tbswap.Swap64(b.Buf[offset:]) // BE <-> LE", Rule: "C02.swap", Construct: "ColUUID"},
		Mutant{Name: "lowcard-32bit-keys-from-16bit-column", File: "proto/col_low_cardinality.go", Old: "\tcase KeyUInt32:\n\t\tc.keys32.EncodeColumn(b)", New: "\tcase KeyUInt32:\n\t\tc.keys16.EncodeColumn(b)", Rule: "C02.keywidth", Construct: "EncodeColumn/case32"},
	)
	add("C03",
		Mutant{Name: "block-rows-under-column-limit-c03", File: "proto/block.go", Old: "\t\tif err := checkRows(v); err != nil {\n\t\t\treturn errors.Wrap(err, \"rows count\")\n\t\t}", New: "\t\tif v > maxColumnsInBlock || v < 0 {\n\t\t\treturn errors.Errorf(\"invalid rows number %d\", v)\n\t\t}", Rule: "C03.limits", Construct: "Block.Rows"},
	)
	add("C05",
		Mutant{Name: "compress-empty-payload-keeps-previous-frame", File: "compress/writer.go", Old: "func (w *Writer) Compress(buf []byte) error {\n", New: "func (w *Writer) Compress(buf []byte) error {\n\tif len(buf) == 0 {\n\t\treturn nil\n\t}\n", Rule: "C05.fresh-output", Construct: "Compress"},
		Mutant{Name: "expansion-ratio-guard-for-all-codecs", File: "compress/reader.go", Old: "\tr.data = append(r.data[:0], make([]byte, dataSize)...)", New: "\tif dataSize > rawSize*255 {\n\t\treturn errors.Errorf(\"data size %d is not reachable from %d bytes\", dataSize, rawSize)\n\t}\n\tr.data = append(r.data[:0], make([]byte, dataSize)...)", Rule: "C05.fields-independent", Construct: "readBlock"},
	)
	add("C06",
		Mutant{Name: "none-frame-served-from-raw-by-data-size", File: "compress/reader.go", Old: "\t\tcopy(r.data, r.raw[headerSize:])", New: "\t\tr.data = r.raw[headerSize : headerSize+dataSize]", Rule: "C06.wire-slice", Construct: "readBlock"},
	)
	add("C07",
		Mutant{Name: "auto-infers-json-through-state-dropping-helpers", File: "proto/col_auto.go", Old: "\tcase ColumnTypeBool:\n\t\tc.Data = new(ColBool)", New: "\tcase ColumnTypeJSON:\n\t\tc.Data = new(ColJSONStr)\n\tcase ColumnTypeBool:\n\t\tc.Data = new(ColBool)", Rule: "C07.auto-stateful", Construct: "ColJSONStr"},
	)
	add("C09",
		Mutant{Name: "lowcard-32bit-keys-written-from-16bit-column", File: "proto/col_low_cardinality.go", Old: "\tcase KeyUInt32:\n\t\tc.keys32.WriteColumn(w)", New: "\tcase KeyUInt32:\n\t\tc.keys16.WriteColumn(w)", Rule: "C09.keywidth", Construct: "WriteColumn/case32"},
	)
	add("C11",
		Mutant{Name: "max-conns-raised-to-min-conns", File: "chpool/pool.go", Old: "\tif o.HealthCheckPeriod == 0 {", New: "\tif o.MaxConns < o.MinConns {\n\t\to.MaxConns = o.MinConns\n\t}\n\tif o.HealthCheckPeriod == 0 {", Rule: "C11.limits", Construct: "MaxConns"},
	)
	add("C12",
		Mutant{Name: "column-info-handed-over-as-shared-slice", File: "query.go", Old: "\t\t\tinfo := append(proto.ColInfoInput(nil), result...)\n", New: "\t\t\tinfo := result\n", Rule: "C12.handoff", Construct: "handoff"},
	)
	add("C14",
		Mutant{Name: "vectored-block-with-advertised-revision", File: "query.go", Old: "b.WriteBlock(c.writer, c.protocolVersion, input)", New: "b.WriteBlock(c.writer, c.info.ProtocolVersion, input)", Rule: "C14.version", Construct: "encodeBlock"},
	)
	add("C16",
		Mutant{Name: "downcast-decimal128-up-to-39", File: "proto/column.go", Old: "\tcase prec < 39:", New: "\tcase prec < 40:", Rule: "C16.decimal", Construct: "decimal"},
	)
	add("C17",
		Mutant{Name: "client-data-decoded-into-a-copy", File: "proto/client_data.go", Old: "func (c *ClientData) DecodeAware(", New: "func (c ClientData) DecodeAware(", Rule: "C17.receiver", Construct: "ClientData"},
	)
	add("C19",
		Mutant{Name: "interval-scale-inferred-into-a-copy", File: "proto/col_interval.go", Old: "func (c *ColInterval) Infer(", New: "func (c ColInterval) Infer(", Rule: "C19.receiver", Construct: "ColInterval"},
	)
	add("C20",
		Mutant{Name: "datetime-row-zero-is-no-value", File: "proto/col_datetime.go", Old: "\treturn c.Data[i].Time().In(c.loc())", New: "\tif c.Data[i] == 0 {\n\t\treturn time.Time{}\n\t}\n\treturn c.Data[i].Time().In(c.loc())", Rule: "C20.row-uniform", Construct: "ColDateTime.Row"},
		Mutant{Name: "datetime64-rounded-to-nearest-tick", File: "proto/datetime64.go", Old: "\tscale := p.Scale()\n\treturn DateTime64(t.Unix()", New: "\tscale := p.Scale()\n\tt = t.Round(p.Duration())\n\treturn DateTime64(t.Unix()", Rule: "C20.ticks-of-arg", Construct: "ToDateTime64"},
	)
}
