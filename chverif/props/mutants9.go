package props

// Mutants written in the shapes the refactoring round 7 introduced: the generalised recognisers must still
// tell a wrong constant from a different shape.

func init() {
	add := func(prop string, ms ...Mutant) { mutants[prop] = append(mutants[prop], ms...) }

	add("C20",
		Mutant{Name: "scale-countdown-one-too-many", File: "proto/datetime64.go", Old: "\tfor i := PrecisionNano; i > p; i-- {", New: "\tfor n := int(PrecisionNano) - int(p) + 1; n > 0; n-- {", Rule: "C20.scale", Construct: "Scale"},
		Mutant{Name: "scale-countup-inclusive", File: "proto/datetime64.go", Old: "\tfor i := PrecisionNano; i > p; i-- {", New: "\tfor i := p; i <= PrecisionNano; i++ {", Rule: "C20.scale", Construct: "Scale"},
	)
	add("C19",
		Mutant{Name: "decimal-ifchain-wrong-boundary", File: "proto/column.go", Old: "\tswitch {\n\tcase prec < 10:\n\t\treturn ColumnTypeDecimal32\n\tcase prec < 19:\n\t\treturn ColumnTypeDecimal64\n\tcase prec < 39:\n\t\treturn ColumnTypeDecimal128\n\tcase prec < 77:\n\t\treturn ColumnTypeDecimal256\n\tdefault:\n\t\treturn c\n\t}", New: "\tif prec < 10 {\n\t\treturn ColumnTypeDecimal32\n\t}\n\tif prec <= 19 {\n\t\treturn ColumnTypeDecimal64\n\t}\n\tif prec < 39 {\n\t\treturn ColumnTypeDecimal128\n\t}\n\tif prec < 77 {\n\t\treturn ColumnTypeDecimal256\n\t}\n\treturn c", Rule: "C19.decimal", Construct: "decimal"},
	)
	add("C13",
		Mutant{Name: "temp-table-gate-helper-fed-library-revision", File: "query.go", Old: "func (c *Client) decodeBlock(ctx context.Context, opt decodeOptions) error {\n\tif opt.ProtocolVersion == 0 {\n\t\topt.ProtocolVersion = c.protocolVersion\n\t}\n\tif proto.FeatureTempTables.In(opt.ProtocolVersion) {", New: "func (c *Client) hasTempTables(revision int) bool {\n\treturn proto.FeatureTempTables.In(revision)\n}\n\nfunc (c *Client) decodeBlock(ctx context.Context, opt decodeOptions) error {\n\tif opt.ProtocolVersion == 0 {\n\t\topt.ProtocolVersion = c.protocolVersion\n\t}\n\tif c.hasTempTables(proto.Version) {", Rule: "C13.version", Construct: "hasTempTables"},
	)
	add("C15",
		Mutant{Name: "uuid-view-helper-half-width", File: "proto/col_uuid_unsafe.go", Old: "\ts := *(*slice)(unsafe.Pointer(c)) // #nosec: G103 // memory layout matches\n\tconst size = 16\n", New: "\ts := *(*slice)(unsafe.Pointer(c)) // #nosec: G103 // memory layout matches\n\tconst size = 8\n", Rule: "C15.width", Construct: "ColUUID"},
	)
}
