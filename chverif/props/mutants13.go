package props

// Mutants for the rules added (or newly shared) in seeding round 13.

func init() {
	add := func(prop string, ms ...Mutant) { mutants[prop] = append(mutants[prop], ms...) }
	add("C01",
		Mutant{Name: "point-reset-forgets-y", File: "proto/col_point.go", Old: "\tc.X.Reset()\n\tc.Y.Reset()\n", New: "\tc.X.Reset()\n\tc.X.Reset()\n", Rule: "C01.reset-clears", Construct: "ColPoint"},
	)
	add("C02",
		Mutant{Name: "quota-key-falls-back-to-connection-key", File: "query.go", Old: "\tc.encode(proto.Query{\n\t\tID:          q.QueryID,", New: "\tif !proto.FeatureQuotaKey.In(c.protocolVersion) {\n\t\tq.QuotaKey = c.quotaKey\n\t}\n\tc.encode(proto.Query{\n\t\tID:          q.QueryID,", Rule: "C02.wiring", Construct: "QuotaKey"},
	)
	add("C03",
		Mutant{Name: "lowcardinality-reset-keeps-decoded-keys", File: "proto/col_low_cardinality.go", Old: "\tc.keys = c.keys[:0]\n\n\tc.keys8 = c.keys8[:0]", New: "\tc.keys8 = c.keys8[:0]", Rule: "C03.reset-clears", Construct: "ColLowCardinality"},
		Mutant{Name: "datetime64-keeps-preset-precision", File: "proto/col_datetime64.go", Old: "\tc.Precision = p\n\tc.PrecisionSet = true\n", New: "\tif !c.PrecisionSet {\n\t\tc.Precision = p\n\t\tc.PrecisionSet = true\n\t}\n", Nth: 2, Rule: "C03.adopt", Construct: "ColDateTime64"},
	)
	add("C05",
		Mutant{Name: "data-buffer-sized-before-raw-size-is-checked", File: "compress/reader.go", Old: "\tif rawSize < 0 || rawSize > maxBlockSize {\n\t\treturn errors.Errorf(\"raw size should be %d < %d < %d\", 0, rawSize, maxBlockSize)\n\t}\n\n\tr.data = append(r.data[:0], make([]byte, dataSize)...)\n", New: "\tr.data = append(r.data[:0], make([]byte, dataSize)...)\n\tif rawSize < 0 || rawSize > maxBlockSize {\n\t\treturn errors.Errorf(\"raw size should be %d < %d < %d\", 0, rawSize, maxBlockSize)\n\t}\n\n", Rule: "C05.validate-first", Construct: "readBlock"},
	)
	add("C06",
		Mutant{Name: "lowcardinality-reset-keeps-dictionary-map", File: "proto/col_low_cardinality.go", Old: "\tfor k := range c.kv {\n\t\tdelete(c.kv, k)\n\t}\n\tc.keys = c.keys[:0]\n", New: "\tc.keys = c.keys[:0]\n", Rule: "C06.reset-clears", Construct: "ColLowCardinality"},
	)
	add("C07",
		Mutant{Name: "conflicts-compares-element-with-whole-type", File: "proto/column.go", Old: "\t\treturn c.Elem().Conflicts(b.Elem())", New: "\t\treturn c.Elem().Conflicts(b)", Rule: "C07.conflicts", Construct: "Conflicts"},
	)
	add("C09",
		Mutant{Name: "receive-loop-fails-on-idle-timeout-under-deadline", File: "query.go", Old: "\t\t\t\tif errors.As(err, &opErr) && opErr.Timeout() {\n\t\t\t\t\tcontinue\n\t\t\t\t}", New: "\t\t\t\tif errors.As(err, &opErr) && opErr.Timeout() {\n\t\t\t\t\tif _, ok := ctx.Deadline(); ok {\n\t\t\t\t\t\treturn errors.Wrap(context.DeadlineExceeded, \"packet\")\n\t\t\t\t\t}\n\t\t\t\t\tcontinue\n\t\t\t\t}", Rule: "C09.retry", Construct: "packet"},
	)
	add("C10",
		Mutant{Name: "dial-without-context", File: "client.go", Old: "\tconn, err := opt.Dialer.DialContext(ctx, \"tcp\", opt.Address)", New: "\tconn, err := net.Dial(\"tcp\", opt.Address)", Rule: "C10.dial-ctx", Construct: "Dial"},
	)
	add("C11",
		Mutant{Name: "health-check-compares-idle-time-with-lifetime", File: "chpool/pool.go", Old: "\t\tif now.Sub(res.CreationTime()) > p.options.MaxConnLifetime {", New: "\t\tif res.IdleDuration() > p.options.MaxConnLifetime && !now.IsZero() {", Rule: "C11.clock-kind", Construct: "MaxConnLifetime"},
		Mutant{Name: "health-check-period-from-construction-deadline", File: "chpool/pool.go", Old: "\tp := &Pool{\n\t\toptions:   opt,\n\t\tcloseChan: make(chan struct{}),\n\t}\n", New: "\tp := &Pool{\n\t\toptions:   opt,\n\t\tcloseChan: make(chan struct{}),\n\t}\n\tif d, ok := ctx.Deadline(); ok {\n\t\tp.options.HealthCheckPeriod = time.Until(d)\n\t}\n", Rule: "C11.pool-ctx", Construct: "newPool"},
	)
	add("C12",
		Mutant{Name: "watchdog-reads-negotiated-revision", File: "handshake.go", Old: "\t\tcase <-ctx.Done():\n", New: "\t\tcase <-ctx.Done():\n\t\t\tc.lg.Debug(\"Handshake aborted\", zap.Int(\"protocol_version\", c.protocolVersion))\n", Rule: "C12.handshake-owner", Construct: "protocolVersion"},
	)
	add("C13",
		Mutant{Name: "protocol-strings-read-with-one-read", File: "proto/reader.go", Old: "\tif _, err := io.ReadFull(r.data, r.b.Buf); err != nil {", New: "\tif m, err := r.Read(r.b.Buf); err != nil || m != n {\n\t\tif err == nil {\n\t\t\terr = io.ErrUnexpectedEOF\n\t\t}", Rule: "C13.readfull", Construct: "StrRaw"},
	)
	add("C16",
		Mutant{Name: "input-reset-stops-at-constant-column", File: "proto/block.go", Old: "\t\tif col, ok := c.Data.(Resettable); ok {\n\t\t\tcol.Reset()\n\t\t}", New: "\t\tcol, ok := c.Data.(Resettable)\n\t\tif !ok {\n\t\t\treturn\n\t\t}\n\t\tcol.Reset()", Rule: "C16.all-columns", Construct: "Input"},
	)
	add("C17",
		Mutant{Name: "tracestate-rebuilt-member-by-member", File: "proto/client_info.go", Old: "\t\t\t\tstate, err := trace.ParseTraceState(v)", New: "\t\t\t\tstate, err := trace.ParseTraceState(v)\n\t\t\t\tif err == nil && state.Len() > 1 {\n\t\t\t\t\tstate, err = state.Insert(\"ch\", \"1\")\n\t\t\t\t}", Rule: "C17.tracestate", Construct: "Insert"},
	)
	add("C14",
		Mutant{Name: "chainwrite-records-before-cutting", File: "proto/writer.go", Old: "\tw.cutBuffer()\n\tw.vec = append(w.vec, data)", New: "\tw.vec = append(w.vec, data)\n\tw.cutBuffer()", Rule: "C14.cut-first", Construct: "ChainWrite"},
		Mutant{Name: "raw-lowcardinality-vectored-flags-without-key-width", File: "proto/col_low_cardinality_raw.go", Old: "\t\tmeta := cardinalityUpdateAll | int64(c.Key)\n\t\tb.PutInt64(meta)", New: "\t\tmeta := int64(cardinalityUpdateAll)\n\t\tb.PutInt64(meta)", Rule: "C14.same-args", Construct: "ColLowCardinalityRaw"},
	)
	add("C18",
		Mutant{Name: "auto-result-forgets-targets-on-count-change", File: "proto/results.go", Old: "func (s autoResults) DecodeResult(r *Reader, version int, b Block) error {\n", New: "func (s autoResults) DecodeResult(r *Reader, version int, b Block) error {\n\tif len(*s.results) != b.Columns {\n\t\t*s.results = (*s.results)[:0]\n\t}\n", Rule: "C18.targets-kept", Construct: "autoResults"},
		Mutant{Name: "elem-ends-at-first-closing-parenthesis", File: "proto/column.go", Old: "strings.LastIndexByte(v, ')')", New: "strings.IndexByte(v, ')')", Nth: 2, Rule: "C18.elem-last", Construct: "Elem"},
	)
	add("C20",
		Mutant{Name: "datetime64-append-reinterprets-wall-clock", File: "proto/col_datetime64.go", Old: "\tc.AppendRaw(ToDateTime64(v, c.Precision))", New: "\tif c.Location != nil {\n\t\tv = time.Date(v.Year(), v.Month(), v.Day(), v.Hour(), v.Minute(), v.Second(), v.Nanosecond(), c.Location)\n\t}\n\tc.AppendRaw(ToDateTime64(v, c.Precision))", Rule: "C20.instant", Construct: "ColDateTime64.Append"},
	)
	add("C19",
		Mutant{Name: "datetime64-precision-sign-read-before-length-test", File: "proto/col_datetime64.go", Old: "\tn, err := strconv.ParseUint(pStr, 10, 8)", New: "\tif pStr[0] == '+' {\n\t\tpStr = pStr[1:]\n\t}\n\tn, err := strconv.ParseUint(pStr, 10, 8)", Rule: "C19.index-guard", Construct: "ColDateTime64"},
		Mutant{Name: "enum-accepts-its-underlying-integer-unchanged", File: "proto/col_enum.go", Old: "\tif !strings.HasPrefix(t.Base().String(), \"Enum\") {", New: "\tif e.base == ColumnTypeEnum8 && t == ColumnTypeInt8 {\n\t\treturn nil\n\t}\n\tif !strings.HasPrefix(t.Base().String(), \"Enum\") {", Rule: "C19.adopt", Construct: "ColEnum"},
	)
}
