package props

import (
	"go/constant"
	"go/token"
	"go/types"
	"sort"
	"strings"

	"golang.org/x/tools/go/ssa"

	"chverif/core"
)

func init() { register("C13", runC13) }

func isFeatureIn(f *types.Func) bool { return core.IsMethod(f, core.PkgProto, "Feature", "In") }

// featureGate: cond is Feature.In(K, v); returns K and v.
func featureGate(cond ssa.Value) (k int64, ver ssa.Value, ok bool) {
	cl, isCall := core.CallTo(cond, isFeatureIn)
	if !isCall || len(cl.Call.Args) != 2 {
		return 0, nil, false
	}
	k, ok = core.ConstInt(cl.Call.Args[0])
	return k, cl.Call.Args[1], ok
}

// ruleVersionArgs (C02.version / C13.version): every revision argument in
// package ch is the negotiated revision.
func ruleVersionArgs(c *Ctx, p *core.Program, rule string) {
	c.R.Rule(rule, "provenance: in package ch every argument passed for a protocol-revision parameter (EncodeAware / DecodeAware / EncodeBlock / WriteBlock / DecodeBlock / EncodeStart `version`, Feature.In) is a load of Client.protocolVersion (the negotiated revision; decodeOptions.ProtocolVersion defaults to it), never the library constant or the announced revision; the mock Server uses its own field")
	cfg := p.Cfg.Name
	n := 0
	for _, fn := range p.Funcs() {
		if fn.Pkg == nil || fn.Pkg.Pkg.Path() != core.PkgCh {
			continue
		}
		if isServerSide(fn) {
			continue
		}
		for _, call := range core.Calls(fn) {
			f := core.CalleeFunc(call)
			if f == nil || f.Pkg() == nil || f.Pkg().Path() != core.PkgProto {
				continue
			}
			sig := f.Type().(*types.Signature)
			args := call.Common().Args
			off := 0
			if !call.Common().IsInvoke() && sig.Recv() != nil {
				off = 1
			}
			for i := 0; i < sig.Params().Len(); i++ {
				pn := sig.Params().At(i).Name()
				if !(pn == "version" || (isFeatureIn(f) && i == 0)) {
					continue
				}
				if off+i >= len(args) {
					continue
				}
				n++
				a := args[off+i]
				o := core.FieldOrigin(a, 0)
				key := core.CallKey(fn, call)
				if pr, isParam := stripConv(a).(*ssa.Parameter); isParam && o != "Client.protocolVersion" && o != "decodeOptions.ProtocolVersion" {
					// a helper of package ch that is handed the revision: judged by what its callers hand it
					if from, ok := paramRevisionOrigins(p, fn, pr, 0); ok {
						c.R.Ok(rule, key, cfg, p.Pos(call.Pos()), "parameter "+pr.Name()+" of "+fn.Name()+": every caller passes "+from)
						continue
					}
				}
				switch o {
				case "Client.protocolVersion":
					c.R.Ok(rule, key, cfg, p.Pos(call.Pos()), "negotiated revision")
				case "decodeOptions.ProtocolVersion":
					c.R.Ok(rule, key, cfg, p.Pos(call.Pos()), "decodeOptions.ProtocolVersion (defaults to the negotiated revision)")
				default:
					c.R.Bad(rule, key, cfg, p.Pos(call.Pos()), sprintf("revision argument comes from %q, not from the negotiated Client.protocolVersion", orDash(o, a)))
				}
			}
		}
	}
	c.R.Count("revision arguments in package ch", n)
	c.R.Floor(rule, cfg, n, 9)
	ruleVersionPassThrough(c, p, rule+"-through")
	// decodeOptions.ProtocolVersion default
	db := p.Method(core.PkgCh, "Client", "decodeBlock")
	if db != nil {
		found := false
		for _, b := range db.Blocks {
			for _, in := range b.Instrs {
				if s, ok := in.(*ssa.Store); ok {
					if fa, ok := s.Addr.(*ssa.FieldAddr); ok && core.FieldOrigin(s.Val, 0) == "Client.protocolVersion" {
						if st, ok := fa.X.Type().Underlying().(*types.Pointer); ok && core.IsNamed(st.Elem(), core.PkgCh, "decodeOptions") {
							found = true
						}
					}
				}
			}
		}
		// callers never set it to anything
		set := false
		for _, fn := range p.Funcs() {
			if fn == db || fn.Pkg == nil || fn.Pkg.Pkg.Path() != core.PkgCh {
				continue
			}
			for _, b := range fn.Blocks {
				for _, in := range b.Instrs {
					if fa, ok := in.(*ssa.FieldAddr); ok {
						if st, ok := fa.X.Type().Underlying().(*types.Pointer); ok && core.IsNamed(st.Elem(), core.PkgCh, "decodeOptions") {
							if core.NamedOf(st.Elem()).Underlying().(*types.Struct).Field(fa.Field).Name() == "ProtocolVersion" {
								set = true
							}
						}
					}
				}
			}
		}
		if found && !set {
			c.R.Ok(rule, "decodeOptions.ProtocolVersion", cfg, p.Pos(db.Pos()), "only ever defaulted from Client.protocolVersion")
		} else {
			c.R.Bad(rule, "decodeOptions.ProtocolVersion", cfg, p.Pos(db.Pos()), sprintf("default from negotiated revision: %v; overridden by a caller: %v", found, set))
		}
	}
}

// paramRevisionOrigins: every static caller (in package ch) of fn passes for parameter pr a load of
// Client.protocolVersion / decodeOptions.ProtocolVersion, or its own parameter that satisfies the same.
func paramRevisionOrigins(p *core.Program, fn *ssa.Function, pr *ssa.Parameter, depth int) (string, bool) {
	if depth > 2 {
		return "", false
	}
	idx := -1
	for i, q := range fn.Params {
		if q == pr {
			idx = i
		}
	}
	if idx < 0 {
		return "", false
	}
	if fn.Object() != nil && fn.Object().Exported() {
		return "", false // callable from outside with any value
	}
	seen := map[string]bool{}
	callers := 0
	for _, g := range p.Funcs() {
		if g.Pkg == nil || g.Pkg.Pkg.Path() != core.PkgCh {
			continue
		}
		for _, b := range g.Blocks {
			for _, in := range b.Instrs {
				// the helper used as a value escapes the argument check
				if mc, ok := in.(*ssa.MakeClosure); ok && mc.Fn == ssa.Value(fn) {
					return "", false
				}
			}
		}
		for _, call := range core.Calls(g) {
			if core.StaticFn(call) != fn {
				continue
			}
			args := call.Common().Args
			if idx >= len(args) {
				return "", false
			}
			callers++
			a := args[idx]
			o := core.FieldOrigin(a, 0)
			switch o {
			case "Client.protocolVersion", "decodeOptions.ProtocolVersion":
				seen[o] = true
				continue
			}
			if q, ok := stripConv(a).(*ssa.Parameter); ok {
				if from, ok := paramRevisionOrigins(p, g, q, depth+1); ok {
					seen[from] = true
					continue
				}
			}
			return "", false
		}
	}
	if callers == 0 {
		return "", false
	}
	var names []string
	for k := range seen {
		names = append(names, k)
	}
	sort.Strings(names)
	return strings.Join(names, " / "), true
}

// ruleVersionPassThrough: inside package proto a codec hands the revision it was given on unchanged.
func ruleVersionPassThrough(c *Ctx, p *core.Program, rule string) {
	c.R.Rule(rule, "pass-through: a function of package proto that takes a protocol revision (`version` parameter) passes that very parameter wherever it calls another proto function taking a revision or evaluates a Feature gate - never the library constant Version or another value: a nested encoder fed the library's own revision writes fields (custom-serialization flag, ...) that a peer negotiated down to an older revision does not expect")
	cfg := p.Cfg.Name
	n := 0
	verParam := func(fn *ssa.Function) *ssa.Parameter {
		for _, pr := range fn.Params {
			if pr.Name() == "version" || pr.Name() == "revision" {
				if b, ok := pr.Type().Underlying().(*types.Basic); ok && b.Info()&types.IsInteger != 0 {
					return pr
				}
			}
		}
		return nil
	}
	for _, fn := range p.Funcs() {
		if fn.Pkg == nil || fn.Pkg.Pkg.Path() != core.PkgProto || fn.Blocks == nil {
			continue
		}
		// closures use the enclosing function's parameter
		host := fn
		for host.Parent() != nil {
			host = host.Parent()
		}
		vp := verParam(host)
		if vp == nil {
			continue
		}
		isOwn := func(a ssa.Value) bool {
			a = stripConv(a)
			if a == ssa.Value(vp) {
				return true
			}
			// captured by a closure
			if fv, ok := a.(*ssa.FreeVar); ok && fv.Name() == vp.Name() {
				return true
			}
			if u, ok := a.(*ssa.UnOp); ok && u.Op == token.MUL {
				if fv, ok := u.X.(*ssa.FreeVar); ok && fv.Name() == vp.Name() {
					return true
				}
				if al, ok := u.X.(*ssa.Alloc); ok {
					// the parameter spilled to a cell (captured): every store to the cell is the parameter
					okAll, any := true, false
					for _, r := range *al.Referrers() {
						if st, ok := r.(*ssa.Store); ok && st.Addr == al {
							any = true
							if stripConv(st.Val) != ssa.Value(vp) {
								okAll = false
							}
						}
					}
					return any && okAll
				}
			}
			return false
		}
		for _, call := range core.Calls(fn) {
			f := core.CalleeFunc(call)
			if f == nil || f.Pkg() == nil || f.Pkg().Path() != core.PkgProto {
				continue
			}
			sig := f.Type().(*types.Signature)
			args := call.Common().Args
			off := 0
			if !call.Common().IsInvoke() && sig.Recv() != nil {
				off = 1
			}
			for i := 0; i < sig.Params().Len(); i++ {
				pn := sig.Params().At(i).Name()
				if !(pn == "version" || pn == "revision" || (isFeatureIn(f) && i == 0)) {
					continue
				}
				if off+i >= len(args) {
					continue
				}
				n++
				key := core.CallKey(fn, call)
				if isOwn(args[off+i]) {
					c.R.Ok(rule, key, cfg, p.Pos(call.Pos()), "own revision parameter passed on")
				} else {
					c.R.Bad(rule, key, cfg, p.Pos(call.Pos()), sprintf("%s is given a revision (%s) and calls %s with %s instead: the nested codec runs under another revision than its caller", core.FuncName(fn), vp.Name(), f.Name(), args[off+i].String()))
				}
			}
		}
	}
	c.R.Count("revision pass-through sites in package proto", n)
	c.R.Floor(rule, cfg, n, 40)
}

// helloReader: the function that reads the server's answer to the hello - the handshake goroutine
// itself or the client method it calls that reads the packet code.
func helloReader(hg *ssa.Function) *ssa.Function {
	if len(core.FindCalls(hg, isClientMethod("packet"))) > 0 {
		return hg
	}
	for _, call := range core.Calls(hg) {
		if sf := core.StaticFn(call); sf != nil && sf.Blocks != nil && pkgOf(sf) != nil && pkgOf(sf).Path() == core.PkgCh && len(core.FindCalls(sf, isClientMethod("packet"))) > 0 {
			return sf
		}
	}
	return hg
}

func orDash(o string, v ssa.Value) string {
	if o != "" {
		return o
	}
	return v.String()
}

func isServerSide(fn *ssa.Function) bool {
	for f := fn; f != nil; f = f.Parent() {
		if recv := f.Signature.Recv(); recv != nil {
			if n := core.NamedOf(recv.Type()); n != nil && (n.Obj().Name() == "Server" || n.Obj().Name() == "ServerConn") {
				return true
			}
		}
	}
	return false
}

// ruleNegotiatedMin (C13.min / C02.min): the negotiated revision is min(client, server).
func ruleNegotiatedMin(c *Ctx, p *core.Program, rule string, hg *ssa.Function) (*ssa.If, ssa.Instruction) {
	c.R.Rule(rule, "the only store to Client.protocolVersion after construction is of the decoded server revision, control-dependent on `protocolVersion > server.Revision` over loads of those very fields (or the min builtin); the constructor initialises it from Options.ProtocolVersion")
	var downgradeIf *ssa.If
	cfg := p.Cfg.Name
	nStores := 0
	for _, fn := range p.Funcs() {
		if fn.Pkg == nil || fn.Pkg.Pkg.Path() != core.PkgCh {
			continue
		}
		for _, b := range fn.Blocks {
			for _, in := range b.Instrs {
				s, ok := in.(*ssa.Store)
				if !ok {
					continue
				}
				fa, ok := s.Addr.(*ssa.FieldAddr)
				if !ok {
					continue
				}
				if f, ok := clientFieldAddr(fa); !ok || f != "protocolVersion" {
					continue
				}
				nStores++
				key := core.FuncName(fn) + "/store-protocolVersion"
				o := core.FieldOrigin(s.Val, 0)
				switch {
				case o == "Options.ProtocolVersion":
					c.R.Ok(rule, key, cfg, p.Pos(s.Pos()), "constructor: from Options.ProtocolVersion")
				case o == "ServerHello.Revision":
					edges := core.PredEdges(fn, true, func(cond ssa.Value) (bool, bool) {
						bo, ok := cond.(*ssa.BinOp)
						if !ok {
							return false, false
						}
						l, r := core.FieldOrigin(bo.X, 0), core.FieldOrigin(bo.Y, 0)
						switch {
						case bo.Op == token.GTR && l == "Client.protocolVersion" && r == "ServerHello.Revision":
							return true, true
						case bo.Op == token.LSS && l == "ServerHello.Revision" && r == "Client.protocolVersion":
							return true, true
						case bo.Op == token.LEQ && l == "Client.protocolVersion" && r == "ServerHello.Revision":
							return false, true
						case bo.Op == token.GEQ && l == "ServerHello.Revision" && r == "Client.protocolVersion":
							return false, true
						}
						return false, false
					})
					if len(edges) == 1 && core.OnlyViaEdges(fn, s, edges) {
						downgradeIf = edges[0].B.Instrs[len(edges[0].B.Instrs)-1].(*ssa.If)
						// and conversely: nothing else decides - once the comparison says the server is older, the store happens
						skip := core.ReachAvoiding(core.Point{B: edges[0].B.Succs[edges[0].Succ], I: -1}, core.IsExit, func(x ssa.Instruction) bool { return x == ssa.Instruction(s) }, nil)
						if len(skip) > 0 {
							c.R.Bad(rule, key, cfg, p.Pos(s.Pos()), "the downgrade depends on a further condition: with `protocolVersion > server.Revision` true the store can still be skipped, and the client then speaks a revision the server does not know", p.TrailString(skip[0])...)
						} else {
							c.R.Ok(rule, key, cfg, p.Pos(s.Pos()), "downgrade: stored iff protocolVersion > server.Revision")
						}
					} else {
						c.R.Bad(rule, key, cfg, p.Pos(s.Pos()), "the server revision is adopted under a condition other than `negotiated > server.Revision` (wrong operands or direction): a client forced below the server is moved up, or a newer client is not moved down")
					}
				case isMinOf(s.Val):
					c.R.Ok(rule, key, cfg, p.Pos(s.Pos()), "min(protocolVersion, server.Revision)")
				default:
					c.R.Bad(rule, key, cfg, p.Pos(s.Pos()), sprintf("protocolVersion is assigned from %q", orDash(o, s.Val)))
				}
			}
		}
	}
	if nStores < 2 {
		c.R.Unk(rule, "stores", cfg, "", sprintf("%d stores to Client.protocolVersion found, expected constructor + downgrade", nStores))
	}
	// the downgrade follows the decode of the server hello; the test may sit in the goroutine
	// itself or in a method it calls (then its call site stands for it)
	var downgradeSite ssa.Instruction
	if downgradeIf != nil {
		if downgradeIf.Parent() == hg {
			downgradeSite = downgradeIf
		} else {
			for _, call := range core.Calls(hg) {
				if sf := core.StaticFn(call); sf != nil && (sf == downgradeIf.Parent() || core.StaticReach(sf, 2)[downgradeIf.Parent()]) {
					downgradeSite = call.(ssa.Instruction)
				}
			}
		}
	}
	if downgradeIf != nil && downgradeSite == nil {
		c.R.Bad(rule, core.FuncName(hg)+"/order", cfg, p.Pos(downgradeIf.Pos()), "the downgrade test is not executed by the handshake goroutine")
	}
	if downgradeSite != nil {
		dec := core.FindCalls(hg, isClientMethod("decode"))
		// or a helper of the goroutine that reads the answer and decodes the hello
		for _, call := range core.Calls(hg) {
			if sf := core.StaticFn(call); sf != nil && sf.Blocks != nil && pkgOf(sf) != nil && pkgOf(sf).Path() == core.PkgCh && len(core.FindCalls(sf, isClientMethod("decode"))) > 0 && len(core.FindCalls(sf, isClientMethod("packet"))) > 0 {
				dec = append(dec, call)
			}
		}
		ok := false
		for _, d := range dec {
			if core.Dominates(d.(ssa.Instruction), downgradeSite) {
				ok = true
			}
		}
		if ok {
			c.R.Ok(rule, core.FuncName(hg)+"/order", cfg, p.Pos(downgradeIf.Pos()), "server hello is decoded before the comparison")
		} else {
			c.R.Bad(rule, core.FuncName(hg)+"/order", cfg, p.Pos(downgradeIf.Pos()), "the downgrade test is not dominated by the decode of the server hello")
		}
	}

	return downgradeIf, downgradeSite
}

func runC13(c *Ctx) {
	p := c.Prog(core.CfgDefault)
	if p == nil {
		return
	}
	cfg := p.Cfg.Name
	ruleOptionDefaults(c, p, "C13.defaults")
	ruleConnChannel(c, p, "C13.conn-channel")
	ruleCodeWidth(c, p, "C13.codewidth")
	ruleExceptionChain(c, p, "C13.exception-chain")
	ruleDeadlineDisarmed(c, p, "C13.disarm")
	ruleVarintFastPath(c, p, "C13.varint")
	ruleSettingsEnd(c, p, "C13.settings-end")
	ruleReadFull(c, p, "C13.readfull")
	ruleOpenCodes(c, p, "C13.open-codes")
	hs := p.Method(core.PkgCh, "Client", "handshake")
	if !c.must(p, "(*ch.Client).handshake", hs != nil) {
		return
	}
	// the handshake goroutine: the closure that decodes the server hello
	var hg *ssa.Function
	for _, a := range hs.AnonFuncs {
		if core.ReachesCallee(a, isClientMethod("packet"), 1) {
			hg = a
		}
	}
	if !c.must(p, "handshake goroutine (closure of handshake that calls packet())", hg != nil) {
		return
	}

	ruleWatchdogStandDown(c, p, "C13.watchdog", hs, hg)
	// ---- C13.min
	downgradeIf, downgradeSite := ruleNegotiatedMin(c, p, "C13.min", hg)
	ruleHelloAccepted(c, p, "C13.hello-accepted", hg)
	_ = downgradeIf
	rule := "C13.min"
	_ = rule

	ruleAddendum(c, p, "C13.addendum", hg, downgradeSite, false)

	// ---- C13.fail
	rule = "C13.fail"
	c.R.Rule(rule, "in the handshake goroutine the server hello is decoded only when the packet code equals ServerCodeHello; an Exception packet returns a chain-preserving wrapper of the decoded exception; any other code returns an error; Connect returns a nil client on every failure exit")
	func() {
		hello, _ := constOf(p, core.PkgProto, "ServerCodeHello")
		exc, _ := constOf(p, core.PkgProto, "ServerCodeException")
		// the function that reads the answer: the goroutine itself, or the helper it calls for that
		hr := helloReader(hg)
		if hr != hg {
			for _, call := range core.Calls(hg) {
				if core.StaticFn(call) == hr {
					checkErrCall(c, p, hg, call, core.CallKey(hg, call)+"/propagated", func(*ssa.Function, ssa.CallInstruction) bool { return false }, rule)
				}
			}
		}
		hg := hr
		dec := core.FindCalls(hg, isClientMethod("decode"))
		isCode := func(v ssa.Value) bool { return core.IsNamed(v.Type(), core.PkgProto, "ServerCode") }
		helloEdges := core.CondEdges(hg, true, func(cond ssa.Value) (bool, bool) {
			bo, ok := cond.(*ssa.BinOp)
			if !ok || !isCode(bo.X) {
				return false, false
			}
			v, okc := core.ConstInt(bo.Y)
			if !okc || v != hello {
				return false, false
			}
			switch bo.Op {
			case token.EQL:
				return true, true
			case token.NEQ:
				return false, true
			}
			return false, false
		})
		for _, d := range dec {
			k := core.CallKey(hg, d)
			if len(helloEdges) > 0 && core.OnlyViaEdges(hg, d.(ssa.Instruction), helloEdges) {
				c.R.Ok(rule, k, cfg, p.Pos(d.Pos()), "server hello decoded only under code == ServerCodeHello")
			} else {
				c.R.Bad(rule, k, cfg, p.Pos(d.Pos()), "the server hello is decoded without checking that the packet is a Hello")
			}
		}
		if len(dec) == 0 {
			c.R.Unk(rule, core.FuncName(hg), cfg, p.Pos(hg.Pos()), "no decode of the server hello")
		}
		// exception branch
		tbl := switchTable(hg, isCode)
		blk := tbl[exc]
		if blk == nil {
			c.R.Bad(rule, core.FuncName(hg)+"/exception", cfg, p.Pos(hg.Pos()), "no branch for ServerCodeException during handshake")
		} else {
			good := false
			for _, x := range hg.Blocks {
				if x != blk && !blk.Dominates(x) {
					continue
				}
				for _, in := range x.Instrs {
					ret, ok := in.(*ssa.Return)
					if !ok {
						continue
					}
					rv := core.ReturnErr(hg, ret)
					if chainKeeps(rv, func(v ssa.Value) bool {
						mi, ok := v.(*ssa.MakeInterface)
						if !ok {
							return false
						}
						e, ok := mi.X.(*ssa.Extract)
						if !ok || e.Index != 0 {
							return false
						}
						_, ok = core.CallTo(e.Tuple, isClientMethod("exception"))
						return ok
					}, 0) {
						good = true
					}
				}
			}
			if good {
				c.R.Ok(rule, core.FuncName(hg)+"/exception", cfg, p.Pos(blk.Instrs[0].Pos()), "returns Wrap(exception)")
			} else {
				c.R.Bad(rule, core.FuncName(hg)+"/exception", cfg, p.Pos(blk.Instrs[0].Pos()), "the handshake exception is not carried by the returned error")
			}
		}
		// Connect: nil client on failure
		cn := p.Func(core.PkgCh, "Connect")
		if c.must(p, "ch.Connect", cn != nil) {
			bad := false
			for _, b := range cn.Blocks {
				for _, in := range b.Instrs {
					ret, ok := in.(*ssa.Return)
					if !ok || len(ret.Results) != 2 || b.Comment == "recover" {
						continue
					}
					rv := core.ReturnErr(cn, ret)
					cl := core.ResolveCellLoad(ret.Results[0], ret)
					if rv != nil && !core.IsNilConst(rv) {
						if !core.IsNilConst(cl) {
							bad = true
							c.R.Bad(rule, "ch.Connect", cfg, p.Pos(ret.Pos()), "Connect returns a client together with an error")
						}
					}
				}
			}
			// the handshake error is honoured
			runErrDisc(c, p, []*ssa.Function{cn}, errDiscOpts{Rule: rule, Class: func(fn *ssa.Function, call ssa.CallInstruction) bool {
				f := core.CalleeFunc(call)
				return f != nil && core.IsMethod(f, core.PkgCh, "Client", "handshake")
			}})
			if !bad {
				c.R.Ok(rule, "ch.Connect", cfg, p.Pos(cn.Pos()), "failure exits return a nil client")
			}
		}
		// the error of the handshake goroutines (which wraps the server's exception) is
		// carried by every failure exit that follows it: handshake after Wait, Connect after handshake
		carries := func(fn *ssa.Function, call ssa.CallInstruction, key string) {
			ev := core.ErrValue(call)
			if ev == nil {
				c.R.Unk(rule, key, cfg, p.Pos(call.Pos()), "error result not found")
				return
			}
			al := core.Aliases(fn, ev)
			nonNil := func(b *ssa.BasicBlock, i int) bool {
				if ifi, ok := b.Instrs[len(b.Instrs)-1].(*ssa.If); ok {
					if ns, ok := core.NilTest(ifi, al); ok && ns == i {
						return false
					}
				}
				return true
			}
			hits := core.ReachAvoiding(core.PointOf(call.(ssa.Instruction)), func(in ssa.Instruction) bool {
				_, ok := in.(*ssa.Return)
				return ok && in.Block().Comment != "recover"
			}, nil, nonNil)
			bad, n := false, 0
			for _, h := range hits {
				ret := h.At.(*ssa.Return)
				rv := core.ReturnErr(fn, ret)
				if rv == nil || core.IsNilConst(rv) {
					continue
				}
				n++
				if !chainKeeps(rv, func(v ssa.Value) bool { return al[v] }, 0) {
					bad = true
					c.R.Bad(rule, key, cfg, p.Pos(ret.Pos()), "a failure exit that follows the failed handshake step returns an error chain that does not contain its error: a server exception (wrong password, ...) received during the handshake cannot be recovered with errors.As when e.g. the context ends at the same moment")
				}
			}
			if !bad {
				c.R.Ok(rule, key, cfg, p.Pos(call.Pos()), sprintf("%d failure exits keep the error in the chain", n))
			}
		}
		if hs := p.Method(core.PkgCh, "Client", "handshake"); hs != nil {
			for _, call := range core.Calls(hs) {
				if f := core.CalleeFunc(call); f != nil && f.Name() == "Wait" && f.Pkg() != nil && f.Pkg().Path() == "golang.org/x/sync/errgroup" {
					carries(hs, call, core.FuncName(hs)+"/carries")
				}
			}
		}
		if cn != nil {
			for _, call := range core.Calls(cn) {
				if f := core.CalleeFunc(call); f != nil && core.IsMethod(f, core.PkgCh, "Client", "handshake") {
					carries(cn, call, "ch.Connect/carries")
				}
			}
		}
	}()

	ruleThresholds(c, p, "C13.thresholds")
	ruleCustomFlag(c, p, "C13.custom")
	{
		c.R.Rule("C13.messages", "E2 containment and gate provenance (as C17.shape / C17.gates) for every protocol message at every revision sample: each packet is encoded and decoded with exactly the fields the negotiated revision defines")
		pairs := messagePairs(p)
		ruleShapePairs(c, p, "C13.messages", pairs, false)
		ruleGates(c, p, pairs, "C13.messages")
	}

	// ---- C13.params
	rule = "C13.params"
	c.R.Rule(rule, "query parameters exist from revision 54459 on and the Query encoder omits them below it, so Do refuses a query that carries parameters when the negotiated revision lacks them: the refusal (a test involving Query.Parameters and Feature.In(c.protocolVersion) whose failing edge returns an error) dominates the start of every goroutine of Do - it does not depend on any other option")
	func() {
		do := p.Method(core.PkgCh, "Client", "Do")
		if !c.must(p, "(*ch.Client).Do", do != nil) {
			return
		}
		// the In call on the feature constant FeatureParameters
		fp, okc := constOf(p, core.PkgProto, "FeatureParameters")
		var inBlk *ssa.BasicBlock
		var inPos ssa.Instruction
		for f := range core.StaticReach(do, 1) {
			if f != do {
				continue
			}
			for _, call := range core.FindCalls(f, isFeatureIn) {
				args := call.Common().Args
				if k, ok := core.ConstInt(args[0]); ok && okc && k == fp {
					inBlk, inPos = call.Block(), call.(ssa.Instruction)
				}
			}
		}
		if inBlk == nil {
			// the test may live in a helper called from Do
			for _, call := range core.Calls(do) {
				sf := core.StaticFn(call)
				if sf == nil || pkgOf(sf) == nil || pkgOf(sf).Path() != core.PkgCh {
					continue
				}
				for g := range core.StaticReach(sf, 2) {
					for _, ic := range core.FindCalls(g, isFeatureIn) {
						if k, ok := core.ConstInt(ic.Common().Args[0]); ok && okc && k == fp && inBlk == nil {
							if _, isGo := call.(*ssa.Go); !isGo {
								inBlk, inPos = call.Block(), call.(ssa.Instruction)
							}
						}
					}
				}
			}
		}
		if inBlk == nil {
			c.R.Bad(rule, core.FuncName(do), cfg, p.Pos(do.Pos()), "Do never tests FeatureParameters against the negotiated revision: parameters are silently dropped on older servers")
			return
		}
		// head of the guard: the outermost dominating test that looks at Query.Parameters
		head := inBlk
		for b := inBlk.Idom(); b != nil; b = b.Idom() {
			ifi, ok := b.Instrs[len(b.Instrs)-1].(*ssa.If)
			if !ok {
				break
			}
			if core.DependsOn(ifi.Cond, func(x ssa.Value) bool { return strings.HasSuffix(core.FieldOrigin(x, 0), "Query.Parameters") }, true) && (b.Succs[0] == head || b.Succs[1] == head) {
				head = b
				continue
			}
			break
		}
		bad := false
		n := 0
		for _, b := range do.Blocks {
			for _, in := range b.Instrs {
				isStart := false
				if _, ok := in.(*ssa.Go); ok {
					isStart = true
				}
				if call, ok := in.(ssa.CallInstruction); ok {
					if f := core.CalleeFunc(call); f != nil && f.Name() == "Go" && f.Pkg() != nil && f.Pkg().Path() == "golang.org/x/sync/errgroup" {
						isStart = true
					}
				}
				if !isStart {
					continue
				}
				n++
				if !head.Dominates(b) {
					bad = true
					c.R.Bad(rule, core.FuncName(do), cfg, p.Pos(inPos.Pos()), sprintf("the parameters/revision refusal does not dominate the goroutine started at %s: it runs only under another condition, otherwise the query is sent with its parameters dropped", p.Pos(in.Pos())))
				}
			}
		}
		if n == 0 {
			c.R.Unk(rule, core.FuncName(do), cfg, p.Pos(do.Pos()), "no goroutine start found in Do")
		} else if !bad {
			c.R.Ok(rule, core.FuncName(do), cfg, p.Pos(inPos.Pos()), sprintf("refusal dominates all %d goroutine starts", n))
		}
	}()

	ruleDialClose(c, p, "C13.dialclose")

	// ---- C13.timeout
	rule = "C13.timeout"
	c.R.Rule(rule, "the wait for the server hello is bounded by the handshake context only: either no function reachable from handshake loads Client.readTimeout, or the per-packet read timeout is installed (stored from Options.ReadTimeout) only after handshake has returned")
	func() {
		reach := core.StaticReach(hs, 6)
		var loader *ssa.Function
		var at ssa.Instruction
		for fn := range reach {
			for _, b := range fn.Blocks {
				for _, in := range b.Instrs {
					if f, ok := clientFieldAddr(in); ok && f == "readTimeout" {
						if loader == nil || fn.Pos() < loader.Pos() {
							loader, at = fn, in
						}
					}
				}
			}
		}
		if loader == nil {
			c.R.Ok(rule, core.FuncName(hs), cfg, p.Pos(hs.Pos()), "handshake never consults Client.readTimeout")
			return
		}
		// accepted alternative: readTimeout is still zero during handshake
		cn := p.Func(core.PkgCh, "Connect")
		late := false
		if cn != nil {
			hcalls := core.FindCalls(cn, isClientMethod("handshake"))
			// or a helper of Client that runs the handshake (handshake under its timeout)
			for _, call := range core.Calls(cn) {
				if g := core.StaticFn(call); g != nil && g.Blocks != nil && pkgOf(g) != nil && pkgOf(g).Path() == core.PkgCh && g.Name() != "handshake" && core.ReachesCallee(g, isClientMethod("handshake"), 1) {
					hcalls = append(hcalls, call)
				}
			}
			early := false
			n := 0
			for _, b := range cn.Blocks {
				for _, in := range b.Instrs {
					s, ok := in.(*ssa.Store)
					if !ok {
						continue
					}
					fa, ok := s.Addr.(*ssa.FieldAddr)
					if !ok {
						continue
					}
					if f, ok := clientFieldAddr(fa); !ok || f != "readTimeout" {
						continue
					}
					n++
					for _, h := range hcalls {
						if !core.Dominates(h.(ssa.Instruction), s) {
							early = true
						}
					}
				}
			}
			late = n > 0 && !early && len(hcalls) > 0
		}
		if late {
			c.R.Ok(rule, core.FuncName(hs), cfg, p.Pos(at.Pos()), "readTimeout is installed after the handshake; during it the context deadline governs")
			return
		}
		c.R.Bad(rule, core.FuncName(hs), cfg, p.Pos(at.Pos()), "handshake -> "+core.FuncName(loader)+" bounds the hello read by Client.readTimeout (default 3s), not by the handshake timeout: a hello that arrives later but before HandshakeTimeout is rejected")
	}()

	// ---- C13.ctx
	rule = "C13.ctx"
	c.R.Rule(rule, "the handshake runs under a context derived from the caller's by context.WithTimeout(_, Options.HandshakeTimeout) only; on the way from Dial's / Connect's ctx parameter no other deadline is attached (tracing and values may be): a dial timeout or any other shorter deadline on that context would cut the wait for the server hello")
	func() {
		cn := p.Func(core.PkgCh, "Connect")
		dial := p.Func(core.PkgCh, "Dial")
		if cn == nil || dial == nil {
			return
		}
		// allowed derivation chain back to the ctx parameter
		var derived func(v ssa.Value, fn *ssa.Function, d int) (bool, string)
		derived = func(v ssa.Value, fn *ssa.Function, d int) (bool, string) {
			if d > 12 {
				return false, "too deep"
			}
			switch x := v.(type) {
			case *ssa.Parameter:
				return x.Name() == "ctx", "parameter " + x.Name()
			case *ssa.UnOp:
				if al, ok := x.X.(*ssa.Alloc); ok {
					for _, r := range *al.Referrers() {
						if st, ok := r.(*ssa.Store); ok && st.Addr == al {
							if ok, why := derived(st.Val, fn, d+1); !ok {
								return false, why
							}
						}
					}
					return true, ""
				}
			case *ssa.Phi:
				for _, e := range x.Edges {
					if ok, why := derived(e, fn, d+1); !ok {
						return false, why
					}
				}
				return true, ""
			case *ssa.Extract:
				if cl, ok := x.Tuple.(*ssa.Call); ok {
					f := core.CalleeFunc(cl)
					if f != nil && f.Pkg() != nil && f.Pkg().Path() == "context" {
						return false, "context." + f.Name() + " (attaches a deadline / cancellation)"
					}
					// tracer.Start(ctx, ...) and similar: follow the context argument
					for _, a := range cl.Call.Args {
						if core.IsNamed(a.Type(), "context", "Context") {
							return derived(a, fn, d+1)
						}
					}
				}
			case *ssa.Call:
				f := core.CalleeFunc(x)
				if f != nil && core.IsFunc(f, "context", "WithValue") {
					return derived(x.Call.Args[0], fn, d+1)
				}
				if f != nil && f.Pkg() != nil && f.Pkg().Path() == "context" {
					return false, "context." + f.Name()
				}
			}
			return false, "unrecognised derivation " + v.String()
		}
		// Dial -> Connect
		for _, call := range core.Calls(dial) {
			if f := core.CalleeFunc(call); f != nil && core.IsFunc(f, core.PkgCh, "Connect") {
				ok, why := derived(call.Common().Args[0], dial, 0)
				if ok {
					c.R.Ok(rule, "ch.Dial/Connect-ctx", cfg, p.Pos(call.Pos()), "Connect receives the caller's context (possibly with tracing)")
				} else {
					c.R.Bad(rule, "ch.Dial/Connect-ctx", cfg, p.Pos(call.Pos()), "the context Dial hands to Connect is derived through "+why+": the handshake is cut off by that deadline instead of HandshakeTimeout")
				}
			}
		}
		// Connect -> handshake
		for _, call := range core.FindCalls(cn, isClientMethod("handshake")) {
			arg := call.Common().Args[1]
			good := false
			why := "not a context.WithTimeout result"
			if e, ok := arg.(*ssa.Extract); ok && e.Index == 0 {
				if cl, ok := e.Tuple.(*ssa.Call); ok {
					if f := core.CalleeFunc(cl); f != nil && core.IsFunc(f, "context", "WithTimeout") {
						if core.FieldOrigin(cl.Call.Args[1], 0) != "Options.HandshakeTimeout" {
							why = "the timeout is not Options.HandshakeTimeout"
						} else if ok, w := derived(cl.Call.Args[0], cn, 0); !ok {
							why = "its parent context is derived through " + w
						} else {
							good = true
						}
					}
				}
			}
			if good {
				c.R.Ok(rule, "ch.Connect/handshake-ctx", cfg, p.Pos(call.Pos()), "WithTimeout(caller ctx, Options.HandshakeTimeout)")
			} else {
				c.R.Bad(rule, "ch.Connect/handshake-ctx", cfg, p.Pos(call.Pos()), "the handshake context is wrong: "+why)
			}
		}
	}()

	// ---- C13.hello
	rule = "C13.hello"
	c.R.Rule(rule, "the client hello announces the caller's options field by field (database, user, password, protocol version) and ServerInfo returns the decoded server hello as stored")
	if cn := p.Func(core.PkgCh, "Connect"); cn != nil {
		checkWiring(c, p, rule, cn, "ClientHello", map[string]string{"Database": "Options.Database", "User": "Options.User", "Password": "Options.Password", "ProtocolVersion": "Options.ProtocolVersion"})
	}
	if si := p.Method(core.PkgCh, "Client", "ServerInfo"); si != nil {
		ok := false
		for _, b := range si.Blocks {
			for _, in := range b.Instrs {
				if r, isRet := in.(*ssa.Return); isRet && len(r.Results) == 1 && core.FieldOrigin(r.Results[0], 0) == "Client.server" {
					ok = true
				}
			}
		}
		if ok {
			c.R.Ok(rule, core.FuncName(si), cfg, p.Pos(si.Pos()), "returns Client.server")
		} else {
			c.R.Bad(rule, core.FuncName(si), cfg, p.Pos(si.Pos()), "ServerInfo does not return the decoded server hello")
		}
	}
	// nothing but the decoder writes the stored server hello
	{
		nW, badW := 0, false
		for _, fn := range p.Funcs() {
			if pkgOf(fn) == nil || pkgOf(fn).Path() != core.PkgCh {
				continue
			}
			for _, b := range fn.Blocks {
				for _, in := range b.Instrs {
					st, ok := in.(*ssa.Store)
					if !ok {
						continue
					}
					root := st.Addr
					depth := 0
					for {
						if fa, ok := root.(*ssa.FieldAddr); ok {
							if core.IsNamed(fa.X.Type(), core.PkgCh, "Client") && fieldNameOnly(fa.X.Type(), fa.Field) == "server" {
								nW++
								badW = true
								c.R.Bad(rule, core.FuncName(fn)+"/server-write", cfg, p.Pos(st.Pos()), "the stored server hello (Client.server) is modified after it was decoded: ServerInfo() no longer reports the identity as sent (revision, name, features)")
							}
							root = fa.X
							depth++
							continue
						}
						break
					}
				}
			}
		}
		if !badW {
			c.R.Ok(rule, "Client.server/immutable", cfg, "", "no store to Client.server or its fields in package ch (it is filled by decode only)")
		}
	}
	// the decode target of the hello is Client.server
	for _, d := range core.FindCalls(helloReader(hg), isClientMethod("decode")) {
		arg := d.Common().Args[1]
		okT := core.DependsOn(arg, func(v ssa.Value) bool {
			f, ok := v.(*ssa.FieldAddr)
			return ok && core.IsNamed(f.X.Type(), core.PkgCh, "Client") && fieldNameOnly(f.X.Type(), f.Field) == "server"
		}, false)
		if okT {
			c.R.Ok(rule, core.CallKey(hg, d)+"/target", cfg, p.Pos(d.Pos()), "server hello decoded into Client.server")
		} else {
			c.R.Bad(rule, core.CallKey(hg, d)+"/target", cfg, p.Pos(d.Pos()), "the server hello is not decoded into Client.server")
		}
	}

	ruleVersionArgs(c, p, "C13.version")
	c.R.Assumptions = append(c.R.Assumptions,
		"decided: min() downgrade, negotiated-revision provenance of every later encode/decode, addendum gating, clean failure, close-on-failure pairing, who bounds the hello read; hello encode/decode symmetry is decided under C17; not decided: the timing itself")
}

func isMinOf(v ssa.Value) bool {
	cl, ok := v.(*ssa.Call)
	if !ok {
		return false
	}
	bi, ok := cl.Call.Value.(*ssa.Builtin)
	if !ok || bi.Name() != "min" || len(cl.Call.Args) != 2 {
		return false
	}
	a, b := core.FieldOrigin(cl.Call.Args[0], 0), core.FieldOrigin(cl.Call.Args[1], 0)
	return (a == "Client.protocolVersion" && b == "ServerHello.Revision") || (b == "Client.protocolVersion" && a == "ServerHello.Revision")
}

// ---- C13.defaults (shared with C08/C10 as <prop>.defaults)
// The documented defaults are the exported Default<Field> constants; the value a
// zero Options field is filled with must be the constant declared for that field.
func ruleOptionDefaults(c *Ctx, p *core.Program, rule string) {
	c.R.Rule(rule, "the configured value of an option left at zero is its documented default: wherever package ch stores a constant into a field F of Options for which the package declares a constant Default<F> (DefaultHandshakeTimeout, DefaultReadTimeout, DefaultDialTimeout, DefaultDatabase, DefaultUser), the stored value equals that constant's value - filling HandshakeTimeout from the read-timeout default makes the hello wait 3s instead of the documented 5m")
	cfg := p.Cfg.Name
	var pkg *types.Package
	for _, fn := range p.Funcs() {
		if pk := pkgOf(fn); pk != nil && pk.Path() == core.PkgCh {
			pkg = pk
			break
		}
	}
	if pkg == nil {
		c.R.Unk(rule, "package ch", cfg, "", "anchor lost")
		return
	}
	n := 0
	for _, fn := range p.Funcs() {
		if pk := pkgOf(fn); pk == nil || pk.Path() != core.PkgCh || fn.Blocks == nil {
			continue
		}
		for _, b := range fn.Blocks {
			for _, in := range b.Instrs {
				s, ok := in.(*ssa.Store)
				if !ok {
					continue
				}
				fa, ok := s.Addr.(*ssa.FieldAddr)
				if !ok || !core.IsNamed(fa.X.Type(), core.PkgCh, "Options") {
					continue
				}
				k, ok := stripConv(s.Val).(*ssa.Const)
				if !ok || k.Value == nil {
					continue
				}
				name := fieldNameOnly(fa.X.Type(), fa.Field)
				dc, ok := pkg.Scope().Lookup("Default" + name).(*types.Const)
				if !ok {
					continue
				}
				n++
				key := "Options." + name
				if constant.Compare(dc.Val(), token.EQL, k.Value) {
					c.R.Ok(rule, key, cfg, p.Pos(s.Pos()), "filled with Default"+name+" = "+dc.Val().String())
				} else {
					c.R.Bad(rule, key, cfg, p.Pos(s.Pos()), "Options."+name+" is filled with "+k.Value.String()+", not with its documented default Default"+name+" = "+dc.Val().String())
				}
			}
		}
	}
	c.R.Floor(rule, cfg, n, 4)
	// every way of making a client applies them: Connect (used directly with a caller-provided conn, and by
	// Dial) reaches the defaulting store of each Options field it reads for which a Default<F> exists
	cn := p.Func(core.PkgCh, "Connect")
	if cn == nil {
		return
	}
	defaulted := map[string]bool{}
	for g := range core.StaticReach(cn, 2) {
		if pkgOf(g) == nil || pkgOf(g).Path() != core.PkgCh {
			continue
		}
		for _, b := range g.Blocks {
			for _, in := range b.Instrs {
				st, ok := in.(*ssa.Store)
				if !ok {
					continue
				}
				fa, ok := st.Addr.(*ssa.FieldAddr)
				if !ok || !core.IsNamed(fa.X.Type(), core.PkgCh, "Options") {
					continue
				}
				if _, isConst := stripConv(st.Val).(*ssa.Const); isConst {
					defaulted[fieldNameOnly(fa.X.Type(), fa.Field)] = true
				}
			}
		}
	}
	used := map[string]token.Pos{}
	for _, b := range cn.Blocks {
		for _, in := range b.Instrs {
			switch x := in.(type) {
			case *ssa.FieldAddr:
				if core.IsNamed(x.X.Type(), core.PkgCh, "Options") {
					used[fieldNameOnly(x.X.Type(), x.Field)] = x.Pos()
				}
			case *ssa.Field:
				if core.IsNamed(x.X.Type(), core.PkgCh, "Options") {
					used[fieldNameOnly(x.X.Type(), x.Field)] = x.Pos()
				}
			}
		}
	}
	names := []string{}
	for f := range used {
		names = append(names, f)
	}
	sort.Strings(names)
	for _, f := range names {
		if _, ok := pkg.Scope().Lookup("Default" + f).(*types.Const); !ok {
			continue
		}
		key := "Connect/Options." + f
		if defaulted[f] {
			c.R.Ok(rule, key, cfg, p.Pos(used[f]), "Connect reaches the store of Default"+f)
		} else {
			c.R.Bad(rule, key, cfg, p.Pos(used[f]), "Connect reads Options."+f+" but no function it calls fills it with Default"+f+": a client made with ch.Connect and zero options runs with "+f+" = 0 (for ReadTimeout: no read deadline at all, so a cancelled context is never noticed while the server is silent)")
		}
	}
}

// ---- codewidth (C13 / C04 / C03): a wire packet code is range-checked before it is narrowed
func ruleCodeWidth(c *Ctx, p *core.Program, rule string) {
	c.R.Rule(rule, "packet codes travel as uvarint but proto.ServerCode is one byte: in client code, a function that converts the 64-bit result of Reader.UVarInt to a narrower named integer type succeeds only through an edge that bounds the unconverted value by the narrow type's range (n > 255 -> fail) or compares the conversion back with it - otherwise code 256+k is taken for code k, and a handshake answered by packet code 256 followed by a hello body yields a usable client")
	cfg := p.Cfg.Name
	n := 0
	for _, fn := range p.Funcs() {
		pk := pkgOf(fn)
		if pk == nil || pk.Path() != core.PkgCh || isServerSide(fn) || fn.Blocks == nil {
			continue
		}
		for _, b := range fn.Blocks {
			for _, in := range b.Instrs {
				cv, ok := in.(*ssa.Convert)
				if !ok {
					continue
				}
				ex, ok := cv.X.(*ssa.Extract)
				if !ok || ex.Index != 0 {
					continue
				}
				call, ok := ex.Tuple.(*ssa.Call)
				if !ok {
					continue
				}
				if f := core.CalleeFunc(call); f == nil || !core.IsMethod(f, core.PkgProto, "Reader", "UVarInt") {
					continue
				}
				dt, ok := cv.Type().Underlying().(*types.Basic)
				if !ok || dt.Info()&types.IsInteger == 0 {
					continue
				}
				var max int64
				switch dt.Kind() {
				case types.Uint8:
					max = 255
				case types.Int8:
					max = 127
				case types.Uint16:
					max = 65535
				case types.Int16:
					max = 32767
				case types.Uint32:
					max = 1<<32 - 1
				case types.Int32:
					max = 1<<31 - 1
				default:
					continue
				}
				n++
				key := core.FuncName(fn) + "/narrow-" + cv.Type().String()
				inRange := core.CondEdges(fn, false, func(cond ssa.Value) (bool, bool) {
					bo, ok := cond.(*ssa.BinOp)
					if !ok {
						return false, false
					}
					if k, okc := core.ConstInt(bo.Y); okc && bo.X == ssa.Value(ex) {
						switch {
						case bo.Op == token.GTR && k <= max, bo.Op == token.GEQ && k <= max+1:
							return true, true
						case bo.Op == token.LEQ && k <= max, bo.Op == token.LSS && k <= max+1:
							return false, true
						}
					}
					// uint64(code) != n
					for _, pair := range [][2]ssa.Value{{bo.X, bo.Y}, {bo.Y, bo.X}} {
						if back, okb := pair[0].(*ssa.Convert); okb && back.X == ssa.Value(cv) && pair[1] == ssa.Value(ex) {
							switch bo.Op {
							case token.NEQ:
								return true, true
							case token.EQL:
								return false, true
							}
						}
					}
					return false, false
				})
				bad := false
				for _, rb := range fn.Blocks {
					ret, ok := rb.Instrs[len(rb.Instrs)-1].(*ssa.Return)
					if !ok || !defaultSuccess(fn, ret) {
						continue
					}
					// only returns after the conversion matter
					if !(cv.Block() == rb || cv.Block().Dominates(rb)) {
						continue
					}
					if len(inRange) == 0 || !core.OnlyViaEdges(fn, ret, inRange) {
						bad = true
					}
				}
				if bad {
					c.R.Bad(rule, key, cfg, p.Pos(cv.Pos()), sprintf("a uvarint from the wire is narrowed to %s without a range check: values above %d wrap around, so an unknown packet code 256+k is handled as code k", cv.Type().String(), max))
				} else {
					c.R.Ok(rule, key, cfg, p.Pos(cv.Pos()), "range-checked before the narrow value is used")
				}
			}
		}
	}
	c.R.Count("narrowing conversions of wire uvarints in package ch", n)
	c.R.Floor(rule, cfg, n, 1)
}

// ---- watchdog (C13): the handshake watchdog is told to stand down only when nothing is left to read
func ruleWatchdogStandDown(c *Ctx, p *core.Program, rule string, hs, hg *ssa.Function) {
	c.R.Rule(rule, "the handshake reads its answer without a deadline of its own once packet() has returned (packet clears the read deadline); what bounds the rest of the answer is the watchdog goroutine, which closes the connection when the caller's context ends. The cancel function that tells the watchdog to stand down (context.WithCancel in handshake) is therefore called by the handshake goroutine only when it is leaving - deferred, or with no wire read (decode, exception, packet, flush) reachable after the call: standing the watchdog down after the packet code makes a truncated hello followed by silence block Connect forever")
	cfg := p.Cfg.Name
	// the cancel function: Extract #1 of context.WithCancel in handshake
	var cancelVal ssa.Value
	for _, call := range core.Calls(hs) {
		if f := core.CalleeFunc(call); f != nil && core.IsFunc(f, "context", "WithCancel") {
			if v := call.Value(); v != nil {
				for _, r := range *v.Referrers() {
					if e, ok := r.(*ssa.Extract); ok && e.Index == 1 {
						cancelVal = e
					}
				}
			}
		}
	}
	if cancelVal == nil {
		c.R.Unk(rule, core.FuncName(hs), cfg, p.Pos(hs.Pos()), "no context.WithCancel in handshake (watchdog anchor lost)")
		return
	}
	isRead := func(in ssa.Instruction) bool {
		return core.IsCallOf(in, isClientMethod("decode")) || core.IsCallOf(in, isClientMethod("packet")) || core.IsCallOf(in, isClientMethod("exception")) || core.IsCallOf(in, isClientMethod("flush"))
	}
	n := 0
	for fn := range core.StaticReach(hg, 1) {
		if pkgOf(fn) == nil || pkgOf(fn).Path() != core.PkgCh {
			continue
		}
		for _, call := range core.Calls(fn) {
			v := call.Common().Value
			isCancel := false
			if fv, ok := v.(*ssa.FreeVar); ok && fn == hg {
				if b := freeVarBinding(hs, hg, fv.Name()); b == cancelVal {
					isCancel = true
				}
			}
			if u, ok := v.(*ssa.UnOp); ok && fn == hg {
				if fv, ok := u.X.(*ssa.FreeVar); ok {
					if b := freeVarBinding(hs, hg, fv.Name()); b != nil {
						// the cancel func spilled into a cell
						if al, ok := b.(*ssa.Alloc); ok {
							for _, r := range *al.Referrers() {
								if st, ok := r.(*ssa.Store); ok && st.Val == cancelVal {
									isCancel = true
								}
							}
						}
					}
				}
			}
			if !isCancel {
				continue
			}
			n++
			key := core.CallKey(fn, call) + "/stand-down"
			if _, isDefer := call.(*ssa.Defer); isDefer {
				c.R.Ok(rule, key, cfg, p.Pos(call.Pos()), "deferred: runs when the handshake goroutine leaves")
				continue
			}
			w := core.ReachAvoiding(core.PointOf(call.(ssa.Instruction)), isRead, nil, nil)
			if len(w) > 0 {
				c.R.Bad(rule, key, cfg, p.Pos(call.Pos()), "the watchdog is told to stand down while the handshake still has to read: the rest of the answer is read with no deadline and no watchdog, so a server that sends part of its hello and goes silent blocks Connect / Dial forever", p.TrailString(w[0])...)
			} else {
				c.R.Ok(rule, key, cfg, p.Pos(call.Pos()), "nothing is read after the call")
			}
		}
	}
	if n == 0 {
		c.R.Unk(rule, core.FuncName(hg), cfg, p.Pos(hg.Pos()), "the handshake goroutine never calls the watchdog's cancel function")
	}
}

// ---- settings-end (C13 / C02 / C17): the settings list of a Query packet is terminated at every revision
func ruleSettingsEnd(c *Ctx, p *core.Program, rule string) {
	c.R.Rule(rule, "protocol fact (ClickHouse Connection::sendQuery / Settings::write): the settings section of a Query packet ends with an empty name at every revision - the string format (revision 54429) changed how a setting is written, not whether the list is terminated. Every path through Query.EncodeAware therefore passes a PutString of the empty constant; with the terminator moved under the format gate, a connection negotiated below 54429 gets a Query packet one byte short and the server reads the stage as a setting name. (The library's own Query decoder refuses those revisions, so the containment rules cannot see it.)")
	cfg := p.Cfg.Name
	enc := p.Method(core.PkgProto, "Query", "EncodeAware")
	if !c.must(p, "proto.Query.EncodeAware", enc != nil) {
		return
	}
	isEnd := func(in ssa.Instruction) bool {
		call, ok := in.(ssa.CallInstruction)
		if !ok {
			return false
		}
		f := core.CalleeFunc(call)
		if f == nil || !core.IsMethod(f, core.PkgProto, "Buffer", "PutString") {
			return false
		}
		args := call.Common().Args
		k, ok := args[len(args)-1].(*ssa.Const)
		return ok && k.Value != nil && k.Value.Kind() == constant.String && constant.StringVal(k.Value) == ""
	}
	n := 0
	for _, b := range enc.Blocks {
		for _, in := range b.Instrs {
			if isEnd(in) {
				n++
			}
		}
	}
	key := "Query.EncodeAware/settings-terminator"
	if n == 0 {
		// the terminator may be written by a helper: look one level down
		for _, call := range core.Calls(enc) {
			if sf := core.StaticFn(call); sf != nil && sf.Blocks != nil && pkgOf(sf) != nil && pkgOf(sf).Path() == core.PkgProto {
				for _, b := range sf.Blocks {
					for _, in := range b.Instrs {
						if isEnd(in) {
							n++
						}
					}
				}
			}
		}
		if n == 0 {
			c.R.Bad(rule, key, cfg, p.Pos(enc.Pos()), "Query.EncodeAware never writes an empty-name terminator")
		} else {
			c.R.Unk(rule, key, cfg, p.Pos(enc.Pos()), "the terminator is written by a helper: which paths pass it is not decided")
		}
		return
	}
	w := core.ReachAvoiding(core.Entry(enc), core.IsExit, isEnd, nil)
	if len(w) > 0 {
		c.R.Bad(rule, key, cfg, p.Pos(w[0].At.Pos()), "a path through Query.EncodeAware (some revision) writes no empty-name terminator at all: below the revision that gates it the settings section is unterminated and the packet is one byte short", p.TrailString(w[0])...)
	} else {
		c.R.Ok(rule, key, cfg, p.Pos(enc.Pos()), sprintf("an empty-name terminator lies on every path (%d written in all)", n))
	}
}

// ruleExceptionChain (C13 / C03): the nested-exception loop looks at the exception it has just read.
func ruleExceptionChain(c *Ctx, p *core.Program, rule string) {
	c.R.Rule(rule, "in Client.exception every read of proto.Exception.Nested that sits inside the loop reads the struct that a decode call of the same iteration filled (the decode with that struct as its target is inside the loop too): a loop condition that re-reads the first exception's flag never ends once that flag is set - after the last exception of the chain the client waits for more until the peer hangs up, and the chain is lost")
	cfg := p.Cfg.Name
	fn := p.Method(core.PkgCh, "Client", "exception")
	if !c.must(p, "(*ch.Client).exception", fn != nil) {
		return
	}
	n := 0
	for _, b := range fn.Blocks {
		for _, in := range b.Instrs {
			fa, ok := in.(*ssa.FieldAddr)
			if !ok || !core.IsNamed(fa.X.Type(), core.PkgProto, "Exception") || fieldNameOnly(fa.X.Type(), fa.Field) != "Nested" {
				continue
			}
			if !core.InLoop(fa) {
				continue
			}
			n++
			key := core.FuncName(fn) + sprintf("/nested#%d", n)
			filledInLoop := false
			for _, r := range *fa.X.Referrers() {
				var user ssa.Instruction = r
				if mi, ok := r.(*ssa.MakeInterface); ok {
					for _, r2 := range *mi.Referrers() {
						if call, ok := r2.(ssa.CallInstruction); ok && core.InLoop(r2) {
							_ = call
							filledInLoop = true
						}
					}
					continue
				}
				if call, ok := user.(ssa.CallInstruction); ok && core.InLoop(user) {
					_ = call
					filledInLoop = true
				}
			}
			if filledInLoop {
				c.R.Ok(rule, key, cfg, p.Pos(fa.Pos()), "the flag read is of the exception decoded in this iteration")
			} else {
				c.R.Bad(rule, key, cfg, p.Pos(fa.Pos()), "the loop re-reads the Nested flag of an exception decoded before the loop: with a nested chain it never terminates by itself")
			}
		}
	}
	c.R.Count("Nested reads inside the exception loop", n)
	c.R.Floor(rule, cfg, n, 1)
}

// ruleHelloAccepted (C13): a decoded hello is not judged against the client's own environment.
func ruleHelloAccepted(c *Ctx, p *core.Program, rule string, hg *ssa.Function) {
	c.R.Rule(rule, "in the handshake goroutine, once the server hello has been decoded, an error is returned only as the result of writing to the connection (Client.flush / the encoders): the hello's strings - name, display name, time zone - are the server's identity, reported as sent; a handshake that fails because the zone name is missing from the client machine's tz database rejects a well-formed, timely hello")
	cfg := p.Cfg.Name
	var dec ssa.Instruction
	for _, call := range core.Calls(hg) {
		f := core.CalleeFunc(call)
		if f != nil && core.IsMethod(f, core.PkgCh, "Client", "decode") {
			a := call.Common().Args[len(call.Common().Args)-1]
			if mi, ok := a.(*ssa.MakeInterface); ok {
				a = mi.X
			}
			if fa, ok := a.(*ssa.FieldAddr); ok && fieldNameOnly(fa.X.Type(), fa.Field) == "server" {
				dec = call.(ssa.Instruction)
			}
		}
	}
	if dec == nil {
		// the hello may be read by a helper (readServerHello)
		for _, call := range core.Calls(hg) {
			if g := core.StaticFn(call); g != nil && g.Blocks != nil && pkgOf(g) != nil && pkgOf(g).Path() == core.PkgCh && core.ReachesCallee(g, isClientMethod("decode"), 1) && core.ReachesCallee(g, isClientMethod("packet"), 1) {
				dec = call.(ssa.Instruction)
			}
		}
	}
	if dec == nil {
		c.R.Unk(rule, core.FuncName(hg), cfg, p.Pos(hg.Pos()), "decode of the server hello not found")
		return
	}
	okEdge := func(b *ssa.BasicBlock, i int) bool {
		// leave the decode's own failure edge out
		if call, ok := dec.(ssa.CallInstruction); ok {
			if ev := core.ErrValue(call); ev != nil {
				al := core.Aliases(hg, ev)
				if ifi, ok := b.Instrs[len(b.Instrs)-1].(*ssa.If); ok {
					if ns, ok := core.NilTest(ifi, al); ok && ns != i {
						return false
					}
				}
			}
		}
		return true
	}
	var fromWriteD func(v ssa.Value, d int) bool
	fromWriteD = func(v ssa.Value, d int) bool {
		return core.DependsOn(v, func(x ssa.Value) bool {
			cl, ok := x.(*ssa.Call)
			if !ok {
				return false
			}
			f := core.CalleeFunc(cl)
			if f != nil && (core.IsMethod(f, core.PkgCh, "Client", "flush") || core.IsMethod(f, core.PkgCh, "Client", "flushBuf")) {
				return true
			}
			// a helper of the client all of whose failures are write failures (sendAddendum)
			g := core.StaticFn(cl)
			if g == nil || g.Blocks == nil || d > 1 || pkgOf(g) == nil || pkgOf(g).Path() != core.PkgCh {
				return false
			}
			any := false
			for _, gb := range g.Blocks {
				r, ok := gb.Instrs[len(gb.Instrs)-1].(*ssa.Return)
				if !ok {
					continue
				}
				ev := core.ReturnErr(g, r)
				if ev == nil || core.IsNilConst(ev) {
					continue
				}
				if !fromWriteD(ev, d+1) {
					return false
				}
				any = true
			}
			return any
		}, true)
	}
	fromWrite := func(v ssa.Value) bool { return fromWriteD(v, 0) }
	w := core.ReachAvoiding(core.PointOf(dec), func(in ssa.Instruction) bool {
		r, ok := in.(*ssa.Return)
		if !ok || len(r.Results) == 0 {
			return false
		}
		ev := core.ReturnErr(hg, r)
		return ev != nil && !core.IsNilConst(ev) && !fromWrite(ev)
	}, nil, okEdge)
	if len(w) > 0 {
		c.R.Bad(rule, core.FuncName(hg), cfg, p.Pos(w[0].At.Pos()), "after the hello was decoded the handshake can still fail for a reason other than a write error: the server's answer is rejected on the strength of something the client checks locally", p.TrailString(w[0])...)
	} else {
		c.R.Ok(rule, core.FuncName(hg), cfg, p.Pos(dec.Pos()), "after the hello only write errors fail the handshake")
	}
}

// ruleAddendum (C13.addendum, C04.addendum): the quota-key addendum is gated on
// the negotiated revision and flushed before the handshake returns; with
// flushOnly only the flush clause is judged (the gate belongs to C13).
func ruleAddendum(c *Ctx, p *core.Program, rule string, hg *ssa.Function, downgradeSite ssa.Instruction, flushOnly bool) {
	cfg := p.Cfg.Name
	c.R.Rule(rule, "the quota-key addendum is emitted only under a Feature.In gate (threshold = FeatureAddendum) evaluated on the negotiated revision - a load of Client.protocolVersion that, in the handshake goroutine, is dominated by the downgrade test - at the place in the goroutine that leads to the emission or around the emission itself (found by what it writes: the ChainBuffer callback that puts Client.quotaKey); the addendum is flushed")
	addK, _ := constOf(p, core.PkgProto, "FeatureAddendum")
	// the emission: the ChainBuffer call whose callback writes Client.quotaKey (found by what it writes)
	var emit ssa.Instruction
	var add *ssa.Function
	for _, fn := range append([]*ssa.Function{hg}, core.StaticReachList(hg)...) {
		if fn == nil || pkgOf(fn) == nil || pkgOf(fn).Path() != core.PkgCh {
			continue
		}
		for _, cc := range core.Calls(fn) {
			f := core.CalleeFunc(cc)
			if f == nil || !core.IsMethod(f, core.PkgProto, "Writer", "ChainBuffer") {
				continue
			}
			cb := core.ClosureArg(cc, 1)
			if cb == nil {
				continue
			}
			for _, pc := range core.Calls(cb) {
				if pf := core.CalleeFunc(pc); pf != nil && core.IsMethod(pf, core.PkgProto, "Buffer", "PutString") && core.FieldOrigin(pc.Common().Args[1], 0) == "Client.quotaKey" {
					emit, add = cc.(ssa.Instruction), fn
				}
			}
		}
	}
	if emit == nil {
		c.R.Bad(rule, core.FuncName(hg), cfg, p.Pos(hg.Pos()), "the handshake goroutine never writes Client.quotaKey (no addendum)")
		return
	}
	// its position in the goroutine: the emission itself or the call that leads to it
	var calls []ssa.CallInstruction
	if add == hg {
		calls = append(calls, emit.(ssa.CallInstruction))
	} else {
		for _, call := range core.Calls(hg) {
			if sf := core.StaticFn(call); sf != nil && (sf == add || core.StaticReach(sf, 2)[add]) {
				calls = append(calls, call)
			}
		}
	}
	if len(calls) != 1 {
		c.R.Bad(rule, core.FuncName(hg), cfg, p.Pos(hg.Pos()), sprintf("%d places in the handshake goroutine write the addendum", len(calls)))
		return
	}
	call := calls[0].(ssa.Instruction)
	if !flushOnly {
		goodGate := func(fn *ssa.Function, target ssa.Instruction, needDom bool) bool {
			edges := core.CondEdges(fn, true, func(cond ssa.Value) (bool, bool) {
				k, ver, ok := featureGate(cond)
				if !ok || k != addK {
					return false, false
				}
				if core.FieldOrigin(ver, 0) != "Client.protocolVersion" {
					return false, false
				}
				if needDom {
					if downgradeSite == nil {
						return false, false
					}
					vi, ok := ver.(ssa.Instruction)
					if !ok || !core.Dominates(downgradeSite, vi) && downgradeSite.Block() != vi.Block() {
						// loads after the test: dominated by its block
						if !downgradeSite.Block().Dominates(vi.Block()) {
							return false, false
						}
					}
				}
				return true, true
			})
			return len(edges) > 0 && core.OnlyViaEdges(fn, target, edges)
		}
		outer := goodGate(hg, call, true)
		inner := false
		// inside a helper: the emission itself under a gate
		if add != hg && goodGate(add, emit, false) {
			inner = true
		}
		if outer || inner {
			c.R.Ok(rule, core.FuncName(hg)+"/gate", cfg, p.Pos(call.Pos()), sprintf("gated on the negotiated revision (call site: %v, inside encodeAddendum: %v)", outer, inner))
		} else {
			c.R.Bad(rule, core.FuncName(hg)+"/gate", cfg, p.Pos(call.Pos()), "the addendum is not gated on the negotiated revision anywhere: after a downgrade the quota key is still written and the old server reads it as the next packet")
		}
	}
	// flush after addendum
	w := core.ReachAvoiding(core.PointOf(call), func(in ssa.Instruction) bool {
		r, ok := in.(*ssa.Return)
		if !ok {
			return false
		}
		rv := core.ReturnErr(hg, r)
		return rv != nil && core.MayBeNilError(rv, 0)
	}, func(in ssa.Instruction) bool { return core.IsCallOf(in, isClientMethod("flush")) }, nil)
	// the helper that emits the addendum may flush it itself
	if len(w) > 0 && add != hg {
		if ei, ok := emit.(ssa.Instruction); ok {
			wi := core.ReachAvoiding(core.PointOf(ei), func(in ssa.Instruction) bool {
				r, ok := in.(*ssa.Return)
				if !ok {
					return false
				}
				rv := core.ReturnErr(add, r)
				return rv == nil || core.MayBeNilError(rv, 0)
			}, func(in ssa.Instruction) bool { return core.IsCallOf(in, isClientMethod("flush")) }, nil)
			// a return of the flush's own result is the flush
			flushReturned := true
			for _, x := range wi {
				r, _ := x.At.(*ssa.Return)
				if r == nil {
					flushReturned = false
					continue
				}
				rv := core.ReturnErr(add, r)
				if _, ok := core.CallTo(rv, isClientMethod("flush")); !ok {
					flushReturned = false
				}
			}
			if len(wi) == 0 || flushReturned {
				w = nil
			}
		}
	}
	if len(w) > 0 {
		c.R.Bad(rule, core.FuncName(hg)+"/flush", cfg, p.Pos(call.Pos()), "the addendum can stay unflushed on a success path")
	} else {
		c.R.Ok(rule, core.FuncName(hg)+"/flush", cfg, p.Pos(call.Pos()), "flush follows the addendum")
	}
	c.R.Ok(rule, core.FuncName(add)+"/content", cfg, p.Pos(emit.Pos()), "PutString(c.quotaKey)")
}

// ruleDialClose (C13.dialclose, C10.dialclose): Dial closes the connection it
// dialled on every failure exit.
func ruleDialClose(c *Ctx, p *core.Program, rule string) {
	cfg := p.Cfg.Name
	c.R.Rule(rule, "pairing: in Dial, on every path from a successful DialContext to a failure exit, Close is called on the dialled connection")
	dial := p.Func(core.PkgCh, "Dial")
	if !c.must(p, "ch.Dial", dial != nil) {
		return
	}
	var dc ssa.CallInstruction
	for _, call := range core.Calls(dial) {
		if call.Common().IsInvoke() && call.Common().Method.Name() == "DialContext" {
			dc = call
		}
	}
	if dc == nil {
		c.R.Unk(rule, "ch.Dial", cfg, p.Pos(dial.Pos()), "no DialContext call")
		return
	}
	ev := core.ErrValue(dc)
	al := core.Aliases(dial, ev)
	edge := func(b *ssa.BasicBlock, i int) bool {
		if ifi, ok := b.Instrs[len(b.Instrs)-1].(*ssa.If); ok {
			if ns, ok := core.NilTest(ifi, al); ok && ns != i {
				return false // dial failed: nothing to close
			}
		}
		return true
	}
	w := core.ReachAvoiding(core.PointOf(dc.(ssa.Instruction)), func(in ssa.Instruction) bool {
		r, ok := in.(*ssa.Return)
		if !ok {
			return false
		}
		rv := core.ReturnErr(dial, r)
		return rv != nil && !core.IsNilConst(rv) && !core.MayBeNilError(rv, 0)
	}, func(in ssa.Instruction) bool {
		cl, ok := in.(ssa.CallInstruction)
		if !ok {
			return false
		}
		cc := cl.Common()
		return cc.IsInvoke() && cc.Method.Name() == "Close" && core.IsNamed(cc.Value.Type(), "net", "Conn")
	}, edge)
	if len(w) > 0 {
		c.R.Bad(rule, "ch.Dial", cfg, p.Pos(w[0].At.Pos()), "Dial returns an error after a successful dial without closing the connection it opened (socket leak when Connect fails)", p.TrailString(w[0])...)
	} else {
		c.R.Ok(rule, "ch.Dial", cfg, p.Pos(dc.Pos()), "the dialled connection is closed on every failure exit")
	}
}
