package props

import (
	"go/token"
	"go/types"
	"sort"
	"strings"

	"golang.org/x/tools/go/ssa"

	"chverif/core"
)

func init() {
	register("C16", runC16)
	register("C18", runC18)
}

func isColMethod(name string) func(*types.Func) bool {
	return func(f *types.Func) bool {
		if f.Name() != name || f.Pkg() == nil || f.Pkg().Path() != core.PkgProto {
			return false
		}
		return true
	}
}

// resultDecoders returns Results.DecodeResult and Results.decodeAuto.
func resultDecoders(c *Ctx, p *core.Program) []*ssa.Function {
	dr := p.Method(core.PkgProto, "Results", "DecodeResult")
	da := p.Method(core.PkgProto, "Results", "decodeAuto")
	if !c.must(p, "Results.DecodeResult / Results.decodeAuto", dr != nil && da != nil) {
		return nil
	}
	return []*ssa.Function{dr, da}
}

// ruleResetBefore (C16.before): every target is reset before it is decoded
// into, and on every path of an iteration that accepted the column.
func ruleResetBefore(c *Ctx, p *core.Program, rule string) {
	c.R.Rule(rule, "in Results.DecodeResult and Results.decodeAuto, Reset() of the target column dominates DecodeState/DecodeColumn, and lies on every path from the accepted type check to the end of the iteration - also for zero-row blocks, whose targets must end up empty")
	cfg := p.Cfg.Name
	decoders := resultDecoders(c, p)
	for _, fn := range decoders {
		root := fn
		decodeHelpers := map[*ssa.Function]bool{}
		// the per-column part may live in a method called for each column
		if len(core.FindCalls(fn, isColMethod("DecodeColumn"))) == 0 {
			for _, call := range core.Calls(fn) {
				if sf := core.StaticFn(call); sf != nil && sf.Blocks != nil && pkgOf(sf) != nil && pkgOf(sf).Path() == core.PkgProto && len(core.FindCalls(sf, isColMethod("DecodeColumn"))) > 0 {
					if sf == decoders[0] || sf == decoders[1] {
						continue // the other result decoder, judged on its own
					}
					if len(core.FindCalls(sf, isColMethod("Reset"))) == 0 && len(core.FindCalls(root, isColMethod("Reset"))) > 0 {
						// only the reading is in the helper; the reset stays here and must dominate the helper call
						decodeHelpers[sf] = true
						continue
					}
					fn = sf
				}
			}
		}
		key := core.FuncName(fn)
		resets := core.FindCalls(fn, isColMethod("Reset"))
		if len(resets) == 0 {
			c.R.Bad(rule, key, cfg, p.Pos(fn.Pos()), "targets are never reset before decoding a block into them")
			continue
		}
		isReset := func(in ssa.Instruction) bool { return core.IsCallOf(in, isColMethod("Reset")) }
		bad := false
		for _, name := range []string{"DecodeColumn", "DecodeState", "helper"} {
			sites := core.FindCalls(fn, isColMethod(name))
			if name == "helper" {
				sites = nil
				for _, call := range core.Calls(fn) {
					if sf := core.StaticFn(call); sf != nil && decodeHelpers[sf] {
						sites = append(sites, call)
					}
				}
				name = "the decoding helper"
			}
			for _, call := range sites {
				w := core.ReachAvoiding(core.Entry(fn), func(in ssa.Instruction) bool { return in == call.(ssa.Instruction) }, isReset, nil)
				// paths around the loop: the reset of the previous iteration does not count; require dominance within the iteration
				dom := false
				for _, r := range resets {
					if core.Dominates(r.(ssa.Instruction), call.(ssa.Instruction)) {
						dom = true
					}
				}
				if len(w) > 0 || !dom {
					bad = true
					c.R.Bad(rule, core.CallKey(fn, call), cfg, p.Pos(call.Pos()), name+" into a target is reachable without a preceding Reset: rows of the previous block survive")
				}
			}
		}
		// the anchor of 'column accepted': Conflicts (DecodeResult) or Infer (decodeAuto)
		var anchor ssa.Instruction
		for _, call := range core.Calls(fn) {
			f := core.CalleeFunc(call)
			if f == nil {
				continue
			}
			if core.IsMethod(f, core.PkgProto, "ColumnType", "Conflicts") || (root.Name() == "decodeAuto" && core.IsMethod(f, core.PkgProto, "ColAuto", "Infer")) {
				anchor = call.(ssa.Instruction)
			}
		}
		if anchor == nil && fn != root {
			// reset and decode both live in a per-column helper (decodeTargetData(r, name, data, rows)) while the
			// type check stays in the loop of the decoder: the helper resets on every path, and in the decoder
			// every accepted column reaches the helper call before the iteration ends
			var rootAnchor, helperCall ssa.Instruction
			for _, call := range core.Calls(root) {
				if f := core.CalleeFunc(call); f != nil && (core.IsMethod(f, core.PkgProto, "ColumnType", "Conflicts") || (root.Name() == "decodeAuto" && core.IsMethod(f, core.PkgProto, "ColAuto", "Infer"))) {
					rootAnchor = call.(ssa.Instruction)
				}
				if core.StaticFn(call) == fn {
					helperCall = call.(ssa.Instruction)
				}
			}
			if rootAnchor != nil && helperCall != nil {
				inHelper := core.ReachAvoiding(core.Entry(fn), func(in ssa.Instruction) bool {
					_, isRet := in.(*ssa.Return)
					return isRet && in.Block().Comment != "recover"
				}, isReset, nil)
				hdr := loopHeaderOf(rootAnchor.Block())
				confTrue := core.CondEdges(root, true, func(cond ssa.Value) (bool, bool) {
					_, ok := core.CallTo(cond, func(f *types.Func) bool { return core.IsMethod(f, core.PkgProto, "ColumnType", "Conflicts") })
					return true, ok
				})
				edge := func(b *ssa.BasicBlock, i int) bool {
					for _, e := range confTrue {
						if e.B == b && e.Succ == i {
							return false
						}
					}
					return nilErrEdge(b, i)
				}
				inRoot := core.ReachAvoiding(core.PointOf(rootAnchor), func(in ssa.Instruction) bool {
					if hdr != nil && in == hdr.Instrs[0] {
						return true
					}
					r, ok := in.(*ssa.Return)
					return ok && defaultSuccess(root, r)
				}, func(in ssa.Instruction) bool { return in == helperCall }, edge)
				switch {
				case len(inHelper) > 0:
					c.R.Bad(rule, key+"/every-block", cfg, p.Pos(inHelper[0].At.Pos()), "the per-column helper can return without Reset (e.g. a zero-row block): the target keeps the previous block's rows", p.TrailString(inHelper[0])...)
				case len(inRoot) > 0:
					c.R.Bad(rule, key+"/every-block", cfg, p.Pos(inRoot[0].At.Pos()), "an accepted column can finish its iteration without reaching the helper that resets it", p.TrailString(inRoot[0])...)
				case !bad:
					c.R.Ok(rule, key, cfg, p.Pos(resets[0].Pos()), "the per-column helper resets on every path and every accepted column reaches it")
				}
				continue
			}
		}
		if anchor == nil {
			c.R.Unk(rule, key, cfg, p.Pos(fn.Pos()), "no type check / inference call found (anchor lost)")
			continue
		}
		hdr := loopHeaderOf(anchor.Block())
		// error edges and the conflict edge fail; from the accepting side every way to the next iteration or a success exit resets
		confTrue := core.CondEdges(fn, true, func(cond ssa.Value) (bool, bool) {
			_, ok := core.CallTo(cond, func(f *types.Func) bool { return core.IsMethod(f, core.PkgProto, "ColumnType", "Conflicts") })
			return true, ok
		})
		edge := func(b *ssa.BasicBlock, i int) bool {
			for _, e := range confTrue {
				if e.B == b && e.Succ == i {
					return false
				}
			}
			if ifi, ok := b.Instrs[len(b.Instrs)-1].(*ssa.If); ok {
				if x, nonNil, ok := nilCmp(ifi.Cond); ok && isErrorTyped(x) {
					nn := 1
					if nonNil {
						nn = 0
					}
					if i == nn {
						return false
					}
				}
			}
			return true
		}
		w := core.ReachAvoiding(core.PointOf(anchor), func(in ssa.Instruction) bool {
			if hdr != nil && in == hdr.Instrs[0] {
				return true
			}
			r, ok := in.(*ssa.Return)
			return ok && defaultSuccess(fn, r)
		}, isReset, edge)
		if len(w) > 0 {
			bad = true
			c.R.Bad(rule, key+"/every-block", cfg, p.Pos(w[0].At.Pos()), "an accepted column can finish its iteration without Reset (e.g. a zero-row block): the target keeps the previous block's rows although the block has none", p.TrailString(w[0])...)
		}
		if !bad {
			c.R.Ok(rule, key, cfg, p.Pos(resets[0].Pos()), "Reset dominates the decode calls and lies on every accepting path of the iteration")
		}
	}
}

// fieldsTouchedBy collects the receiver fields of named written (grown /
// assigned) or cleared in fn and its static callees (depth 1).
func recvFieldStores(p *core.Program, fn *ssa.Function, named *types.Named) map[string]bool {
	out := map[string]bool{}
	for f := range core.StaticReach(fn, 1) {
		if pkgOf(f) == nil || pkgOf(f).Path() != core.PkgProto {
			continue
		}
		for _, b := range f.Blocks {
			for _, in := range b.Instrs {
				switch x := in.(type) {
				case *ssa.Store:
					if nm := recvFieldOf(x.Addr, named); nm != "" {
						out[nm] = true
					}
				case ssa.CallInstruction:
					cf := core.CalleeFunc(x)
					cc := x.Common()
					if bi, ok := cc.Value.(*ssa.Builtin); ok && (bi.Name() == "delete" || bi.Name() == "clear") {
						if nm := recvFieldOfValue(cc.Args[0], named); nm != "" {
							out[nm] = true
						}
					}
					if cf != nil && (cf.Name() == "Reset" || strings.HasPrefix(cf.Name(), "Append") || cf.Name() == "DecodeColumn") {
						var rv ssa.Value
						if cc.IsInvoke() {
							rv = cc.Value
						} else if len(cc.Args) > 0 {
							rv = cc.Args[0]
						}
						if nm := recvFieldOfValue(rv, named); nm != "" {
							out[nm] = true
						}
						// helper returning the address of one of several fields (ColEnum.raw())
						if rc, ok := rv.(*ssa.Call); ok {
							if hf := core.StaticFn(rc); hf != nil {
								for _, hb := range hf.Blocks {
									for _, hi := range hb.Instrs {
										if fa, ok := hi.(*ssa.FieldAddr); ok {
											if n := core.NamedOf(fa.X.Type()); n != nil && n.Obj() == named.Obj() {
												out[fieldNameOnly(fa.X.Type(), fa.Field)] = true
											}
										}
									}
								}
							}
						}
					}
				case *ssa.MapUpdate:
					if nm := recvFieldOfValue(x.Map, named); nm != "" {
						out[nm] = true
					}
				}
			}
		}
	}
	return out
}

// recvFieldOf: addr is &recv.f (or *recv itself => "*") for a receiver of type named.
func recvFieldOf(addr ssa.Value, named *types.Named) string {
	switch x := addr.(type) {
	case *ssa.FieldAddr:
		if n := core.NamedOf(x.X.Type()); n != nil && n.Obj() == named.Obj() {
			return fieldNameOnly(x.X.Type(), x.Field)
		}
	case *ssa.Parameter:
		if n := core.NamedOf(x.Type()); n != nil && n.Obj() == named.Obj() {
			if _, isPtr := x.Type().(*types.Pointer); isPtr {
				return "*"
			}
		}
	}
	return ""
}

func recvFieldOfValue(v ssa.Value, named *types.Named) string {
	switch x := v.(type) {
	case *ssa.UnOp:
		if x.Op == token.MUL {
			return recvFieldOf(x.X, named)
		}
	case *ssa.FieldAddr:
		return recvFieldOf(x, named)
	case *ssa.MakeInterface:
		return recvFieldOfValue(x.X, named)
	case *ssa.Field:
		if n := core.NamedOf(x.X.Type()); n != nil && n.Obj() == named.Obj() {
			return fieldNameOnly(x.X.Type(), x.Field)
		}
	}
	return ""
}

func runC16(c *Ctx) {
	for _, cfg := range c.Configs() {
		p := c.Prog(cfg)
		if p == nil {
			continue
		}
		ruleResetComplete(c, p, "C16.reset")
		ruleGrowByAppend(c, p, "C16.fresh")
		ruleEncoderPure(c, p, "C16.pure")
		ruleResetReceiver(c, p, "C16.reset-recv")
		ruleWriterInvariant(c, p, "C16.writer")
		ruleChainScratch(c, p, "C16.chain-scratch")
		ruleForwardUnconditional(c, p, "C16.forward-always")
		ruleFieldBeforeUse(c, p, "C16.field-before-use")
		ruleContentCounters(c, p, "C16.counters")
	}
	p := c.Prog(core.CfgDefault)
	if p == nil {
		return
	}
	ruleInferTables(c, p, "C16")
	ruleForwardAll(c, p, "C16.forward-all")
	ruleRowCopies(c, p, "C16.row-copy")
	ruleAutoKeepsCompatible(c, p, "C16.auto-keeps")
	ruleResetKeepsParameters(c, p, "C16.reset-keeps")
	ruleInferNoSharedState(c, p, "C16.shared-state")
	ruleReadFullSized(c, p, "C16.readfull-sized")
	if rr := resolveDo(c, p); rr != nil {
		ruleInputStream(c, p, rr, "C16")
	}
	ruleResetBefore(c, p, "C16.before")
	ruleDict(c, p, "C16.dict")
	ruleRebuild(c, p, "C16.rebuild")
	ruleNoAdopt(c, p, "C16.alias")
	ruleAppendTail(c, p, "C16.tail")
	ruleScratchAlias(c, p, "C16.scratch")
	ruleAllColumns(c, p, "C16.all-columns")
	ruleKeyWidth(c, p, "C16.keywidth")
	ruleAdopt(c, p, "C16.adopt")
	ruleInferMaps(c, p, "C16.exact")
	c.R.Assumptions = append(c.R.Assumptions,
		"decided: Reset clears every content field that Append*/DecodeColumn/Prepare write; block decoding resets each accepted target on every path; Prepare renumbers the dictionary from a cleared map and index and rebuilds key columns from length 0; not decided: result equality after arbitrary histories")
}

// ruleResetComplete (C16.reset)
func ruleResetComplete(c *Ctx, p *core.Program, rule string) {
	c.R.Rule(rule, "E9 field effects: for every column type, each content-carrying field (slice, map, or nested column) that Append*, DecodeColumn or Prepare assign or grow is cleared by Reset (assignment, nested Reset, delete/clear), or the column itself (`*c`) is re-sliced; a helper returning the address of one of several fields counts for all of them")
	cfg := p.Cfg.Name
	n := 0
	for _, ct := range columnTypes(p) {
		reset := methodOf(p, ct, "Reset")
		if reset == nil || reset.Blocks == nil {
			continue
		}
		written := map[string]bool{}
		for i := 0; i < ct.NumMethods(); i++ {
			m := ct.Method(i)
			if !(strings.HasPrefix(m.Name(), "Append") || m.Name() == "DecodeColumn" || m.Name() == "Prepare") {
				continue
			}
			fn := p.Prog.FuncValue(m)
			if fn == nil || fn.Blocks == nil {
				continue
			}
			for f := range recvFieldStores(p, fn, ct) {
				written[f] = true
			}
		}
		cleared := recvFieldStores(p, reset, ct)
		var missing []string
		for f := range written {
			if cleared[f] {
				continue
			}
			if !contentField(ct, f) {
				continue
			}
			missing = append(missing, f)
		}
		sort.Strings(missing)
		n++
		key := "reset/" + ct.Obj().Name()
		// the clearing is unconditional: no path through Reset avoids it (other than a nil test of the field itself)
		var conditional []string
		if len(missing) == 0 {
			clears := resetClearPoints(p, reset, ct)
			for f := range written {
				if !contentField(ct, f) || len(clears[f]) == 0 {
					continue
				}
				pts := clears[f]
				hit := core.ReachAvoiding(core.Entry(reset), func(x ssa.Instruction) bool {
					_, ok := x.(*ssa.Return)
					return ok && x.Block().Comment != "recover"
				}, func(x ssa.Instruction) bool {
					for _, cp := range pts {
						if x == cp.in || cp.hdr != nil && x.Block() == cp.hdr {
							return true
						}
					}
					return false
				}, core.WithoutEdges(core.CondEdges(reset, true, func(cond ssa.Value) (bool, bool) {
					x, nonNil, ok := nilCmp(cond)
					if !ok || recvFieldOfValue(x, ct) != f {
						return false, false
					}
					return !nonNil, true
				})))
				if len(hit) > 0 {
					conditional = append(conditional, f)
				}
			}
			sort.Strings(conditional)
		}
		if len(missing) > 0 {
			c.R.Bad(rule, key, cfg, p.Pos(reset.Pos()), "Reset does not clear "+strings.Join(missing, ", ")+", which Append/DecodeColumn/Prepare fill: reused columns carry old contents over")
		} else if len(conditional) > 0 {
			c.R.Bad(rule, key, cfg, p.Pos(reset.Pos()), "Reset clears "+strings.Join(conditional, ", ")+" only on some paths (depending on the column's current state): what a previous use left in the other state survives the reset and is appended to by the next decode")
		} else {
			var w []string
			for f := range written {
				if contentField(ct, f) {
					w = append(w, f)
				}
			}
			sort.Strings(w)
			c.R.Ok(rule, key, cfg, p.Pos(reset.Pos()), "clears {"+strings.Join(w, ",")+"}")
		}
	}
	c.R.Count("column types with Reset["+cfg+"]", n)
	c.R.Floor(rule, cfg, n, 40)
}

// contentField: the field carries row contents (slice, map, nested column),
// as opposed to configuration (precision, size, key width, location).
func contentField(ct *types.Named, f string) bool {
	if f == "*" {
		return true
	}
	st, ok := ct.Underlying().(*types.Struct)
	if !ok {
		return false
	}
	for i := 0; i < st.NumFields(); i++ {
		if st.Field(i).Name() != f {
			continue
		}
		t := st.Field(i).Type()
		switch t.Underlying().(type) {
		case *types.Slice, *types.Map:
			return true
		case *types.Interface:
			return types.NewMethodSet(t).Lookup(nil, "Reset") != nil
		}
		return false
	}
	return false
}

// ruleDict (C16.dict): dictionary numbering in Prepare.
func ruleDict(c *Ctx, p *core.Program, rule string) {
	c.R.Rule(rule, "in a method that numbers dictionary entries (stores into a map[T]int and appends to the index column in the same branch) the stored key must depend on the current size of the dictionary, or both the map and the index must be cleared on every path before the loop; a counter restarting at 0 next to a conditionally cleared dictionary gives two values the same key")
	cfg := p.Cfg.Name
	prep := p.Method(core.PkgProto, "ColLowCardinality", "Prepare")
	if !c.must(p, "ColLowCardinality.Prepare", prep != nil) {
		return
	}
	named := p.NamedType(core.PkgProto, "ColLowCardinality")
	var upd *ssa.MapUpdate
	// the numbering may sit in Prepare or in a method of the same type it calls
	var updSite ssa.Instruction // where, in Prepare, the numbering happens
	for _, f := range append([]*ssa.Function{prep}, core.StaticReachList(prep)...) {
		if f == nil || f.Blocks == nil || upd != nil {
			continue
		}
		if f != prep && (core.RecvNamed2(f) == nil || core.RecvNamed2(f).Obj() != named.Obj()) {
			continue
		}
		for _, b := range f.Blocks {
			for _, in := range b.Instrs {
				if mu, ok := in.(*ssa.MapUpdate); ok && recvFieldOfValue(mu.Map, named) != "" {
					upd = mu
				}
			}
		}
		if upd != nil {
			if f == prep {
				updSite = upd
			} else {
				for _, call := range core.Calls(prep) {
					if sf := core.StaticFn(call); sf != nil && (sf == f || core.StaticReach(sf, 2)[f]) {
						updSite = call.(ssa.Instruction)
					}
				}
			}
		}
	}
	if upd != nil && updSite == nil {
		upd = nil
	}
	if upd == nil {
		c.R.Unk(rule, core.FuncName(prep), cfg, p.Pos(prep.Pos()), "no dictionary update found (anchor lost)")
		return
	}
	mapField := recvFieldOfValue(upd.Map, named)
	// (a) key derived from the dictionary size
	sized := core.DependsOn(upd.Value, func(v ssa.Value) bool {
		cl, ok := v.(*ssa.Call)
		if !ok {
			return false
		}
		if bi, ok := cl.Call.Value.(*ssa.Builtin); ok && bi.Name() == "len" {
			return recvFieldOfValue(cl.Call.Args[0], named) == mapField
		}
		if f := core.CalleeFunc(cl); f != nil && f.Name() == "Rows" {
			return true
		}
		return false
	}, false)
	if sized {
		c.R.Ok(rule, core.FuncName(prep), cfg, p.Pos(upd.Pos()), "new key = current dictionary size")
		return
	}
	// (b) map and index cleared on every path to the update
	target := func(in ssa.Instruction) bool { return in == updSite }
	mapCleared := func(in ssa.Instruction) bool {
		switch x := in.(type) {
		case *ssa.Store:
			if recvFieldOf(x.Addr, named) == mapField {
				_, isMake := x.Val.(*ssa.MakeMap)
				return isMake
			}
		case *ssa.Call:
			if bi, ok := x.Call.Value.(*ssa.Builtin); ok && bi.Name() == "clear" {
				return recvFieldOfValue(x.Call.Args[0], named) == mapField
			}
		}
		return false
	}
	indexCleared := func(in ssa.Instruction) bool {
		cl, ok := in.(ssa.CallInstruction)
		if !ok {
			return false
		}
		f := core.CalleeFunc(cl)
		if f == nil || f.Name() != "Reset" {
			return false
		}
		var rv ssa.Value
		if cl.Common().IsInvoke() {
			rv = cl.Common().Value
		} else if len(cl.Common().Args) > 0 {
			rv = cl.Common().Args[0]
		}
		return recvFieldOfValue(rv, named) == "index"
	}
	w1 := core.ReachAvoiding(core.Entry(prep), target, mapCleared, nil)
	w2 := core.ReachAvoiding(core.Entry(prep), target, indexCleared, nil)
	switch {
	case len(w1) > 0:
		c.R.Bad(rule, core.FuncName(prep), cfg, p.Pos(upd.Pos()), "keys are numbered from 0 on every Prepare, but the value->key map survives from the previous Prepare on some path: a value first seen now gets the key of another value", p.TrailString(w1[0])...)
	case len(w2) > 0:
		c.R.Bad(rule, core.FuncName(prep), cfg, p.Pos(upd.Pos()), "keys are numbered from 0 on every Prepare, but the index (dictionary) column is not cleared on some path (e.g. after the column was decoded into): stale dictionary entries stay in front of the new ones", p.TrailString(w2[0])...)
	default:
		c.R.Ok(rule, core.FuncName(prep), cfg, p.Pos(upd.Pos()), "map and index are cleared on every path before renumbering from 0")
	}
}

// ruleRebuild (C16.rebuild): key columns are rebuilt from length 0 in Prepare.
func ruleRebuild(c *Ctx, p *core.Program, rule string) {
	c.R.Rule(rule, "every slice field that Prepare recomputes from Values (keys, keys8..keys64, enum raw columns) is rebuilt from length 0 (append chain rooted at x[:0], a fresh slice or nil, followed through the helper that builds it), so preparing twice does not duplicate rows")
	cfg := p.Cfg.Name
	n := 0
	for _, ct := range columnTypes(p) {
		prep := methodOf(p, ct, "Prepare")
		if prep == nil || prep.Blocks == nil {
			continue
		}
		for _, b := range prep.Blocks {
			for _, in := range b.Instrs {
				s, ok := in.(*ssa.Store)
				if !ok {
					continue
				}
				f := recvFieldOf(s.Addr, ct)
				if f == "" || !contentField(ct, f) {
					continue
				}
				if _, isSlice := s.Val.Type().Underlying().(*types.Slice); !isSlice {
					continue
				}
				n++
				key := "rebuild/" + ct.Obj().Name() + "." + f
				if bad := appendRootBad(p, s.Val, 0, map[ssa.Value]bool{}); bad != "" {
					c.R.Bad(rule, key, cfg, p.Pos(s.Pos()), "Prepare extends "+f+" from "+bad+" instead of rebuilding it from length 0: a second Prepare/encode without Reset duplicates rows")
				} else {
					c.R.Ok(rule, key, cfg, p.Pos(s.Pos()), "rebuilt from length 0")
				}
			}
		}
	}
	// growth through Append* calls on a field: the field must have been truncated earlier in Prepare on every path
	for _, ct := range columnTypes(p) {
		prep := methodOf(p, ct, "Prepare")
		if prep == nil || prep.Blocks == nil {
			continue
		}
		for _, call := range core.Calls(prep) {
			f := core.CalleeFunc(call)
			if f == nil || !strings.HasPrefix(f.Name(), "Append") || call.Common().IsInvoke() || len(call.Common().Args) == 0 {
				continue
			}
			fld := recvFieldOfValue(call.Common().Args[0], ct)
			if fld == "" {
				if fa, ok := call.Common().Args[0].(*ssa.FieldAddr); ok {
					fld = recvFieldOf(fa, ct)
				}
			}
			if fld == "" || !contentField(ct, fld) {
				continue
			}
			n++
			key := "rebuild/" + ct.Obj().Name() + "." + fld
			trunc := func(x ssa.Instruction) bool {
				switch y := x.(type) {
				case *ssa.Store:
					if recvFieldOf(y.Addr, ct) != fld {
						return false
					}
					return appendRootBad(p, y.Val, 0, map[ssa.Value]bool{}) == ""
				case ssa.CallInstruction:
					cf := core.CalleeFunc(y)
					if cf != nil && cf.Name() == "Reset" && len(y.Common().Args) > 0 {
						if fa, ok := y.Common().Args[0].(*ssa.FieldAddr); ok && recvFieldOf(fa, ct) == fld {
							return true
						}
					}
				}
				return false
			}
			w := core.ReachAvoiding(core.Entry(prep), func(x ssa.Instruction) bool { return x == call.(ssa.Instruction) }, trunc, nil)
			if len(w) > 0 {
				c.R.Bad(rule, key, cfg, p.Pos(call.Pos()), "Prepare appends to "+fld+" without first truncating it: every further Prepare (each input round, each re-encode) piles rows on top of the previous ones")
			} else {
				c.R.Ok(rule, key, cfg, p.Pos(call.Pos()), "truncated, then refilled")
			}
		}
	}
	if n == 0 {
		c.R.Unk(rule, "population", cfg, "", "no slice field rebuilt by any Prepare (anchor lost)")
	}
}

// appendRootBad follows an append chain to its roots; returns a description of
// a root that is neither x[:0], a fresh slice nor nil ("" = all roots fine).
func appendRootBad(p *core.Program, v ssa.Value, d int, seen map[ssa.Value]bool) string {
	if d > 12 || seen[v] {
		return ""
	}
	seen[v] = true
	switch x := v.(type) {
	case *ssa.Const:
		return ""
	case *ssa.MakeSlice:
		return ""
	case *ssa.Slice:
		if x.High != nil {
			if h, ok := core.ConstInt(x.High); ok && h == 0 {
				return ""
			}
		}
		if _, ok := x.X.(*ssa.Alloc); ok {
			return "" // slice of a fresh array
		}
		return "a slice of unknown length (" + x.String() + ")"
	case *ssa.Phi:
		for _, e := range x.Edges {
			if b := appendRootBad(p, e, d+1, seen); b != "" {
				return b
			}
		}
		return ""
	case *ssa.Call:
		if bi, ok := x.Call.Value.(*ssa.Builtin); ok && bi.Name() == "append" {
			return appendRootBad(p, x.Call.Args[0], d+1, seen)
		}
		if sf := core.StaticFn(x); sf != nil && sf.Blocks != nil {
			// follow the helper's return values; parameters map to arguments
			for _, b := range sf.Blocks {
				for _, in := range b.Instrs {
					if r, ok := in.(*ssa.Return); ok && len(r.Results) > 0 {
						if bad := appendRootBad(p, r.Results[0], d+1, seen); bad != "" {
							return bad
						}
					}
				}
			}
			return ""
		}
		return "the result of " + calleeName(x)
	case *ssa.ChangeType:
		return appendRootBad(p, x.X, d+1, seen)
	case *ssa.Parameter:
		return "its previous contents (parameter " + x.Name() + " used at full length)"
	case *ssa.UnOp:
		if x.Op == token.MUL {
			return "its previous contents (" + x.X.String() + ")"
		}
	}
	return "an unrecognised value (" + v.String() + ")"
}

// ---------------------------------------------------------------------------
// C18

func runC18(c *Ctx) {
	p := c.Prog(core.CfgDefault)
	if p == nil {
		return
	}
	cfg := p.Cfg.Name
	dr := p.Method(core.PkgProto, "Results", "DecodeResult")
	if !c.must(p, "Results.DecodeResult", dr != nil) {
		return
	}
	// the per-column part may live in a method DecodeResult calls for each column: the data-flow clauses
	// are then decided there (its wire-derived parameters resolved at the call site), the count test in
	// DecodeResult itself
	outer := dr
	var hostCall ssa.CallInstruction
	tailHelpers := map[*ssa.Function]bool{}
	if len(core.FindCalls(dr, isColMethod("DecodeColumn"))) == 0 {
		for _, call := range core.Calls(dr) {
			if sf := core.StaticFn(call); sf != nil && sf.Blocks != nil && pkgOf(sf) != nil && pkgOf(sf).Path() == core.PkgProto && len(core.FindCalls(sf, isColMethod("DecodeColumn"))) > 0 {
				// a helper that only hosts the tail of the iteration (reset and decode) while the checks stay
				// in DecodeResult is a sink of DecodeResult, not the host of the clauses
				if len(core.FindCalls(sf, func(f *types.Func) bool { return core.IsMethod(f, core.PkgProto, "ColumnType", "Conflicts") })) == 0 &&
					len(core.FindCalls(dr, func(f *types.Func) bool { return core.IsMethod(f, core.PkgProto, "ColumnType", "Conflicts") })) > 0 {
					tailHelpers[sf] = true
					continue
				}
				dr, hostCall = sf, call
			}
		}
	}
	isStrRead := func(x ssa.Value) bool {
		_, ok := core.CallTo(x, func(f *types.Func) bool { return core.IsMethod(f, core.PkgProto, "Reader", "Str") })
		return ok
	}
	wireParam := func(v ssa.Value) bool {
		if hostCall == nil {
			return false
		}
		return core.DependsOn(v, func(x ssa.Value) bool {
			pr, ok := x.(*ssa.Parameter)
			if !ok {
				return false
			}
			for i, q := range dr.Params {
				if q == pr && i < len(hostCall.Common().Args) {
					return core.DependsOn(hostCall.Common().Args[i], isStrRead, false)
				}
			}
			return false
		}, false)
	}
	siteOf := func(s ssa.Instruction) ssa.Instruction {
		if hostCall != nil {
			return hostCall.(ssa.Instruction)
		}
		return s
	}
	rule := "C18.order"
	c.R.Rule(rule, "in Results.DecodeResult the calls that put data into a target (DecodeState, DecodeColumn on s[i].Data) are reachable only through the passing edges of the column-count test, of the name comparison and of ColumnType.Conflicts, after Infer (when the target is Inferable) and after Reset; Conflicts compares the block's type with the target's type")
	var sinks []ssa.Instruction
	for _, name := range []string{"DecodeColumn", "DecodeState"} {
		for _, call := range core.FindCalls(dr, isColMethod(name)) {
			sinks = append(sinks, call.(ssa.Instruction))
		}
	}
	for _, call := range core.Calls(dr) {
		if sf := core.StaticFn(call); sf != nil && tailHelpers[sf] {
			sinks = append(sinks, call.(ssa.Instruction))
		}
	}
	if len(sinks) < 2 && len(tailHelpers) == 0 || len(sinks) == 0 {
		c.R.Unk(rule, core.FuncName(dr), cfg, p.Pos(dr.Pos()), "decode calls not found")
		return
	}
	// count test: the If whose true edge returns an Errorf and whose condition derives from len(s) and b.Columns
	conflFalse := core.CondEdges(dr, false, func(cond ssa.Value) (bool, bool) {
		_, ok := core.CallTo(cond, func(f *types.Func) bool { return core.IsMethod(f, core.PkgProto, "ColumnType", "Conflicts") })
		return true, ok
	})
	nameOK := core.CondEdges(dr, false, func(cond ssa.Value) (bool, bool) {
		bo, ok := cond.(*ssa.BinOp)
		if !ok || (bo.Op != token.NEQ && bo.Op != token.EQL) {
			return false, false
		}
		isStr := func(v ssa.Value) bool {
			b, ok := v.Type().Underlying().(*types.Basic)
			return ok && b.Kind() == types.String
		}
		if !isStr(bo.X) || !isStr(bo.Y) {
			return false, false
		}
		l, r := core.FieldOrigin(bo.X, 0), core.FieldOrigin(bo.Y, 0)
		fromWire := func(v ssa.Value) bool {
			return core.DependsOn(v, isStrRead, false) || wireParam(v)
		}
		if (l == "ResultColumn.Name" && fromWire(bo.Y)) || (r == "ResultColumn.Name" && fromWire(bo.X)) {
			return bo.Op == token.NEQ, true // predicate: names differ
		}
		return false, false
	})
	countOK := core.CondEdges(outer, false, func(cond ssa.Value) (bool, bool) {
		// columnsMismatch && !allowMismatch : the first operand decides; accept any condition that depends on both len(s) and Block.Columns
		depLen := core.DependsOn(cond, func(x ssa.Value) bool {
			cl, ok := x.(*ssa.Call)
			if !ok {
				return false
			}
			bi, ok := cl.Call.Value.(*ssa.Builtin)
			return ok && bi.Name() == "len"
		}, false)
		depCols := core.DependsOn(cond, func(x ssa.Value) bool { return core.FieldOrigin(x, 0) == "Block.Columns" }, false)
		bo, isCmp := cond.(*ssa.BinOp)
		if depLen && depCols && isCmp && bo.Op == token.NEQ {
			return true, true
		}
		return false, false
	})
	// the same comparison inside a boolean helper of package proto (`if !s.fits(b)`): both edges of the
	// test are candidates, the clause below keeps the one whose other side can fail (what the helper
	// computes is decided case by case in C18.count)
	for _, b := range outer.Blocks {
		ifi, ok := b.Instrs[len(b.Instrs)-1].(*ssa.If)
		if !ok {
			continue
		}
		cv, _ := core.StripNot(ifi.Cond)
		cl, ok := cv.(*ssa.Call)
		if !ok {
			continue
		}
		g := core.StaticFn(cl)
		if g == nil || g.Blocks == nil || pkgOf(g) == nil || pkgOf(g).Path() != core.PkgProto {
			continue
		}
		has := false
		for _, gb := range g.Blocks {
			for _, gi := range gb.Instrs {
				bo, ok := gi.(*ssa.BinOp)
				if !ok || (bo.Op != token.NEQ && bo.Op != token.EQL) {
					continue
				}
				isLen := func(x ssa.Value) bool {
					c2, ok := stripConv(x).(*ssa.Call)
					if !ok {
						return false
					}
					bi, ok := c2.Call.Value.(*ssa.Builtin)
					return ok && bi.Name() == "len"
				}
				isCols := func(x ssa.Value) bool { return strings.HasSuffix(core.FieldOrigin(stripConv(x), 0), "Block.Columns") }
				if isLen(bo.X) && isCols(bo.Y) || isLen(bo.Y) && isCols(bo.X) {
					has = true
				}
			}
		}
		if has {
			countOK = append(countOK, core.Edge{B: b, Succ: 0}, core.Edge{B: b, Succ: 1})
		}
	}
	for _, s := range sinks {
		key := core.CallKey(dr, s.(ssa.CallInstruction))
		var why []string
		if len(conflFalse) == 0 || !core.OnlyViaEdges(dr, s, conflFalse) {
			why = append(why, "the type-compatibility test (Conflicts)")
		}
		// a branch that gives an unnamed target the wire name (t.Name = columnName) establishes the equality as well
		namedFromWire := func(in ssa.Instruction) bool {
			st, ok := in.(*ssa.Store)
			if !ok {
				return false
			}
			fa, ok := st.Addr.(*ssa.FieldAddr)
			if !ok || fieldNameOnly(fa.X.Type(), fa.Field) != "Name" || !core.IsNamed(fa.X.Type(), core.PkgProto, "ResultColumn") {
				return false
			}
			return core.DependsOn(st.Val, isStrRead, false) || wireParam(st.Val)
		}
		if len(nameOK) == 0 || len(core.ReachAvoiding(core.Entry(dr), func(in ssa.Instruction) bool { return in == s }, namedFromWire, core.WithoutEdges(nameOK))) > 0 {
			why = append(why, "the column-name comparison")
		}
		// count test: exists, dominates the sink, and its mismatch edge can fail before any sink
		cntOK := false
		for _, e := range countOK {
			ifi := e.B.Instrs[len(e.B.Instrs)-1]
			if !core.Dominates(ifi, siteOf(s)) {
				continue
			}
			start := core.Point{B: e.B.Succs[1-e.Succ], I: -1}
			fails := core.ReachAvoiding(start, func(in ssa.Instruction) bool {
				r, ok := in.(*ssa.Return)
				return ok && !defaultSuccess(outer, r)
			}, func(in ssa.Instruction) bool { return in == siteOf(s) }, nil)
			if len(fails) > 0 {
				cntOK = true
			}
		}
		if !cntOK {
			why = append(why, "the column-count test")
		}
		// Infer: after a successful assertion to Inferable, Conflicts is not reachable without Infer
		infOK := false
		for _, b := range dr.Blocks {
			for _, in := range b.Instrs {
				ta, ok := in.(*ssa.TypeAssert)
				if !ok || !ta.CommaOk || !core.IsNamed(ta.AssertedType, core.PkgProto, "Inferable") {
					continue
				}
				okEdges := core.CondEdges(dr, true, func(cond ssa.Value) (bool, bool) {
					e, ok := cond.(*ssa.Extract)
					return true, ok && e.Tuple == ta && e.Index == 1
				})
				for _, cf := range core.FindCalls(dr, func(f *types.Func) bool { return core.IsMethod(f, core.PkgProto, "ColumnType", "Conflicts") }) {
					if !core.Dominates(ta, cf.(ssa.Instruction)) {
						continue
					}
					good := len(okEdges) > 0
					for _, e := range okEdges {
						start := core.Point{B: e.B.Succs[e.Succ], I: -1}
						w := core.ReachAvoiding(start, func(x ssa.Instruction) bool { return x == cf.(ssa.Instruction) }, func(x ssa.Instruction) bool {
							return core.IsCallOf(x, isColMethod("Infer"))
						}, nil)
						if len(w) > 0 {
							good = false
						}
					}
					if good {
						infOK = true
					}
				}
			}
		}
		if !infOK {
			why = append(why, "inference (Infer must run before the type comparison)")
		}
		if len(why) > 0 {
			c.R.Bad(rule, key, cfg, p.Pos(s.Pos()), "a target can receive data without passing "+strings.Join(why, ", "))
		} else {
			c.R.Ok(rule, key, cfg, p.Pos(s.Pos()), "guarded by count, name, Infer, Conflicts")
		}
	}
	// every column that passed the name check is type-checked and reset, whether or not the block has rows:
	// from the passing edge of the name comparison neither the next iteration nor a success exit is reachable
	// without the Conflicts test (a header-only block answers a SELECT that returns no rows: skipping the check
	// there accepts String into a UInt64 target with a nil error) and without Reset
	if len(nameOK) > 0 {
		isConf := func(in ssa.Instruction) bool {
			return core.IsCallOf(in, func(f *types.Func) bool { return core.IsMethod(f, core.PkgProto, "ColumnType", "Conflicts") })
		}
		isReset := func(in ssa.Instruction) bool {
			if core.IsCallOf(in, isColMethod("Reset")) {
				return true
			}
			// the tail helper resets on every path (decided by *.reset / C16.before)
			if call, ok := in.(ssa.CallInstruction); ok {
				if sf := core.StaticFn(call); sf != nil && tailHelpers[sf] {
					return len(core.ReachAvoiding(core.Entry(sf), func(x ssa.Instruction) bool {
						_, isRet := x.(*ssa.Return)
						return isRet && x.Block().Comment != "recover"
					}, func(x ssa.Instruction) bool { return core.IsCallOf(x, isColMethod("Reset")) }, nil)) == 0
				}
			}
			return false
		}
		for _, e := range nameOK {
			start := core.Point{B: e.B.Succs[e.Succ], I: -1}
			hdr := core.LoopHeader(e.B.Instrs[len(e.B.Instrs)-1])
			next := func(in ssa.Instruction) bool {
				if ret, ok := in.(*ssa.Return); ok && defaultSuccess(dr, ret) {
					return true
				}
				return hdr != nil && in.Block() == hdr && in == hdr.Instrs[0]
			}
			for what, pass := range map[string]func(ssa.Instruction) bool{"typecheck": isConf, "reset": isReset} {
				key := core.FuncName(dr) + "/always-" + what
				if w := core.ReachAvoiding(start, next, pass, nil); len(w) > 0 {
					c.R.Bad(rule, key, cfg, p.Pos(w[0].At.Pos()), "a column can be accepted (the loop moves on, or DecodeResult succeeds) without the "+map[string]string{"typecheck": "type-compatibility test", "reset": "Reset of its target"}[what]+": for a block without rows the mismatch goes unreported / the target keeps the previous block's rows", p.TrailString(w[0])...)
				} else {
					c.R.Ok(rule, key, cfg, p.Pos(dr.Pos()), "on every path of an accepted column")
				}
			}
		}
	}
	// Conflicts compares got (wire) with has (target.Type())
	for _, cf := range core.FindCalls(dr, func(f *types.Func) bool { return core.IsMethod(f, core.PkgProto, "ColumnType", "Conflicts") }) {
		args := cf.Common().Args
		wire := func(v ssa.Value) bool {
			return core.DependsOn(v, isStrRead, false) || wireParam(v)
		}
		typ := func(v ssa.Value) bool {
			return core.DependsOn(v, func(x ssa.Value) bool {
				cl, ok := x.(*ssa.Call)
				return ok && cl.Call.IsInvoke() && cl.Call.Method.Name() == "Type"
			}, false)
		}
		if len(args) == 2 && ((wire(args[0]) && typ(args[1])) || (wire(args[1]) && typ(args[0]))) {
			c.R.Ok(rule, core.CallKey(dr, cf)+"/operands", cfg, p.Pos(cf.Pos()), "block type vs target.Type()")
		} else {
			c.R.Bad(rule, core.CallKey(dr, cf)+"/operands", cfg, p.Pos(cf.Pos()), "Conflicts does not compare the block's type string with the target's Type()")
		}
	}

	// ---- C18.names
	rule = "C18.names"
	c.R.Rule(rule, "a blank target name is filled from the block and written back into the Results slice (so later blocks are held to it): on the edge `t.Name == \"\"` every path to the name comparison stores the updated column into s[i]")
	func() {
		blank := core.CondEdges(dr, true, func(cond ssa.Value) (bool, bool) {
			bo, ok := cond.(*ssa.BinOp)
			if !ok || (bo.Op != token.EQL && bo.Op != token.NEQ) {
				return false, false
			}
			cst, ok := bo.Y.(*ssa.Const)
			if !ok || cst.Value == nil || cst.Value.String() != `""` || core.FieldOrigin(bo.X, 0) != "ResultColumn.Name" {
				return false, false
			}
			return bo.Op == token.EQL, true
		})
		if len(blank) == 0 {
			c.R.Bad(rule, core.FuncName(dr), cfg, p.Pos(dr.Pos()), "blank target names are not inferred from the block")
			return
		}
		isWriteBack := func(in ssa.Instruction) bool {
			s, ok := in.(*ssa.Store)
			if !ok {
				return false
			}
			ia, ok := s.Addr.(*ssa.IndexAddr)
			if ok && core.IsNamed(ia.X.Type(), core.PkgProto, "Results") {
				return true
			}
			// field store through &s[i].Name
			if fa, ok := s.Addr.(*ssa.FieldAddr); ok {
				if ia, ok := fa.X.(*ssa.IndexAddr); ok && core.IsNamed(ia.X.Type(), core.PkgProto, "Results") {
					return true
				}
			}
			return false
		}
		bad := false
		for _, e := range blank {
			start := core.Point{B: e.B.Succs[e.Succ], I: -1}
			w := core.ReachAvoiding(start, func(in ssa.Instruction) bool {
				for _, s := range sinks {
					if in == s {
						return true
					}
				}
				return false
			}, isWriteBack, nil)
			if len(w) > 0 {
				bad = true
				c.R.Bad(rule, core.FuncName(dr), cfg, p.Pos(w[0].At.Pos()), "the inferred name is used for this block only and not stored back into the Results: the next block may bind a differently named (permuted) column to the same target without error")
			}
		}
		if !bad {
			c.R.Ok(rule, core.FuncName(dr), cfg, p.Pos(dr.Pos()), "inferred name written back to s[i] before it is compared")
		}
	}()

	// ---- C18.custom
	ruleCustomFlag(c, p, "C18.custom")

	ruleResetBefore(c, p, "C18.reset")
	ruleColumnCount(c, p, "C18.colcount")
	ruleConflictsSymm(c, p, "C18.symm")
	ruleLenientWidth(c, p, "C18.lenient")
	ruleVersionPassThrough(c, p, "C18.version-through")
	ruleStringIdioms(c, p, "C18.idioms")
	ruleWrapperElem(c, p, "C18.wrapper-elem")
	ruleEndMarker(c, p, "C18.endmarker")
	ruleCountCases(c, p, "C18.count")
	ruleInferErrors(c, p, "C18.infer-errors")
	ruleAutoAdopts(c, p, "C18.auto-adopt")
	ruleInferMaps(c, p, "C18.exact")
	ruleMapInfer(c, p, "C18.mapinfer")
	ruleInferCache(c, p, "C18.infer-cache")
	ruleInferNoSharedState(c, p, "C18.shared-state")
	ruleEchoedTypeValidated(c, p, "C18.echo")
	ruleAutoRecordsType(c, p, "C18.auto-records")
	ruleNoCommaSplit(c, p, "C18.comma-split")
	ruleAutoTargetsKept(c, p, "C18.targets-kept")
	ruleElemFromEnd(c, p, "C18.elem-last")
	ruleNoPrepareInDecode(c, p, "C18.no-prepare")
	ruleNormalizeKeepsBlanks(c, p, "C18.normalize")
	ruleAdopt(c, p, "C18.adopt")
	ruleInferTables(c, p, "C18")
	c.R.Assumptions = append(c.R.Assumptions,
		"decided: order and presence of the count / name / inference / compatibility / reset guards, name write-back, custom-serialization rejection, unconditional adoption of server parameters by Infer; the compatibility relation itself is C19; not decided: message text of the mismatch errors")
}

// reachesBefore: a is executed before b on every path to b within one loop iteration (a dominates b).
func reachesBefore(a, b ssa.Instruction) bool { return core.Dominates(a, b) }

// ruleAdopt: Infer adopts the server's parameters independently of the target's previous parameters.
func ruleAdopt(c *Ctx, p *core.Program, rule string) {
	c.R.Rule(rule, "inferable leaf columns adopt the parameters of the server's type: in every Infer method of a non-wrapper column, the stores to the fields that Type() reports (precision, location, enum mapping, ...) are not control-dependent on those same fields of the receiver - a target that already has a precision must still take the block's")
	cfg := p.Cfg.Name
	n := 0
	for _, ct := range columnTypes(p) {
		inf := methodOf(p, ct, "Infer")
		typ := methodOf(p, ct, "Type")
		if inf == nil || typ == nil || inf.Blocks == nil || typ.Blocks == nil {
			continue
		}
		if _, isStruct := ct.Underlying().(*types.Struct); !isStruct {
			continue
		}
		// parameter fields = fields read by Type()
		params := map[string]bool{}
		for f := range core.StaticReach(typ, 1) {
			for _, b := range f.Blocks {
				for _, in := range b.Instrs {
					switch x := in.(type) {
					case *ssa.FieldAddr:
						if nn := core.NamedOf(x.X.Type()); nn != nil && nn.Obj() == ct.Obj() {
							params[fieldNameOnly(x.X.Type(), x.Field)] = true
						}
					case *ssa.Field:
						if nn := core.NamedOf(x.X.Type()); nn != nil && nn.Obj() == ct.Obj() {
							params[fieldNameOnly(x.X.Type(), x.Field)] = true
						}
					}
				}
			}
		}
		for f := range params {
			if contentField(ct, f) && f != "Values" {
				delete(params, f)
			}
		}
		// scalar fields Infer itself assigns (ColEnum.base) describe the held definition just as the reported ones do
		inferStored := map[string]bool{}
		for _, b := range inf.Blocks {
			for _, in := range b.Instrs {
				if s, ok := in.(*ssa.Store); ok {
					if f := recvFieldOf(s.Addr, ct); f != "" && !contentField(ct, f) {
						inferStored[f] = true
					}
				}
			}
		}
		var stores []ssa.Instruction
		for _, b := range inf.Blocks {
			for _, in := range b.Instrs {
				if s, ok := in.(*ssa.Store); ok {
					if f := recvFieldOf(s.Addr, ct); f != "" && params[f] {
						stores = append(stores, s)
					}
				}
				// a helper (parse) that stores the parameters counts at its call site
				if call, ok := in.(*ssa.Call); ok {
					if sf := core.StaticFn(call); sf != nil && sf.Blocks != nil && pkgOf(sf) != nil && pkgOf(sf).Path() == core.PkgProto {
						for _, hb := range sf.Blocks {
							for _, hi := range hb.Instrs {
								if hs, ok := hi.(*ssa.Store); ok {
									if f := recvFieldOf(hs.Addr, ct); f != "" && (params[f] || !contentField(ct, f) || true) && recvFieldOf(hs.Addr, ct) != "" {
										stores = append(stores, in)
									}
								}
							}
						}
					}
				}
			}
		}
		if len(stores) == 0 {
			continue
		}
		n++
		key := "adopt/" + ct.Obj().Name()
		// If conditions reading a parameter field of the receiver
		var own []core.Edge
		for _, b := range inf.Blocks {
			ifi, ok := b.Instrs[len(b.Instrs)-1].(*ssa.If)
			if !ok {
				continue
			}
			dep := core.DependsOn(ifi.Cond, func(v ssa.Value) bool {
				f := recvFieldOfValue(v, ct)
				return f != "" && (params[f] || inferStored[f])
			}, true)
			if dep {
				own = append(own, core.Edge{B: b, Succ: 0}, core.Edge{B: b, Succ: 1})
			}
		}
		bad := false
		isStore := func(x ssa.Instruction) bool {
			for _, s := range stores {
				if s == x {
					return true
				}
			}
			return false
		}
		for _, e := range own {
			// after a test of the target's own previous parameters, success without adopting anything
			hits := core.ReachAvoiding(core.Point{B: e.B.Succs[e.Succ], I: -1}, func(x ssa.Instruction) bool {
				ret, ok := x.(*ssa.Return)
				return ok && x.Block().Comment != "recover" && defaultSuccess(inf, ret)
			}, isStore, nil)
			if len(hits) > 0 {
				bad = true
				c.R.Bad(rule, key, cfg, p.Pos(hits[0].At.Pos()), "Infer can succeed without adopting the server's parameters, depending on the target's own previous parameters: a target configured or inferred earlier keeps its old parameter while Conflicts accepts the server's type, so values are decoded with the wrong scale / mapping")
				break
			}
		}
		if !bad {
			c.R.Ok(rule, key, cfg, p.Pos(inf.Pos()), sprintf("%d parameter stores, none guarded by the target's previous parameters", len(stores)))
		}
	}
	c.R.Count("inferable leaf columns", n)
	if n < 2 {
		c.R.Unk(rule, "population", cfg, "", sprintf("%d inferable leaf columns found", n))
	}
}

// ruleNoAdopt (C16.alias): Append* copies, it never adopts the caller's slice.
func ruleNoAdopt(c *Ctx, p *core.Program, rule string) {
	c.R.Rule(rule, "ownership: no Append* method of a column type stores a slice parameter (or a re-slice of it) into the column: the column's storage must be its own, otherwise a later Append after Reset writes into the caller's array and rows already handed over change under the caller (and the other way round)")
	cfg := p.Cfg.Name
	n := 0
	for _, ct := range columnTypes(p) {
		for i := 0; i < ct.NumMethods(); i++ {
			m := ct.Method(i)
			if !strings.HasPrefix(m.Name(), "Append") {
				continue
			}
			fn := p.Prog.FuncValue(m)
			if fn == nil || fn.Blocks == nil {
				continue
			}
			n++
			key := ct.Obj().Name() + "." + m.Name()
			var fromParam func(v ssa.Value, d int) bool
			fromParam = func(v ssa.Value, d int) bool {
				if d > 6 {
					return false
				}
				switch x := v.(type) {
				case *ssa.Parameter:
					_, isSlice := x.Type().Underlying().(*types.Slice)
					return isSlice && len(fn.Params) > 0 && x != fn.Params[0]
				case *ssa.Slice:
					return fromParam(x.X, d+1)
				case *ssa.Phi:
					for _, e := range x.Edges {
						if fromParam(e, d+1) {
							return true
						}
					}
				case *ssa.ChangeType:
					return fromParam(x.X, d+1)
				}
				return false
			}
			bad := false
			for _, b := range fn.Blocks {
				for _, in := range b.Instrs {
					st, ok := in.(*ssa.Store)
					if !ok || !fromParam(st.Val, 0) {
						continue
					}
					ap := accessPath(st.Addr, 0)
					if ap == "recv" || strings.HasPrefix(ap, "recv.") {
						bad = true
						c.R.Bad(rule, key, cfg, p.Pos(st.Pos()), "the caller's slice is stored into "+ap+" without a copy: column and caller share one backing array")
					}
				}
			}
			if !bad {
				c.R.Ok(rule, key, cfg, p.Pos(fn.Pos()), "no parameter slice adopted")
			}
		}
	}
	c.R.Floor(rule, cfg, n, 60)
}

// ruleEndMarker: Block.End() is true for the empty block only.
func ruleEndMarker(c *Ctx, p *core.Program, rule string) {
	c.R.Rule(rule, "constant folding of Block.End over the sign cases of (Columns, Rows): it is true exactly when both are zero - the end-of-data shortcut of DecodeRawBlock returns before the column-count and `rows without target` checks, so a looser predicate lets a malformed header (0 columns, N rows or N columns, 0 rows) bypass them and the block is silently dropped with the targets keeping the previous block's rows")
	cfg := p.Cfg.Name
	end := p.Method(core.PkgProto, "Block", "End")
	if !c.must(p, "(*proto.Block).End", end != nil) {
		return
	}
	var wrong []string
	for _, cs := range [][2]int64{{0, 0}, {0, 1}, {1, 0}, {1, 1}, {0, 7}, {3, 0}} {
		v, ok := core.FoldPredicate(end, map[string]int64{"Columns": cs[0], "Rows": cs[1]})
		if !ok {
			c.R.Unk(rule, "Block.End", cfg, p.Pos(end.Pos()), "Block.End is not a loop-free predicate over Columns and Rows")
			return
		}
		want := int64(0)
		if cs[0] == 0 && cs[1] == 0 {
			want = 1
		}
		if v != want {
			wrong = append(wrong, sprintf("End(Columns=%d, Rows=%d) = %v", cs[0], cs[1], v != 0))
		}
	}
	if len(wrong) > 0 {
		c.R.Bad(rule, "Block.End", cfg, p.Pos(end.Pos()), strings.Join(wrong, "; "))
	} else {
		c.R.Ok(rule, "Block.End", cfg, p.Pos(end.Pos()), "true exactly for Columns = 0 and Rows = 0 (6 cases folded)")
	}
}

type clearPoint struct {
	in  ssa.Instruction
	hdr *ssa.BasicBlock // header of the loop the instruction sits in (zero iterations = nothing to clear)
}

// resetClearPoints: the instructions in reset's own body that clear each receiver field.
func resetClearPoints(p *core.Program, reset *ssa.Function, named *types.Named) map[string][]clearPoint {
	out := map[string][]clearPoint{}
	add := func(f string, in ssa.Instruction) {
		cp := clearPoint{in: in}
		if core.InLoop(in) {
			cp.hdr = core.LoopHeader(in)
		}
		out[f] = append(out[f], cp)
	}
	for _, b := range reset.Blocks {
		for _, in := range b.Instrs {
			switch x := in.(type) {
			case *ssa.Store:
				if nm := recvFieldOf(x.Addr, named); nm != "" {
					add(nm, in)
				}
			case *ssa.MapUpdate:
				if nm := recvFieldOfValue(x.Map, named); nm != "" {
					add(nm, in)
				}
			case ssa.CallInstruction:
				cc := x.Common()
				if bi, ok := cc.Value.(*ssa.Builtin); ok && (bi.Name() == "delete" || bi.Name() == "clear") {
					if nm := recvFieldOfValue(cc.Args[0], named); nm != "" {
						add(nm, in)
					}
					continue
				}
				// a call into a library function: counts for every field that function (and what it calls) stores to
				if sf := core.StaticFn(x); sf != nil && pkgOf(sf) != nil && pkgOf(sf).Path() == core.PkgProto && sf != reset {
					for f := range recvFieldStores(p, sf, named) {
						add(f, in)
					}
				}
				cf := core.CalleeFunc(x)
				if cf != nil && cf.Name() == "Reset" {
					var rv ssa.Value
					if cc.IsInvoke() {
						rv = cc.Value
					} else if len(cc.Args) > 0 {
						rv = cc.Args[0]
					}
					if nm := recvFieldOfValue(rv, named); nm != "" {
						add(nm, in)
					}
					if rc, ok := rv.(*ssa.Call); ok {
						if hf := core.StaticFn(rc); hf != nil {
							for _, hb := range hf.Blocks {
								for _, hi := range hb.Instrs {
									if fa, ok := hi.(*ssa.FieldAddr); ok {
										if n := core.NamedOf(fa.X.Type()); n != nil && n.Obj() == named.Obj() {
											add(fieldNameOnly(fa.X.Type(), fa.Field), in)
										}
									}
								}
							}
						}
					}
				}
			}
		}
	}
	return out
}

// ruleCustomFlag (C18.custom / C13.custom): the custom-serialization flag is read under its revision gate and rejected when set.
func ruleCustomFlag(c *Ctx, p *core.Program, rule string) {
	cfg := p.Cfg.Name
	c.R.Rule(rule, "all three column-header decoders (Results.DecodeResult, Results.decodeAuto, ColInfoInput.DecodeResult - and the no-target path of DecodeRawBlock) read the custom-serialization flag under the FeatureCustomSerialization gate and fail when it is set")
	func() {
		csK, _ := constOf(p, core.PkgProto, "FeatureCustomSerialization")
		var fns []*ssa.Function
		fns = append(fns, resultDecoders(c, p)...)
		if ci := p.Method(core.PkgProto, "ColInfoInput", "DecodeResult"); ci != nil {
			fns = append(fns, ci)
		}
		if rb := p.Method(core.PkgProto, "Block", "DecodeRawBlock"); rb != nil {
			// the no-target path may have been moved into a helper: take the function that reads the flag
			holder := rb
			isBool := func(f *types.Func) bool { return core.IsMethod(f, core.PkgProto, "Reader", "Bool") }
			if len(core.FindCalls(rb, isBool)) == 0 {
				for _, call := range core.Calls(rb) {
					if sf := core.StaticFn(call); sf != nil && sf.Blocks != nil && pkgOf(sf) != nil && pkgOf(sf).Path() == core.PkgProto && len(core.FindCalls(sf, isBool)) > 0 && core.RecvNamed2(sf) == nil {
						holder = sf
					}
				}
			}
			fns = append(fns, holder)
		}
		for _, fn := range fns {
			key := core.FuncName(fn)
			gate := core.CondEdges(fn, true, func(cond ssa.Value) (bool, bool) {
				k, _, ok := featureGate(cond)
				return true, ok && k == csK
			})
			if len(gate) == 0 {
				c.R.Bad(rule, key, cfg, p.Pos(fn.Pos()), "the custom-serialization flag is not read under its feature gate")
				continue
			}
			// a Bool() read under the gate whose true edge only fails
			okFlag := false
			for _, call := range core.FindCalls(fn, func(f *types.Func) bool { return core.IsMethod(f, core.PkgProto, "Reader", "Bool") }) {
				if !core.OnlyViaEdges(fn, call.(ssa.Instruction), gate) {
					continue
				}
				var flag ssa.Value
				for _, r := range *call.Value().Referrers() {
					if e, ok := r.(*ssa.Extract); ok && e.Index == 0 {
						flag = e
					}
				}
				if flag == nil {
					continue
				}
				al := core.Aliases(fn, flag)
				tr := core.CondEdges(fn, true, func(cond ssa.Value) (bool, bool) { return true, al[cond] })
				for _, e := range tr {
					start := core.Point{B: e.B.Succs[e.Succ], I: -1}
					w := core.ReachAvoiding(start, func(in ssa.Instruction) bool {
						if r, ok := in.(*ssa.Return); ok {
							return defaultSuccess(fn, r)
						}
						return core.IsCallOf(in, isColMethod("DecodeColumn"))
					}, nil, nil)
					if len(w) == 0 {
						okFlag = true
					}
				}
			}
			if okFlag {
				c.R.Ok(rule, key, cfg, p.Pos(fn.Pos()), "flag read under the gate; set flag fails")
			} else {
				c.R.Bad(rule, key, cfg, p.Pos(fn.Pos()), "a set custom-serialization flag does not fail the decode")
			}
		}
	}()
}

// ruleEncoderPure (C16.pure): encoding does not modify the column.
func ruleEncoderPure(c *Ctx, p *core.Program, rule string) {
	c.R.Rule(rule, "EncodeColumn / WriteColumn / EncodeState of a column type do not write to the column's own memory: no store to an address derived from the receiver (fields, elements, or a byte view obtained through unsafe), and no receiver-derived slice handed to an in-place writer (bswap.Swap64, the destination of copy, encoding/binary Put*): a zero-copy encoder that transforms the rows in place sends correct bytes once and leaves the column changed, so encoding again (or reading rows back) yields different values")
	cfg := p.Cfg.Name
	n := 0
	for _, ct := range columnTypes(p) {
		for _, mn := range []string{"EncodeColumn", "WriteColumn", "EncodeState"} {
			fn := methodOf(p, ct, mn)
			if fn == nil || fn.Blocks == nil || len(fn.Params) == 0 {
				continue
			}
			n++
			key := ct.Obj().Name() + "." + mn
			recv := fn.Params[0]
			fromRecv := func(v ssa.Value) bool {
				return core.DependsOn(v, func(x ssa.Value) bool { return x == ssa.Value(recv) }, false)
			}
			bad := false
			report := func(pos token.Pos, what string) {
				if !bad {
					bad = true
					c.R.Bad(rule, key, cfg, p.Pos(pos), what)
				}
			}
			for _, b := range fn.Blocks {
				for _, in := range b.Instrs {
					switch x := in.(type) {
					case *ssa.Store:
						// writes into memory the receiver points to: element / field behind a pointer, not the local copy of a value receiver
						switch a := x.Addr.(type) {
						case *ssa.IndexAddr:
							if fromRecv(a.X) {
								if _, isLocalArr := a.X.(*ssa.Alloc); !isLocalArr {
									report(x.Pos(), "an element of the column's storage is assigned while encoding")
								}
							}
						case *ssa.FieldAddr:
							if a.X == ssa.Value(recv) {
								if _, isPtr := recv.Type().Underlying().(*types.Pointer); isPtr {
									report(x.Pos(), "a field of the column is assigned while encoding")
								}
							}
						}
					case ssa.CallInstruction:
						cc := x.Common()
						var dst ssa.Value
						if bi, ok := cc.Value.(*ssa.Builtin); ok && bi.Name() == "copy" {
							dst = cc.Args[0]
						} else if f := core.CalleeFunc(x); f != nil && f.Pkg() != nil {
							switch {
							case strings.HasSuffix(f.Pkg().Path(), "/bswap") && strings.HasPrefix(f.Name(), "Swap"):
								dst = cc.Args[0]
							case f.Pkg().Path() == "encoding/binary" && strings.HasPrefix(f.Name(), "Put") && len(cc.Args) >= 2:
								dst = cc.Args[len(cc.Args)-2]
							}
						}
						if dst != nil && fromRecv(dst) {
							report(x.Pos(), "a byte view of the column's own memory is handed to an in-place writer ("+core.InstrString(x)+"): the rows are transformed inside the column")
						}
					}
				}
			}
			if !bad {
				c.R.Ok(rule, key, cfg, p.Pos(fn.Pos()), "column memory only read").Trivial = true
			}
		}
	}
	c.R.Floor(rule, cfg, n, 80)
}

// ruleAppendTail (C16.tail): Append* writes only behind the rows the column already has.
func ruleAppendTail(c *Ctx, p *core.Program, rule string) {
	c.R.Rule(rule, "in every Append* method of a column type, an indexed store into the column's storage (x[i] = ... where x is the column slice or the result of growing it) uses an index that depends on the previous length (len of the column's slice): an index that starts at 0 overwrites the rows already present and leaves zero values at the tail when the column was not empty")
	cfg := p.Cfg.Name
	n := 0
	for _, ct := range columnTypes(p) {
		for i := 0; i < ct.NumMethods(); i++ {
			m := ct.Method(i)
			if !strings.HasPrefix(m.Name(), "Append") {
				continue
			}
			fn := p.Prog.FuncValue(m)
			if fn == nil || fn.Blocks == nil || len(fn.Params) == 0 {
				continue
			}
			recv := fn.Params[0]
			fromRecv := func(v ssa.Value) bool {
				return core.DependsOn(v, func(x ssa.Value) bool { return x == ssa.Value(recv) }, true)
			}
			key := ct.Obj().Name() + "." + m.Name()
			for _, b := range fn.Blocks {
				for _, in := range b.Instrs {
					st, ok := in.(*ssa.Store)
					if !ok {
						continue
					}
					ia, ok := st.Addr.(*ssa.IndexAddr)
					if !ok || !fromRecv(ia.X) {
						continue
					}
					if _, isArr := ia.X.Type().Underlying().(*types.Pointer); isArr {
						continue // element of a fixed-size array value, not the row storage
					}
					n++
					usesLen := core.DependsOn(ia.Index, func(x ssa.Value) bool {
						cl, ok := x.(*ssa.Call)
						if !ok {
							return false
						}
						bi, ok := cl.Call.Value.(*ssa.Builtin)
						return ok && bi.Name() == "len" && fromRecv(cl.Call.Args[0])
					}, false)
					if usesLen {
						c.R.Ok(rule, key, cfg, p.Pos(st.Pos()), "index offset by the previous length")
					} else {
						c.R.Bad(rule, key, cfg, p.Pos(st.Pos()), "Append stores into the column's storage at an index that does not depend on the number of rows already present: on a non-empty column the new values overwrite the old rows")
					}
				}
			}
		}
	}
	c.R.Count("indexed stores in Append* methods["+cfg+"]", n)
	if n == 0 {
		c.R.Ok(rule, "Append*", cfg, "", "no Append* method stores by index (all grow by append)").Trivial = true
	}
}

// ruleCountCases (C18.count): the column-count check, evaluated for the sign cases.
func ruleCountCases(c *Ctx, p *core.Program, rule string) {
	c.R.Rule(rule, "case evaluation of the entry check of Results.DecodeResult: with the announced column count, the number of targets and the row count fixed to representative values, the conditions over exactly these three quantities are folded (through && / || / boolean locals) and no read from the wire may remain reachable when the counts differ - except for the header-only case (no targets and no rows); in particular rows with no targets must be refused, or the column data stays unread in the stream")
	cfg := p.Cfg.Name
	fn := p.Method(core.PkgProto, "Results", "DecodeResult")
	if !c.must(p, "proto.Results.DecodeResult", fn != nil) {
		return
	}
	rd := readerClass(p)
	type cs struct {
		cols, targets, rows int64
		mustFail            bool
	}
	cases := []cs{{2, 0, 5, true}, {2, 3, 0, true}, {2, 3, 5, true}, {1, 2, 7, true}, {2, 0, 0, false}, {2, 2, 4, false}}
	recv := fn.Params[0]
	var leaf func(v ssa.Value, k cs) (int64, bool)
	leaf = func(v ssa.Value, k cs) (int64, bool) {
		v = stripConv(v)
		if n, ok := core.ConstInt(v); ok {
			return n, true
		}
		switch o := core.FieldOrigin(v, 0); {
		case strings.HasSuffix(o, "Block.Columns"):
			return k.cols, true
		case strings.HasSuffix(o, "Block.Rows"):
			return k.rows, true
		}
		if cl, ok := v.(*ssa.Call); ok {
			if bi, ok := cl.Call.Value.(*ssa.Builtin); ok && bi.Name() == "len" && core.DependsOn(cl.Call.Args[0], func(x ssa.Value) bool { return x == ssa.Value(recv) }, false) {
				return k.targets, true
			}
		}
		return 0, false
	}
	bad := false
	for _, k := range cases {
		k := k
		feas := core.FeasibleUnder(fn, func(cond ssa.Value) int {
			// the check may live in a boolean helper over the same three quantities: fold it for this case
			if cl, isCall := cond.(*ssa.Call); isCall {
				if g := core.StaticFn(cl); g != nil && g.Blocks != nil && pkgOf(g) != nil && pkgOf(g).Path() == core.PkgProto {
					lens := map[int]int64{}
					for i, a := range cl.Call.Args {
						if core.DependsOn(a, func(x ssa.Value) bool { return x == ssa.Value(recv) }, false) || a == ssa.Value(recv) {
							lens[i] = k.targets
						}
					}
					if v, okf := core.FoldFuncLens(g, map[string]int64{"Columns": k.cols, "Rows": k.rows}, nil, lens); okf {
						return int(v)
					}
				}
				return -1
			}
			bo, ok := cond.(*ssa.BinOp)
			if !ok {
				return -1
			}
			a, ok1 := leaf(bo.X, k)
			b, ok2 := leaf(bo.Y, k)
			if !ok1 || !ok2 {
				return -1
			}
			var r bool
			switch bo.Op {
			case token.EQL:
				r = a == b
			case token.NEQ:
				r = a != b
			case token.LSS:
				r = a < b
			case token.LEQ:
				r = a <= b
			case token.GTR:
				r = a > b
			case token.GEQ:
				r = a >= b
			default:
				return -1
			}
			if r {
				return 1
			}
			return 0
		})
		hits := core.ReachAvoiding(core.Entry(fn), func(x ssa.Instruction) bool {
			call, ok := x.(ssa.CallInstruction)
			return ok && rd(fn, call)
		}, nil, feas)
		key := sprintf("DecodeResult/columns=%d,targets=%d,rows=%d", k.cols, k.targets, k.rows)
		switch {
		case k.mustFail && len(hits) > 0:
			bad = true
			c.R.Bad(rule, key, cfg, p.Pos(hits[0].At.Pos()), "with these counts DecodeResult still reads from the wire instead of refusing the block: the mismatch goes unreported and the stream position no longer matches what was consumed")
		case !k.mustFail && len(hits) == 0:
			bad = true
			c.R.Bad(rule, key, cfg, p.Pos(fn.Pos()), "with these (legal) counts DecodeResult never reads the column headers")
		default:
			c.R.Ok(rule, key, cfg, p.Pos(fn.Pos()), map[bool]string{true: "refused before any read", false: "decoded"}[k.mustFail])
		}
	}
	_ = bad
}

// ruleInferErrors (C18.infer-errors): Infer fails when a parameter of the server's type cannot be adopted.
func ruleInferErrors(c *Ctx, p *core.Program, rule string) {
	c.R.Rule(rule, "E6 over every Infer method of a column type: the error of any call made while parsing the server's type (strconv, time.LoadLocation, nested Infer, parse helpers) reaches only failure exits - no success exit is reachable from the call without crossing the nil edge of a test of that error; an Infer that swallows the error reports success although the parameter (time zone, precision, enum mapping) was not adopted")
	cfg := p.Cfg.Name
	var fns []*ssa.Function
	for _, ct := range columnTypes(p) {
		if fn := methodOf(p, ct, "Infer"); fn != nil && fn.Blocks != nil {
			fns = append(fns, fn)
		}
	}
	// ColEnum and friends are not in columnTypes when they have no own EncodeColumn: take every Infer of package proto
	seen := map[*ssa.Function]bool{}
	for _, f := range fns {
		seen[f] = true
	}
	for _, fn := range p.Funcs() {
		if pkgOf(fn) != nil && pkgOf(fn).Path() == core.PkgProto && fn.Name() == "Infer" && fn.Blocks != nil && !seen[fn] && core.RecvNamed2(fn) != nil {
			fns = append(fns, fn)
			seen[fn] = true
		}
	}
	cls := func(fn *ssa.Function, call ssa.CallInstruction) bool {
		if _, isDefer := call.(*ssa.Defer); isDefer {
			return false
		}
		sig := call.Common().Signature()
		if sig == nil {
			return false
		}
		_, has := core.ReturnsError(sig)
		return has
	}
	n := runErrDisc(c, p, fns, errDiscOpts{Rule: rule, Class: cls, Again: func(*ssa.Function, ssa.CallInstruction) bool { return false }})
	c.R.Count("error-returning calls in Infer methods", n)
	c.R.Floor(rule, cfg, n, 8)
}

// ruleInferMaps (C18.exact / C16.exact): a mapping rebuilt by Infer does not keep entries of the previous type.
func ruleInferMaps(c *Ctx, p *core.Program, rule string) {
	c.R.Rule(rule, "an Infer method (or the parse helper it calls) that fills a map field of the column from the server's type string starts from an empty map: on every path from the entry of Infer to the first insertion the map is cleared (clear(m), a delete-all loop, or an unconditional fresh make) - otherwise a reused target keeps the names and codes of the previous enum definition next to the new ones (stale names still encode, stale codes still decode)")
	cfg := p.Cfg.Name
	n := 0
	for _, fn := range p.Funcs() {
		if pkgOf(fn) == nil || pkgOf(fn).Path() != core.PkgProto || fn.Name() != "Infer" || fn.Blocks == nil || core.RecvNamed2(fn) == nil {
			continue
		}
		named := core.RecvNamed2(fn)
		// map insertions in Infer itself or in a method of the same type it calls
		type ins struct {
			site  ssa.Instruction // in fn
			field string
			host  *ssa.Function
		}
		var list []ins
		for _, g := range append([]*ssa.Function{fn}, core.StaticReachList(fn)...) {
			if g == nil || g.Blocks == nil || g != fn && (core.RecvNamed2(g) == nil || core.RecvNamed2(g).Obj() != named.Obj()) {
				continue
			}
			for _, b := range g.Blocks {
				for _, in := range b.Instrs {
					mu, ok := in.(*ssa.MapUpdate)
					if !ok {
						continue
					}
					f := recvFieldOfValue(mu.Map, named)
					if f == "" {
						continue
					}
					list = append(list, ins{site: in, field: f, host: g})
				}
			}
		}
		seenField := map[string]bool{}
		for _, it := range list {
			if seenField[it.field] {
				continue
			}
			seenField[it.field] = true
			n++
			key := named.Obj().Name() + "." + it.field
			g := it.host
			cleared := func(in ssa.Instruction) bool {
				switch x := in.(type) {
				case *ssa.Store:
					if recvFieldOf(x.Addr, named) == it.field {
						_, isMake := x.Val.(*ssa.MakeMap)
						return isMake
					}
				case ssa.CallInstruction:
					if bi, ok := x.Common().Value.(*ssa.Builtin); ok && (bi.Name() == "clear" || bi.Name() == "delete") {
						return recvFieldOfValue(x.Common().Args[0], named) == it.field
					}
				}
				return false
			}
			// a make guarded by `m == nil` does not clear an existing map: remove those edges' protection by
			// requiring the clearing instruction on the path where the map is non-nil
			nonNil := core.CondEdges(g, false, func(cond ssa.Value) (bool, bool) {
				x, isNonNil, ok := nilCmp(cond)
				if !ok || recvFieldOfValue(x, named) != it.field {
					return false, false
				}
				return !isNonNil, true
			})
			_ = nonNil
			hits := core.ReachAvoiding(core.Entry(g), func(x ssa.Instruction) bool { return x == it.site }, func(x ssa.Instruction) bool {
				if !cleared(x) {
					return false
				}
				// a clearing store that only runs when the map is nil does not count
				if st, ok := x.(*ssa.Store); ok {
					if _, isMake := st.Val.(*ssa.MakeMap); isMake {
						nilOnly := core.CondEdges(g, true, func(cond ssa.Value) (bool, bool) {
							v, isNonNil, ok := nilCmp(cond)
							if !ok || recvFieldOfValue(v, named) != it.field {
								return false, false
							}
							return !isNonNil, true
						})
						if len(nilOnly) > 0 && core.OnlyViaEdges(g, st, nilOnly) {
							return false
						}
					}
				}
				return true
			}, nil)
			if len(hits) > 0 {
				c.R.Bad(rule, key, cfg, p.Pos(it.site.Pos()), "the mapping "+it.field+" is filled without being emptied first: entries of a previously inferred type survive in a reused column")
			} else {
				c.R.Ok(rule, key, cfg, p.Pos(it.site.Pos()), "map emptied before it is refilled")
			}
		}
	}
	c.R.Count("map fields filled by Infer methods", n)
}

// ruleMapInfer (C18.mapinfer / C01.mapinfer): Map(K, V) hands K to the key column and V to the value column.
func ruleMapInfer(c *Ctx, p *core.Program, rule string) {
	c.R.Rule(rule, "positional wiring in ColMap.Infer: the type string is split once at the comma; the Infer call on the key column (recv.Keys) receives a value derived from the part before the comma, the call on the value column (recv.Values) one derived from the part after it - swapped or duplicated parts give the value column the key's type (a Map(String, DateTime64(9)) target fails to infer, a Map(DateTime64(3), DateTime64(9)) decodes values with the key's precision)")
	cfg := p.Cfg.Name
	inf := p.Method(core.PkgProto, "ColMap", "Infer")
	if !c.must(p, "(*proto.ColMap).Infer", inf != nil) {
		return
	}
	var cut *ssa.Call
	flat := false
	for _, call := range core.Calls(inf) {
		if f := core.CalleeFunc(call); f != nil && f.Pkg() != nil && f.Pkg().Path() == "strings" && (f.Name() == "Cut" || f.Name() == "SplitN" || f.Name() == "Split") {
			cut, _ = call.(*ssa.Call)
			flat = true
		}
	}
	// or a splitter of package proto that returns the two parts
	if cut == nil {
		for _, call := range core.Calls(inf) {
			g := core.StaticFn(call)
			if g == nil || g.Blocks == nil || pkgOf(g) == nil || pkgOf(g).Path() != core.PkgProto || g.Signature.Results().Len() < 2 {
				continue
			}
			nStr := 0
			for i := 0; i < g.Signature.Results().Len(); i++ {
				if b, ok := g.Signature.Results().At(i).Type().Underlying().(*types.Basic); ok && b.Info()&types.IsString != 0 {
					nStr++
				}
			}
			if nStr >= 2 {
				cut, _ = call.(*ssa.Call)
			}
		}
	}
	if cut == nil {
		c.R.Unk(rule, "ColMap.Infer", cfg, p.Pos(inf.Pos()), "the split of the Map parameters was not found (strings.Cut / Split or a proto splitter)")
		return
	}
	// the split respects nesting: K and V are types themselves and may carry parameter lists with commas
	// of their own (Enum8('a' = 1, 'b' = 2), Decimal(9, 2), DateTime64(3, 'UTC'))
	if flat {
		c.R.Bad(rule, "ColMap.Infer/split", cfg, p.Pos(cut.Pos()), "the parameter list of Map(K, V) is split at the first comma (and a second comma is an error): a key or value type with parameters of its own - Enum8('a' = 1, 'b' = 2), Decimal(9, 2), DateTime64(3, 'UTC') - cannot be inferred, so maps of enums and of zoned timestamps never adopt the server's type")
	} else {
		g := core.StaticFn(cut)
		seen := map[int64]bool{}
		loops := false
		for _, b := range g.Blocks {
			for _, in := range b.Instrs {
				if bo, ok := in.(*ssa.BinOp); ok && (bo.Op == token.EQL || bo.Op == token.NEQ) {
					if k, okc := core.ConstInt(bo.Y); okc {
						seen[k] = true
					}
				}
				if core.InLoop(in) {
					loops = true
				}
			}
		}
		if loops && seen['('] && seen[')'] && seen[','] {
			c.R.Ok(rule, "ColMap.Infer/split", cfg, p.Pos(cut.Pos()), "split by "+g.Name()+", which scans for the comma outside parentheses")
		} else {
			c.R.Bad(rule, "ColMap.Infer/split", cfg, p.Pos(cut.Pos()), "the splitter of the Map parameter list does not track parentheses: nested parameter lists are cut at their own commas")
		}
	}
	part := func(v ssa.Value) int {
		idx := -1
		core.DependsOn(v, func(x ssa.Value) bool {
			if ex, ok := x.(*ssa.Extract); ok && ex.Tuple == ssa.Value(cut) {
				idx = ex.Index
				return true
			}
			if ia, ok := x.(*ssa.IndexAddr); ok { // Split result indexed by constant
				if k, okc := core.ConstInt(ia.Index); okc && core.DependsOn(ia.X, func(y ssa.Value) bool { return y == ssa.Value(cut) }, false) {
					idx = int(k)
					return true
				}
			}
			return false
		}, true)
		return idx
	}
	n := 0
	for _, fw := range core.ForwardedInvokes(inf, "Infer") {
		if len(fw.Args) != 1 {
			continue
		}
		call := fw.At
		cc := struct {
			Value ssa.Value
			Args  []ssa.Value
		}{fw.Recv, fw.Args}
		ap := accessPath(cc.Value, 0)
		want := -1
		switch {
		case strings.HasPrefix(ap, "recv.Keys"):
			want = 0
		case strings.HasPrefix(ap, "recv.Values"):
			want = 1
		default:
			continue
		}
		n++
		key := "ColMap.Infer/" + strings.TrimPrefix(ap, "recv.")
		if got := part(cc.Args[0]); got == want {
			c.R.Ok(rule, key, cfg, p.Pos(call.Pos()), sprintf("receives part %d of the parameter list", got))
		} else {
			c.R.Bad(rule, key, cfg, p.Pos(call.Pos()), sprintf("%s is inferred from part %d of `K, V` instead of part %d", strings.TrimPrefix(ap, "recv."), got, want))
		}
	}
	if n < 2 {
		c.R.Unk(rule, "ColMap.Infer/population", cfg, p.Pos(inf.Pos()), sprintf("%d forwarded Infer calls found, expected keys and values", n))
	}
	// independence: whether the key column is Inferable decides nothing about the value column (and vice versa)
	for _, call := range core.Calls(inf) {
		cc := call.Common()
		if !cc.IsInvoke() || cc.Method.Name() != "Infer" {
			continue
		}
		ap := accessPath(cc.Value, 0)
		var own string
		switch {
		case strings.HasPrefix(ap, "recv.Keys"):
			own = "Keys"
		case strings.HasPrefix(ap, "recv.Values"):
			own = "Values"
		default:
			continue
		}
		in := call.(ssa.Instruction)
		reach := func(from *ssa.BasicBlock) bool {
			return len(core.ReachAvoiding(core.Point{B: from, I: -1}, func(x ssa.Instruction) bool { return x == in }, nil, nil)) > 0
		}
		for _, b := range inf.Blocks {
			ifi, ok := b.Instrs[len(b.Instrs)-1].(*ssa.If)
			if !ok {
				continue
			}
			ex, ok := ifi.Cond.(*ssa.Extract)
			if !ok {
				continue
			}
			ta, ok := ex.Tuple.(*ssa.TypeAssert)
			if !ok || !ta.CommaOk {
				continue
			}
			tap := accessPath(ta.X, 0)
			if !strings.HasPrefix(tap, "recv.") || strings.HasPrefix(tap, "recv."+own) {
				continue
			}
			r0, r1 := reach(b.Succs[0]), reach(b.Succs[1])
			if r0 != r1 {
				c.R.Bad(rule, "ColMap.Infer/"+own+"/independent", cfg, p.Pos(ifi.Cond.Pos()), sprintf("the %s column is inferred only when %s is Inferable: with a plain key column (String, integers) the value column never receives its parameters and the map reports Map(K, DateTime64) without precision or an empty Enum", own, strings.TrimPrefix(tap, "recv.")))
			}
		}
	}
}

// ruleResetReceiver (C16.reset-recv): a Reset with a value receiver clears a copy.
func ruleResetReceiver(c *Ctx, p *core.Program, rule string) {
	c.R.Rule(rule, "Reset reaches the column it is called on: for every column type of struct kind, a Reset method declared on the value (not the pointer) receiver neither stores into the receiver's fields nor hands the address of one of them to a callee - both act on the copy made for the call, so proto.Input.Reset and Reset-before-decode silently keep the old rows; delegating through an interface or pointer field (ColAuto) is unaffected")
	cfg := p.Cfg.Name
	n := 0
	for _, ct := range columnTypes(p) {
		if _, isStruct := ct.Underlying().(*types.Struct); !isStruct {
			continue
		}
		reset := methodOf(p, ct, "Reset")
		if reset == nil || reset.Blocks == nil || reset.Signature.Recv() == nil {
			continue
		}
		n++
		key := ct.Obj().Name() + ".Reset"
		if _, isPtr := reset.Signature.Recv().Type().(*types.Pointer); isPtr {
			c.R.Ok(rule, key, cfg, p.Pos(reset.Pos()), "pointer receiver")
			continue
		}
		// the spill of the receiver copy
		var bad ssa.Instruction
		onCopy := func(v ssa.Value) bool {
			for d := 0; d < 6; d++ {
				fa, ok := v.(*ssa.FieldAddr)
				if !ok {
					break
				}
				if al, ok := fa.X.(*ssa.Alloc); ok {
					for _, r := range *al.Referrers() {
						if s, ok := r.(*ssa.Store); ok && s.Addr == al && s.Val == ssa.Value(reset.Params[0]) {
							return true
						}
					}
					return false
				}
				v = fa.X
			}
			return false
		}
		for _, b := range reset.Blocks {
			for _, in := range b.Instrs {
				switch x := in.(type) {
				case *ssa.Store:
					if onCopy(x.Addr) {
						bad = in
					}
				case ssa.CallInstruction:
					for _, a := range x.Common().Args {
						if onCopy(a) {
							bad = in
						}
					}
				}
			}
		}
		if bad != nil {
			c.R.Bad(rule, key, cfg, p.Pos(bad.Pos()), ct.Obj().Name()+".Reset has a value receiver and clears a field of the copy: the caller's column keeps its rows, and every later block re-sends or re-reports them")
		} else {
			c.R.Ok(rule, key, cfg, p.Pos(reset.Pos()), "value receiver that only delegates through reference-typed fields")
		}
	}
	c.R.Floor(rule, cfg, n, 12)
}

// contentCounterGaps: for column struct ct, the (method, field) pairs where DecodeColumn / Reset do not assign an
// unexported numeric field that an Append* method of ct assigns; checked counts the pairs examined.
func contentCounterGaps(p *core.Program, ct *types.Named) (checked int, gaps [][3]string) {
	st, ok := ct.Underlying().(*types.Struct)
	if !ok {
		return 0, nil
	}
	writes := func(fn *ssa.Function) map[string]bool {
		out := map[string]bool{}
		if fn == nil || fn.Blocks == nil {
			return out
		}
		for g := range core.StaticReach(fn, 2) {
			if g.Blocks == nil || core.RecvNamed2(g) == nil || core.RecvNamed2(g).Obj() != ct.Obj() {
				continue
			}
			for _, b := range g.Blocks {
				for _, in := range b.Instrs {
					if s, ok := in.(*ssa.Store); ok {
						if fa, ok := s.Addr.(*ssa.FieldAddr); ok && fa.X == ssa.Value(g.Params[0]) {
							out[fieldNameOnly(fa.X.Type(), fa.Field)] = true
						}
					}
				}
			}
		}
		return out
	}
	counters := map[string]string{}
	ms := types.NewMethodSet(types.NewPointer(ct))
	for i := 0; i < ms.Len(); i++ {
		m, ok := ms.At(i).Obj().(*types.Func)
		if !ok || !strings.HasPrefix(m.Name(), "Append") {
			continue
		}
		for f := range writes(p.Prog.FuncValue(m)) {
			for j := 0; j < st.NumFields(); j++ {
				fld := st.Field(j)
				if fld.Name() != f || fld.Exported() {
					continue
				}
				if bt, ok := fld.Type().Underlying().(*types.Basic); ok && bt.Info()&types.IsNumeric != 0 {
					counters[f] = m.Name()
				}
			}
		}
	}
	var names []string
	for f := range counters {
		names = append(names, f)
	}
	sort.Strings(names)
	for _, f := range names {
		for _, mn := range []string{"DecodeColumn", "Reset"} {
			fn := methodOf(p, ct, mn)
			if fn == nil || fn.Blocks == nil {
				continue
			}
			checked++
			if !writes(fn)[f] {
				gaps = append(gaps, [3]string{mn, f, counters[f]})
			}
		}
	}
	return checked, gaps
}

// ruleContentCounters (C16): bookkeeping that Append maintains is maintained by every way rows get in.
func ruleContentCounters(c *Ctx, p *core.Program, rule string) {
	c.R.Rule(rule, "for every column struct of package proto: an unexported numeric field that an Append* method of the type assigns (a running count or offset kept beside the data) is also assigned by the type's DecodeColumn and Reset (directly or through a method of the type they call) - otherwise a column that was reset, decoded into and then appended to continues from a stale count: the offsets restart below the decoded ones, rows vanish and the encoded column is refused (no column keeps such a field today; a fixture keeps the recogniser alive)")
	cfg := p.Cfg.Name
	n, nt := 0, 0
	for _, ct := range columnTypes(p) {
		if _, ok := ct.Underlying().(*types.Struct); !ok {
			continue
		}
		nt++
		checked, gaps := contentCounterGaps(p, ct)
		n += checked
		for _, g := range gaps {
			fn := methodOf(p, ct, g[0])
			c.R.Bad(rule, ct.Obj().Name()+"."+g[0]+"/"+g[1], cfg, p.Pos(fn.Pos()), sprintf("%s keeps the numeric field %s up to date in %s but %s changes the rows without assigning it: an Append after a %s continues from the stale value", ct.Obj().Name(), g[1], g[2], g[0], g[0]))
		}
		if checked > 0 && len(gaps) == 0 {
			c.R.Ok(rule, ct.Obj().Name(), cfg, p.Pos(ct.Obj().Pos()), "bookkeeping fields are maintained by DecodeColumn and Reset")
		}
	}
	if n == 0 {
		c.R.Ok(rule, "columns", cfg, "", sprintf("%d column structs examined, none keeps a numeric field beside its data in Append", nt)).Trivial = true
	}
	c.R.Count("column structs examined for bookkeeping fields["+cfg+"]", nt)
	c.R.Floor(rule, cfg, nt, 10)
}

// ruleRowCopies (C16): a string handed out by a row accessor does not alias the column's buffer.
func ruleRowCopies(c *Ctx, p *core.Program, rule string) {
	c.R.Rule(rule, "no method of a column type in package proto that returns a string (Row, First, callbacks of ForEach) builds it with unsafe.String / unsafe.Slice-style reinterpretation of the column's byte buffer: Reset keeps the buffer's capacity and the next block is decoded over the same bytes, so a value the caller read from the previous block changes under its hands (strings are immutable by contract; RowBytes is the documented aliasing accessor)")
	cfg := p.Cfg.Name
	n := 0
	for _, ct := range columnTypes(p) {
		ms := types.NewMethodSet(types.NewPointer(ct))
		for i := 0; i < ms.Len(); i++ {
			m, ok := ms.At(i).Obj().(*types.Func)
			if !ok {
				continue
			}
			fn := p.Prog.FuncValue(m)
			if fn == nil || fn.Blocks == nil || pkgOf(fn) == nil || pkgOf(fn).Path() != core.PkgProto {
				continue
			}
			retStr := false
			res := fn.Signature.Results()
			for j := 0; j < res.Len(); j++ {
				if b, ok := res.At(j).Type().Underlying().(*types.Basic); ok && b.Kind() == types.String {
					retStr = true
				}
			}
			if !retStr {
				continue
			}
			n++
			key := ct.Obj().Name() + "." + m.Name()
			bad := false
			for _, call := range core.Calls(fn) {
				if bi, ok := call.Common().Value.(*ssa.Builtin); ok && (bi.Name() == "String" || bi.Name() == "StringData") {
					bad = true
					c.R.Bad(rule, key, cfg, p.Pos(call.Pos()), "the returned string is a view of the column's buffer (unsafe.String): it changes when the column is reset and decoded into again")
				}
			}
			for _, b := range fn.Blocks {
				for _, in := range b.Instrs {
					if cv, ok := in.(*ssa.Convert); ok {
						if _, isPtr := cv.X.Type().Underlying().(*types.Basic); isPtr && cv.X.Type().Underlying().(*types.Basic).Kind() == types.UnsafePointer {
							if pt, ok := cv.Type().Underlying().(*types.Pointer); ok {
								if bt, ok := pt.Elem().Underlying().(*types.Basic); ok && bt.Kind() == types.String {
									bad = true
									c.R.Bad(rule, key, cfg, p.Pos(cv.Pos()), "the returned string is reinterpreted column memory (*string from unsafe.Pointer)")
								}
							}
						}
					}
				}
			}
			if !bad {
				c.R.Ok(rule, key, cfg, p.Pos(fn.Pos()), "string result is a copy")
			}
		}
	}
	c.R.Count("string-returning column methods["+cfg+"]", n)
	c.R.Floor(rule, cfg, n, 10)
}

// ruleAutoKeepsCompatible (C16 / C09): a compatible column held by ColAuto is not replaced.
func ruleAutoKeepsCompatible(c *Ctx, p *core.Program, rule string) {
	c.R.Rule(rule, "in ColAuto.Infer every store that replaces the held column (Data) is reachable only where no column is held (the nil side of a Data != nil test) or the held column's type conflicts with the requested one (the true side of a Conflicts test) - directly, or through the `not adopted` result of a helper of ColAuto whose every such return lies behind one of those edges: a fast path that installs a new column first, or a shortcut that keeps only Inferable columns, drops the rows of a column that already has a compatible type - a ColAuto that received a block and is inferred again before it is encoded (Client.Do does that for INSERT input) goes out with zero rows")
	cfg := p.Cfg.Name
	inf := p.Method(core.PkgProto, "ColAuto", "Infer")
	if !c.must(p, "(*proto.ColAuto).Infer", inf != nil) {
		return
	}
	// edges of fn (a method of ColAuto) on which nothing compatible is held
	freeEdges := func(fn *ssa.Function) []core.Edge {
		recv := fn.Params[0]
		isDataLoad := func(v ssa.Value) bool {
			u, ok := v.(*ssa.UnOp)
			if !ok || u.Op != token.MUL {
				return false
			}
			fa, ok := u.X.(*ssa.FieldAddr)
			return ok && fa.X == ssa.Value(recv) && fieldNameOnly(fa.X.Type(), fa.Field) == "Data"
		}
		var out []core.Edge
		for _, b := range fn.Blocks {
			ifi, ok := b.Instrs[len(b.Instrs)-1].(*ssa.If)
			if !ok {
				continue
			}
			if x, nn, ok := nilCmp(ifi.Cond); ok && isDataLoad(x) {
				// nn: cond is x != nil -> nil side is succ 1
				if nn {
					out = append(out, core.Edge{B: b, Succ: 1})
				} else {
					out = append(out, core.Edge{B: b, Succ: 0})
				}
				continue
			}
			cv, pol := core.StripNot(ifi.Cond)
			if _, ok := core.CallTo(cv, func(f *types.Func) bool { return core.IsMethod(f, core.PkgProto, "ColumnType", "Conflicts") }); ok {
				if pol {
					out = append(out, core.Edge{B: b, Succ: 0})
				} else {
					out = append(out, core.Edge{B: b, Succ: 1})
				}
			}
		}
		return out
	}
	edges := freeEdges(inf)
	// `done, err := c.adopt(t); if done {...}`: the not-done edge counts when every return of the helper that
	// yields false lies behind its own free edges
	edges = append(edges, core.FlagEdges(inf, func(h *ssa.Function, ret *ssa.Return) bool {
		if len(h.Params) == 0 || core.RecvNamed2(h) == nil || core.RecvNamed2(h).Obj().Name() != "ColAuto" {
			return false
		}
		he := freeEdges(h)
		return len(he) > 0 && core.OnlyViaEdges(h, ret, he)
	})...)
	// FlagEdges returns edges for both flag values that satisfy holds; only `false` (not adopted) returns lie
	// behind free edges, `true` returns do not - so what is left is the not-adopted side
	recv := inf.Params[0]
	n := 0
	bad := false
	for _, b := range inf.Blocks {
		for _, in := range b.Instrs {
			st, ok := in.(*ssa.Store)
			if !ok {
				continue
			}
			fa, ok := st.Addr.(*ssa.FieldAddr)
			if !ok || fa.X != ssa.Value(recv) || fieldNameOnly(fa.X.Type(), fa.Field) != "Data" {
				continue
			}
			n++
			if len(edges) == 0 || !core.OnlyViaEdges(inf, st, edges) {
				bad = true
				c.R.Bad(rule, sprintf("ColAuto.Infer/store#%d", n), cfg, p.Pos(st.Pos()), "the held column can be replaced although it is there and its type does not conflict with the requested one: its rows are dropped")
			}
		}
	}
	if !bad {
		c.R.Ok(rule, "ColAuto.Infer", cfg, p.Pos(inf.Pos()), sprintf("%d stores to Data, all behind `nothing held` or `held type conflicts`", n))
	}
	c.R.Count("stores to ColAuto.Data in Infer", n)
	c.R.Floor(rule, cfg, n, 5)
}
