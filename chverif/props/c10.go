package props

import (
	"go/token"
	"go/types"
	"sort"
	"strings"

	"golang.org/x/tools/go/ssa"

	"chverif/core"
)

func init() { register("C10", runC10) }

func runC10(c *Ctx) {
	p := c.Prog(core.CfgDefault)
	if p == nil {
		return
	}
	roles := resolveDo(c, p)
	if roles == nil {
		return
	}
	ruleCancelPacket(c, p)
	ruleWatch(c, p, roles, "C10")
	ruleCancelError(c, p, roles)
	ruleCancelBound(c, p, roles, "C10.cancel-bound")
	ruleNoStrayGoroutine(c, p, roles, "C10.no-stray-goroutine")
	ruleWritesUnderWatch(c, p, roles, "C10.write-watched")
	ruleTimeoutSource(c, p, "C10.timeout-source")
	ruleDialClose(c, p, "C10.dialclose")
	ruleDialUnderContext(c, p, "C10.dial-ctx")
	ruleDeadlineKind(c, p, roles, "C10.deadline-kind")
	ruleNoLeak(c, p, roles, "C10.leak")
	ruleHandshakeWatchdog(c, p)
	rulePacketDeadline(c, p, "C10.deadline")
	ruleDeadlineDisarmed(c, p, "C10.disarm")
	ruleTimeoutSentinel(c, p, "C10.sentinel")
	ruleOptionDefaults(c, p, "C10.defaults")
	ruleNoLockAcrossIO(c, p, "C10.lock-io")
	ruleCloseMarks(c, p, "C10.close-marks")
	c.R.Assumptions = append(c.R.Assumptions,
		"net.Conn.Close unblocks pending reads and writes; errgroup.Wait waits for all goroutines",
		"decided: shape of the Cancel packet, close on every cancellation path, error provenance, every blocking wait has a context- or sibling-controlled exit, the read deadline honours the context deadline; not decided: the time bound itself")
}

// C10.packet: the private buffer handed to flushBuf holds exactly the Cancel code.
func ruleCancelPacket(c *Ctx, p *core.Program) {
	rule := "C10.packet"
	c.R.Rule(rule, "fresh-buffer instance of E4: a proto.Buffer literal that is encoded into and then flushed to the connection must start empty (constant length 0 of its Buf), and cancelQuery encodes exactly ClientCodeCancel into it")
	cfg := p.Cfg.Name
	cq := p.Method(core.PkgCh, "Client", "cancelQuery")
	if !c.must(p, "(*ch.Client).cancelQuery", cq != nil) {
		return
	}
	n := 0
	for _, fn := range p.Funcs() {
		if fn.Pkg == nil || fn.Pkg.Pkg.Path() != core.PkgCh {
			continue
		}
		for _, b := range fn.Blocks {
			for _, in := range b.Instrs {
				al, ok := in.(*ssa.Alloc)
				if !ok || !core.IsNamed(al.Type(), core.PkgProto, "Buffer") {
					continue
				}
				// is it handed to a consumer (flushBuf / conn.Write)?
				consumed := false
				for _, ref := range *al.Referrers() {
					if call, ok := ref.(ssa.CallInstruction); ok {
						if sf := core.StaticFn(call); sf != nil && isBufferConsumer(sf) {
							consumed = true
						}
					}
				}
				if !consumed {
					continue
				}
				n++
				key := core.FuncName(fn) + "/buffer-literal"
				// a buffer built by a helper and returned by value: judge the literal inside the helper
				for _, ref := range *al.Referrers() {
					if st, ok := ref.(*ssa.Store); ok && st.Addr == ssa.Value(al) {
						if cl, ok := st.Val.(*ssa.Call); ok {
							if g := core.StaticFn(cl); g != nil && g.Blocks != nil && pkgOf(g) != nil && pkgOf(g).Path() == core.PkgCh {
								for _, gb := range g.Blocks {
									for _, gi := range gb.Instrs {
										if ga, ok := gi.(*ssa.Alloc); ok && core.IsNamed(ga.Type(), core.PkgProto, "Buffer") {
											al = ga
										}
									}
								}
							}
						}
					}
				}
				// find store to its Buf field
				bad := ""
				for _, ref := range *al.Referrers() {
					fa, ok := ref.(*ssa.FieldAddr)
					if !ok {
						continue
					}
					for _, r2 := range *fa.Referrers() {
						st, ok := r2.(*ssa.Store)
						if !ok || st.Addr != fa {
							continue
						}
						switch v := st.Val.(type) {
						case *ssa.MakeSlice:
							if l, ok := core.ConstInt(v.Len); !ok || l != 0 {
								bad = "Buf is created with a non-zero length: the zero bytes precede the packet on the wire"
							}
						case *ssa.Const:
						case *ssa.Slice:
							// make([]byte, n[, cap]) with constant sizes: slice of a fresh array
							l := int64(-1)
							if arr, ok := v.X.(*ssa.Alloc); ok {
								if at, ok := arr.Type().(*types.Pointer).Elem().Underlying().(*types.Array); ok {
									l = at.Len()
									if v.High != nil {
										if h, ok := core.ConstInt(v.High); ok {
											l = h
										} else {
											l = -1
										}
									}
								}
							}
							if l != 0 {
								bad = sprintf("Buf is created with length %d, not 0: the zero bytes precede the packet on the wire", l)
							}
						default:
							bad = "Buf is initialised from a non-constant value"
						}
					}
				}
				if bad != "" {
					c.R.Bad(rule, key, cfg, p.Pos(al.Pos()), bad)
				} else {
					c.R.Ok(rule, key, cfg, p.Pos(al.Pos()), "buffer literal starts empty")
				}
			}
		}
	}
	if n == 0 {
		c.R.Unk(rule, core.FuncName(cq), cfg, p.Pos(cq.Pos()), "no private buffer handed to the connection found (anchor lost)")
	}
	// exactly one encode into the buffer in cancelQuery, of the constant Cancel code
	enc := 0
	okCode := false
	// cancelQuery and the package-ch helpers it uses to build the packet (not the consumer, not Close)
	var encCalls []ssa.CallInstruction
	encCalls = append(encCalls, core.Calls(cq)...)
	for _, call := range core.Calls(cq) {
		if g := core.StaticFn(call); g != nil && g.Blocks != nil && pkgOf(g) != nil && pkgOf(g).Path() == core.PkgCh && !isBufferConsumer(g) && g.Name() != "Close" {
			if _, isDefer := call.(*ssa.Defer); !isDefer {
				encCalls = append(encCalls, core.Calls(g)...)
			}
		}
	}
	for _, call := range encCalls {
		f := core.CalleeFunc(call)
		if f == nil {
			continue
		}
		if core.IsMethod(f, core.PkgProto, "ClientCode", "Encode") {
			enc++
			if v, ok := core.ConstInt(call.Common().Args[0]); ok {
				if want, ok2 := constOf(p, core.PkgProto, "ClientCodeCancel"); ok2 && v == want {
					okCode = true
				}
			}
		} else if core.IsMethod(f, core.PkgProto, "Buffer", f.Name()) && len(f.Name()) > 3 && f.Name()[:3] == "Put" {
			enc++
		}
	}
	if enc == 1 && okCode {
		c.R.Ok(rule, core.FuncName(cq)+"/encode", cfg, p.Pos(cq.Pos()), "exactly ClientCodeCancel is encoded")
	} else {
		c.R.Bad(rule, core.FuncName(cq)+"/encode", cfg, p.Pos(cq.Pos()), sprintf("cancelQuery encodes %d items into the cancel buffer (ClientCodeCancel present: %v)", enc, okCode))
	}
}

func constOf(p *core.Program, pkg, name string) (int64, bool) {
	pk := p.Pkgs[pkg]
	if pk == nil {
		return 0, false
	}
	o, ok := pk.Types.Scope().Lookup(name).(*types.Const)
	if !ok {
		return 0, false
	}
	return core.ConstInt(ssa.NewConst(o.Val(), o.Type()))
}

// C10.error: the error of the cancel path carries ctx.Err().
func ruleCancelError(c *Ctx, p *core.Program, r *doRoles) {
	rule := "C10.error"
	c.R.Rule(rule, "the value returned by the cancel-watch on the cancellation path depends on ctx.Err() through error-combining wrappers only (multierr.Append / errors.Wrap keep the chain), and the receive loop returns ctx.Err() when it observes a dead context")
	cfg := p.Cfg.Name
	wh := watchHost(r)
	calls := core.FindCalls(wh, isClientMethod("cancelQuery"))
	if len(calls) != 1 {
		c.R.Bad(rule, core.FuncName(r.Watch), cfg, p.Pos(r.Watch.Pos()), "no single cancelQuery call")
		return
	}
	cq := calls[0].(ssa.Instruction)
	bad := false
	n := 0
	if wh != r.Watch {
		// the watch closure must hand the host's error on unchanged
		for _, b := range r.Watch.Blocks {
			ret, ok := b.Instrs[len(b.Instrs)-1].(*ssa.Return)
			if !ok {
				continue
			}
			for _, cc := range core.Calls(r.Watch) {
				if core.StaticFn(cc) != wh || !(cc.Block() == b || cc.Block().Dominates(b)) {
					continue
				}
				rv := core.ReturnErr(r.Watch, ret)
				if rv == nil || !(rv == cc.Value() || chainKeeps(rv, func(x ssa.Value) bool { return x == cc.Value() }, 0)) {
					bad = true
					c.R.Bad(rule, core.FuncName(r.Watch), cfg, p.Pos(ret.Pos()), "the cancel-watch does not return the error of the method that cancels")
				}
			}
		}
	}
	for _, b := range wh.Blocks {
		for _, in := range b.Instrs {
			ret, ok := in.(*ssa.Return)
			if !ok || !(cq.Block() == b || cq.Block().Dominates(b)) {
				continue
			}
			n++
			rv := core.ReturnErr(wh, ret)
			if !chainKeeps(rv, isCtxErr, 0) {
				bad = true
				c.R.Bad(rule, core.FuncName(r.Watch), cfg, p.Pos(ret.Pos()), "the error returned after cancelQuery does not wrap ctx.Err()")
			}
		}
	}
	if n == 0 {
		c.R.Bad(rule, core.FuncName(r.Watch), cfg, p.Pos(cq.Pos()), "no return after cancelQuery")
		return
	}
	if !bad {
		c.R.Ok(rule, core.FuncName(r.Watch), cfg, p.Pos(cq.Pos()), "returns Wrap(Append(ctx.Err(), cancelQuery()))")
	}
	// sender and receiver: a return taken because the context is done returns ctx.Err() (wrapped at most):
	// errgroup reports the first error, so whichever goroutine notices first decides what Do returns
	for _, g := range []*ssa.Function{r.Sender, r.Receiver} {
		if g == nil {
			continue
		}
		var doneEdges []core.Edge
		for _, b := range g.Blocks {
			switch t := b.Instrs[len(b.Instrs)-1].(type) {
			case *ssa.If:
				// ctx.Err() != nil
				if bo, ok := t.Cond.(*ssa.BinOp); ok && (bo.Op == token.NEQ || bo.Op == token.EQL) {
					var other ssa.Value
					if core.IsNilConst(bo.Y) {
						other = bo.X
					} else if core.IsNilConst(bo.X) {
						other = bo.Y
					}
					if other != nil && isCtxErr(other) {
						succ := 0
						if bo.Op == token.EQL {
							succ = 1
						}
						doneEdges = append(doneEdges, core.Edge{B: b, Succ: succ})
					}
				}
				// select { case <-ctx.Done(): ... }: the state index compare
				if bo, ok := t.Cond.(*ssa.BinOp); ok && bo.Op == token.EQL {
					if ex, ok := bo.X.(*ssa.Extract); ok && ex.Index == 0 {
						if sel, ok := ex.Tuple.(*ssa.Select); ok {
							if k, okc := core.ConstInt(bo.Y); okc && int(k) < len(sel.States) && isCtxDone(sel.States[k].Chan) {
								doneEdges = append(doneEdges, core.Edge{B: b, Succ: 0})
							}
						}
					}
				}
			}
		}
		nRet := 0
		for _, e := range doneEdges {
			blk := e.B.Succs[e.Succ]
			ret, ok := blk.Instrs[len(blk.Instrs)-1].(*ssa.Return)
			if !ok || len(blk.Preds) != 1 {
				continue
			}
			nRet++
			key := sprintf("%s/done-return#%d", core.FuncName(g), nRet)
			rv := core.ReturnErr(g, ret)
			if rv != nil && chainKeeps(rv, isCtxErr, 0) {
				c.R.Ok(rule, key, cfg, p.Pos(ret.Pos()), "returns ctx.Err()")
			} else {
				c.R.Bad(rule, key, cfg, p.Pos(ret.Pos()), "a goroutine of Do that stops because the context is done returns something other than ctx.Err() (e.g. context.Cause): for a context cancelled with a cause the call's error no longer matches context.Canceled / DeadlineExceeded")
			}
		}
	}
}

// chainKeeps: v is target, or a chain-preserving wrapper with such an argument.
func chainKeeps(v ssa.Value, target func(ssa.Value) bool, d int) bool {
	if v == nil || d > 8 {
		return false
	}
	if target(v) {
		return true
	}
	switch x := v.(type) {
	case *ssa.Call:
		if !isErrWrapper(x) {
			return false
		}
		if f := core.CalleeFunc(x); f != nil && f.Pkg().Path() == "fmt" {
			return false // %v would drop the chain; only Wrap/Append/Join accepted
		}
		for _, a := range x.Call.Args {
			if chainKeeps(a, target, d+1) {
				return true
			}
		}
	case *ssa.Phi:
		for _, e := range x.Edges {
			if !chainKeeps(e, target, d+1) {
				return false
			}
		}
		return len(x.Edges) > 0
	}
	return false
}

// C10.leak: blocking operations of the goroutines of Do have a context exit.
func ruleNoLeak(c *Ctx, p *core.Program, r *doRoles, rule string) {
	c.R.Rule(rule, "every blocking channel operation in the goroutines started by Do and handshake is a select with a case on the shared context's Done(), or a receive from a channel that a sibling closes by defer (C10.watch-done); the receive loop re-tests ctx.Err() before every packet read")
	cfg := p.Cfg.Name
	fns := []*ssa.Function{r.Sender, r.Receiver, r.Watch}
	// OnResult closure for column info created in Do
	for _, a := range r.Do.AnonFuncs {
		fns = append(fns, a)
	}
	hs := p.Method(core.PkgCh, "Client", "handshake")
	if hs != nil {
		fns = append(fns, hs.AnonFuncs...)
	}
	// plus the library functions they call statically (a goroutine body may be a method)
	for _, g := range append([]*ssa.Function{}, fns...) {
		for f := range core.StaticReach(g, 2) {
			if pkgOf(f) != nil && pkgOf(f).Path() == core.PkgCh {
				fns = append(fns, f)
			}
		}
	}
	sort.Slice(fns, func(i, j int) bool { return fns[i].Pos() < fns[j].Pos() })
	seen := map[*ssa.Function]bool{}
	n := 0
	for _, fn := range fns {
		if seen[fn] {
			continue
		}
		seen[fn] = true
		for _, b := range fn.Blocks {
			for _, in := range b.Instrs {
				switch x := in.(type) {
				case *ssa.Select:
					if !x.Blocking {
						continue
					}
					n++
					hasDone := false
					for _, st := range x.States {
						if st.Dir == types.RecvOnly && isCtxDone(st.Chan) {
							hasDone = true
						}
					}
					key := core.FuncName(fn) + sprintf("/select#%d", n)
					if hasDone {
						c.R.Ok(rule, key, cfg, p.Pos(x.Pos()), "blocking select has a ctx.Done() case")
					} else {
						c.R.Bad(rule, key, cfg, p.Pos(x.Pos()), "blocking select without a ctx.Done() case: the goroutine can outlive a cancelled call")
					}
				case *ssa.UnOp:
					if x.Op != token.ARROW {
						continue
					}
					n++
					key := core.FuncName(fn) + sprintf("/recv#%d", n)
					if fn == r.Watch {
						c.R.Ok(rule, key, cfg, p.Pos(x.Pos()), "bare receive is the watch's wait on the done channel (closed by the receiver's first defer)").Trivial = true
					} else if isCtxDone(x.X) {
						c.R.Ok(rule, key, cfg, p.Pos(x.Pos()), "receive from ctx.Done()")
					} else {
						c.R.Bad(rule, key, cfg, p.Pos(x.Pos()), "bare blocking receive outside the cancel-watch")
					}
				case *ssa.Send:
					n++
					c.R.Bad(rule, core.FuncName(fn)+sprintf("/send#%d", n), cfg, p.Pos(x.Pos()), "bare blocking send")
				}
			}
		}
	}
	// receive loop: ctx.Err() test dominates packet()
	pk := core.FindCalls(r.Receiver, isClientMethod("packet"))
	for _, call := range pk {
		in := call.(ssa.Instruction)
		edges := core.CondEdges(r.Receiver, false, func(cond ssa.Value) (bool, bool) {
			x, nonNil, ok := nilCmp(cond)
			if !ok || !isCtxErr(x) {
				return false, false
			}
			return nonNil, true
		})
		// every path into packet() - including the loop back edges - crosses the ctx.Err()==nil edge
		okk := len(edges) > 0
		if okk {
			// from just after the call, reaching the call again must cross such an edge
			w := core.ReachAvoiding(core.PointOf(in), func(i ssa.Instruction) bool { return i == in }, nil, core.WithoutEdges(edges))
			okk = len(w) == 0 && core.OnlyViaEdges(r.Receiver, in, edges)
		}
		if okk {
			c.R.Ok(rule, core.CallKey(r.Receiver, call), cfg, p.Pos(in.Pos()), "ctx.Err()==nil is re-established before every packet read")
		} else {
			c.R.Bad(rule, core.CallKey(r.Receiver, call), cfg, p.Pos(in.Pos()), "the receive loop can read the next packet without re-testing the context")
		}
	}
	if len(pk) == 0 {
		c.R.Unk(rule, core.FuncName(r.Receiver), cfg, p.Pos(r.Receiver.Pos()), "no packet() call in the receiver")
	}
}

func isCtxDone(v ssa.Value) bool {
	c, ok := v.(*ssa.Call)
	if !ok || !c.Call.IsInvoke() {
		return false
	}
	return c.Call.Method.Name() == "Done" && core.IsNamed(c.Call.Value.Type(), "context", "Context")
}

// C10.handshake: the watchdog closes the connection when the parent context ends.
func ruleHandshakeWatchdog(c *Ctx, p *core.Program) {
	rule := "C10.handshake"
	c.R.Rule(rule, "handshake starts a watchdog whose select has a case on the caller's ctx.Done() that closes the connection, and a case on a context cancelled by a defer of the handshake goroutine; on failure with a finished parent context the returned error contains ctx.Err()")
	cfg := p.Cfg.Name
	hs := p.Method(core.PkgCh, "Client", "handshake")
	if !c.must(p, "(*ch.Client).handshake", hs != nil) {
		return
	}
	var dog *ssa.Function
	var cands []*ssa.Function
	for f := range core.StaticReach(hs, 3) {
		if f != hs && pkgOf(f) != nil && pkgOf(f).Path() == core.PkgCh {
			cands = append(cands, f)
		}
	}
	sort.Slice(cands, func(i, j int) bool { return cands[i].Pos() < cands[j].Pos() })
	for _, a := range cands {
		for _, b := range a.Blocks {
			for _, in := range b.Instrs {
				if s, ok := in.(*ssa.Select); ok && s.Blocking {
					dog = a
				}
			}
		}
	}
	if dog == nil {
		c.R.Bad(rule, core.FuncName(hs), cfg, p.Pos(hs.Pos()), "no watchdog goroutine with a blocking select in handshake")
		return
	}
	// the parent-context case must reach conn.Close()
	closes := false
	for _, call := range core.Calls(dog) {
		cc := call.Common()
		if cc.IsInvoke() && cc.Method.Name() == "Close" && core.IsNamed(cc.Value.Type(), "net", "Conn") {
			closes = true
		}
	}
	var sel *ssa.Select
	for _, b := range dog.Blocks {
		for _, in := range b.Instrs {
			if s, ok := in.(*ssa.Select); ok {
				sel = s
			}
		}
	}
	parentCase := false
	for _, st := range sel.States {
		if isCtxDone(st.Chan) {
			cv := st.Chan.(*ssa.Call).Call.Value
			// the handshake's ctx parameter (through the capture cell)
			if u, ok := cv.(*ssa.UnOp); ok {
				if fv, ok := u.X.(*ssa.FreeVar); ok {
					if b := freeVarBinding(hs, dog, fv.Name()); b != nil {
						if isParamCell(hs, b, "ctx") {
							parentCase = true
						}
					}
				}
			}
			if fv, ok := cv.(*ssa.FreeVar); ok {
				if b := freeVarBinding(hs, dog, fv.Name()); b != nil {
					if pr, ok := b.(*ssa.Parameter); ok && pr.Name() == "ctx" {
						parentCase = true
					}
				}
			}
			// watchdog as a method: its own context parameter, fed with handshake's ctx at the call site
			if pr, ok := cv.(*ssa.Parameter); ok && dog.Parent() == nil {
				idx := -1
				for i, q := range dog.Params {
					if q == pr {
						idx = i
					}
				}
				for f := range core.StaticReach(hs, 3) {
					for _, call := range core.Calls(f) {
						if core.StaticFn(call) != dog || idx >= len(call.Common().Args) {
							continue
						}
						a := call.Common().Args[idx]
						if ap, ok := a.(*ssa.Parameter); ok && ap.Name() == "ctx" && ap.Parent() == hs {
							parentCase = true
						}
						if u, ok := a.(*ssa.UnOp); ok {
							if fv, ok := u.X.(*ssa.FreeVar); ok && f.Parent() == hs {
								if b := freeVarBinding(hs, f, fv.Name()); b != nil && isParamCell(hs, b, "ctx") {
									parentCase = true
								}
							}
						}
						if fv, ok := a.(*ssa.FreeVar); ok && f.Parent() == hs {
							if b := freeVarBinding(hs, f, fv.Name()); b != nil {
								if bp, ok := b.(*ssa.Parameter); ok && bp.Name() == "ctx" {
									parentCase = true
								}
							}
						}
					}
				}
			}
		}
	}
	if closes && parentCase {
		c.R.Ok(rule, core.FuncName(dog), cfg, p.Pos(dog.Pos()), "watchdog selects on the caller's ctx.Done() and closes the connection")
	} else {
		c.R.Bad(rule, core.FuncName(dog), cfg, p.Pos(dog.Pos()), sprintf("watchdog: parent ctx.Done() case=%v, closes connection=%v", parentCase, closes))
	}
	// the watchdog lives only until the handshake goroutine ends: no transport
	// operation may follow the Wait in handshake's own body
	flushFn := p.Method(core.PkgCh, "Client", "flush")
	isIO := func(in ssa.Instruction) bool {
		call, ok := in.(ssa.CallInstruction)
		if !ok {
			return false
		}
		f := core.StaticFn(call)
		if f == nil || pkgOf(f) == nil || pkgOf(f).Path() != core.PkgCh {
			return false
		}
		if f == flushFn || f.Name() == "packet" || f.Name() == "flushBuf" {
			return true
		}
		for g := range core.StaticReach(f, 4) {
			if g == flushFn || g.Name() == "packet" && pkgOf(g) != nil && pkgOf(g).Path() == core.PkgCh {
				return true
			}
		}
		return false
	}
	var wait ssa.Instruction
	for _, call := range core.Calls(hs) {
		if f := core.CalleeFunc(call); f != nil && f.Name() == "Wait" && f.Pkg() != nil && (f.Pkg().Path() == "golang.org/x/sync/errgroup" || f.Pkg().Path() == "sync") {
			wait = call.(ssa.Instruction)
		}
	}
	// a deferred function of handshake runs after the Wait as well
	var lateDefer ssa.Instruction
	for _, call := range core.Calls(hs) {
		d, ok := call.(*ssa.Defer)
		if !ok {
			continue
		}
		f := core.StaticFn(d)
		if f == nil {
			continue
		}
		for g := range core.StaticReach(f, 4) {
			if g == flushFn || g.Name() == "packet" && pkgOf(g) != nil && pkgOf(g).Path() == core.PkgCh {
				lateDefer = d
			}
		}
	}
	if wait == nil {
		c.R.Unk(rule, core.FuncName(hs)+"/covered", cfg, p.Pos(hs.Pos()), "handshake does not wait for its goroutines (Wait call not found)")
	} else if lateDefer != nil {
		c.R.Bad(rule, core.FuncName(hs)+"/covered", cfg, p.Pos(lateDefer.Pos()), "a deferred function of handshake touches the transport: it runs after Wait(), when the watchdog has exited")
	} else if w := core.ReachAvoiding(core.PointOf(wait), isIO, nil, nil); len(w) > 0 {
		c.R.Bad(rule, core.FuncName(hs)+"/covered", cfg, p.Pos(w[0].At.Pos()), "handshake touches the transport after Wait(): the watchdog has exited by then, so a cancellation while this read/write blocks neither closes the connection nor ends the call")
	} else {
		c.R.Ok(rule, core.FuncName(hs)+"/covered", cfg, p.Pos(wait.Pos()), "no transport operation after the watched goroutines are joined")
	}
	// error on failure mentions ctx.Err()
	okErr := false
	for _, b := range hs.Blocks {
		for _, in := range b.Instrs {
			ret, ok := in.(*ssa.Return)
			if !ok {
				continue
			}
			rv := core.ReturnErr(hs, ret)
			if rv != nil && chainKeeps(rv, isCtxErr, 0) {
				okErr = true
			}
		}
	}
	if okErr {
		c.R.Ok(rule, core.FuncName(hs)+"/error", cfg, p.Pos(hs.Pos()), "a failure exit returns a chain containing ctx.Err()")
	} else {
		c.R.Bad(rule, core.FuncName(hs)+"/error", cfg, p.Pos(hs.Pos()), "no failure exit of handshake carries ctx.Err()")
	}
}

func isParamCell(fn *ssa.Function, cell ssa.Value, name string) bool {
	al, ok := cell.(*ssa.Alloc)
	if !ok {
		return false
	}
	for _, ref := range *al.Referrers() {
		if s, ok := ref.(*ssa.Store); ok && s.Addr == al {
			if pr, ok := s.Val.(*ssa.Parameter); ok && pr.Name() == name {
				return true
			}
		}
	}
	return false
}

// C10.deadline: packet() applies the context deadline also when no read timeout is configured.
func rulePacketDeadline(c *Ctx, p *core.Program, rule string) {
	c.R.Rule(rule, "in packet() (or the helper it uses), the context's deadline is selected as read deadline not only when it is earlier than the read-timeout deadline but also when no read timeout is configured: the point that takes the context deadline (a phi edge or a return of it) stays reachable when the true edge of Time.Before is removed; the selected value reaches SetReadDeadline. The comparison takes the EARLIER of the two (ctxDeadline.Before(timeoutDeadline) or timeoutDeadline.After(ctxDeadline)), and the read-timeout deadline now+ReadTimeout is computed only on an edge that implies ReadTimeout > 0 (evaluated at -1 = NoTimeout, 0 and 1)")
	cfg := p.Cfg.Name
	pk := p.Method(core.PkgCh, "Client", "packet")
	if !c.must(p, "(*ch.Client).packet", pk != nil) {
		return
	}
	// the function (packet or a static helper) that asks the context for its deadline
	var df *ssa.Function
	var dl *ssa.Call
	for fn := range core.StaticReach(pk, 2) {
		for _, call := range core.Calls(fn) {
			cc := call.Common()
			if cc.IsInvoke() && cc.Method.Name() == "Deadline" && core.IsNamed(cc.Value.Type(), "context", "Context") {
				df = fn
				dl, _ = call.(*ssa.Call)
			}
		}
	}
	if dl == nil {
		c.R.Bad(rule, core.FuncName(pk), cfg, p.Pos(pk.Pos()), "packet() ignores the context deadline")
		return
	}
	var dval ssa.Value
	for _, ref := range *dl.Referrers() {
		if e, ok := ref.(*ssa.Extract); ok && e.Index == 0 {
			dval = e
		}
	}
	// SetReadDeadline is reachable from packet
	if !core.ReachesCallee(pk, func(f *types.Func) bool { return f.Name() == "SetReadDeadline" }, 2) || dval == nil {
		c.R.Bad(rule, core.FuncName(pk), cfg, p.Pos(dl.Pos()), "no SetReadDeadline fed from the context deadline")
		return
	}
	before := core.CondEdges(df, true, func(cond ssa.Value) (bool, bool) {
		_, ok := core.CallTo(cond, func(f *types.Func) bool { return core.IsMethod(f, "time", "Time", "Before") })
		return true, ok
	})
	// selection points of dval: phi edges carrying it, returns of it, stores of it to a cell
	reach, nSel := false, 0
	for _, b := range df.Blocks {
		for _, in := range b.Instrs {
			switch x := in.(type) {
			case *ssa.Phi:
				for i, e := range x.Edges {
					if e != dval {
						continue
					}
					nSel++
					pred := b.Preds[i]
					if !core.OnlyViaEdges(df, pred.Instrs[len(pred.Instrs)-1], before) {
						reach = true
					}
				}
			case *ssa.Return:
				for _, r := range x.Results {
					if core.ResolveCellLoad(r, x) == dval {
						nSel++
						if !core.OnlyViaEdges(df, x, before) {
							reach = true
						}
					}
				}
			case *ssa.Store:
				if x.Val == dval {
					if _, isAlloc := x.Addr.(*ssa.Alloc); isAlloc {
						nSel++
						if !core.OnlyViaEdges(df, x, before) {
							reach = true
						}
					}
				}
			}
		}
	}
	// the comparison picks the earlier deadline
	isD := func(v ssa.Value) bool {
		return core.DependsOn(v, func(x ssa.Value) bool { return x == dval }, false)
	}
	for _, call := range core.Calls(df) {
		f := core.CalleeFunc(call)
		if f == nil || !(core.IsMethod(f, "time", "Time", "Before") || core.IsMethod(f, "time", "Time", "After")) {
			continue
		}
		args := call.Common().Args
		if len(args) != 2 || isD(args[0]) == isD(args[1]) {
			continue
		}
		key := core.CallKey(df, call) + "/earlier"
		if (f.Name() == "Before") == isD(args[0]) {
			c.R.Ok(rule, key, cfg, p.Pos(call.Pos()), "context deadline taken when it is the earlier one")
		} else {
			c.R.Bad(rule, key, cfg, p.Pos(call.Pos()), "the context deadline replaces the read-timeout deadline when it is the LATER one: the per-packet read is bounded by max(ReadTimeout, context deadline), so a silent server holds the call until the context ends")
		}
	}
	// now+ReadTimeout only for a positive ReadTimeout
	isTO := func(v ssa.Value) bool {
		return core.DependsOn(v, func(x ssa.Value) bool { return strings.HasSuffix(core.FieldOrigin(x, 0), ".readTimeout") }, false)
	}
	for fn := range core.StaticReach(pk, 2) {
		for _, call := range core.Calls(fn) {
			f := core.CalleeFunc(call)
			if f == nil || !core.IsMethod(f, "time", "Time", "Add") || len(call.Common().Args) != 2 || !isTO(call.Common().Args[1]) {
				continue
			}
			key := core.CallKey(fn, call) + "/positive"
			verdict := ""
			for _, h := range fn.Blocks {
				ifi, ok := h.Instrs[len(h.Instrs)-1].(*ssa.If)
				if !ok {
					continue
				}
				bo, ok := ifi.Cond.(*ssa.BinOp)
				if !ok {
					continue
				}
				var k int64
				var left bool // timeout on the left
				if kv, okc := core.ConstInt(bo.Y); okc && isTO(bo.X) {
					k, left = kv, true
				} else if kv, okc := core.ConstInt(bo.X); okc && isTO(bo.Y) {
					k, left = kv, false
				} else {
					continue
				}
				succ := -1
				if h.Succs[0].Dominates(call.Block()) && h.Succs[0] != h.Succs[1] && len(h.Succs[0].Preds) == 1 {
					succ = 0
				} else if h.Succs[1].Dominates(call.Block()) && len(h.Succs[1].Preds) == 1 {
					succ = 1
				}
				if succ < 0 {
					continue
				}
				taken := func(x int64) bool {
					a, b := x, k
					if !left {
						a, b = k, x
					}
					var t bool
					switch bo.Op {
					case token.GTR:
						t = a > b
					case token.GEQ:
						t = a >= b
					case token.LSS:
						t = a < b
					case token.LEQ:
						t = a <= b
					case token.EQL:
						t = a == b
					case token.NEQ:
						t = a != b
					}
					return t == (succ == 0)
				}
				if !taken(-1) && !taken(0) && taken(1) {
					verdict = "ok"
				} else if verdict == "" {
					verdict = sprintf("the guard at %s admits ReadTimeout=%s", p.Pos(ifi.Cond.Pos()), map[bool]string{true: "-1 (NoTimeout): the deadline lies in the past and every read that has to wait fails at once", false: "0: the deadline is now"}[taken(-1)])
				}
			}
			switch verdict {
			case "ok":
				c.R.Ok(rule, key, cfg, p.Pos(call.Pos()), "now+ReadTimeout computed only when ReadTimeout > 0")
			case "":
				c.R.Bad(rule, key, cfg, p.Pos(call.Pos()), "now+ReadTimeout is computed without a test that ReadTimeout is positive: NoTimeout (-1) yields a deadline in the past")
			default:
				c.R.Bad(rule, key, cfg, p.Pos(call.Pos()), verdict)
			}
		}
	}
	switch {
	case nSel == 0:
		c.R.Bad(rule, core.FuncName(df), cfg, p.Pos(dl.Pos()), "the context deadline is never selected as the read deadline")
	case !reach:
		c.R.Bad(rule, core.FuncName(df), cfg, p.Pos(dl.Pos()), "the context deadline is taken only when it is Before the read-timeout deadline: with ReadTimeout disabled (zero deadline) a context deadline is never applied and the read blocks forever")
	default:
		c.R.Ok(rule, core.FuncName(df), cfg, p.Pos(dl.Pos()), "context deadline selected on the Before edge and on the no-timeout edge")
	}
}

// ruleNoLockAcrossIO: no Client mutex is held while the transport is read or written.
func ruleNoLockAcrossIO(c *Ctx, p *core.Program, rule string) {
	c.R.Rule(rule, "lock/blocking discipline: in package ch no sync.Mutex / RWMutex is held across an operation that can block on the transport (net.Conn Read/Write, net.Buffers.WriteTo, io.Reader/Writer calls, or a library function that reaches one): cancellation works by a second goroutine writing the Cancel packet and closing the connection while the sender may be blocked in Write, so a lock taken around writes makes the cancel path wait for the very operation it is meant to interrupt")
	cfg := p.Cfg.Name
	isIO := func(f *types.Func) bool {
		if f == nil {
			return false
		}
		n := f.Name()
		switch {
		case (n == "Write" || n == "Read") && (core.IsMethod(f, "net", "Conn", n) || core.IsMethod(f, "io", "Writer", n) || core.IsMethod(f, "io", "Reader", n)):
			return true
		case core.IsMethod(f, "net", "Buffers", "WriteTo"), core.IsFunc(f, "io", "ReadFull"):
			return true
		}
		return false
	}
	blocks := func(call ssa.CallInstruction) bool {
		if _, isDefer := call.(*ssa.Defer); isDefer {
			return false
		}
		if _, isGo := call.(*ssa.Go); isGo {
			return false
		}
		if isIO(core.CalleeFunc(call)) {
			return true
		}
		if sf := core.StaticFn(call); sf != nil && sf.Blocks != nil && pkgOf(sf) != nil && strings.HasPrefix(pkgOf(sf).Path(), core.PkgCh) {
			return core.ReachesCallee(sf, isIO, 5)
		}
		return false
	}
	isLock := func(f *types.Func) bool {
		return f != nil && (f.Name() == "Lock" || f.Name() == "RLock") && f.Pkg() != nil && f.Pkg().Path() == "sync"
	}
	isUnlock := func(f *types.Func) bool {
		return f != nil && (f.Name() == "Unlock" || f.Name() == "RUnlock") && f.Pkg() != nil && f.Pkg().Path() == "sync"
	}
	n := 0
	for _, fn := range p.Funcs() {
		if pkgOf(fn) == nil || pkgOf(fn).Path() != core.PkgCh || fn.Blocks == nil {
			continue
		}
		for _, lk := range core.FindCalls(fn, isLock) {
			if _, isDefer := lk.(*ssa.Defer); isDefer {
				continue
			}
			n++
			key := core.CallKey(fn, lk)
			mu := accessPath(lk.Common().Args[0], 0)
			hits := core.ReachAvoiding(core.PointOf(lk.(ssa.Instruction)), func(x ssa.Instruction) bool {
				call, ok := x.(ssa.CallInstruction)
				return ok && blocks(call)
			}, func(x ssa.Instruction) bool {
				call, ok := x.(ssa.CallInstruction)
				if !ok {
					return false
				}
				if _, isDefer := call.(*ssa.Defer); isDefer {
					return false
				}
				return isUnlock(core.CalleeFunc(call)) && accessPath(call.Common().Args[0], 0) == mu
			}, nil)
			if len(hits) > 0 {
				c.R.Bad(rule, key, cfg, p.Pos(hits[0].At.Pos()), "the transport is used while "+mu+" is held ("+core.InstrString(hits[0].At)+"): a goroutine blocked there keeps the lock, and whoever needs it (the cancel path, Close) waits behind a blocked read/write")
			} else {
				c.R.Ok(rule, key, cfg, p.Pos(lk.Pos()), mu+" is not held across transport I/O")
			}
		}
	}
	c.R.Floor(rule, cfg, n, 2)
}

// ---- sentinel (C10 / C04): ReadTimeout's non-positive values never become a duration
func ruleTimeoutSentinel(c *Ctx, p *core.Program, rule string) {
	c.R.Rule(rule, "Options.ReadTimeout has sentinel values (0 = default before Connect, NoTimeout = -1): wherever client code turns a value derived from Client.readTimeout into a timeout or deadline (context.WithTimeout, Time.Add) the value flows there only from a block guarded by a comparison that excludes -1 and 0 and admits 1 (evaluated on the three values) - `min(1s, readTimeout)` with NoTimeout gives an already expired context, and the Cancel packet is never written")
	cfg := p.Cfg.Name
	isTOLoad := func(x ssa.Value) bool { return strings.HasSuffix(core.FieldOrigin(x, 0), ".readTimeout") }
	isTO := func(v ssa.Value) bool { return core.DependsOn(v, isTOLoad, false) }
	positiveAt := func(fn *ssa.Function, blk *ssa.BasicBlock) bool {
		for _, h := range fn.Blocks {
			ifi, ok := h.Instrs[len(h.Instrs)-1].(*ssa.If)
			if !ok {
				continue
			}
			bo, ok := ifi.Cond.(*ssa.BinOp)
			if !ok {
				continue
			}
			var k int64
			var left bool
			if kv, okc := core.ConstInt(bo.Y); okc && isTO(bo.X) {
				k, left = kv, true
			} else if kv, okc := core.ConstInt(bo.X); okc && isTO(bo.Y) {
				k, left = kv, false
			} else {
				continue
			}
			for succ := 0; succ < 2; succ++ {
				sb := h.Succs[succ]
				if h.Succs[0] == h.Succs[1] || len(sb.Preds) != 1 || !(sb == blk || sb.Dominates(blk)) {
					continue
				}
				taken := func(x int64) bool {
					a, b := x, k
					if !left {
						a, b = k, x
					}
					var t bool
					switch bo.Op {
					case token.GTR:
						t = a > b
					case token.GEQ:
						t = a >= b
					case token.LSS:
						t = a < b
					case token.LEQ:
						t = a <= b
					case token.EQL:
						t = a == b
					case token.NEQ:
						t = a != b
					}
					return t == (succ == 0)
				}
				if !taken(-1) && !taken(0) && taken(1) {
					return true
				}
			}
		}
		return false
	}
	n := 0
	for _, fn := range p.Funcs() {
		pk := pkgOf(fn)
		if pk == nil || pk.Path() != core.PkgCh || isServerSide(fn) || fn.Blocks == nil {
			continue
		}
		for _, call := range core.Calls(fn) {
			f := core.CalleeFunc(call)
			if f == nil {
				continue
			}
			var d ssa.Value
			args := call.Common().Args
			switch {
			case core.IsFunc(f, "context", "WithTimeout") && len(args) == 2:
				d = args[1]
			case core.IsMethod(f, "time", "Time", "Add") && len(args) == 2:
				d = args[1]
			default:
				continue
			}
			if !isTO(d) {
				continue
			}
			n++
			key := core.CallKey(fn, call) + "/sentinel"
			ok := true
			var check func(v ssa.Value, blk *ssa.BasicBlock, depth int)
			check = func(v ssa.Value, blk *ssa.BasicBlock, depth int) {
				if depth > 4 || !isTO(v) {
					return
				}
				if ph, isPhi := stripConv(v).(*ssa.Phi); isPhi {
					for i, e := range ph.Edges {
						check(e, ph.Block().Preds[i], depth+1)
					}
					return
				}
				if !positiveAt(fn, blk) {
					ok = false
				}
			}
			check(d, call.Block(), 0)
			if ok {
				c.R.Ok(rule, key, cfg, p.Pos(call.Pos()), "the read timeout reaches this duration only when it is positive")
			} else {
				c.R.Bad(rule, key, cfg, p.Pos(call.Pos()), "a duration derived from Client.readTimeout is used without a test that excludes NoTimeout (-1) and 0: the timeout or deadline lies in the past, so the guarded operation (here possibly the Cancel packet) is skipped")
			}
		}
	}
	c.R.Count("durations derived from the read timeout["+cfg+"]", n)
	c.R.Floor(rule, cfg, n, 1)
}

// ---- cancel-bound (C10 / C04): the Cancel write cannot be left without a bound by another goroutine
func ruleCancelBound(c *Ctx, p *core.Program, r *doRoles, rule string) {
	c.R.Rule(rule, "the write deadline of the connection is shared state: the sender goroutine of Do clears it (a deferred SetWriteDeadline(time.Time{}) in flush) concurrently with the cancel-watch, whose cancelQuery arms a one-second write deadline for the Cancel packet. When another goroutine root of Do can reach a disarming call, the Cancel write must not rely on that deadline alone: cancelQuery arms an independent bound before the write - a time.AfterFunc whose function closes the connection - so that Close is reached and Do returns within the grace period even if the deadline is cleared under it (peer not reading, sender stuck in Write)")
	cfg := p.Cfg.Name
	cq := p.Method(core.PkgCh, "Client", "cancelQuery")
	if !c.must(p, "(*ch.Client).cancelQuery", cq != nil) {
		return
	}
	reachesDisarm := func(root *ssa.Function) ssa.Instruction {
		if root == nil {
			return nil
		}
		for fn := range core.StaticReach(bodyOf(root), 4) {
			if pkgOf(fn) == nil || pkgOf(fn).Path() != core.PkgCh || fn == cq {
				continue
			}
			// closures deferred inside (the reset) are reached through MakeClosure by StaticReach
			for _, call := range core.Calls(fn) {
				k := isDeadlineSetter(call)
				args := call.Common().Args
				if (k == "SetWriteDeadline" || k == "SetDeadline") && len(args) > 0 && isZeroStruct(args[len(args)-1]) {
					return call.(ssa.Instruction)
				}
			}
		}
		return nil
	}
	var other ssa.Instruction
	who := ""
	for name, root := range map[string]*ssa.Function{"sender": r.Sender, "receiver": r.Receiver} {
		if in := reachesDisarm(root); in != nil {
			other, who = in, name
		}
	}
	key := core.FuncName(cq) + "/independent-bound"
	if other == nil {
		c.R.Ok(rule, key, cfg, p.Pos(cq.Pos()), "no other goroutine of Do can clear the write deadline")
		return
	}
	// the write(s) in cancelQuery
	var writes []ssa.Instruction
	for _, call := range core.Calls(cq) {
		if sf := core.StaticFn(call); sf != nil && pkgOf(sf) != nil && pkgOf(sf).Path() == core.PkgCh {
			if core.ReachesCallee(sf, func(f *types.Func) bool { return f.Name() == "Write" }, 2) || sf.Name() == "flushBuf" {
				writes = append(writes, call.(ssa.Instruction))
			}
		}
	}
	if len(writes) == 0 {
		c.R.Unk(rule, key, cfg, p.Pos(cq.Pos()), "the Cancel write was not found in cancelQuery")
		return
	}
	closesConn := func(f *ssa.Function) bool {
		if f == nil || f.Blocks == nil {
			return false
		}
		for g := range core.StaticReach(f, 2) {
			for _, call := range core.Calls(g) {
				cc := call.Common()
				if cc.IsInvoke() && cc.Method.Name() == "Close" && core.IsNamed(cc.Value.Type(), "net", "Conn") {
					return true
				}
			}
		}
		return false
	}
	var timers []ssa.Instruction
	for _, call := range core.Calls(cq) {
		f := core.CalleeFunc(call)
		if f == nil || !core.IsFunc(f, "time", "AfterFunc") || len(call.Common().Args) != 2 {
			continue
		}
		var tf *ssa.Function
		switch x := call.Common().Args[1].(type) {
		case *ssa.MakeClosure:
			tf, _ = x.Fn.(*ssa.Function)
		case *ssa.Function:
			tf = x
		}
		if closesConn(tf) {
			timers = append(timers, call.(ssa.Instruction))
		}
	}
	ok := true
	for _, w := range writes {
		dom := false
		for _, t := range timers {
			if core.Dominates(t, w) {
				dom = true
			}
		}
		if !dom {
			ok = false
		}
	}
	if ok {
		c.R.Ok(rule, key, cfg, p.Pos(cq.Pos()), "a timer that closes the connection is armed before the Cancel write")
	} else {
		c.R.Bad(rule, key, cfg, p.Pos(writes[0].Pos()), "the "+who+" goroutine can clear the connection's write deadline ("+p.Pos(other.Pos())+") after cancelQuery armed it: with a peer that is not reading, the Cancel write then blocks without any bound, Close is never reached and Do does not return")
	}
}

// ---- no-stray-goroutine (C10): Do starts goroutines only through its errgroup
func ruleNoStrayGoroutine(c *Ctx, p *core.Program, r *doRoles, rule string) {
	c.R.Rule(rule, "no goroutine started by Do outlives it: in Do and every package-ch function reachable from it (the three goroutine bodies, sendInput, handlePacket, cancelQuery ...) there is no `go` statement - the goroutines of a query are exactly those registered with the errgroup, which Do waits for. A helper that runs a user callback in a goroutine of its own and selects on ctx.Done() returns while the callback is still running: it keeps touching the caller's columns after Do has returned")
	cfg := p.Cfg.Name
	n := 0
	bad := false
	for fn := range core.StaticReach(r.Do, 5) {
		if pkgOf(fn) == nil || pkgOf(fn).Path() != core.PkgCh || isServerSide(fn) {
			continue
		}
		n++
		for _, b := range fn.Blocks {
			for _, in := range b.Instrs {
				if g, ok := in.(*ssa.Go); ok {
					bad = true
					c.R.Bad(rule, core.FuncName(fn)+"/go", cfg, p.Pos(g.Pos()), "a goroutine is started outside the errgroup of Do: nothing waits for it, so it can outlive the call (a user callback still running after Do returned the context's error)")
				}
			}
		}
	}
	if !bad {
		c.R.Ok(rule, core.FuncName(r.Do), cfg, p.Pos(r.Do.Pos()), sprintf("%d functions reachable from Do, no go statement", n))
	}
}

// ruleWritesUnderWatch (C10 / C04): Do writes to the connection only from its goroutines.
func ruleWritesUnderWatch(c *Ctx, p *core.Program, r *doRoles, rule string) {
	c.R.Rule(rule, "Do itself (outside the closures it hands to the errgroup and the deferred clean-up) calls nothing that reaches a write to the connection (net.Conn.Write, proto.Writer.Flush): every write of a query happens in the sender goroutine, next to a receive loop that re-tests the context and a cancel-watch that can close the connection - a request written inline before the goroutines exist blocks in conn.Write for ever when the peer has stopped reading, with nobody left to honour the cancellation")
	cfg := p.Cfg.Name
	isWrite := func(f *types.Func) bool {
		if core.IsMethod(f, core.PkgProto, "Writer", "Flush") {
			return true
		}
		if f.Name() == "Write" {
			if sig, ok := f.Type().(*types.Signature); ok && sig.Recv() != nil && core.IsNamed(sig.Recv().Type(), "net", "Conn") {
				return true
			}
		}
		return false
	}
	n := 0
	bad := false
	for _, b := range r.Do.Blocks {
		for _, in := range b.Instrs {
			call, ok := in.(ssa.CallInstruction)
			if !ok {
				continue
			}
			if _, isGo := in.(*ssa.Go); isGo {
				continue
			}
			n++
			reaches := false
			if f := core.CalleeFunc(call); f != nil && isWrite(f) {
				reaches = true
			}
			if sf := core.StaticFn(call); sf != nil && sf.Blocks != nil && pkgOf(sf) != nil && (pkgOf(sf).Path() == core.PkgCh || pkgOf(sf).Path() == core.PkgProto) {
				if core.ReachesCallee(sf, isWrite, 4) {
					reaches = true
				}
			}
			if reaches {
				bad = true
				c.R.Bad(rule, core.CallKey(r.Do, call), cfg, p.Pos(call.Pos()), "Do writes to the connection from its own frame, outside the sender goroutine: while this write blocks no receive loop tests the context and no cancel-watch can close the connection")
			}
		}
	}
	if !bad {
		c.R.Ok(rule, core.FuncName(r.Do), cfg, p.Pos(r.Do.Pos()), sprintf("%d calls in Do's own frame, none reaches a connection write", n))
	}
}

// paramOriginsAccepted: every static caller (in package ch) of the unexported fn passes for parameter pr a value
// whose field origin accept() approves, or its own parameter that satisfies the same (depth-bounded).
func paramOriginsAccepted(p *core.Program, fn *ssa.Function, pr *ssa.Parameter, accept func(string) bool, depth int) (string, bool) {
	if depth > 2 || fn.Object() == nil || fn.Object().Exported() {
		return "", false
	}
	idx := -1
	for i, q := range fn.Params {
		if q == pr {
			idx = i
		}
	}
	if idx < 0 {
		return "", false
	}
	callers := 0
	bad := ""
	for _, g := range p.Funcs() {
		if g.Pkg == nil || g.Pkg.Pkg.Path() != core.PkgCh {
			continue
		}
		for _, call := range core.Calls(g) {
			if core.StaticFn(call) != fn {
				continue
			}
			args := call.Common().Args
			if idx >= len(args) {
				return "", false
			}
			callers++
			a := args[idx]
			// a merge of several values (a loop-carried variable) is not "the field"
			merged := core.DependsOn(a, func(x ssa.Value) bool { _, isPhi := x.(*ssa.Phi); return isPhi }, false)
			if !merged && accept(core.FieldOrigin(a, 0)) {
				continue
			}
			if q, ok := stripConv(a).(*ssa.Parameter); ok {
				if _, ok := paramOriginsAccepted(p, g, q, accept, depth+1); ok {
					continue
				}
			}
			bad = core.FuncName(g) + " passes " + orDash(core.FieldOrigin(a, 0), a)
		}
	}
	if callers == 0 {
		return "", false
	}
	return bad, bad == ""
}

// ruleTimeoutSource (C10 / C08): the receive loop waits for a packet no longer than the configured read timeout.
func ruleTimeoutSource(c *Ctx, p *core.Program, rule string) {
	c.R.Rule(rule, "wherever package ch computes a read deadline as time.Now().Add(d) on the receive path (the function that also asks the context for its deadline), d is Client.readTimeout itself - read in place, or a parameter for which every caller passes Client.readTimeout: a loop-carried duration that grows while the server is silent (poll less often) stretches the time until a cancelled context is noticed from one read timeout to whatever the back-off has reached")
	cfg := p.Cfg.Name
	n := 0
	for _, fn := range p.Funcs() {
		if pkgOf(fn) == nil || pkgOf(fn).Path() != core.PkgCh || fn.Blocks == nil || isServerSide(fn) {
			continue
		}
		asksCtx := false
		for _, call := range core.Calls(fn) {
			cc := call.Common()
			if cc.IsInvoke() && cc.Method.Name() == "Deadline" && core.IsNamed(cc.Value.Type(), "context", "Context") {
				asksCtx = true
			}
		}
		if !asksCtx {
			continue
		}
		// the function sets the read deadline itself, or computes it for a caller that does
		setsRead := func(g *ssa.Function) bool {
			return core.ReachesCallee(g, func(f *types.Func) bool { return f.Name() == "SetReadDeadline" }, 1)
		}
		onReadPath := setsRead(fn)
		if !onReadPath {
			for _, g := range p.Funcs() {
				if g.Pkg == nil || g.Pkg.Pkg.Path() != core.PkgCh || !setsRead(g) {
					continue
				}
				for _, call := range core.Calls(g) {
					if core.StaticFn(call) == fn {
						onReadPath = true
					}
				}
			}
		}
		if !onReadPath {
			continue
		}
		for _, call := range core.Calls(fn) {
			f := core.CalleeFunc(call)
			if f == nil || !core.IsMethod(f, "time", "Time", "Add") || len(call.Common().Args) != 2 {
				continue
			}
			n++
			key := core.CallKey(fn, call)
			d := call.Common().Args[1]
			isRT := func(o string) bool { return o == "Client.readTimeout" }
			dMerged := core.DependsOn(d, func(x ssa.Value) bool { _, isPhi := x.(*ssa.Phi); return isPhi }, false)
			switch {
			case !dMerged && isRT(core.FieldOrigin(d, 0)):
				c.R.Ok(rule, key, cfg, p.Pos(call.Pos()), "now + Client.readTimeout")
			default:
				if pr, ok := stripConv(d).(*ssa.Parameter); ok {
					if why, ok := paramOriginsAccepted(p, fn, pr, isRT, 0); ok {
						c.R.Ok(rule, key, cfg, p.Pos(call.Pos()), "now + parameter "+pr.Name()+"; every caller passes Client.readTimeout")
						continue
					} else if why != "" {
						c.R.Bad(rule, key, cfg, p.Pos(call.Pos()), "the read deadline is now + "+pr.Name()+", and "+why+": the wait for a packet is no longer bounded by the configured read timeout")
						continue
					}
				}
				c.R.Bad(rule, key, cfg, p.Pos(call.Pos()), sprintf("the read deadline is now + %s, not now + Client.readTimeout", orDash(core.FieldOrigin(d, 0), d)))
			}
		}
	}
	c.R.Count("read deadlines computed from a duration", n)
	c.R.Floor(rule, cfg, n, 1)
}
