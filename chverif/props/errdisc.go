package props

import (
	"go/types"

	"golang.org/x/tools/go/ssa"

	"chverif/core"
)

// E6: error discipline.
//
// For a call c with error result e in function f: from c, neither a success
// exit of f nor another call of class `again` may be reachable without first
// crossing the nil edge of a test of e (or returning e / a wrapper of e).

// callClass decides whether a call belongs to the class under the rule.
type callClass func(fn *ssa.Function, c ssa.CallInstruction) bool

// errDiscOpts parameterises one use of the engine.
type errDiscOpts struct {
	Rule   string
	Class  callClass                                            // calls whose error must be honoured
	Again  callClass                                            // calls that must not be reached on the error path (nil: same as Class)
	Exempt func(fn *ssa.Function, c ssa.CallInstruction) string // non-empty reason => skipped, listed
}

// readerFuncs computes the set of library functions that (transitively) read
// from a proto.Reader / io.Reader and return an error.
func readerFuncs(p *core.Program) map[*ssa.Function]bool {
	set := map[*ssa.Function]bool{}
	changed := true
	for changed {
		changed = false
		for _, fn := range p.Funcs() {
			if set[fn] {
				continue
			}
			if _, ok := core.ReturnsError(fn.Signature); !ok {
				continue
			}
			for _, c := range core.Calls(fn) {
				if isBaseReaderCall(c) {
					set[fn] = true
					changed = true
					break
				}
				if sf := core.StaticFn(c); sf != nil {
					o := sf
					if sf.Origin() != nil {
						o = sf.Origin()
					}
					if set[sf] || set[o] {
						set[fn] = true
						changed = true
						break
					}
				}
			}
		}
	}
	return set
}

// isReaderType: *proto.Reader, *compress.Reader, io.Reader, *bufio.Reader, io.ByteReader.
func isReaderType(t types.Type) bool {
	if core.IsNamed(t, core.PkgProto, "Reader") || core.IsNamed(t, core.PkgCompress, "Reader") ||
		core.IsNamed(t, "io", "Reader") || core.IsNamed(t, "bufio", "Reader") || core.IsNamed(t, "io", "ByteReader") {
		return true
	}
	return false
}

// isBaseReaderCall: the callee returns an error and takes a reader as receiver
// or parameter (io.ReadFull, binary.ReadUvarint, (*Reader).X, X.DecodeColumn(r, n) ...).
func isBaseReaderCall(c ssa.CallInstruction) bool {
	sig := c.Common().Signature()
	if _, ok := core.ReturnsError(sig); !ok {
		return false
	}
	if sig.Recv() != nil && isReaderType(sig.Recv().Type()) {
		return true
	}
	if c.Common().IsInvoke() && isReaderType(c.Common().Value.Type()) {
		return true
	}
	for i := 0; i < sig.Params().Len(); i++ {
		if isReaderType(sig.Params().At(i).Type()) {
			return true
		}
	}
	return false
}

// readerClass: base reader calls plus static calls of transitive reader functions.
func readerClass(p *core.Program) callClass {
	rf := readerFuncs(p)
	return func(fn *ssa.Function, c ssa.CallInstruction) bool {
		if _, isDefer := c.(*ssa.Defer); isDefer {
			return false
		}
		if _, isGo := c.(*ssa.Go); isGo {
			return false
		}
		if isBaseReaderCall(c) {
			return true
		}
		if sf := core.StaticFn(c); sf != nil {
			o := sf
			if sf.Origin() != nil {
				o = sf.Origin()
			}
			return rf[sf] || rf[o]
		}
		return false
	}
}

// runErrDisc applies the rule to every function in fns and returns the number
// of call sites examined.
func runErrDisc(c *Ctx, p *core.Program, fns []*ssa.Function, o errDiscOpts) int {
	n := 0
	again := o.Again
	if again == nil {
		again = o.Class
	}
	for _, fn := range fns {
		for _, call := range core.Calls(fn) {
			if !o.Class(fn, call) {
				continue
			}
			key := core.CallKey(fn, call)
			pos := p.Pos(call.Pos())
			if o.Exempt != nil {
				if why := o.Exempt(fn, call); why != "" {
					ob := c.R.Ok(o.Rule, key, p.Cfg.Name, pos, "exempt: "+why)
					ob.Trivial = true
					continue
				}
			}
			n++
			checkErrCall(c, p, fn, call, key, again, o.Rule)
		}
	}
	return n
}

func checkErrCall(c *Ctx, p *core.Program, fn *ssa.Function, call ssa.CallInstruction, key string, again callClass, rule string) {
	pos := p.Pos(call.Pos())
	ev := core.ErrValue(call)
	if ev == nil {
		c.R.Bad(rule, key, p.Cfg.Name, pos, "error result is discarded (never extracted / assigned to _)")
		return
	}
	al := core.Aliases(fn, ev)
	// wrappers of e: calls of Wrap/Wrapf/Append/Join with an alias as argument
	wraps := map[ssa.Value]bool{}
	grow := true
	for grow {
		grow = false
		for _, b := range fn.Blocks {
			for _, in := range b.Instrs {
				cl, ok := in.(*ssa.Call)
				if !ok || wraps[cl] {
					continue
				}
				if !isErrWrapper(cl) {
					continue
				}
				for _, a := range cl.Call.Args {
					if al[a] || wraps[a] {
						wraps[cl] = true
						grow = true
						break
					}
				}
			}
		}
		// aliases of wrappers (phis, cells)
		for w := range wraps {
			for v := range core.Aliases(fn, w) {
				if !wraps[v] {
					wraps[v] = true
					grow = true
				}
			}
		}
	}
	_, fnHasErr := core.ReturnsError(fn.Signature)
	// a helper that reports through a flag next to its error (`done, err := h(); if done { return err }`):
	// the edges on which the flag has a value for which the helper always returns a nil error count
	// as nil edges
	flagNil := core.FlagEdgesOf(fn, call, func(h *ssa.Function, ret *ssa.Return) bool {
		ei, ok := core.ReturnsError(h.Signature)
		if !ok || len(ret.Results) <= ei {
			return false
		}
		return core.IsNilConst(core.ResolveCellLoad(ret.Results[ei], ret))
	})
	edge := func(b *ssa.BasicBlock, i int) bool {
		if ifi, ok := b.Instrs[len(b.Instrs)-1].(*ssa.If); ok {
			if nilSucc, ok := core.NilTest(ifi, al); ok && nilSucc == i {
				return false // crossing the nil edge: path satisfied
			}
		}
		for _, e := range flagNil {
			if e.B == b && e.Succ == i {
				return false
			}
		}
		return true
	}
	visit := func(in ssa.Instruction) core.Action {
		switch x := in.(type) {
		case *ssa.Return:
			if !fnHasErr {
				// the error must have been stored somewhere visible: accept when a
				// wrapper/alias was stored to a free variable / field before.
				return core.Hit
			}
			rv := core.ReturnErr(fn, x)
			if rv == nil {
				return core.Hit
			}
			if al[rv] || wraps[rv] || core.IsErrorCtor(rv) {
				return core.Stop
			}
			if core.MayBeNilError(rv, 0) {
				return core.Hit
			}
			// some other error value: not a success exit by construction
			if _, isConst := rv.(*ssa.Const); isConst {
				return core.Hit
			}
			return core.Stop
		case *ssa.Panic:
			return core.Stop
		case ssa.CallInstruction:
			if x == call {
				return core.Continue
			}
			if again(fn, x) {
				return core.Hit
			}
		}
		return core.Continue
	}
	hits := core.Forward(core.PointOf(call.(ssa.Instruction)), visit, edge)
	if len(hits) == 0 {
		c.R.Ok(rule, key, p.Cfg.Name, pos, "every path from the call crosses the nil edge of a test of its error, or returns it")
		return
	}
	// functions without error result: accept when the error (or a wrapper) is
	// stored to a captured variable on every offending path
	w := hits[0]
	what := "a success exit"
	if _, isRet := w.At.(*ssa.Return); !isRet {
		what = "a further read (" + core.InstrString(w.At) + ")"
	}
	if !fnHasErr && storesErr(fn, al, wraps) {
		c.R.Ok(rule, key, p.Cfg.Name, pos, "function has no error result; the error is stored to a captured variable or handed to a handler")
		return
	}
	c.R.Bad(rule, key, p.Cfg.Name, pos,
		"the error of this call can be dropped: "+what+" is reachable from the call without crossing the nil edge of a test of the error",
		p.TrailString(w)...)
}

func storesErr(fn *ssa.Function, al, wraps map[ssa.Value]bool) bool {
	for _, b := range fn.Blocks {
		for _, in := range b.Instrs {
			// handed to a handler / logger (goroutine bodies that cannot return it)
			if cl, ok := in.(*ssa.Call); ok && !isErrWrapper(cl) {
				for _, a := range cl.Call.Args {
					if al[a] || wraps[a] {
						if f := core.CalleeFunc(cl); f == nil || f.Pkg() == nil || f.Pkg().Path() != "github.com/go-faster/errors" {
							return true
						}
					}
				}
			}
			if s, ok := in.(*ssa.Store); ok && (al[s.Val] || wraps[s.Val]) {
				if _, isFree := s.Addr.(*ssa.FreeVar); isFree {
					return true
				}
				if _, isField := s.Addr.(*ssa.FieldAddr); isField {
					return true
				}
			}
		}
	}
	return false
}

func isErrWrapper(cl *ssa.Call) bool {
	f := core.CalleeFunc(cl)
	if f == nil || f.Pkg() == nil {
		return false
	}
	switch f.Pkg().Path() {
	case "github.com/go-faster/errors", "errors":
		switch f.Name() {
		case "Wrap", "Wrapf", "Join":
			return true
		}
	case "go.uber.org/multierr":
		return f.Name() == "Append" || f.Name() == "Combine"
	case "fmt":
		return f.Name() == "Errorf"
	}
	return false
}
