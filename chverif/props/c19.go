package props

import (
	"bytes"
	"go/ast"
	"go/constant"
	"go/printer"
	"go/token"
	"go/types"
	"sort"
	"strings"

	"golang.org/x/tools/go/packages"
	"golang.org/x/tools/go/ssa"

	"chverif/core"
)

func init() { register("C19", runC19) }

func funcDecl(pk *packages.Package, recv, name string) *ast.FuncDecl {
	for _, f := range pk.Syntax {
		for _, d := range f.Decls {
			fd, ok := d.(*ast.FuncDecl)
			if !ok || fd.Name.Name != name {
				continue
			}
			if recv == "" && fd.Recv == nil {
				return fd
			}
			if fd.Recv != nil && len(fd.Recv.List) == 1 {
				t := fd.Recv.List[0].Type
				if st, ok := t.(*ast.StarExpr); ok {
					t = st.X
				}
				if id, ok := t.(*ast.Ident); ok && id.Name == recv {
					return fd
				}
			}
		}
	}
	return nil
}

// ---------------------------------------------------------------------------
// E10 swap symmetry

type canon struct {
	fset   *token.FileSet
	rename map[string]string
}

func (c *canon) id(n string) string {
	if r, ok := c.rename[n]; ok {
		return r
	}
	return n
}

func (c *canon) expr(e ast.Expr) string {
	switch x := e.(type) {
	case *ast.ParenExpr:
		return c.expr(x.X)
	case *ast.Ident:
		return c.id(x.Name)
	case *ast.BasicLit:
		return x.Value
	case *ast.SelectorExpr:
		return c.expr(x.X) + "." + x.Sel.Name
	case *ast.UnaryExpr:
		return x.Op.String() + c.expr(x.X)
	case *ast.BinaryExpr:
		switch x.Op {
		case token.LOR, token.LAND:
			var ops []string
			var flat func(e ast.Expr)
			flat = func(e ast.Expr) {
				if p, ok := e.(*ast.ParenExpr); ok {
					flat(p.X)
					return
				}
				if b, ok := e.(*ast.BinaryExpr); ok && b.Op == x.Op {
					flat(b.X)
					flat(b.Y)
					return
				}
				ops = append(ops, c.expr(e))
			}
			flat(x)
			sort.Strings(ops)
			return "(" + x.Op.String() + " " + strings.Join(ops, " ") + ")"
		case token.EQL, token.NEQ:
			ops := []string{c.expr(x.X), c.expr(x.Y)}
			sort.Strings(ops)
			return "(" + x.Op.String() + " " + ops[0] + " " + ops[1] + ")"
		}
		return "(" + x.Op.String() + " " + c.expr(x.X) + " " + c.expr(x.Y) + ")"
	case *ast.CallExpr:
		if sel, ok := x.Fun.(*ast.SelectorExpr); ok && sel.Sel.Name == "Conflicts" && len(x.Args) == 1 {
			ops := []string{c.expr(sel.X), c.expr(x.Args[0])}
			sort.Strings(ops)
			return "Conflicts{" + ops[0] + "," + ops[1] + "}" // symmetric by induction on strictly shorter strings
		}
		var args []string
		for _, a := range x.Args {
			args = append(args, c.expr(a))
		}
		return c.expr(x.Fun) + "(" + strings.Join(args, ",") + ")"
	}
	var buf bytes.Buffer
	_ = printer.Fprint(&buf, c.fset, e)
	return "?" + buf.String()
}

func (c *canon) block(stmts []ast.Stmt) []string {
	var out []string
	var assigns []string
	flush := func() {
		sort.Strings(assigns)
		out = append(out, assigns...)
		assigns = nil
	}
	identified := false
	for _, s := range stmts {
		if identified {
			// after `if cBase != bBase { return true }` the two bases are equal
			old := c.rename
			n := map[string]string{}
			for k, v := range old {
				n[k] = v
			}
			c.rename = n
		}
		switch x := s.(type) {
		case *ast.AssignStmt:
			var l, r []string
			for _, e := range x.Lhs {
				l = append(l, c.expr(e))
			}
			for _, e := range x.Rhs {
				r = append(r, c.expr(e))
			}
			assigns = append(assigns, strings.Join(l, ",")+x.Tok.String()+strings.Join(r, ","))
			continue
		}
		flush()
		out = append(out, c.stmt(s))
	}
	flush()
	return out
}

func (c *canon) stmt(s ast.Stmt) string {
	switch x := s.(type) {
	case *ast.ReturnStmt:
		var r []string
		for _, e := range x.Results {
			r = append(r, c.expr(e))
		}
		return "return " + strings.Join(r, ",")
	case *ast.IfStmt:
		out := "if " + c.expr(x.Cond) + " {" + strings.Join(c.block(x.Body.List), ";") + "}"
		if x.Else != nil {
			out += " else " + c.stmt(x.Else)
		}
		return out
	case *ast.BlockStmt:
		return "{" + strings.Join(c.block(x.List), ";") + "}"
	case *ast.SwitchStmt:
		tag := ""
		if x.Tag != nil {
			tag = c.expr(x.Tag)
		}
		var cases []string
		for _, cl := range x.Body.List {
			cc := cl.(*ast.CaseClause)
			var l []string
			for _, e := range cc.List {
				l = append(l, c.expr(e))
			}
			sort.Strings(l)
			cases = append(cases, "case "+strings.Join(l, ",")+": "+strings.Join(c.block(cc.Body), ";"))
		}
		if x.Tag == nil {
			sort.Strings(cases) // tagless switch over mutually exclusive early-outs with equal bodies
		}
		return "switch " + tag + " {" + strings.Join(cases, " | ") + "}"
	case *ast.ExprStmt:
		return c.expr(x.X)
	}
	var buf bytes.Buffer
	_ = printer.Fprint(&buf, c.fset, s)
	return "?" + buf.String()
}

func runC19(c *Ctx) {
	p := c.Prog(core.CfgDefault)
	if p == nil {
		return
	}
	cfg := p.Cfg.Name
	pk := p.Pkgs[core.PkgProto]

	ruleConflictsSymm(c, p, "C19.symm")
	ruleWrapperElem(c, p, "C19.wrapper-elem")
	ruleNullableTotal(c, p, "C19.nullable-total")
	ruleDecimalGuard(c, p, "C19.decimal-guard")
	ruleScale(c, p, "C19.scale")
	ruleStringIndexGuard(c, p, "C19.index-guard")
	ruleDictIndependentOfRows(c, p, "C19.dict-rows")
	ruleEnumNameNotSentinel(c, p, "C19.enum-sentinel")
	ruleWrapperHelperKeepsReceiver(c, p, "C19.helper-receiver")
	ruleFreshTargets(c, p, "C19.fresh")
	ruleMapInfer(c, p, "C19.mapinfer")
	ruleForwardUnconditional(c, p, "C19.forward-always")
	ruleLostReceiverWrite(c, p, "C19.receiver")
	ruleReflectConst(c, p, "C19.reflect-name")
	ruleQuoteStrip(c, p, "C19.quote-strip")
	ruleDecimalParseUnconditional(c, p, "C19.decimal-parse")
	ruleInferNoSharedState(c, p, "C19.shared-state")
	ruleConfigParsed(c, p, "C19.config")
	ruleSliceOrder(c, p, "C19.slices")
	ruleAdopt(c, p, "C19.adopt")
	ruleInferErrors(c, p, "C19.infer-errors")
	ruleAutoAtomic(c, p, "C19.auto-atomic")
	ruleAutoAdopts(c, p, "C19.auto-adopt")
	ruleStringIdioms(c, p, "C19.idioms")
	ruleInferTables(c, p, "C19")
	rule := ""
	_ = rule

	// ---- C19.reflect
	rule = "C19.reflect"
	c.R.Rule(rule, "the reflective wrappers cannot panic or misbehave: every method named Array / Nullable / LowCardinality on a column type takes no parameters and has one result that implements Column; every success exit of ColAuto.Infer is preceded by a store to c.Data or lies behind the guard `c.Data != nil` (so the reflected receiver is never nil); recursive Infer calls pass Elem() of the type being inferred")
	func() {
		colIface, _ := pk.Types.Scope().Lookup("Column").Type().Underlying().(*types.Interface)
		n := 0
		for _, ct := range columnTypes(p) {
			for i := 0; i < ct.NumMethods(); i++ {
				m := ct.Method(i)
				switch m.Name() {
				case "Array", "Nullable", "LowCardinality":
				default:
					continue
				}
				n++
				sig := m.Type().(*types.Signature)
				key := "reflect/" + ct.Obj().Name() + "." + m.Name()
				okSig := sig.Params().Len() == 0 && sig.Results().Len() == 1
				if okSig && colIface != nil && ct.TypeParams().Len() == 0 {
					okSig = types.Implements(sig.Results().At(0).Type(), colIface)
				}
				if okSig {
					c.R.Ok(rule, key, cfg, p.Pos(m.Pos()), "func() <Column>").Trivial = true
				} else {
					c.R.Bad(rule, key, cfg, p.Pos(m.Pos()), "wrapper method does not have the shape the reflective call in ColAuto.Infer assumes (no parameters, one Column result)")
				}
			}
		}
		c.R.Count("reflective wrapper methods", n)
		inf := p.Method(core.PkgProto, "ColAuto", "Infer")
		if !c.must(p, "ColAuto.Infer", inf != nil) {
			return
		}
		guard := core.CondEdges(inf, true, func(cond ssa.Value) (bool, bool) {
			x, nonNil, ok := nilCmp(cond)
			if !ok || core.FieldOrigin(x, 0) != "ColAuto.Data" {
				return false, false
			}
			return nonNil, true
		})
		guard = append(guard, core.FlagEdges(inf, func(h *ssa.Function, ret *ssa.Return) bool {
			hg := core.CondEdges(h, true, func(cond ssa.Value) (bool, bool) {
				x, nonNil, ok := nilCmp(cond)
				if !ok || core.FieldOrigin(x, 0) != "ColAuto.Data" {
					return false, false
				}
				return nonNil, true
			})
			return len(hg) > 0 && core.OnlyViaEdges(h, ret, hg)
		})...)
		isDataStore := func(in ssa.Instruction) bool {
			s, ok := in.(*ssa.Store)
			if !ok {
				return false
			}
			fa, ok := s.Addr.(*ssa.FieldAddr)
			return ok && core.IsNamed(fa.X.Type(), core.PkgProto, "ColAuto") && fieldNameOnly(fa.X.Type(), fa.Field) == "Data" && !core.IsNilConst(s.Val)
		}
		w := core.ReachAvoiding(core.Entry(inf), func(in ssa.Instruction) bool {
			r, ok := in.(*ssa.Return)
			return ok && defaultSuccess(inf, r)
		}, isDataStore, core.WithoutEdges(guard))
		if len(w) > 0 {
			c.R.Bad(rule, "ColAuto.Infer/data-set", cfg, p.Pos(w[0].At.Pos()), "Infer can return nil without having a column: the caller's reflect.ValueOf(inner.Data).MethodByName panics on the zero Value (e.g. for the empty element type of `Array()`)", p.TrailString(w[0])...)
		} else {
			c.R.Ok(rule, "ColAuto.Infer/data-set", cfg, p.Pos(inf.Pos()), "every success exit has c.Data set")
		}
		// recursion on Elem()
		okRec := true
		nRec := 0
		for _, call := range core.FindCalls(inf, func(f *types.Func) bool { return core.IsMethod(f, core.PkgProto, "ColAuto", "Infer") }) {
			nRec++
			arg := call.Common().Args[1]
			if _, ok := core.CallTo(arg, func(f *types.Func) bool { return core.IsMethod(f, core.PkgProto, "ColumnType", "Elem") }); !ok {
				okRec = false
				c.R.Bad(rule, core.CallKey(inf, call), cfg, p.Pos(call.Pos()), "recursive inference is not on Elem() of the type (termination is not structural)")
			}
		}
		if okRec && nRec > 0 {
			c.R.Ok(rule, "ColAuto.Infer/recursion", cfg, p.Pos(inf.Pos()), sprintf("%d recursive calls, all on t.Elem()", nRec))
		}
		// no explicit panic in the inference functions
		for fn := range core.StaticReach(inf, 3) {
			if pkgOf(fn) == nil || pkgOf(fn).Path() != core.PkgProto {
				continue
			}
			for _, b := range fn.Blocks {
				for _, in := range b.Instrs {
					if _, ok := in.(*ssa.Panic); ok {
						c.R.Bad(rule, "panic/"+core.FuncName(fn), cfg, p.Pos(in.Pos()), "explicit panic reachable from ColAuto.Infer")
					}
				}
			}
		}
	}()
	c.R.Assumptions = append(c.R.Assumptions,
		"decided: symmetry and reflexivity of Conflicts by a syntactic invariance argument, soundness of the inference tables, decimal thresholds shared with decimalDowncast, shape of the reflective wrappers, c.Data set on success, recursion on Elem(); not decided: absence of slicing panics in Base/Elem and that every well-formed type decodes correctly (values)")
}

func minStr(a, b string) string {
	if a < b {
		return a
	}
	return b
}
func maxStr(a, b string) string {
	if a < b {
		return b
	}
	return a
}

func canonBody(fset *token.FileSet, stmts []ast.Stmt, rename map[string]string, rb, ab string) []string {
	cn := &canon{fset: fset, rename: map[string]string{}}
	for k, v := range rename {
		cn.rename[k] = v
	}
	var out []string
	var assigns []string
	flush := func() {
		sort.Strings(assigns)
		out = append(out, assigns...)
		assigns = nil
	}
	for _, s := range stmts {
		if as, ok := s.(*ast.AssignStmt); ok {
			var l, r []string
			for _, e := range as.Lhs {
				l = append(l, cn.expr(e))
			}
			for _, e := range as.Rhs {
				r = append(r, cn.expr(e))
			}
			assigns = append(assigns, strings.Join(l, ",")+as.Tok.String()+strings.Join(r, ","))
			continue
		}
		flush()
		str := cn.stmt(s)
		out = append(out, str)
		// identification of the bases after `if cBase != bBase { return true }`
		if rb != "" && ab != "" && str == "if (!= "+minStr(rb, ab)+" "+maxStr(rb, ab)+") {return true}" {
			// both spellings now denote the same value
			for k, v := range cn.rename {
				if v == ab {
					cn.rename[k] = rb
				}
			}
			if _, ok := cn.rename[ab]; !ok {
				cn.rename[ab] = rb
			}
			if v, ok := cn.rename[rb]; ok && v == ab {
				cn.rename[rb] = rb
			}
		}
	}
	flush()
	return out
}

// ruleInferTables: C19.table and C19.decimal (also used by C01).
func ruleInferTables(c *Ctx, p *core.Program, prop string) {
	cfg := p.Cfg.Name
	pk := p.Pkgs[core.PkgProto]
	rule := prop + ".table"
	c.R.Rule(rule, "soundness of the inference tables: for every `case K: new(T)` row of inferGenerated and of ColAuto.Infer's switch on the type string, the constant returned by T.Type() equals K (so the created column reports the requested type)")
	n := 0
	for _, fn := range []struct{ recv, name string }{{"", "inferGenerated"}, {"ColAuto", "Infer"}} {
		fd := funcDecl(pk, fn.recv, fn.name)
		if !c.must(p, fn.name+" declaration", fd != nil) {
			continue
		}
		ast.Inspect(fd.Body, func(nd ast.Node) bool {
			cc, ok := nd.(*ast.CaseClause)
			if !ok || len(cc.List) == 0 {
				return true
			}
			// constant case values
			var ks []string
			for _, e := range cc.List {
				tv, ok := pk.TypesInfo.Types[e]
				if !ok || tv.Value == nil || tv.Value.Kind() != constant.String {
					return true
				}
				ks = append(ks, constant.StringVal(tv.Value))
			}
			// new(T) directly in the body
			var tname *types.Named
			if len(cc.Body) > 0 {
				var rhs ast.Expr
				switch st := cc.Body[0].(type) {
				case *ast.ReturnStmt:
					if len(st.Results) == 1 {
						rhs = st.Results[0]
					}
				case *ast.AssignStmt:
					if len(st.Rhs) == 1 {
						rhs = st.Rhs[0]
					}
				}
				if call, ok := rhs.(*ast.CallExpr); ok {
					if id, ok := call.Fun.(*ast.Ident); ok && id.Name == "new" && len(call.Args) == 1 {
						if tv, ok := pk.TypesInfo.Types[call.Args[0]]; ok {
							if nn, ok := tv.Type.(*types.Named); ok {
								tname = nn
							}
						}
					}
				}
			}
			if tname == nil {
				return true
			}
			tt := methodOf(p, tname, "Type")
			if tt == nil {
				return true
			}
			cv, isConst := constReturn(tt)
			for _, k := range ks {
				key := "table/" + fn.name + "/" + k
				if !isConst {
					// parameterised type (DateTime, Enum, Decimal...): base must match
					continue
				}
				n++
				if normType(cv) == normType(k) || strings.HasPrefix(k, cv+"(") || isDecimalAlias(k, cv) {
					c.R.Ok(rule, key, cfg, p.Pos(cc.Pos()), k+" -> "+tname.Obj().Name()+" (Type() = "+cv+")")
				} else {
					c.R.Bad(rule, key, cfg, p.Pos(cc.Pos()), "type "+k+" is inferred as "+tname.Obj().Name()+", whose Type() is "+cv)
				}
			}
			return true
		})
	}
	c.R.Count("inference table rows", n)
	c.R.Floor(rule, cfg, n, 22)

	// ---- decimal thresholds
	rule = prop + ".decimal"
	c.R.Rule(rule, "the precision -> width thresholds used by ColAuto.Infer for Decimal(P, S) equal those of ColumnType.decimalDowncast (which the typed path's Conflicts uses), so typed and inferred decoding of the same block agree on the column width")
	inf := funcDecl(pk, "ColAuto", "Infer")
	dd := funcDecl(pk, "ColumnType", "decimalDowncast")
	if !c.must(p, "ColAuto.Infer / decimalDowncast declarations", inf != nil && dd != nil) {
		return
	}
	a := decimalTable(pk, inf)
	b := decimalTable(pk, dd)
	// the cascade written as an if-chain, or with the parse in a helper: read it from the SSA form
	if a == nil {
		a = decimalTableSSA(p.Method(core.PkgProto, "ColAuto", "Infer"))
	}
	if b == nil {
		b = decimalTableSSA(p.Method(core.PkgProto, "ColumnType", "decimalDowncast"))
	}
	if a == nil || b == nil {
		c.R.Unk(rule, "decimal", cfg, p.Pos(inf.Pos()), "precision cascade not recognised (conditions outside comparisons of one integer with constants)")
		return
	}
	bad := false
	for prec := 1; prec <= 76; prec++ {
		if a[prec] != b[prec] {
			bad = true
			c.R.Bad(rule, "decimal", cfg, p.Pos(inf.Pos()), sprintf("Decimal(%d, S): ColAuto.Infer creates a %d-bit decimal column, decimalDowncast (typed path) treats it as %d-bit: the same block decodes to different types and values", prec, a[prec], b[prec]))
			break
		}
	}
	if !bad {
		c.R.Ok(rule, "decimal", cfg, p.Pos(inf.Pos()), "tables agree for every precision 1..76 (constant-folded cascade)")
	}
}

func normType(s string) string { return strings.ReplaceAll(s, " ", "") }

func isDecimalAlias(k, cv string) bool { return false }

// constReturn: fn returns one constant string on all paths.
func constReturn(fn *ssa.Function) (string, bool) {
	val := ""
	n := 0
	for _, b := range fn.Blocks {
		for _, in := range b.Instrs {
			r, ok := in.(*ssa.Return)
			if !ok || len(r.Results) != 1 {
				continue
			}
			cst, ok := r.Results[0].(*ssa.Const)
			if !ok || cst.Value == nil || cst.Value.Kind() != constant.String {
				return "", false
			}
			s := constant.StringVal(cst.Value)
			if n > 0 && s != val {
				return "", false
			}
			val = s
			n++
		}
	}
	return val, n > 0
}

// decimalBounds extracts width -> exclusive upper precision bound from a
// tagless switch whose cases compare an int with constants and whose bodies
// mention Decimal32/64/128/256 (as ColDecimalN or ColumnTypeDecimalN).
func decimalBounds(pk *packages.Package, fd *ast.FuncDecl) map[int]int {
	out := map[int]int{}
	ast.Inspect(fd.Body, func(n ast.Node) bool {
		sw, ok := n.(*ast.SwitchStmt)
		if !ok || sw.Tag != nil {
			return true
		}
		for _, cl := range sw.Body.List {
			cc := cl.(*ast.CaseClause)
			if len(cc.List) != 1 {
				continue
			}
			ub := -1
			ast.Inspect(cc.List[0], func(m ast.Node) bool {
				be, ok := m.(*ast.BinaryExpr)
				if !ok {
					return true
				}
				tv, ok := pk.TypesInfo.Types[be.Y]
				if !ok || tv.Value == nil {
					return true
				}
				k, ok := constant.Int64Val(tv.Value)
				if !ok {
					return true
				}
				switch be.Op {
				case token.LSS:
					ub = int(k)
				case token.LEQ:
					ub = int(k) + 1
				}
				return true
			})
			if ub < 0 {
				continue
			}
			var buf bytes.Buffer
			for _, st := range cc.Body {
				_ = printer.Fprint(&buf, token.NewFileSet(), st)
			}
			body := buf.String()
			for _, w := range []int{256, 128, 64, 32} {
				if strings.Contains(body, sprintf("Decimal%d", w)) {
					out[w] = ub
					break
				}
			}
		}
		return true
	})
	return out
}

// decimalTable constant-folds the precision cascade of fd: for every
// precision 0..100 the width (32/64/128/256) selected by the first matching
// case of the tagless switch whose bodies mention DecimalN; 0 = no column.
func decimalTable(pk *packages.Package, fd *ast.FuncDecl) map[int]int {
	var sw *ast.SwitchStmt
	ast.Inspect(fd.Body, func(n ast.Node) bool {
		s, ok := n.(*ast.SwitchStmt)
		if !ok || s.Tag != nil {
			return true
		}
		var buf bytes.Buffer
		_ = printer.Fprint(&buf, token.NewFileSet(), s.Body)
		if strings.Contains(buf.String(), "Decimal32") && strings.Contains(buf.String(), "Decimal256") {
			sw = s
		}
		return true
	})
	if sw == nil {
		return nil
	}
	widthOf := func(body []ast.Stmt) int {
		var buf bytes.Buffer
		for _, st := range body {
			_ = printer.Fprint(&buf, token.NewFileSet(), st)
		}
		for _, w := range []int{256, 128, 64, 32} {
			if strings.Contains(buf.String(), sprintf("Decimal%d", w)) {
				return w
			}
		}
		return 0
	}
	out := map[int]int{}
	for prec := 0; prec <= 100; prec++ {
		matched := false
		var def *ast.CaseClause
		for _, cl := range sw.Body.List {
			cc := cl.(*ast.CaseClause)
			if len(cc.List) == 0 {
				def = cc
				continue
			}
			for _, e := range cc.List {
				v, ok := evalCond(pk, e, int64(prec))
				if !ok {
					return nil
				}
				if v {
					out[prec] = widthOf(cc.Body)
					matched = true
					break
				}
			}
			if matched {
				break
			}
		}
		if !matched && def != nil {
			out[prec] = widthOf(def.Body)
		}
	}
	return out
}

// evalCond folds a boolean expression over one integer variable (any
// identifier without a constant value) bound to x.
func evalCond(pk *packages.Package, e ast.Expr, x int64) (bool, bool) {
	switch n := e.(type) {
	case *ast.ParenExpr:
		return evalCond(pk, n.X, x)
	case *ast.BinaryExpr:
		switch n.Op {
		case token.LAND, token.LOR:
			a, ok1 := evalCond(pk, n.X, x)
			b, ok2 := evalCond(pk, n.Y, x)
			if !ok1 || !ok2 {
				return false, false
			}
			if n.Op == token.LAND {
				return a && b, true
			}
			return a || b, true
		case token.LSS, token.LEQ, token.GTR, token.GEQ, token.EQL, token.NEQ:
			l, ok1 := evalInt(pk, n.X, x)
			r, ok2 := evalInt(pk, n.Y, x)
			if !ok1 || !ok2 {
				return false, false
			}
			switch n.Op {
			case token.LSS:
				return l < r, true
			case token.LEQ:
				return l <= r, true
			case token.GTR:
				return l > r, true
			case token.GEQ:
				return l >= r, true
			case token.EQL:
				return l == r, true
			default:
				return l != r, true
			}
		}
	case *ast.UnaryExpr:
		if n.Op == token.NOT {
			v, ok := evalCond(pk, n.X, x)
			return !v, ok
		}
	}
	return false, false
}

func evalInt(pk *packages.Package, e ast.Expr, x int64) (int64, bool) {
	if tv, ok := pk.TypesInfo.Types[e]; ok && tv.Value != nil {
		return constant.Int64Val(tv.Value)
	}
	switch n := e.(type) {
	case *ast.ParenExpr:
		return evalInt(pk, n.X, x)
	case *ast.Ident:
		return x, true
	}
	return 0, false
}

// ruleConflictsSymm (C19.symm / C18.symm)
func ruleConflictsSymm(c *Ctx, p *core.Program, rule string) {
	cfg := p.Cfg.Name
	pk := p.Pkgs[core.PkgProto]
	c.R.Rule(rule, "E10 swap symmetry: the body of ColumnType.Conflicts is canonicalised (commutative operators and independent assignments sorted, the recursive call treated as symmetric by induction on the strictly shorter element strings, the two bases identified after the dominating `cBase != bBase -> return true`) and must be equal to itself under the substitution receiver<->argument; reflexivity: `c == b -> return false` is the first statement")
	func() {
		fd := funcDecl(pk, "ColumnType", "Conflicts")
		if !c.must(p, "ColumnType.Conflicts declaration", fd != nil && fd.Body != nil) {
			return
		}
		recv := fd.Recv.List[0].Names[0].Name
		arg := fd.Type.Params.List[0].Names[0].Name
		// base variables: X := recv.Base(), Y := arg.Base()
		var rb, ab string
		ast.Inspect(fd.Body, func(n ast.Node) bool {
			as, ok := n.(*ast.AssignStmt)
			if !ok || len(as.Lhs) != 1 || len(as.Rhs) != 1 {
				return true
			}
			call, ok := as.Rhs[0].(*ast.CallExpr)
			if !ok {
				return true
			}
			sel, ok := call.Fun.(*ast.SelectorExpr)
			if !ok || sel.Sel.Name != "Base" {
				return true
			}
			id, ok := sel.X.(*ast.Ident)
			lhs, ok2 := as.Lhs[0].(*ast.Ident)
			if ok && ok2 {
				if id.Name == recv {
					rb = lhs.Name
				} else if id.Name == arg {
					ab = lhs.Name
				}
			}
			return true
		})
		key := "proto.(ColumnType).Conflicts"
		pos := p.Pos(fd.Pos())
		// reflexive
		refl := false
		if len(fd.Body.List) > 0 {
			if ifs, ok := fd.Body.List[0].(*ast.IfStmt); ok {
				cn := &canon{fset: p.Fset}
				if cn.expr(ifs.Cond) == "(== "+minStr(recv, arg)+" "+maxStr(recv, arg)+")" && len(ifs.Body.List) == 1 && cn.stmt(ifs.Body.List[0]) == "return false" {
					refl = true
				}
			}
		}
		if refl {
			c.R.Ok(rule, key+"/reflexive", cfg, pos, "first statement: if c == b { return false }")
		} else {
			c.R.Bad(rule, key+"/reflexive", cfg, pos, "Conflicts does not start with `if c == b { return false }`: reflexivity is not structural")
		}
		orig := canonBody(p.Fset, fd.Body.List, map[string]string{}, rb, ab)
		swap := map[string]string{recv: arg, arg: recv}
		if rb != "" && ab != "" {
			swap[rb], swap[ab] = ab, rb
		}
		swapped := canonBody(p.Fset, fd.Body.List, swap, rb, ab)
		if strings.Contains(strings.Join(orig, ";"), "?") {
			c.R.Unk(rule, key+"/symmetric", cfg, pos, "the body uses constructs outside the fragment the symmetry argument understands")
			return
		}
		for i := range orig {
			if i >= len(swapped) || orig[i] != swapped[i] {
				c.R.Bad(rule, key+"/symmetric", cfg, pos, "Conflicts(a,b) and Conflicts(b,a) differ: statement "+orig[i]+" becomes "+swapped[i]+" when the operands are exchanged (a mirrored clause is missing or wrong)")
				return
			}
		}
		c.R.Ok(rule, key+"/symmetric", cfg, pos, sprintf("%d canonical statements invariant under exchange of the operands", len(orig)))
	}()
	ruleEnumIntPairs(c, p, rule)
}

// ruleEnumIntPairs: the enum/raw-integer equivalences pair equal widths.
func ruleEnumIntPairs(c *Ctx, p *core.Program, rule string) {
	cfg := p.Cfg.Name
	pk := p.Pkgs[core.PkgProto]
	fd := funcDecl(pk, "ColumnType", "Conflicts")
	if fd == nil || fd.Body == nil {
		return
	}
	width := func(e ast.Expr, prefix string) string {
		id, ok := e.(*ast.Ident)
		if !ok || !strings.HasPrefix(id.Name, prefix) {
			return ""
		}
		return strings.TrimPrefix(id.Name, prefix)
	}
	n, bad := 0, false
	ast.Inspect(fd.Body, func(nd ast.Node) bool {
		be, ok := nd.(*ast.BinaryExpr)
		if !ok || be.Op != token.LAND {
			return true
		}
		l, ok1 := ast.Unparen(be.X).(*ast.BinaryExpr)
		r, ok2 := ast.Unparen(be.Y).(*ast.BinaryExpr)
		if !ok1 || !ok2 || l.Op != token.EQL || r.Op != token.EQL {
			return true
		}
		var ew, iw string
		for _, side := range []*ast.BinaryExpr{l, r} {
			for _, op := range []ast.Expr{side.X, side.Y} {
				if w := width(op, "ColumnTypeEnum"); w != "" {
					ew = w
				}
				if w := width(op, "ColumnTypeInt"); w != "" {
					iw = w
				}
			}
		}
		if ew == "" || iw == "" {
			return true
		}
		n++
		if ew != iw {
			bad = true
			c.R.Bad(rule, "proto.(ColumnType).Conflicts/enumwidth", cfg, p.Pos(be.Pos()), sprintf("Enum%s is declared compatible with Int%s: a %s-bit enum column would be decoded into a %s-bit integer target, swallowing the bytes of the following column", ew, iw, ew, iw))
		}
		return true
	})
	// element-wise recursion only for the single-parameter wrappers of the statement
	elemwise := map[string]bool{}
	found := false
	ast.Inspect(fd.Body, func(nd ast.Node) bool {
		cc, ok := nd.(*ast.CaseClause)
		if !ok {
			return true
		}
		rec := false
		for _, st := range cc.Body {
			ast.Inspect(st, func(x ast.Node) bool {
				if call, ok := x.(*ast.CallExpr); ok {
					if sel, ok := call.Fun.(*ast.SelectorExpr); ok && sel.Sel.Name == "Conflicts" {
						if inner, ok := sel.X.(*ast.CallExpr); ok {
							if s2, ok := inner.Fun.(*ast.SelectorExpr); ok && s2.Sel.Name == "Elem" {
								rec = true
							}
						}
					}
				}
				return true
			})
		}
		if rec {
			found = true
			for _, e := range cc.List {
				if id, ok := e.(*ast.Ident); ok {
					elemwise[id.Name] = true
				}
			}
		}
		return true
	})
	if found {
		want := map[string]bool{"ColumnTypeArray": true, "ColumnTypeNullable": true, "ColumnTypeLowCardinality": true}
		var extra, missing []string
		for k := range elemwise {
			if !want[k] {
				extra = append(extra, k)
			}
		}
		for k := range want {
			if !elemwise[k] {
				missing = append(missing, k)
			}
		}
		sort.Strings(extra)
		sort.Strings(missing)
		switch {
		case len(extra) > 0:
			c.R.Bad(rule, "proto.(ColumnType).Conflicts/elementwise", cfg, p.Pos(fd.Pos()), "the element-wise comparison c.Elem().Conflicts(b.Elem()) is also applied to "+strings.Join(extra, ", ")+": Elem() of a multi-parameter type is the whole parameter list (`K, V`), of which only the first component is then compared - types differing in a later parameter are declared compatible")
		case len(missing) > 0:
			c.R.Bad(rule, "proto.(ColumnType).Conflicts/elementwise", cfg, p.Pos(fd.Pos()), "no element-wise comparison for "+strings.Join(missing, ", ")+" (documented equivalence)")
		default:
			c.R.Ok(rule, "proto.(ColumnType).Conflicts/elementwise", cfg, p.Pos(fd.Pos()), "element-wise for Array, Nullable, LowCardinality only")
		}
	}
	if !bad {
		if n == 0 {
			c.R.Ok(rule, "proto.(ColumnType).Conflicts/enumwidth", cfg, p.Pos(fd.Pos()), "no enum/raw-integer equivalence clauses").Trivial = true
		} else {
			c.R.Ok(rule, "proto.(ColumnType).Conflicts/enumwidth", cfg, p.Pos(fd.Pos()), sprintf("%d enum/integer equivalence clauses, widths equal", n))
		}
	}
}

// ruleAutoAtomic (C19.auto-atomic): ColAuto.Infer changes the column only when it succeeds.
func ruleAutoAtomic(c *Ctx, p *core.Program, rule string) {
	c.R.Rule(rule, "ColAuto.Infer is all-or-nothing: from a store to a field of the receiver (DataType, Data) no failure exit is reachable - the `already inferred` shortcut compares the requested type with the stored DataType, so a DataType recorded before a failing inference makes the next Infer of the same (unsupported) type report success while Data still holds the previous column")
	cfg := p.Cfg.Name
	inf := p.Method(core.PkgProto, "ColAuto", "Infer")
	if !c.must(p, "(*proto.ColAuto).Infer", inf != nil) {
		return
	}
	recv := inf.Params[0]
	n, bad := 0, false
	for _, b := range inf.Blocks {
		for _, in := range b.Instrs {
			st, ok := in.(*ssa.Store)
			if !ok {
				continue
			}
			fa, ok := st.Addr.(*ssa.FieldAddr)
			if !ok || fa.X != ssa.Value(recv) {
				continue
			}
			n++
			hits := core.ReachAvoiding(core.PointOf(st), func(x ssa.Instruction) bool {
				ret, ok := x.(*ssa.Return)
				if !ok || x.Block().Comment == "recover" {
					return false
				}
				rv := core.ReturnErr(inf, ret)
				return rv != nil && !core.MayBeNilError(rv, 0)
			}, nil, nil)
			if len(hits) > 0 && !bad {
				bad = true
				c.R.Bad(rule, "ColAuto.Infer", cfg, p.Pos(st.Pos()), sprintf("ColAuto.%s is assigned on a path that can still fail (%s): after the failure the column is half updated", fieldNameOnly(fa.X.Type(), fa.Field), p.Pos(hits[0].At.Pos())))
			}
		}
	}
	if n == 0 {
		c.R.Unk(rule, "ColAuto.Infer", cfg, p.Pos(inf.Pos()), "no store to the receiver found")
	} else if !bad {
		c.R.Ok(rule, "ColAuto.Infer", cfg, p.Pos(inf.Pos()), sprintf("%d stores to the receiver, none followed by a failure exit", n))
	}
}

// ruleStringIdioms (C19.idioms): two string-normalisation idioms that cannot be right here.
func ruleStringIdioms(c *Ctx, p *core.Program, rule string) {
	c.R.Rule(rule, "idiom rules for the type-string handling (each names a construct whose semantics cannot implement the documented behaviour): (1) in the normalisation Conflicts applies to its operands, whitespace after commas is not removed by strings.Replace / ReplaceAll / NewReplacer with a literal pattern containing a blank (that handles exactly one blank of exactly that kind); (2) in the enum definition parser the quoted name is not cut with a strings.Trim* cutset that contains both the quote and whitespace (that also strips blanks that are part of the name, so `' a'` and `'a'` collapse)")
	cfg := p.Cfg.Name
	constStr := func(v ssa.Value) (string, bool) {
		cst, ok := v.(*ssa.Const)
		if !ok || cst.Value == nil || cst.Value.Kind() != constant.String {
			return "", false
		}
		return constant.StringVal(cst.Value), true
	}
	// (1)
	if cf := p.Method(core.PkgProto, "ColumnType", "Conflicts"); cf != nil {
		bad := false
		for _, fn := range append([]*ssa.Function{cf}, core.StaticReachList(cf)...) {
			if fn == nil || pkgOf(fn) == nil || pkgOf(fn).Path() != core.PkgProto {
				continue
			}
			for _, call := range core.Calls(fn) {
				f := core.CalleeFunc(call)
				if f == nil || f.Pkg() == nil || f.Pkg().Path() != "strings" {
					continue
				}
				switch f.Name() {
				case "Replace", "ReplaceAll", "NewReplacer":
					for _, a := range call.Common().Args {
						for _, e := range variadicElems(a) {
							if s, ok := constStr(e); ok && strings.ContainsAny(s, " \t") && strings.Contains(s, ",") {
								bad = true
								c.R.Bad(rule, "Conflicts/commas", cfg, p.Pos(call.Pos()), sprintf("%s with the literal pattern %q normalises exactly that one spelling: `A,  B`, a tab or a newline after the comma still make equal types conflict", f.Name(), s))
							}
						}
					}
				}
			}
		}
		if !bad {
			c.R.Ok(rule, "Conflicts/commas", cfg, p.Pos(cf.Pos()), "no literal-pattern replacement of blanks after commas")
		}
	}
	// (2)
	if pe := p.Method(core.PkgProto, "ColEnum", "parse"); pe != nil {
		bad := false
		for _, fn := range append([]*ssa.Function{pe}, core.StaticReachList(pe)...) {
			if fn == nil || pkgOf(fn) == nil || pkgOf(fn).Path() != core.PkgProto {
				continue
			}
			for _, call := range core.Calls(fn) {
				f := core.CalleeFunc(call)
				if f == nil || f.Pkg() == nil || f.Pkg().Path() != "strings" || !strings.HasPrefix(f.Name(), "Trim") || len(call.Common().Args) != 2 {
					continue
				}
				if s, ok := constStr(call.Common().Args[1]); ok && strings.ContainsAny(s, "'\"") && strings.ContainsAny(s, " \t") {
					bad = true
					c.R.Bad(rule, "ColEnum.parse/names", cfg, p.Pos(call.Pos()), sprintf("%s with cutset %q removes the quotes and any blanks next to them in one step, including blanks inside the quotes: enum names that differ only in leading/trailing blanks collapse to one name", f.Name(), s))
				}
			}
		}
		if !bad {
			c.R.Ok(rule, "ColEnum.parse/names", cfg, p.Pos(pe.Pos()), "quotes and surrounding blanks are not stripped by one cutset")
		}
	}
}

// ruleAutoAdopts (C18.auto-adopt / C19.auto-adopt): the inference wrapper re-infers or forwards.
func ruleAutoAdopts(c *Ctx, p *core.Program, rule string) {
	c.R.Rule(rule, "ColAuto.Infer(t) succeeds only after the held column was created for t (a store to Data) or was itself given t (a call of Infer on the held column behind a type test for Inferable): the `already compatible` shortcut relies on Conflicts, which ignores parameters (DateTime64 precision, time zone, enum values), so keeping the held column untouched reports type t while decoding with the previous parameters")
	cfg := p.Cfg.Name
	inf := p.Method(core.PkgProto, "ColAuto", "Infer")
	if !c.must(p, "(*proto.ColAuto).Infer", inf != nil) {
		return
	}
	recv := inf.Params[0]
	adopts := func(in ssa.Instruction) bool {
		switch x := in.(type) {
		case *ssa.Store:
			if fa, ok := x.Addr.(*ssa.FieldAddr); ok && fa.X == ssa.Value(recv) && fieldNameOnly(fa.X.Type(), fa.Field) == "Data" {
				return true
			}
		case ssa.CallInstruction:
			cc := x.Common()
			if cc.IsInvoke() && cc.Method.Name() == "Infer" {
				// the receiver of the call derives from c.Data
				return core.DependsOn(cc.Value, func(v ssa.Value) bool {
					fa, ok := v.(*ssa.FieldAddr)
					return ok && fa.X == ssa.Value(recv) && fieldNameOnly(fa.X.Type(), fa.Field) == "Data"
				}, false)
			}
		}
		return false
	}
	// a held column that is not Inferable has no parameters to adopt: the failed type test counts
	notInferable := core.CondEdges(inf, false, func(cond ssa.Value) (bool, bool) {
		ex, ok := cond.(*ssa.Extract)
		if !ok || ex.Index != 1 {
			return false, false
		}
		ta, ok := ex.Tuple.(*ssa.TypeAssert)
		if !ok || !ta.CommaOk {
			return false, false
		}
		return true, core.IsNamed(ta.AssertedType, core.PkgProto, "Inferable")
	})
	// the shortcut may live in a helper method reporting `done`: on the edge where the flag has a value
	// for which every such return of the helper is itself behind an adoption, the obligation is met
	sameRecv := func(h *ssa.Function) bool {
		return len(h.Params) > 0 && h.Signature.Recv() != nil && types.Identical(h.Params[0].Type(), recv.Type())
	}
	adoptsIn := func(h *ssa.Function) func(in ssa.Instruction) bool {
		hr := h.Params[0]
		return func(in ssa.Instruction) bool {
			switch x := in.(type) {
			case *ssa.Store:
				if fa, ok := x.Addr.(*ssa.FieldAddr); ok && fa.X == ssa.Value(hr) && fieldNameOnly(fa.X.Type(), fa.Field) == "Data" {
					return true
				}
			case ssa.CallInstruction:
				cc := x.Common()
				if cc.IsInvoke() && cc.Method.Name() == "Infer" {
					return core.DependsOn(cc.Value, func(v ssa.Value) bool {
						fa, ok := v.(*ssa.FieldAddr)
						return ok && fa.X == ssa.Value(hr) && fieldNameOnly(fa.X.Type(), fa.Field) == "Data"
					}, false)
				}
			}
			return false
		}
	}
	notInferableIn := func(h *ssa.Function) []core.Edge {
		return core.CondEdges(h, false, func(cond ssa.Value) (bool, bool) {
			ex, ok := cond.(*ssa.Extract)
			if !ok || ex.Index != 1 {
				return false, false
			}
			ta, ok := ex.Tuple.(*ssa.TypeAssert)
			if !ok || !ta.CommaOk {
				return false, false
			}
			return true, core.IsNamed(ta.AssertedType, core.PkgProto, "Inferable")
		})
	}
	adoptedFlag := core.FlagEdges(inf, func(h *ssa.Function, ret *ssa.Return) bool {
		if !sameRecv(h) {
			return false
		}
		if ei, ok := core.ReturnsError(h.Signature); ok && len(ret.Results) > ei && !core.MayBeNilError(ret.Results[ei], 0) {
			return true // a failure return: nothing to show
		}
		return len(core.ReachAvoiding(core.Entry(h), func(x ssa.Instruction) bool { return x == ssa.Instruction(ret) }, adoptsIn(h), core.WithoutEdges(notInferableIn(h)))) == 0
	})
	hits := core.ReachAvoiding(core.Entry(inf), func(x ssa.Instruction) bool {
		ret, ok := x.(*ssa.Return)
		return ok && x.Block().Comment != "recover" && defaultSuccess(inf, ret)
	}, adopts, core.WithoutEdges(append(append([]core.Edge{}, notInferable...), adoptedFlag...)))
	if len(hits) > 0 {
		c.R.Bad(rule, "ColAuto.Infer", cfg, p.Pos(hits[0].At.Pos()), "ColAuto.Infer can succeed while the held column neither was created for the requested type nor was told about it: after DateTime64(3), a request for DateTime64(9) keeps the precision-3 column and reports type DateTime64(9)", p.TrailString(hits[0])...)
	} else {
		c.R.Ok(rule, "ColAuto.Infer", cfg, p.Pos(inf.Pos()), "every success path creates the column for t or forwards t to it")
	}
	// keeping the held column is justified only by Conflicts saying the types are compatible
	creates := func(in ssa.Instruction) bool {
		x, ok := in.(*ssa.Store)
		if !ok {
			return false
		}
		fa, ok := x.Addr.(*ssa.FieldAddr)
		return ok && fa.X == ssa.Value(recv) && fieldNameOnly(fa.X.Type(), fa.Field) == "Data"
	}
	compatible := core.PredEdges(inf, false, func(cond ssa.Value) (bool, bool) {
		_, ok := core.CallTo(cond, func(f *types.Func) bool { return core.IsMethod(f, core.PkgProto, "ColumnType", "Conflicts") })
		return true, ok
	})
	compatible = append(compatible, core.FlagEdges(inf, func(h *ssa.Function, ret *ssa.Return) bool {
		if !sameRecv(h) {
			return false
		}
		hc := core.PredEdges(h, false, func(cond ssa.Value) (bool, bool) {
			_, ok := core.CallTo(cond, func(f *types.Func) bool { return core.IsMethod(f, core.PkgProto, "ColumnType", "Conflicts") })
			return true, ok
		})
		return len(hc) > 0 && core.OnlyViaEdges(h, ret, hc)
	})...)
	keep := core.ReachAvoiding(core.Entry(inf), func(x ssa.Instruction) bool {
		ret, ok := x.(*ssa.Return)
		return ok && x.Block().Comment != "recover" && defaultSuccess(inf, ret)
	}, creates, core.WithoutEdges(compatible))
	if len(keep) > 0 {
		c.R.Bad(rule, "ColAuto.Infer/keep", cfg, p.Pos(keep[0].At.Pos()), "ColAuto.Infer can succeed keeping the held column without Conflicts having found the requested type compatible with it: after Nullable(UInt32), a request for Nullable(Float32) keeps the UInt32 column, reports the new type, and the next block is decoded by the wrong column without an error", p.TrailString(keep[0])...)
	} else {
		c.R.Ok(rule, "ColAuto.Infer/keep", cfg, p.Pos(inf.Pos()), sprintf("the held column is kept only behind the compatible edge of Conflicts (%d edges)", len(compatible)))
	}
}

// ---- C18.lenient: Conflicts may ignore parameters only where they do not change the wire width
func ruleLenientWidth(c *Ctx, p *core.Program, rule string) {
	c.R.Rule(rule, "Conflicts declares two types of the same base compatible whatever their parameters (`case K: return false`) only for bases whose parameters do not change how many bytes a row occupies: no column type whose Type() is built from such a base K sizes its decoder's allocation by a configuration field (FixedString's Size) - otherwise a FixedString(32) result is accepted into a FixedString(16) target and half of every value is decoded as the next one")
	cfg := p.Cfg.Name
	cf := p.Method(core.PkgProto, "ColumnType", "Conflicts")
	if !c.must(p, "ColumnType.Conflicts", cf != nil) {
		return
	}
	returnsFalseOnly := func(b *ssa.BasicBlock) bool {
		if len(b.Instrs) != 1 {
			return false
		}
		ret, ok := b.Instrs[0].(*ssa.Return)
		if !ok || len(ret.Results) != 1 {
			return false
		}
		k, ok := ret.Results[0].(*ssa.Const)
		return ok && k.Value != nil && k.Value.Kind() == constant.Bool && !constant.BoolVal(k.Value)
	}
	lenient := map[string]token.Pos{}
	for _, b := range cf.Blocks {
		ifi, ok := b.Instrs[len(b.Instrs)-1].(*ssa.If)
		if !ok {
			continue
		}
		bo, ok := ifi.Cond.(*ssa.BinOp)
		if !ok || bo.Op != token.EQL {
			continue
		}
		for _, side := range []ssa.Value{bo.X, bo.Y} {
			if k, ok := side.(*ssa.Const); ok && k.Value != nil && k.Value.Kind() == constant.String && returnsFalseOnly(b.Succs[0]) {
				lenient[constant.StringVal(k.Value)] = ifi.Cond.Pos()
			}
		}
	}
	if len(lenient) == 0 {
		c.R.Ok(rule, "Conflicts/lenient", cfg, p.Pos(cf.Pos()), "no base is compatible regardless of parameters")
		return
	}
	fields := configFields(p)
	sized := map[string]string{} // type name -> field
	for k := range fields {
		tn, fld, _ := strings.Cut(k, ".")
		sized[tn] = fld
	}
	names := []string{}
	for k := range lenient {
		names = append(names, k)
	}
	sort.Strings(names)
	for _, k := range names {
		bad := ""
		for _, ct := range columnTypes(p) {
			fld, isSized := sized[ct.Obj().Name()]
			if !isSized {
				continue
			}
			tm := methodOf(p, ct, "Type")
			if tm == nil || tm.Blocks == nil {
				continue
			}
			for _, b := range tm.Blocks {
				for _, in := range b.Instrs {
					for _, op := range in.Operands(nil) {
						if kc, ok := (*op).(*ssa.Const); ok && kc.Value != nil && kc.Value.Kind() == constant.String && constant.StringVal(kc.Value) == k {
							bad = ct.Obj().Name() + "." + fld
						}
					}
				}
			}
		}
		if bad != "" {
			c.R.Bad(rule, "Conflicts/lenient/"+k, cfg, p.Pos(lenient[k]), "Conflicts accepts any two "+k+"(...) types as compatible, but the decoder of "+strings.Split(bad, ".")[0]+" reads rows*"+bad+" bytes: a result of another width is decoded into the target without an error, with every value cut or merged")
		} else {
			c.R.Ok(rule, "Conflicts/lenient/"+k, cfg, p.Pos(lenient[k]), "parameters of "+k+" do not size a decoder")
		}
	}
}

// ---- wrapper-elem (C19 / C18): a one-element wrapper forwards the element type, not its own
func ruleWrapperElem(c *Ctx, p *core.Program, rule string) {
	c.R.Rule(rule, "a wrapper column whose Type() is Base.Sub(inner.Type()) with a single inner column (Array, Nullable, LowCardinality) hands its inner column, in Infer, a type derived from t.Elem() and never its own type string t: forwarding `Nullable(DateTime64(3))` unchanged makes the inner DateTime64 parse the wrapper's string, so the first inference (done on the bare inner column) works and every re-inference of the same well-formed type fails")
	cfg := p.Cfg.Name
	n := 0
	for _, ct := range columnTypes(p) {
		tm := methodOf(p, ct, "Type")
		inf := methodOf(p, ct, "Infer")
		if tm == nil || inf == nil || tm.Blocks == nil || inf.Blocks == nil || len(inf.Params) < 2 {
			continue
		}
		inner, sub := 0, false
		for _, b := range tm.Blocks {
			for _, in := range b.Instrs {
				cl, ok := in.(ssa.CallInstruction)
				if !ok {
					continue
				}
				cc := cl.Common()
				if cc.IsInvoke() && cc.Method.Name() == "Type" {
					if loopHeaderOf(b) != nil {
						inner += 2
					} else {
						inner++
					}
				}
				if f := core.CalleeFunc(cl); f != nil && core.IsMethod(f, core.PkgProto, "ColumnType", "Sub") {
					sub = true
				}
			}
		}
		if !sub || inner != 1 {
			continue
		}
		tparam := inf.Params[1]
		for fi, fw := range core.ForwardedInvokes(inf, "Infer") {
			if len(fw.Args) != 1 {
				continue
			}
			call := fw.At
			cc := struct{ Args []ssa.Value }{fw.Args}
			n++
			key := sprintf("%s/infer#%d/elem", core.FuncName(inf), fi+1)
			fromElem := core.DependsOn(cc.Args[0], func(v ssa.Value) bool {
				cl, ok := v.(*ssa.Call)
				if !ok {
					return false
				}
				f := core.CalleeFunc(cl)
				return f != nil && core.IsMethod(f, core.PkgProto, "ColumnType", "Elem")
			}, false)
			if stripConv(cc.Args[0]) == ssa.Value(tparam) || !fromElem {
				c.R.Bad(rule, key, cfg, p.Pos(call.Pos()), ct.Obj().Name()+".Infer forwards a type that is not derived from t.Elem() to its inner column: the inner column is asked to parse the wrapper's own type string")
			} else {
				c.R.Ok(rule, key, cfg, p.Pos(call.Pos()), "inner column inferred from t.Elem()")
			}
		}
	}
	c.R.Floor(rule, cfg, n, 1)
}

// ---- C19.nullable-total: a column offered as Nullable() accepts the placeholder of a NULL row
func ruleNullableTotal(c *Ctx, p *core.Program, rule string) {
	c.R.Rule(rule, "ColNullable decodes its values column for every row, NULL rows included, and the server writes a placeholder (zero) there: a column type that offers a Nullable() wrapper (which ColAuto finds reflectively for `Nullable(T)`) has no decoder that rejects a value for not being in a table - DecodeColumn and the proto functions it calls contain no failing map lookup (`v, ok := table[x]; !ok -> error`). ColEnum's decoder is of that kind: giving it Nullable() makes `Nullable(Enum8('a'=1))` inferable and every block with a NULL row undecodable")
	cfg := p.Cfg.Name
	n := 0
	for _, ct := range columnTypes(p) {
		nm := methodOf(p, ct, "Nullable")
		dec := methodOf(p, ct, "DecodeColumn")
		if nm == nil || dec == nil || dec.Blocks == nil {
			continue
		}
		n++
		key := "nullable/" + ct.Obj().Name()
		var hit ssa.Instruction
		for fn := range core.StaticReach(dec, 2) {
			if pkgOf(fn) == nil || pkgOf(fn).Path() != core.PkgProto {
				continue
			}
			for _, b := range fn.Blocks {
				for _, in := range b.Instrs {
					lk, ok := in.(*ssa.Lookup)
					if !ok || !lk.CommaOk {
						continue
					}
					if _, isMap := lk.X.Type().Underlying().(*types.Map); !isMap {
						continue
					}
					// the miss leads to a failure return
					for _, r := range *lk.Referrers() {
						ex, ok := r.(*ssa.Extract)
						if !ok || ex.Index != 1 {
							continue
						}
						miss := core.CondEdges(fn, false, func(cond ssa.Value) (bool, bool) { return true, cond == ssa.Value(ex) })
						for _, e := range miss {
							w := core.ReachAvoiding(core.Point{B: e.B.Succs[e.Succ], I: -1}, func(x ssa.Instruction) bool {
								ret, ok := x.(*ssa.Return)
								return ok && !defaultSuccess(fn, ret)
							}, nil, nil)
							if len(w) > 0 {
								hit = lk
							}
						}
					}
				}
			}
		}
		if hit != nil {
			c.R.Bad(rule, key, cfg, p.Pos(hit.Pos()), ct.Obj().Name()+" offers Nullable() although its decoder rejects values that are missing from a table: the placeholder of a NULL row is such a value, so Nullable("+ct.Obj().Name()+") is inferred successfully and then fails to decode any block containing NULL")
		} else {
			c.R.Ok(rule, key, cfg, p.Pos(nm.Pos()), "decoder accepts every value of the element width")
		}
	}
	c.R.Count("column types offering Nullable()", n)
	c.R.Floor(rule, cfg, n, 20)
}

// ---- C19.decimal-guard: only Decimal(P, S) has a precision as its first parameter
func ruleDecimalGuard(c *Ctx, p *core.Program, rule string) {
	c.R.Rule(rule, "ColumnType.decimalDowncast reads the first parameter as the precision; that is true for the generic `Decimal(P, S)` only - the sized aliases Decimal32(S) ... Decimal256(S) carry the scale there. The parse (strconv.Atoi) is therefore reachable only through the equal edge of a comparison of Base() with the constant ColumnTypeDecimal: a prefix test lets `Decimal64(4)` downcast to Decimal32, and Conflicts then calls an 8-byte and a 4-byte decimal compatible")
	cfg := p.Cfg.Name
	dd := p.Method(core.PkgProto, "ColumnType", "decimalDowncast")
	if !c.must(p, "ColumnType.decimalDowncast", dd != nil) {
		return
	}
	decK := "Decimal"
	eq := core.CondEdges(dd, true, func(cond ssa.Value) (bool, bool) {
		bo, ok := cond.(*ssa.BinOp)
		if !ok || (bo.Op != token.EQL && bo.Op != token.NEQ) {
			return false, false
		}
		for _, pair := range [][2]ssa.Value{{bo.X, bo.Y}, {bo.Y, bo.X}} {
			k, okc := pair[1].(*ssa.Const)
			if !okc || k.Value == nil || k.Value.Kind() != constant.String || constant.StringVal(k.Value) != decK {
				continue
			}
			if _, isBase := core.CallTo(stripConv(pair[0]), func(f *types.Func) bool { return core.IsMethod(f, core.PkgProto, "ColumnType", "Base") }); isBase {
				return bo.Op == token.EQL, true
			}
		}
		return false, false
	})
	n := 0
	for _, call := range core.Calls(dd) {
		f := core.CalleeFunc(call)
		isParse := f != nil && f.Pkg() != nil && f.Pkg().Path() == "strconv"
		if !isParse {
			// the parse may live in a helper of ColumnType
			if g := core.StaticFn(call); g != nil && g.Blocks != nil && pkgOf(g) != nil && pkgOf(g).Path() == core.PkgProto {
				isParse = core.ReachesCallee(g, func(h *types.Func) bool { return h.Pkg() != nil && h.Pkg().Path() == "strconv" }, 0)
			}
		}
		if !isParse {
			continue
		}
		n++
		key := core.CallKey(dd, call) + "/decimal-only"
		if len(eq) > 0 && core.OnlyViaEdges(dd, call.(ssa.Instruction), eq) {
			c.R.Ok(rule, key, cfg, p.Pos(call.Pos()), "parsed only when Base() == Decimal")
		} else {
			c.R.Bad(rule, key, cfg, p.Pos(call.Pos()), "the first parameter is parsed as a precision although the base is not known to be exactly `Decimal`: for the sized aliases it is the scale, so decimals of different width are downcast to the same type and reported compatible")
		}
	}
	if n == 0 {
		c.R.Unk(rule, core.FuncName(dd), cfg, p.Pos(dd.Pos()), "no strconv parse in decimalDowncast")
	}
}

// decimalTableSSA: precision -> decimal width decided by the comparison cascade of fn, read from the SSA
// form (if-chains, switches and helpers that parse the precision look the same there). The cascade is
// walked for every precision 0..100 from the comparison that dominates the others; the width is the first
// DecimalN mentioned on the way to the exit. nil when the cascade is not made of comparisons of the parsed
// precision with constants only.
func decimalTableSSA(fn *ssa.Function) map[int]int {
	if fn == nil || fn.Blocks == nil {
		return nil
	}
	prec := map[ssa.Value]bool{}
	for _, call := range core.Calls(fn) {
		f := core.CalleeFunc(call)
		isParse := f != nil && f.Pkg() != nil && f.Pkg().Path() == "strconv" && f.Name() == "Atoi"
		if !isParse {
			if g := core.StaticFn(call); g != nil && g.Blocks != nil && pkgOf(g) != nil && pkgOf(g).Path() == core.PkgProto {
				if core.ReachesCallee(g, func(h *types.Func) bool { return h.Pkg() != nil && h.Pkg().Path() == "strconv" && h.Name() == "Atoi" }, 0) {
					isParse = true
				}
			}
		}
		if !isParse || call.Value() == nil {
			continue
		}
		for _, r := range *call.Value().Referrers() {
			if e, ok := r.(*ssa.Extract); ok && e.Index == 0 {
				prec[e] = true
			}
		}
	}
	if len(prec) == 0 {
		return nil
	}
	for changed := true; changed; {
		changed = false
		for _, b := range fn.Blocks {
			for _, in := range b.Instrs {
				ph, ok := in.(*ssa.Phi)
				if !ok || prec[ph] {
					continue
				}
				any, all := false, true
				for _, e := range ph.Edges {
					if prec[e] {
						any = true
					} else if _, isC := core.ConstInt(e); !isC {
						all = false
					}
				}
				if any && all {
					prec[ph] = true
					changed = true
				}
			}
		}
	}
	if t := decimalCascade(fn, prec); t != nil {
		return t
	}
	// the cascade may live in a helper that is handed the parsed precision
	for _, call := range core.Calls(fn) {
		g := core.StaticFn(call)
		if g == nil || g == fn || g.Blocks == nil || pkgOf(g) == nil || pkgOf(g).Path() != core.PkgProto {
			continue
		}
		for i, a := range call.Common().Args {
			if prec[stripConv(a)] && i < len(g.Params) {
				if t := decimalCascade(g, map[ssa.Value]bool{g.Params[i]: true}); t != nil {
					return t
				}
			}
		}
	}
	return nil
}

// decimalCascade walks the comparisons of the values in prec with constants in fn (see decimalTableSSA).
func decimalCascade(fn *ssa.Function, prec map[ssa.Value]bool) map[int]int {
	isPrec := func(v ssa.Value) bool { return prec[stripConv(v)] }
	var tests []*ssa.If
	for _, b := range fn.Blocks {
		if ifi, ok := b.Instrs[len(b.Instrs)-1].(*ssa.If); ok {
			if bo, ok := ifi.Cond.(*ssa.BinOp); ok {
				_, cy := core.ConstInt(bo.Y)
				_, cx := core.ConstInt(bo.X)
				if isPrec(bo.X) && cy || isPrec(bo.Y) && cx {
					tests = append(tests, ifi)
				}
			}
		}
	}
	if len(tests) == 0 {
		return nil
	}
	root := tests[0]
	for _, t := range tests {
		if t.Block().Dominates(root.Block()) {
			root = t
		}
	}
	width := func(b *ssa.BasicBlock) int {
		for _, in := range b.Instrs {
			s := in.String()
			if v, ok := in.(ssa.Value); ok {
				s += " " + v.Type().String()
			}
			for _, op := range in.Operands(nil) {
				if *op != nil {
					s += " " + (*op).String() + " " + (*op).Type().String()
				}
			}
			for _, w := range []int{256, 128, 64, 32} {
				if strings.Contains(s, sprintf("Decimal%d", w)) {
					return w
				}
			}
		}
		return 0
	}
	// phi values need the predecessor: the value of a phi of precisions is the precision itself or a constant
	out := map[int]int{}
	for pv := 0; pv <= 100; pv++ {
		b := root.Block()
		steps := 0
		for ; steps < 40; steps++ {
			if w := width(b); w != 0 && b != root.Block() {
				out[pv] = w
				break
			}
			switch t := b.Instrs[len(b.Instrs)-1].(type) {
			case *ssa.If:
				bo, ok := t.Cond.(*ssa.BinOp)
				if !ok {
					return nil
				}
				var a, k int64
				var okc bool
				left := isPrec(bo.X)
				if left {
					k, okc = core.ConstInt(bo.Y)
				} else if isPrec(bo.Y) {
					k, okc = core.ConstInt(bo.X)
				} else {
					return nil
				}
				if !okc {
					return nil
				}
				a = int64(pv)
				x, y := a, k
				if !left {
					x, y = k, a
				}
				var r bool
				switch bo.Op {
				case token.LSS:
					r = x < y
				case token.LEQ:
					r = x <= y
				case token.GTR:
					r = x > y
				case token.GEQ:
					r = x >= y
				case token.EQL:
					r = x == y
				case token.NEQ:
					r = x != y
				default:
					return nil
				}
				if r {
					b = t.Block().Succs[0]
				} else {
					b = t.Block().Succs[1]
				}
			case *ssa.Jump:
				b = b.Succs[0]
			default:
				steps = 1000 // Return / Panic: no width on this path
			}
		}
		if _, ok := out[pv]; !ok {
			out[pv] = 0
		}
	}
	return out
}

// ruleReflectConst (C19 / C06): reflection by name uses names the library wrote, not names from the wire.
func ruleReflectConst(c *Ctx, p *core.Program, rule string) {
	c.R.Rule(rule, "every reflect.Value.MethodByName call in package proto is given a constant name: ColAuto builds Array / Nullable / LowCardinality wrappers by calling the helper of that constant name on the inferred element; a name taken from the type string (MethodByName(t.Base())) lets a type such as Row(Int8) or WithPrecision(DateTime64(3)) select an arbitrary method of the column, and calling it without its arguments panics")
	cfg := p.Cfg.Name
	n := 0
	for _, fn := range p.Funcs() {
		if pkgOf(fn) == nil || pkgOf(fn).Path() != core.PkgProto || fn.Blocks == nil {
			continue
		}
		for _, call := range core.Calls(fn) {
			f := core.CalleeFunc(call)
			if f == nil || f.Pkg() == nil || f.Pkg().Path() != "reflect" || f.Name() != "MethodByName" {
				continue
			}
			n++
			args := call.Common().Args
			name := args[len(args)-1]
			key := core.CallKey(fn, call)
			if k, ok := name.(*ssa.Const); ok && k.Value != nil {
				c.R.Ok(rule, key, cfg, p.Pos(call.Pos()), "constant method name "+k.Value.String())
			} else if names, ok := constArgAtCallers(p, fn, name); ok {
				c.R.Ok(rule, key, cfg, p.Pos(call.Pos()), "name parameter of an unexported helper; every caller passes a constant: "+strings.Join(names, ", "))
			} else {
				c.R.Bad(rule, key, cfg, p.Pos(call.Pos()), "the method is looked up by a name computed at run time (from the type string): any exported method of the column can be selected and is then called with no arguments")
			}
		}
	}
	c.R.Count("reflect.MethodByName calls in package proto", n)
	c.R.Floor(rule, cfg, n, 1)
}

// ruleInferNoSharedState (C19): inference is a function of the type string and the column it configures.
func ruleInferNoSharedState(c *Ctx, p *core.Program, rule string) {
	c.R.Rule(rule, "nothing reachable from an Infer method of package proto (static calls inside the package) writes package-level state: no store to a global, no update of a global map, no Store/LoadOrStore/Put on a package-level sync.Map or sync.Pool - a process-wide cache of parsed definitions that hands out (or remembers) a column's own maps is rewritten in place when that column is re-inferred for another type, and every later column of the cached type decodes with the other definition's names")
	cfg := p.Cfg.Name
	seen := map[*ssa.Function]bool{}
	var fns []*ssa.Function
	for _, fn := range p.Funcs() {
		if pkgOf(fn) == nil || pkgOf(fn).Path() != core.PkgProto || fn.Name() != "Infer" || fn.Blocks == nil {
			continue
		}
		for g := range core.StaticReach(fn, 3) {
			if g.Blocks != nil && pkgOf(g) != nil && pkgOf(g).Path() == core.PkgProto && !seen[g] {
				seen[g] = true
				fns = append(fns, g)
			}
		}
	}
	sort.Slice(fns, func(i, j int) bool { return fns[i].Pos() < fns[j].Pos() })
	isGlobalRoot := func(v ssa.Value) *ssa.Global {
		for d := 0; d < 6; d++ {
			switch x := v.(type) {
			case *ssa.Global:
				if x.Pkg != nil && x.Pkg.Pkg.Path() == core.PkgProto {
					return x
				}
				return nil
			case *ssa.FieldAddr:
				v = x.X
			case *ssa.IndexAddr:
				v = x.X
			case *ssa.UnOp:
				v = x.X
			default:
				return nil
			}
		}
		return nil
	}
	bad := false
	for _, fn := range fns {
		for _, b := range fn.Blocks {
			for _, in := range b.Instrs {
				var g *ssa.Global
				what := ""
				switch x := in.(type) {
				case *ssa.Store:
					g, what = isGlobalRoot(x.Addr), "stores to"
				case *ssa.MapUpdate:
					g, what = isGlobalRoot(x.Map), "updates the map"
				case ssa.CallInstruction:
					f := core.CalleeFunc(x)
					if f != nil && f.Pkg() != nil && f.Pkg().Path() == "sync" && len(x.Common().Args) > 0 {
						switch f.Name() {
						case "Store", "LoadOrStore", "Swap", "CompareAndSwap", "Put", "LoadAndDelete", "Delete":
							g, what = isGlobalRoot(x.Common().Args[0]), "calls "+f.Name()+" on"
						}
					}
				}
				if g != nil {
					bad = true
					c.R.Bad(rule, core.FuncName(fn)+"/"+g.Name(), cfg, p.Pos(in.Pos()), sprintf("%s %s the package-level variable %s on a path reachable from Infer: inference of one column changes what other columns (and later queries) infer", fn.Name(), what, g.Name()))
				}
			}
		}
	}
	if !bad {
		c.R.Ok(rule, "Infer", cfg, "", sprintf("%d functions reachable from Infer methods, none writes package-level state", len(fns)))
	}
	c.R.Count("functions reachable from Infer methods", len(fns))
	c.R.Floor(rule, cfg, len(fns), 15)
}

// constArgAtCallers: v is a parameter of the unexported, non-escaping package function fn and every static
// call of fn in the analysed packages passes a constant for it; the constants are returned.
func constArgAtCallers(p *core.Program, fn *ssa.Function, v ssa.Value) ([]string, bool) {
	pr, ok := v.(*ssa.Parameter)
	if !ok || fn.Object() == nil || fn.Object().Exported() {
		return nil, false
	}
	idx := -1
	for i, q := range fn.Params {
		if q == pr {
			idx = i
		}
	}
	if idx < 0 {
		return nil, false
	}
	set := map[string]bool{}
	calls := 0
	for _, g := range p.Funcs() {
		for _, b := range g.Blocks {
			for _, in := range b.Instrs {
				// used as a value: callers unknown
				for _, op := range in.Operands(nil) {
					if *op == ssa.Value(fn) {
						if ci, isCall := in.(ssa.CallInstruction); !isCall || ci.Common().Value != ssa.Value(fn) {
							return nil, false
						}
					}
				}
			}
		}
		for _, call := range core.Calls(g) {
			if core.StaticFn(call) != fn {
				continue
			}
			args := call.Common().Args
			if idx >= len(args) {
				return nil, false
			}
			k, ok := args[idx].(*ssa.Const)
			if !ok || k.Value == nil {
				return nil, false
			}
			calls++
			set[k.Value.String()] = true
		}
	}
	if calls == 0 {
		return nil, false
	}
	var out []string
	for k := range set {
		out = append(out, k)
	}
	sort.Strings(out)
	return out, true
}

// ruleWrapperInferTotal (C03 / C18): a one-element wrapper fails to infer only when its element does.
func ruleWrapperInferTotal(c *Ctx, p *core.Program, rule string) {
	c.R.Rule(rule, "the Infer of a wrapper column with a single inner column (Array, Nullable: Type() = Base.Sub(inner.Type())) returns an error only when the forwarded Infer of the inner column did (the error returned derives from that call's result): the wrapper is also an element of tuples, and ColTuple / ColNamed hand every element the type string of the whole tuple - a wrapper that rejects a type because its base is not its own makes every result bound as Tuple(..., Array(T), ...) fail on the header block")
	cfg := p.Cfg.Name
	n := 0
	for _, ct := range columnTypes(p) {
		tm := methodOf(p, ct, "Type")
		inf := methodOf(p, ct, "Infer")
		if tm == nil || inf == nil || tm.Blocks == nil || inf.Blocks == nil || len(inf.Params) < 2 {
			continue
		}
		inner, sub := 0, false
		for _, b := range tm.Blocks {
			for _, in := range b.Instrs {
				cl, ok := in.(ssa.CallInstruction)
				if !ok {
					continue
				}
				cc := cl.Common()
				if cc.IsInvoke() && cc.Method.Name() == "Type" {
					if loopHeaderOf(b) != nil {
						inner += 2
					} else {
						inner++
					}
				}
				if f := core.CalleeFunc(cl); f != nil && core.IsMethod(f, core.PkgProto, "ColumnType", "Sub") {
					sub = true
				}
			}
		}
		if !sub || inner != 1 {
			continue
		}
		n++
		key := ct.Obj().Name() + ".Infer"
		// error results of forwarded Infer calls (in Infer itself or a helper it hands the inner column to)
		var errs []ssa.Value
		for f := range core.StaticReach(inf, 1) {
			if f.Blocks == nil || pkgOf(f) == nil || pkgOf(f).Path() != core.PkgProto {
				continue
			}
			for _, call := range core.Calls(f) {
				if cc := call.Common(); cc.IsInvoke() && cc.Method.Name() == "Infer" {
					if v := call.Value(); v != nil {
						errs = append(errs, v)
					}
				}
				if f != inf {
					continue
				}
			}
		}
		bad := false
		for _, b := range inf.Blocks {
			for _, in := range b.Instrs {
				r, ok := in.(*ssa.Return)
				if !ok || len(r.Results) != 1 || core.IsNilConst(r.Results[0]) {
					continue
				}
				okSrc := core.DependsOn(r.Results[0], func(x ssa.Value) bool {
					for _, e := range errs {
						if x == e {
							return true
						}
					}
					// the result of a proto helper that forwards (inferData(v, t))
					if cl, isC := x.(*ssa.Call); isC {
						if g := core.StaticFn(cl); g != nil && g.Blocks != nil && pkgOf(g) != nil && pkgOf(g).Path() == core.PkgProto && len(core.ForwardedInvokes(g, "Infer")) > 0 {
							return true
						}
					}
					return false
				}, true)
				if !okSrc {
					bad = true
					c.R.Bad(rule, key, cfg, p.Pos(r.Pos()), ct.Obj().Name()+".Infer can fail on its own account (not with the inner column's error): as an element of a tuple it is handed the tuple's type string and must tolerate it")
				}
			}
		}
		if !bad {
			c.R.Ok(rule, key, cfg, p.Pos(inf.Pos()), "fails only with the inner column's error")
		}
	}
	c.R.Count("single-inner wrapper columns", n)
	c.R.Floor(rule, cfg, n, 1)
}

// ruleQuoteStrip (C19 / C06): stripping one leading and one trailing byte needs two bytes.
func ruleQuoteStrip(c *Ctx, p *core.Program, rule string) {
	c.R.Rule(rule, "in the functions reachable from the Infer methods of package proto, a string slice s[L : len(s)-M] with constant L, M >= 1 (cutting a surrounding pair of quotes or brackets) is reachable only through a comparison that puts len(s) at L+M or more: `n > 0 && s[0] == q && s[n-1] == q` holds for the one-byte string consisting of the quote itself, and s[1:0] panics - a type string such as DateTime(') crashes inference")
	cfg := p.Cfg.Name
	seen := map[*ssa.Function]bool{}
	var fns []*ssa.Function
	for _, fn := range p.Funcs() {
		if pkgOf(fn) == nil || pkgOf(fn).Path() != core.PkgProto || fn.Name() != "Infer" || fn.Blocks == nil {
			continue
		}
		for g := range core.StaticReach(fn, 3) {
			if g.Blocks != nil && pkgOf(g) != nil && pkgOf(g).Path() == core.PkgProto && !seen[g] {
				seen[g] = true
				fns = append(fns, g)
			}
		}
	}
	sort.Slice(fns, func(i, j int) bool { return fns[i].Pos() < fns[j].Pos() })
	n := 0
	for _, fn := range fns {
		for _, b := range fn.Blocks {
			for _, in := range b.Instrs {
				sl, ok := in.(*ssa.Slice)
				if !ok || sl.Low == nil || sl.High == nil {
					continue
				}
				if bt, isB := sl.X.Type().Underlying().(*types.Basic); !isB || bt.Info()&types.IsString == 0 {
					continue
				}
				lo, okl := core.ConstInt(sl.Low)
				hb, okh := sl.High.(*ssa.BinOp)
				if !okl || lo < 1 || !okh || hb.Op != token.SUB {
					continue
				}
				m, okm := core.ConstInt(hb.Y)
				isLenOfX := func(v ssa.Value) bool {
					cl, ok := stripConv(v).(*ssa.Call)
					if !ok {
						return false
					}
					bi, ok := cl.Call.Value.(*ssa.Builtin)
					return ok && bi.Name() == "len" && cl.Call.Args[0] == sl.X
				}
				if !okm || m < 1 || !isLenOfX(hb.X) {
					continue
				}
				n++
				key := core.FuncName(fn) + sprintf("/strip#%d", n)
				need := lo + m
				enough := core.CondEdges(fn, true, func(cond ssa.Value) (bool, bool) {
					bo, ok := cond.(*ssa.BinOp)
					if !ok {
						return false, false
					}
					k, isC := core.ConstInt(bo.Y)
					if !isC || !isLenOfX(bo.X) {
						return false, false
					}
					switch bo.Op {
					case token.GEQ:
						return true, k >= need
					case token.GTR:
						return true, k >= need-1
					case token.LSS:
						return false, k >= need
					case token.LEQ:
						return false, k >= need-1
					}
					return false, false
				})
				if len(enough) > 0 && core.OnlyViaEdges(fn, sl, enough) {
					c.R.Ok(rule, key, cfg, p.Pos(sl.Pos()), sprintf("behind len >= %d", need))
				} else {
					c.R.Bad(rule, key, cfg, p.Pos(sl.Pos()), sprintf("s[%d:len(s)-%d] is evaluated without len(s) >= %d having been established: a string of %d byte(s) panics (slice bounds out of range)", lo, m, need, need-1))
				}
			}
		}
	}
	if n == 0 {
		c.R.Ok(rule, "Infer", cfg, "", sprintf("%d functions behind Infer methods, none cuts both ends of a string by constants", len(fns))).Trivial = true
	}
	c.R.Count("functions behind Infer methods (quote strip)", len(fns))
	c.R.Floor(rule, cfg, len(fns), 15)
}

// ruleDecimalParseUnconditional (C19): the precision of Decimal(P) is parsed whether or not a scale follows.
func ruleDecimalParseUnconditional(c *Ctx, p *core.Program, rule string) {
	c.R.Rule(rule, "where package proto parses the precision of a Decimal type (strconv.Atoi on the part of the parameter list before the comma, in ColAuto.Infer and ColumnType.decimalDowncast or their helpers), the parse is not control-dependent on the `found` result of strings.Cut: found means `there was a comma`, i.e. a scale was given - the legal one-parameter form Decimal(P) would keep the default precision and every Decimal(P) would be inferred as a 64-bit column")
	cfg := p.Cfg.Name
	n := 0
	for _, root := range []*ssa.Function{p.Method(core.PkgProto, "ColAuto", "Infer"), p.Method(core.PkgProto, "ColumnType", "decimalDowncast")} {
		if root == nil {
			continue
		}
		for fn := range core.StaticReach(root, 1) {
			if fn.Blocks == nil || pkgOf(fn) == nil || pkgOf(fn).Path() != core.PkgProto {
				continue
			}
			for _, call := range core.Calls(fn) {
				f := core.CalleeFunc(call)
				if f == nil || f.Pkg() == nil || f.Pkg().Path() != "strconv" || f.Name() != "Atoi" {
					continue
				}
				// only the Atoi fed from a strings.Cut
				var cut *ssa.Call
				core.DependsOn(call.Common().Args[0], func(x ssa.Value) bool {
					if ex, ok := x.(*ssa.Extract); ok {
						if cl, ok := ex.Tuple.(*ssa.Call); ok {
							if g := core.CalleeFunc(cl); g != nil && g.Pkg() != nil && g.Pkg().Path() == "strings" && g.Name() == "Cut" {
								cut = cl
							}
						}
					}
					return false
				}, true)
				if cut == nil {
					continue
				}
				n++
				key := core.CallKey(fn, call)
				found := core.CondEdges(fn, true, func(cond ssa.Value) (bool, bool) {
					v, pol := core.StripNot(cond)
					ex, ok := v.(*ssa.Extract)
					return pol, ok && ex.Tuple == ssa.Value(cut) && ex.Index == 2
				})
				if len(found) > 0 && core.OnlyViaEdges(fn, call.(ssa.Instruction), found) {
					c.R.Bad(rule, key, cfg, p.Pos(call.Pos()), "the precision is parsed only when strings.Cut found a comma: Decimal(P) without a scale keeps the default precision")
				} else {
					c.R.Ok(rule, key, cfg, p.Pos(call.Pos()), "parsed whether or not a comma follows")
				}
			}
		}
	}
	c.R.Count("Decimal precision parses", n)
	c.R.Floor(rule, cfg, n, 2)
}

// ruleEchoedTypeValidated (C18): a column that reports the type text it was given has looked at it first.
func ruleEchoedTypeValidated(c *Ctx, p *core.Program, rule string) {
	c.R.Rule(rule, "for every column type of package proto whose Type() returns a stored ColumnType field that its Infer assigns from the type it is given (Enum reports the server's definition): that assignment is not reachable from the entry of Infer without crossing a test that depends on the given type (the base is checked, the definition parsed) - Results.DecodeResult calls Infer and then compares the block's type with the target's Type(); a target that echoes whatever it was told makes that comparison compare the block's type with itself, and a JSON target silently binds String, Int64 or Array columns")
	cfg := p.Cfg.Name
	n := 0
	for _, ct := range columnTypes(p) {
		if _, ok := ct.Underlying().(*types.Struct); !ok {
			continue
		}
		tm, inf := methodOf(p, ct, "Type"), methodOf(p, ct, "Infer")
		if tm == nil || inf == nil || tm.Blocks == nil || inf.Blocks == nil || len(inf.Params) < 2 || len(tm.Params) == 0 {
			continue
		}
		// fields of type ColumnType that Type() can return
		echoed := map[string]bool{}
		for _, b := range tm.Blocks {
			for _, in := range b.Instrs {
				r, ok := in.(*ssa.Return)
				if !ok || len(r.Results) != 1 {
					continue
				}
				core.DependsOn(r.Results[0], func(x ssa.Value) bool {
					switch y := x.(type) {
					case *ssa.Field:
						if core.IsNamed(y.Type(), core.PkgProto, "ColumnType") {
							echoed[fieldNameOnly(y.X.Type(), y.Field)] = true
						}
					case *ssa.UnOp:
						if fa, ok := y.X.(*ssa.FieldAddr); ok && y.Op == token.MUL && core.IsNamed(y.Type(), core.PkgProto, "ColumnType") {
							echoed[fieldNameOnly(fa.X.Type(), fa.Field)] = true
						}
					}
					return false
				}, false)
			}
		}
		if len(echoed) == 0 {
			continue
		}
		tparam := inf.Params[1]
		fromParam := func(v ssa.Value) bool {
			return core.DependsOn(v, func(x ssa.Value) bool { return x == ssa.Value(tparam) }, true)
		}
		for _, b := range inf.Blocks {
			for _, in := range b.Instrs {
				st, ok := in.(*ssa.Store)
				if !ok {
					continue
				}
				fa, ok := st.Addr.(*ssa.FieldAddr)
				if !ok || fa.X != ssa.Value(inf.Params[0]) || !echoed[fieldNameOnly(fa.X.Type(), fa.Field)] || !fromParam(st.Val) {
					continue
				}
				n++
				key := ct.Obj().Name() + ".Infer/" + fieldNameOnly(fa.X.Type(), fa.Field)
				// edges of tests on the parameter (either side): the store must lie behind one
				var tests []core.Edge
				for _, tb := range inf.Blocks {
					if ifi, ok := tb.Instrs[len(tb.Instrs)-1].(*ssa.If); ok && fromParam(ifi.Cond) {
						tests = append(tests, core.Edge{B: tb, Succ: 0}, core.Edge{B: tb, Succ: 1})
					}
				}
				// or a call that parses the type and can fail (e.parse(t)) with its error tested
				if len(tests) == 0 {
					for _, call := range core.Calls(inf) {
						if ev := core.ErrValue(call); ev != nil {
							uses := false
							for _, a := range call.Common().Args {
								if fromParam(a) {
									uses = true
								}
							}
							if !uses {
								continue
							}
							al := core.Aliases(inf, ev)
							for _, tb := range inf.Blocks {
								if ifi, ok := tb.Instrs[len(tb.Instrs)-1].(*ssa.If); ok {
									if _, ok := core.NilTest(ifi, al); ok {
										tests = append(tests, core.Edge{B: tb, Succ: 0}, core.Edge{B: tb, Succ: 1})
									}
								}
							}
						}
					}
				}
				if len(tests) > 0 && core.OnlyViaEdges(inf, st, tests) {
					c.R.Ok(rule, key, cfg, p.Pos(st.Pos()), "the type is examined before it is adopted")
				} else {
					c.R.Bad(rule, key, cfg, p.Pos(st.Pos()), ct.Obj().Name()+".Infer adopts the given type text unexamined and Type() reports it back: the caller's compatibility check compares the block's type with itself")
				}
			}
		}
	}
	c.R.Count("columns echoing an inferred type["+cfg+"]", n)
	c.R.Floor(rule, cfg, n, 1)
}

// ruleAutoRecordsType (C18): the keep branch of ColAuto.Infer records the type it was asked for.
func ruleAutoRecordsType(c *Ctx, p *core.Program, rule string) {
	c.R.Rule(rule, "in ColAuto.Infer (or the helper of ColAuto that holds the `already compatible` branch) every success exit behind the compatible edge of the Conflicts test passes a store to DataType: ColAuto.Type() is the only place where the parameters of a held Decimal / Nullable / LowCardinality column live, so a branch that records the new type only for Inferable held columns keeps reporting the previous block's scale")
	cfg := p.Cfg.Name
	inf := p.Method(core.PkgProto, "ColAuto", "Infer")
	if !c.must(p, "(*proto.ColAuto).Infer", inf != nil) {
		return
	}
	n := 0
	for fn := range core.StaticReach(inf, 1) {
		if fn.Blocks == nil || core.RecvNamed2(fn) == nil || core.RecvNamed2(fn).Obj().Name() != "ColAuto" {
			continue
		}
		compat := core.CondEdges(fn, false, func(cond ssa.Value) (bool, bool) {
			_, ok := core.CallTo(cond, func(f *types.Func) bool { return core.IsMethod(f, core.PkgProto, "ColumnType", "Conflicts") })
			return true, ok
		})
		for _, e := range compat {
			n++
			key := core.FuncName(fn) + "/keep"
			start := core.Point{B: e.B.Succs[e.Succ], I: -1}
			w := core.ReachAvoiding(start, func(in ssa.Instruction) bool {
				r, ok := in.(*ssa.Return)
				return ok && defaultSuccess(fn, r)
			}, func(in ssa.Instruction) bool {
				st, ok := in.(*ssa.Store)
				if !ok {
					return false
				}
				fa, ok := st.Addr.(*ssa.FieldAddr)
				return ok && fieldNameOnly(fa.X.Type(), fa.Field) == "DataType"
			}, nil)
			if len(w) > 0 {
				c.R.Bad(rule, key, cfg, p.Pos(w[0].At.Pos()), "the compatible branch can succeed without recording the requested type in DataType: Type() keeps the previous parameters", p.TrailString(w[0])...)
			} else {
				c.R.Ok(rule, key, cfg, p.Pos(e.B.Instrs[len(e.B.Instrs)-1].Pos()), "DataType is stored on every successful path of the compatible branch")
			}
		}
	}
	c.R.Count("compatible branches of ColAuto", n)
	c.R.Floor(rule, cfg, n, 1)
}
