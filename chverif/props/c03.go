package props

import (
	"go/token"
	"go/types"
	"sort"
	"strings"

	"golang.org/x/tools/go/ssa"

	"chverif/core"
)

func init() { register("C03", runC03) }

// switchTable extracts, for the switch on value sel in fn, constant -> case block.
func switchTable(fn *ssa.Function, isSel func(ssa.Value) bool) map[int64]*ssa.BasicBlock {
	out := map[int64]*ssa.BasicBlock{}
	type ent struct {
		b *ssa.BasicBlock
		v int64
	}
	var ents []ent
	inS := map[*ssa.BasicBlock]bool{}
	for _, b := range fn.Blocks {
		ifi, ok := b.Instrs[len(b.Instrs)-1].(*ssa.If)
		if !ok {
			continue
		}
		bo, ok := ifi.Cond.(*ssa.BinOp)
		if !ok || bo.Op != token.EQL || !isSel(bo.X) {
			continue
		}
		if v, ok := core.ConstInt(bo.Y); ok {
			ents = append(ents, ent{b, v})
			inS[b] = true
		}
	}
	// a dispatch is a chain of such comparisons linked by their false edges; a lone comparison of the
	// selector elsewhere in the function (`if code == X && ...` inside one branch) is not a case of it
	chained := func(b *ssa.BasicBlock) bool {
		if inS[b.Succs[1]] {
			return true
		}
		for _, q := range b.Preds {
			if inS[q] && q.Succs[1] == b {
				return true
			}
		}
		return false
	}
	for _, e := range ents {
		if len(ents) > 1 && !chained(e.b) {
			continue
		}
		out[e.v] = e.b.Succs[0]
	}
	return out
}

// calleesFrom lists the callee keys of calls made in the region dominated by b,
// following static calls into package-ch helpers (depth 2); a dynamic call of a
// helper's parameter is attributed to the field the argument was loaded from.
func calleesFrom(b *ssa.BasicBlock) []string {
	set := map[string]bool{}
	var scan func(blocks []*ssa.BasicBlock, argOrigin map[*ssa.Parameter]string, d int)
	scan = func(blocks []*ssa.BasicBlock, argOrigin map[*ssa.Parameter]string, d int) {
		for _, x := range blocks {
			for _, in := range x.Instrs {
				call, ok := in.(ssa.CallInstruction)
				if !ok {
					continue
				}
				f := core.CalleeFunc(call)
				if f == nil {
					v := call.Common().Value
					if o := core.FieldOrigin(v, 0); o != "" {
						set["field:"+o] = true
					} else if pr, ok := v.(*ssa.Parameter); ok && argOrigin[pr] != "" {
						set["field:"+argOrigin[pr]] = true
					}
					continue
				}
				if f.Pkg() != nil && f.Pkg().Path() == core.PkgCh && core.RecvNamed(f) != nil {
					set[f.Name()] = true
					if sf := core.StaticFn(call); sf != nil && sf.Blocks != nil && d < 2 {
						ao := map[*ssa.Parameter]string{}
						for i, a := range call.Common().Args {
							if i < len(sf.Params) {
								if o := core.FieldOrigin(a, 0); o != "" {
									ao[sf.Params[i]] = o
								}
							}
						}
						scan(sf.Blocks, ao, d+1)
					}
				}
			}
		}
	}
	var region []*ssa.BasicBlock
	for _, x := range b.Parent().Blocks {
		if x == b || b.Dominates(x) {
			region = append(region, x)
		}
	}
	scan(region, nil, 0)
	var out []string
	for k := range set {
		out = append(out, k)
	}
	sort.Strings(out)
	return out
}

func serverCodes(p *core.Program) map[string]int64 {
	out := map[string]int64{}
	sc := p.Pkgs[core.PkgProto].Types.Scope()
	for _, n := range sc.Names() {
		cst, ok := sc.Lookup(n).(*types.Const)
		if !ok || !core.IsNamed(cst.Type(), core.PkgProto, "ServerCode") {
			continue
		}
		if v, ok := core.ConstInt(ssa.NewConst(cst.Val(), cst.Type())); ok {
			out[n] = v
		}
	}
	return out
}

func runC03(c *Ctx) {
	p := c.Prog(core.CfgDefault)
	if p == nil {
		return
	}
	cfg := p.Cfg.Name
	r := resolveDo(c, p)
	if r == nil {
		return
	}
	codes := serverCodes(p)
	c.R.Count("ServerCode constants", len(codes))
	isCode := func(v ssa.Value) bool { return core.IsNamed(v.Type(), core.PkgProto, "ServerCode") }

	// ---------------- C03.dispatch
	rule := "C03.dispatch"
	c.R.Rule(rule, "table extraction: the receive loop's switch and handlePacket's switch together route {Data,Totals -> decodeBlock(q.Result); EndOfStream -> return nil; Exception -> exception(); Progress -> progress()+OnProgress; Profile -> profile()+OnProfile; TableColumns -> decode; ProfileEvents, Log -> decodeBlock with their callbacks}; every other ServerCode constant reaches the failing default; Compressible() is exactly {Data, Totals, Extremes}")
	hp := p.Method(core.PkgCh, "Client", "handlePacket")
	if !c.must(p, "(*ch.Client).handlePacket", hp != nil) {
		return
	}
	// the part of the dispatch that is not handlePacket: the receive loop itself, or a method it calls
	disp := r.Receiver
	recvT := switchTable(r.Receiver, isCode)
	for _, f := range core.StaticReachList(r.Receiver) {
		if f == nil || f == hp || f == r.Receiver || f.Blocks == nil || pkgOf(f) == nil || pkgOf(f).Path() != core.PkgCh {
			continue
		}
		if core.ReachesCallee(f, isClientMethod("handlePacket"), 0) {
			if t := switchTable(f, isCode); len(t) > len(recvT) {
				disp, recvT = f, t
			}
		}
	}
	_ = disp
	hpT := switchTable(hp, isCode)
	want := map[string][]string{ // code -> required callees (subset) in its case region
		"ServerCodeData":         {"recv:decodeBlock"},
		"ServerCodeTotals":       {"recv:decodeBlock"},
		"ServerCodeEndOfStream":  {"recv:"},
		"ServerCodeException":    {"hp:exception"},
		"ServerCodeProgress":     {"hp:progress", "hp:field:Query.OnProgress"},
		"ServerCodeProfile":      {"hp:profile", "hp:field:Query.OnProfile"},
		"ServerCodeTableColumns": {"hp:decode"},
		"ServerProfileEvents":    {"hp:decodeBlock"},
		"ServerCodeLog":          {"hp:decodeBlock"},
	}
	names := make([]string, 0, len(codes))
	for n := range codes {
		names = append(names, n)
	}
	sort.Strings(names)
	for _, n := range names {
		v := codes[n]
		key := "code/" + n
		rb, inRecv := recvT[v]
		hb, inHP := hpT[v]
		req, handled := want[n]
		if !handled {
			if inRecv || inHP {
				c.R.Bad(rule, key, cfg, p.Pos(r.Receiver.Pos()), "packet kind outside the statement's list has a handler (oracle table needs review)")
			} else {
				c.R.Ok(rule, key, cfg, "", "not dispatched: falls to the failing default").Trivial = true
			}
			continue
		}
		okAll := true
		for _, q := range req {
			where, callee, _ := strings.Cut(q, ":")
			var blk *ssa.BasicBlock
			if where == "recv" {
				if !inRecv {
					okAll = false
					c.R.Bad(rule, key, cfg, p.Pos(r.Receiver.Pos()), "the receive loop no longer has a case for this packet kind")
					break
				}
				blk = rb
			} else {
				if inRecv {
					okAll = false
					c.R.Bad(rule, key, cfg, p.Pos(rb.Instrs[0].Pos()), "handled in the receive loop instead of handlePacket (oracle table needs review)")
					break
				}
				if !inHP {
					okAll = false
					c.R.Bad(rule, key, cfg, p.Pos(hp.Pos()), "handlePacket no longer has a case for this packet kind: it falls to the failing default")
					break
				}
				blk = hb
			}
			if callee == "" {
				continue
			}
			found := false
			for _, k := range calleesFrom(blk) {
				if k == callee {
					found = true
				}
			}
			if !found {
				okAll = false
				c.R.Bad(rule, key, cfg, p.Pos(blk.Instrs[0].Pos()), "case does not call "+callee)
				break
			}
		}
		if okAll {
			c.R.Ok(rule, key, cfg, "", "routed to "+strings.Join(req, ", "))
		}
	}
	// default of handlePacket fails: every return not dominated by a case block returns a constructed error
	func() {
		caseBlocks := []*ssa.BasicBlock{}
		for _, b := range hpT {
			caseBlocks = append(caseBlocks, b)
		}
		for _, b := range hp.Blocks {
			for _, in := range b.Instrs {
				ret, ok := in.(*ssa.Return)
				if !ok {
					continue
				}
				inCase := false
				for _, cb := range caseBlocks {
					if cb == b || cb.Dominates(b) {
						inCase = true
					}
				}
				if inCase {
					continue
				}
				rv := core.ReturnErr(hp, ret)
				if rv == nil || !core.IsErrorCtor(rv) {
					c.R.Bad(rule, "handlePacket/default", cfg, p.Pos(ret.Pos()), "the default branch of handlePacket does not fail")
					return
				}
			}
		}
		c.R.Ok(rule, "handlePacket/default", cfg, p.Pos(hp.Pos()), "unknown packet kinds return an error")
	}()
	// Compressible
	func() {
		cm := p.Method(core.PkgProto, "ServerCode", "Compressible")
		if cm == nil {
			c.R.Unk(rule, "ServerCode.Compressible", cfg, "", "anchor lost")
			return
		}
		// folded per constant, whatever the shape of the method (switch, if-chain, range test)
		var got []string
		for n, v := range codes {
			res, ok := core.FoldFunc(cm, nil, map[int]int64{0: v})
			if !ok {
				c.R.Unk(rule, "ServerCode.Compressible", cfg, p.Pos(cm.Pos()), "Compressible() does not fold for "+n)
				return
			}
			if res != 0 {
				got = append(got, n)
			}
		}
		sort.Strings(got)
		if strings.Join(got, ",") == "ServerCodeData,ServerCodeExtremes,ServerCodeTotals" {
			c.R.Ok(rule, "ServerCode.Compressible", cfg, p.Pos(cm.Pos()), strings.Join(got, ","))
		} else {
			c.R.Bad(rule, "ServerCode.Compressible", cfg, p.Pos(cm.Pos()), "compressible set is {"+strings.Join(got, ",")+"}, expected {Data, Extremes, Totals}")
		}
	}()
	// Data/Totals case: decodeBlock gets q.Result and the result handler; telemetry cases get their own Result
	func() {
		for _, n := range []string{"ServerCodeData", "ServerCodeTotals"} {
			blk := recvT[codes[n]]
			if blk == nil {
				continue
			}
			for _, x := range r.Receiver.Blocks {
				if x != blk && !blk.Dominates(x) {
					continue
				}
				for _, in := range x.Instrs {
					call, ok := in.(ssa.CallInstruction)
					if !ok || !core.IsCallOf(in, isClientMethod("decodeBlock")) {
						continue
					}
					opt := call.Common().Args[len(call.Common().Args)-1]
					res := structFieldStore(opt, "Result")
					h := structFieldStore(opt, "Handler")
					key := "decodeOptions/" + n
					switch {
					case res == nil || core.FieldOrigin(res, 0) != "Query.Result":
						c.R.Bad(rule, key, cfg, p.Pos(in.Pos()), "result blocks are not decoded into the caller's Query.Result")
					case h == nil:
						c.R.Bad(rule, key, cfg, p.Pos(in.Pos()), "no handler for result blocks")
					default:
						c.R.Ok(rule, key, cfg, p.Pos(in.Pos()), "Result <- q.Result, Handler set")
					}
				}
			}
		}
	}()

	// ---------------- C03.handler-once
	rule = "C03.handler-once"
	c.R.Rule(rule, "the handler used for Data/Totals blocks is one value created before the receive loop (the default handler carries the 'a block was already delivered' state; re-creating it per packet resets that state), and it is the caller's OnResult when one is given")
	func() {
		rh := p.Method(core.PkgCh, "Client", "resultHandler")
		if !c.must(p, "(*ch.Client).resultHandler", rh != nil) {
			return
		}
		calls := core.FindCalls(r.Receiver, isClientMethod("resultHandler"))
		if len(calls) == 0 {
			c.R.Bad(rule, core.FuncName(r.Receiver), cfg, p.Pos(r.Receiver.Pos()), "the receiver does not obtain the result handler")
			return
		}
		for _, call := range calls {
			k := core.CallKey(r.Receiver, call)
			if core.InLoop(call.(ssa.Instruction)) {
				c.R.Bad(rule, k, cfg, p.Pos(call.Pos()), "resultHandler(q) is evaluated inside the receive loop: the default handler's state is reset for every block, so a second block is accepted silently and overwrites the first")
			} else {
				c.R.Ok(rule, k, cfg, p.Pos(call.Pos()), "handler created once, before the loop")
			}
		}
		// resultHandler returns q.OnResult when set
		okRet := false
		for _, b := range rh.Blocks {
			for _, in := range b.Instrs {
				if ret, ok := in.(*ssa.Return); ok && len(ret.Results) == 1 && core.FieldOrigin(ret.Results[0], 0) == "Query.OnResult" {
					edges := core.CondEdges(rh, true, func(cond ssa.Value) (bool, bool) {
						x, nonNil, ok := nilCmp(cond)
						if !ok || core.FieldOrigin(x, 0) != "Query.OnResult" {
							return false, false
						}
						return nonNil, true
					})
					if len(edges) > 0 && core.OnlyViaEdges(rh, ret, edges) {
						okRet = true
					}
				}
			}
		}
		if okRet {
			c.R.Ok(rule, core.FuncName(rh), cfg, p.Pos(rh.Pos()), "returns q.OnResult when it is non-nil")
		} else {
			c.R.Bad(rule, core.FuncName(rh), cfg, p.Pos(rh.Pos()), "resultHandler does not return the caller's OnResult under `q.OnResult != nil`")
		}
	}()

	// ---------------- C03.handler
	rule = "C03.handler"
	c.R.Rule(rule, "in decodeBlock the block is fully decoded before the handler runs (DecodeBlock dominates the handler call), the handler is called only when block.End() is false, and no success exit after a successful decode of a non-end block avoids the handler")
	func() {
		db := p.Method(core.PkgCh, "Client", "decodeBlock")
		if !c.must(p, "(*ch.Client).decodeBlock", db != nil) {
			return
		}
		dec := core.FindCalls(db, func(f *types.Func) bool { return core.IsMethod(f, core.PkgProto, "Block", "DecodeBlock") })
		var hcalls []ssa.CallInstruction
		for _, call := range core.Calls(db) {
			if core.CalleeFunc(call) == nil && core.FieldOrigin(call.Common().Value, 0) == "decodeOptions.Handler" {
				hcalls = append(hcalls, call)
			}
		}
		if len(dec) != 1 || len(hcalls) != 1 {
			c.R.Unk(rule, core.FuncName(db), cfg, p.Pos(db.Pos()), sprintf("expected one DecodeBlock and one handler call, found %d and %d", len(dec), len(hcalls)))
			return
		}
		d, h := dec[0].(ssa.Instruction), hcalls[0].(ssa.Instruction)
		key := core.FuncName(db)
		if !core.Dominates(d, h) {
			c.R.Bad(rule, key, cfg, p.Pos(h.Pos()), "the handler can run before the block has been decoded")
			return
		}
		endFalse := core.CondEdges(db, false, func(cond ssa.Value) (bool, bool) {
			_, ok := core.CallTo(cond, func(f *types.Func) bool { return core.IsMethod(f, core.PkgProto, "Block", "End") })
			return true, ok
		})
		endTrue := core.CondEdges(db, true, func(cond ssa.Value) (bool, bool) {
			_, ok := core.CallTo(cond, func(f *types.Func) bool { return core.IsMethod(f, core.PkgProto, "Block", "End") })
			return true, ok
		})
		if len(endFalse) == 0 || !core.OnlyViaEdges(db, h, endFalse) {
			c.R.Bad(rule, key, cfg, p.Pos(h.Pos()), "the handler is reachable for the empty end-marker block (no !block.End() guard)")
			return
		}
		// the decoded block handed to the handler is the one DecodeBlock filled
		al := core.Aliases(db, core.ErrValue(dec[0]))
		edge := func(b *ssa.BasicBlock, i int) bool {
			for _, e := range endTrue {
				if e.B == b && e.Succ == i {
					return false
				}
			}
			if ifi, ok := b.Instrs[len(b.Instrs)-1].(*ssa.If); ok {
				if ns, ok := core.NilTest(ifi, al); ok && ns != i {
					return false // error branch handled by C07
				}
			}
			return true
		}
		w := core.ReachAvoiding(core.PointOf(d), core.IsExit, func(in ssa.Instruction) bool { return in == h }, edge)
		if len(w) > 0 {
			c.R.Bad(rule, key, cfg, p.Pos(w[0].At.Pos()), "a decoded non-end block can be dropped without calling the handler", p.TrailString(w[0])...)
			return
		}
		c.R.Ok(rule, key, cfg, p.Pos(h.Pos()), "decode -> !End() -> handler on every path")
	}()

	// ---------------- C03.callbacks
	rule = "C03.callbacks"
	c.R.Rule(rule, "E6 for user callbacks: from every call of a func-typed field of ch.Query / decodeOptions in the receive path, no success exit, further callback or further packet read is reachable without crossing the nil edge of a test of its error; the batch callbacks are not inside a loop")
	func() {
		cbClass := func(fn *ssa.Function, call ssa.CallInstruction) bool {
			if core.CalleeFunc(call) != nil {
				return false
			}
			o := core.FieldOrigin(call.Common().Value, 0)
			if o == "Query.OnInput" {
				return false // C09
			}
			if strings.HasPrefix(o, "Query.On") || o == "decodeOptions.Handler" {
				return true
			}
			// a callback handed to a helper as parameter: func(context.Context, ...) error
			if pr, ok := call.Common().Value.(*ssa.Parameter); ok {
				if sig, ok := pr.Type().Underlying().(*types.Signature); ok && sig.Params().Len() >= 1 && core.IsNamed(sig.Params().At(0).Type(), "context", "Context") {
					if _, hasErr := core.ReturnsError(sig); hasErr && pkgOf(fn) != nil && pkgOf(fn).Path() == core.PkgCh {
						return true
					}
				}
			}
			return false
		}
		rd := readerClass(p)
		again := func(fn *ssa.Function, call ssa.CallInstruction) bool {
			return cbClass(fn, call) && !core.InLoop(call.(ssa.Instruction)) || rd(fn, call)
		}
		var fns []*ssa.Function
		for _, fn := range p.Funcs() {
			if fn.Pkg != nil && fn.Pkg.Pkg.Path() == core.PkgCh {
				fns = append(fns, fn)
			}
		}
		n := runErrDisc(c, p, fns, errDiscOpts{Rule: rule, Class: cbClass, Again: again})
		c.R.Count("callback call sites", n)
		c.R.Floor(rule, cfg, n, 6)
		for _, fn := range fns {
			for _, call := range core.Calls(fn) {
				if !cbClass(fn, call) {
					continue
				}
				o := core.FieldOrigin(call.Common().Value, 0)
				if o == "Query.OnProfileEvent" || o == "Query.OnLog" {
					continue // deprecated per-item callbacks iterate
				}
				if core.InLoop(call.(ssa.Instruction)) {
					c.R.Bad(rule, core.CallKey(fn, call)+"/once", cfg, p.Pos(call.Pos()), "callback "+o+" is invoked inside a loop: once-per-packet delivery is not structural")
				}
			}
		}
	}()

	// ---------------- C03.delivery
	rule = "C03.delivery"
	c.R.Rule(rule, "every callback call `if f := q.OnX; f != nil { f(...) }` in the receive path is reached whenever OnX is set: from each branch of every test that dominates the call's own nil guard (other than the packet-code dispatch), no success exit is reachable without entering the guarded call or crossing an `OnX == nil` edge, so a shortcut written for another callback or for the logger cannot swallow the packet")
	func() {
		type site struct {
			fn   *ssa.Function
			call ssa.CallInstruction
			o    string
		}
		cbField := func(v ssa.Value) string {
			o := core.FieldOrigin(v, 0)
			if strings.HasPrefix(o, "Query.On") && o != "Query.OnInput" {
				return o
			}
			// a callback handed to a helper: func(context.Context, ...) error parameter
			if pr, ok := v.(*ssa.Parameter); ok && pr.Parent() != nil && pkgOf(pr.Parent()) != nil && pkgOf(pr.Parent()).Path() == core.PkgCh {
				if sig, ok := pr.Type().Underlying().(*types.Signature); ok && sig.Params().Len() >= 1 && core.IsNamed(sig.Params().At(0).Type(), "context", "Context") {
					if _, hasErr := core.ReturnsError(sig); hasErr {
						return "param:" + pr.Name()
					}
				}
			}
			return ""
		}
		n := 0
		for _, fn := range p.Funcs() {
			if fn.Pkg == nil || fn.Pkg.Pkg.Path() != core.PkgCh || fn.Blocks == nil {
				continue
			}
			// nil tests of callback fields
			type test struct {
				b       *ssa.BasicBlock
				nilSucc int
				o       string
				val     ssa.Value
			}
			var tests []test
			for _, b := range fn.Blocks {
				ifi, ok := b.Instrs[len(b.Instrs)-1].(*ssa.If)
				if !ok {
					continue
				}
				bo, ok := ifi.Cond.(*ssa.BinOp)
				if !ok || bo.Op != token.EQL && bo.Op != token.NEQ {
					continue
				}
				var other ssa.Value
				if core.IsNilConst(bo.Y) {
					other = bo.X
				} else if core.IsNilConst(bo.X) {
					other = bo.Y
				} else {
					continue
				}
				if o := cbField(other); o != "" {
					ns := 0
					if bo.Op == token.NEQ {
						ns = 1
					}
					tests = append(tests, test{b, ns, o, other})
				}
			}
			if len(tests) == 0 {
				continue
			}
			for _, call := range core.Calls(fn) {
				if core.CalleeFunc(call) != nil {
					continue
				}
				o := cbField(call.Common().Value)
				if o == "" {
					continue
				}
				var g *test
				for i := range tests {
					t := &tests[i]
					if t.o == o && t.b.Succs[1-t.nilSucc].Dominates(call.Block()) {
						g = t
					}
				}
				if g == nil {
					continue
				}
				n++
				T := g.b.Succs[1-g.nilSucc]
				// edges that can be taken when this callback is set
				feasible := core.FeasibleUnder(fn, func(cond ssa.Value) int {
					bo, ok := cond.(*ssa.BinOp)
					if !ok || bo.Op != token.EQL && bo.Op != token.NEQ {
						return -1
					}
					var other ssa.Value
					if core.IsNilConst(bo.Y) {
						other = bo.X
					} else if core.IsNilConst(bo.X) {
						other = bo.Y
					} else {
						return -1
					}
					if cbField(other) != o {
						return -1
					}
					if bo.Op == token.NEQ {
						return 1
					}
					return 0
				})
				key := core.CallKey(fn, call)
				bad := false
				for _, h := range fn.Blocks {
					ifi, ok := h.Instrs[len(h.Instrs)-1].(*ssa.If)
					if !ok || h == g.b || !h.Dominates(g.b) {
						continue
					}
					if bo, ok := ifi.Cond.(*ssa.BinOp); ok && isCode(bo.X) {
						continue // dispatch on the packet kind
					}
					for si, sc := range h.Succs {
						if !feasible(h, si) || sc == T {
							continue
						}
						hits := core.ReachAvoiding(core.Point{B: sc, I: -1}, func(in ssa.Instruction) bool {
							ret, ok := in.(*ssa.Return)
							if !ok || in.Block().Comment == "recover" {
								return false
							}
							rv := core.ReturnErr(fn, ret)
							return rv == nil || core.MayBeNilError(rv, 0)
						}, func(in ssa.Instruction) bool { return in.Block() == T }, feasible)
						if len(hits) > 0 {
							bad = true
							c.R.Bad(rule, key, cfg, p.Pos(ifi.Cond.Pos()), sprintf("after this test a success exit at %s is reachable without calling %s although it is set: the packet is swallowed", p.Pos(hits[0].At.Pos()), o))
							break
						}
					}
					if bad {
						break
					}
				}
				if !bad {
					c.R.Ok(rule, key, cfg, p.Pos(call.Pos()), o+" reached whenever set")
				}
			}
		}
		c.R.Floor(rule, cfg, n, 6)
	}()

	// ---------------- C03.nil
	rule = "C03.nil"
	c.R.Rule(rule, "in the receive loop every success exit is control-dependent on code == ServerCodeEndOfStream")
	func() {
		eos := codes["ServerCodeEndOfStream"]
		edges := core.PredEdges(r.Receiver, true, func(cond ssa.Value) (bool, bool) {
			bo, ok := cond.(*ssa.BinOp)
			if !ok || bo.Op != token.EQL || !isCode(bo.X) {
				return false, false
			}
			v, ok := core.ConstInt(bo.Y)
			return true, ok && v == eos
		})
		bad := false
		n := 0
		for _, b := range r.Receiver.Blocks {
			for _, in := range b.Instrs {
				ret, ok := in.(*ssa.Return)
				if !ok || b.Comment == "recover" {
					continue
				}
				rv := core.ReturnErr(r.Receiver, ret)
				if rv == nil || !core.MayBeNilError(rv, 0) {
					continue
				}
				n++
				if len(edges) == 0 || !core.OnlyViaEdges(r.Receiver, ret, edges) {
					bad = true
					c.R.Bad(rule, core.FuncName(r.Receiver), cfg, p.Pos(ret.Pos()), "the receive loop can return nil without having seen EndOfStream")
				}
			}
		}
		if n == 0 {
			c.R.Bad(rule, core.FuncName(r.Receiver), cfg, p.Pos(r.Receiver.Pos()), "the receive loop has no success exit")
		} else if !bad {
			c.R.Ok(rule, core.FuncName(r.Receiver), cfg, p.Pos(r.Receiver.Pos()), sprintf("%d success exit(s), all under code == EndOfStream", n))
		}
	}()

	// ---------------- C03.exception
	rule = "C03.exception"
	c.R.Rule(rule, "the error returned for an Exception packet is the *Exception built by exception() (boxed as is), wrappers on the way out keep the chain (errors.Wrap), Unwrap covers the top code and every nested one, and the chain is assembled field-by-field from the decoded list: element 0 is the top, elements 1.. become Next in order")
	func() {
		blk := hpT[codes["ServerCodeException"]]
		if blk == nil {
			return
		}
		okRet := false
		for _, x := range hp.Blocks {
			if x != blk && !blk.Dominates(x) {
				continue
			}
			for _, in := range x.Instrs {
				ret, ok := in.(*ssa.Return)
				if !ok {
					continue
				}
				rv := core.ReturnErr(hp, ret)
				if mi, ok := rv.(*ssa.MakeInterface); ok {
					if e, ok := mi.X.(*ssa.Extract); ok && e.Index == 0 {
						if _, ok := core.CallTo(e.Tuple, isClientMethod("exception")); ok {
							okRet = true
						}
					}
				}
			}
		}
		if okRet {
			c.R.Ok(rule, "handlePacket/exception-return", cfg, p.Pos(blk.Instrs[0].Pos()), "returns the *Exception itself")
		} else {
			c.R.Bad(rule, "handlePacket/exception-return", cfg, p.Pos(blk.Instrs[0].Pos()), "the Exception case does not return the *Exception built by exception()")
		}
		// receiver wraps with errors.Wrap only
		for _, call := range core.FindCalls(r.Receiver, isClientMethod("handlePacket")) {
			ev := core.ErrValue(call)
			al := core.Aliases(r.Receiver, ev)
			good := true
			for _, b := range r.Receiver.Blocks {
				for _, in := range b.Instrs {
					ret, ok := in.(*ssa.Return)
					if !ok || b.Comment == "recover" {
						continue
					}
					rv := core.ReturnErr(r.Receiver, ret)
					if rv == nil || !core.DependsOn(rv, func(v ssa.Value) bool { return al[v] }, true) {
						continue
					}
					if !chainKeeps(rv, func(v ssa.Value) bool { return al[v] }, 0) {
						good = false
						c.R.Bad(rule, core.CallKey(r.Receiver, call), cfg, p.Pos(ret.Pos()), "the handler's error is re-created instead of wrapped: errors.As(*Exception) no longer finds it")
					}
				}
			}
			if good {
				c.R.Ok(rule, core.CallKey(r.Receiver, call), cfg, p.Pos(call.Pos()), "propagated through chain-preserving wrappers")
			}
		}
		// Unwrap / collectCodes
		uw := p.Method(core.PkgCh, "Exception", "Unwrap")
		cc := p.Method(core.PkgCh, "Exception", "collectCodes")
		if uw == nil || cc == nil {
			c.R.Bad(rule, "Exception.Unwrap", cfg, "", "(*Exception).Unwrap / collectCodes missing")
		} else {
			usesCode, usesNext, rec := false, false, false
			for _, b := range cc.Blocks {
				for _, in := range b.Instrs {
					if fa, ok := in.(*ssa.FieldAddr); ok && core.IsNamed(fa.X.Type(), core.PkgCh, "Exception") {
						st := core.NamedOf(fa.X.Type()).Underlying().(*types.Struct)
						switch st.Field(fa.Field).Name() {
						case "Code":
							usesCode = true
						case "Next":
							usesNext = true
						}
					}
					if call, ok := in.(ssa.CallInstruction); ok && core.StaticFn(call) == cc {
						rec = core.InLoop(in)
					}
				}
			}
			reach := core.ReachesCallee(uw, func(f *types.Func) bool { return core.IsMethod(f, core.PkgCh, "Exception", "collectCodes") }, 1)
			if usesCode && usesNext && rec && reach {
				c.R.Ok(rule, "Exception.Unwrap", cfg, p.Pos(uw.Pos()), "Unwrap -> collectCodes: e.Code plus recursion over e.Next")
			} else {
				c.R.Bad(rule, "Exception.Unwrap", cfg, p.Pos(uw.Pos()), sprintf("Unwrap does not cover the chain (Code=%v Next=%v recursion-in-loop=%v reached=%v)", usesCode, usesNext, rec, reach))
			}
		}
		// chain assembly
		ex := p.Method(core.PkgCh, "Client", "exception")
		if ex != nil {
			lit := ex
			for f := range core.StaticReach(ex, 1) {
				if f == ex || pkgOf(f) == nil || pkgOf(f).Path() != core.PkgCh {
					continue
				}
				for _, b := range f.Blocks {
					for _, in := range b.Instrs {
						if fa, ok := in.(*ssa.FieldAddr); ok && core.IsNamed(fa.X.Type(), core.PkgCh, "Exception") {
							lit = f
						}
					}
				}
			}
			checkWiring(c, p, rule, lit, "Exception", map[string]string{"Code": "Exception.Code", "Name": "Exception.Name", "Message": "Exception.Message", "Stack": "Exception.Stack"})
			for _, m := range rangeSliceMismatch(ex) {
				c.R.Bad(rule, core.FuncName(ex)+"/chain-index", cfg, p.Pos(m.Pos()), "a loop over list[k:] indexes the un-sliced list with its own index: nested exceptions are shifted (top duplicated, innermost dropped)")
			}
			// Next is built by appends starting from an empty slice
			for _, b := range ex.Blocks {
				for _, in := range b.Instrs {
					st, ok := in.(*ssa.Store)
					if !ok {
						continue
					}
					fa, ok := st.Addr.(*ssa.FieldAddr)
					if !ok || !core.IsNamed(fa.X.Type(), core.PkgCh, "Exception") || fieldNameOnly(fa.X.Type(), fa.Field) != "Next" {
						continue
					}
					if bad := nonEmptyRoot(st.Val, 0, map[ssa.Value]bool{}); bad != "" {
						c.R.Bad(rule, core.FuncName(ex)+"/chain-root", cfg, p.Pos(st.Pos()), "Exception.Next is not built by appending to an empty slice ("+bad+"): zero-valued entries precede the real causes")
					}
				}
			}
			if len(rangeSliceMismatch(ex)) == 0 {
				c.R.Ok(rule, core.FuncName(ex)+"/chain-index", cfg, p.Pos(ex.Pos()), "nested exceptions are taken from the ranged sub-slice itself")
			}
		}
	}()
	ruleResetBefore(c, p, "C03.reset")
	rulePacketRead(c, p, "C03.packet-read")
	ruleEndMarker(c, p, "C03.endmarker")
	ruleChainComplete(c, p, "C03.chain")
	ruleCompressibleArg(c, p, "C03.compressible")
	ruleFreshTargets(c, p, "C03.fresh")
	ruleReaderSource(c, p, "C03.source")
	ruleReadFull(c, p, "C03.readfull")
	ruleRowwise(c, p, "C03.rowwise")
	ruleVersionPassThrough(c, p, "C03.version-through")
	ruleLimitSiblings(c, p, "C03.limits")
	ruleExceptionChain(c, p, "C03.exception-chain")
	ruleResetComplete(c, p, "C03.reset-clears")
	ruleAdopt(c, p, "C03.adopt")
	ruleOpenCodes(c, p, "C03.open-codes")
	ruleInferTables(c, p, "C03")
	ruleStringIdioms(c, p, "C03.idioms")
	if rr := resolveDo(c, p); rr != nil {
		ruleRetry(c, p, rr, "C03.retry")
	}
	ruleForwardM(c, p, "C03.forward", []string{"EncodeState", "DecodeState"})
	ruleWrapperInferTotal(c, p, "C03.wrapper-infer")
	ruleReaderAlias(c, p, "C03.alias")
	ruleCallbackKept(c, p, "C03.callback-kept")
	{
		c.R.Rule("C03.messages", "E2 containment and gate provenance (as C17.shape / C17.gates / C17.fieldorder) for every protocol message: what the server-side encoders of progress, profile, exception, table columns, ... emit at a revision is what the client's decoders consume at that revision")
		pairs := messagePairs(p)
		ruleShapePairs(c, p, "C03.messages", pairs, false)
		ruleGates(c, p, pairs, "C03.messages")
	}
	ruleWatch(c, p, r, "C03")
	// read errors on the client's receive path reach only failure exits
	c.R.Rule("C03.errors", "E6 (as C07.errors) restricted to package ch: every error of a read or decode on the receive path (packet code, exception, progress, profile, blocks) reaches only failure exits, so Do returns nil only for a stream that was read completely")
	{
		var fns []*ssa.Function
		for _, fn := range p.Funcs() {
			if pkgOf(fn) != nil && pkgOf(fn).Path() == core.PkgCh && !isServerSide(fn) {
				fns = append(fns, fn)
			}
		}
		n := runErrDisc(c, p, fns, errDiscOpts{Rule: "C03.errors", Class: readerClass(p), Exempt: isDoReceiverPacket})
		c.R.Floor("C03.errors", cfg, n, 12)
	}
	c.R.Assumptions = append(c.R.Assumptions,
		"order within one connection follows from the single sequential receive loop",
		"decided: dispatch table, handler placement, callback error discipline, nil only at end-of-stream, exception chain plumbing; not decided: that the contents seen by callbacks equal what the server sent (value level)")
}

// structFieldStore finds the value stored into field name of the struct
// literal loaded as v (v = *alloc).
func structFieldStore(v ssa.Value, name string) ssa.Value {
	u, ok := v.(*ssa.UnOp)
	if !ok || u.Op != token.MUL {
		return nil
	}
	al, ok := u.X.(*ssa.Alloc)
	if !ok {
		return nil
	}
	for _, ref := range *al.Referrers() {
		fa, ok := ref.(*ssa.FieldAddr)
		if !ok {
			continue
		}
		st, ok := fa.X.Type().Underlying().(*types.Pointer).Elem().Underlying().(*types.Struct)
		if !ok || st.Field(fa.Field).Name() != name {
			continue
		}
		for _, r2 := range *fa.Referrers() {
			if s, ok := r2.(*ssa.Store); ok && s.Addr == fa {
				return s.Val
			}
		}
	}
	return nil
}

// checkWiring: for every composite literal of struct type tname (package ch or
// proto) built in fn, each listed field must be stored from a value whose
// field origin ends in the expected "Type.Field" (field-by-field copy).
func checkWiring(c *Ctx, p *core.Program, rule string, fn *ssa.Function, tname string, want map[string]string) {
	n := 0
	for _, b := range fn.Blocks {
		for _, in := range b.Instrs {
			fa, ok := in.(*ssa.FieldAddr)
			if !ok {
				continue
			}
			named := core.NamedOf(fa.X.Type())
			if named == nil || named.Obj().Name() != tname {
				continue
			}
			st := named.Underlying().(*types.Struct)
			fname := st.Field(fa.Field).Name()
			exp, ok := want[fname]
			if !ok {
				continue
			}
			for _, ref := range *fa.Referrers() {
				s, ok := ref.(*ssa.Store)
				if !ok || s.Addr != fa {
					continue
				}
				n++
				got := core.FieldOrigin(s.Val, 0)
				key := "literal/" + tname + "." + fname
				// a value merged from two different fields (the caller's, or the connection's under some
				// condition) is not "the caller's field"; a constant or computed default on the other edge is
				if all := fieldOriginsAll(s.Val, 0); len(all) > 1 {
					var names []string
					for o := range all {
						names = append(names, o)
					}
					sort.Strings(names)
					c.R.Bad(rule, key, p.Cfg.Name, p.Pos(s.Pos()), sprintf("field %s is filled from a value merged from %s, expected %s alone", fname, strings.Join(names, " and "), exp))
					continue
				}
				if got == exp || strings.HasSuffix(got, "."+strings.SplitN(exp, ".", 2)[1]) && got == exp {
					c.R.Ok(rule, key, p.Cfg.Name, p.Pos(s.Pos()), fname+" <- "+got)
				} else {
					c.R.Bad(rule, key, p.Cfg.Name, p.Pos(s.Pos()), sprintf("field %s is filled from %q, expected %s", fname, got, exp))
				}
			}
		}
	}
	if n == 0 {
		c.R.Unk(rule, core.FuncName(fn)+"/"+tname, p.Cfg.Name, p.Pos(fn.Pos()), "no literal of "+tname+" found (anchor lost)")
	}
}

// rangeSliceMismatch finds IndexAddr on a slice Y with a loop index whose
// bound is len(Y[k:]) for a sub-slice with non-zero low bound.
func rangeSliceMismatch(fn *ssa.Function) []ssa.Instruction {
	var out []ssa.Instruction
	for _, b := range fn.Blocks {
		for _, in := range b.Instrs {
			sl, ok := in.(*ssa.Slice)
			if !ok || sl.Low == nil {
				continue
			}
			if v, ok := core.ConstInt(sl.Low); ok && v == 0 {
				continue
			}
			// len(sl) used as loop bound
			for _, ref := range *sl.Referrers() {
				lc, ok := ref.(*ssa.Call)
				if !ok {
					continue
				}
				bi, ok := lc.Call.Value.(*ssa.Builtin)
				if !ok || bi.Name() != "len" {
					continue
				}
				for _, r2 := range *lc.Referrers() {
					cmp, ok := r2.(*ssa.BinOp)
					if !ok || cmp.Op != token.LSS || cmp.Y != lc {
						continue
					}
					idx := cmp.X // loop index
					for _, r3 := range *idx.Referrers() {
						ia, ok := r3.(*ssa.IndexAddr)
						if !ok || ia.Index != idx {
							continue
						}
						if sameSlice(ia.X, sl.X) {
							out = append(out, ia)
						}
					}
				}
			}
		}
	}
	return out
}

func sameSlice(a, b ssa.Value) bool {
	if a == b {
		return true
	}
	ua, ok1 := a.(*ssa.UnOp)
	ub, ok2 := b.(*ssa.UnOp)
	if ok1 && ok2 && ua.Op == token.MUL && ub.Op == token.MUL && ua.X == ub.X {
		return true
	}
	return false
}

// nonEmptyRoot: the append chain of v starts from something that may already have elements.
func nonEmptyRoot(v ssa.Value, d int, seen map[ssa.Value]bool) string {
	if d > 12 || seen[v] {
		return ""
	}
	seen[v] = true
	switch x := v.(type) {
	case *ssa.Const:
		return ""
	case *ssa.MakeSlice:
		if l, ok := core.ConstInt(x.Len); ok && l == 0 {
			return ""
		}
		return "make with a non-zero length"
	case *ssa.Slice:
		if x.High != nil {
			if h, ok := core.ConstInt(x.High); ok && h == 0 {
				return ""
			}
		}
		return "a re-slice"
	case *ssa.Phi:
		for _, e := range x.Edges {
			if b := nonEmptyRoot(e, d+1, seen); b != "" {
				return b
			}
		}
	case *ssa.Call:
		if bi, ok := x.Call.Value.(*ssa.Builtin); ok && bi.Name() == "append" {
			return nonEmptyRoot(x.Call.Args[0], d+1, seen)
		}
	case *ssa.UnOp:
		// load of the field itself (e.Next = append(e.Next, ...)): follow the stores into the same field of a fresh struct
		if x.Op == token.MUL {
			if fa, ok := x.X.(*ssa.FieldAddr); ok {
				for _, r := range *fa.X.Referrers() {
					if fa2, ok := r.(*ssa.FieldAddr); ok && fa2.Field == fa.Field && fa2 != fa {
						for _, r2 := range *fa2.Referrers() {
							if st, ok := r2.(*ssa.Store); ok && st.Addr == fa2 {
								if b := nonEmptyRoot(st.Val, d+1, seen); b != "" {
									return b
								}
							}
						}
					}
				}
			}
		}
	}
	return ""
}

// ruleChainComplete: exception() reads the whole nested chain.
func ruleChainComplete(c *Ctx, p *core.Program, rule string) {
	c.R.Rule(rule, "Client.exception() stops reading nested exceptions only when the last one decoded says it is the last (`Nested` false): every success exit lies behind the false edge of a test of Exception.Nested and of nothing else that can end the loop - a cap on the chain length leaves the rest of the chain unread in the stream while the client stays open (a server exception does not close it), so the next request reads leftovers")
	cfg := p.Cfg.Name
	ex := p.Method(core.PkgCh, "Client", "exception")
	if !c.must(p, "(*ch.Client).exception", ex != nil) {
		return
	}
	notNested := core.CondEdges(ex, false, func(cond ssa.Value) (bool, bool) {
		return true, strings.HasSuffix(core.FieldOrigin(cond, 0), "Exception.Nested")
	})
	if len(notNested) == 0 {
		c.R.Bad(rule, core.FuncName(ex), cfg, p.Pos(ex.Pos()), "exception() never tests Exception.Nested")
		return
	}
	bad := false
	for _, b := range ex.Blocks {
		ret, ok := b.Instrs[len(b.Instrs)-1].(*ssa.Return)
		if !ok || b.Comment == "recover" {
			continue
		}
		rv := core.ReturnErr(ex, ret)
		if rv != nil && !core.MayBeNilError(rv, 0) {
			continue
		}
		// loop exits other than the Nested test: remove the not-nested edges and see whether the exit is still reachable
		if !core.OnlyViaEdges(ex, ret, notNested) {
			bad = true
			c.R.Bad(rule, core.FuncName(ex), cfg, p.Pos(ret.Pos()), "exception() can return successfully although the last decoded exception announced a nested one: the remainder of the chain stays in the stream")
		}
	}
	if !bad {
		c.R.Ok(rule, core.FuncName(ex), cfg, p.Pos(ex.Pos()), "success only after an exception with Nested = false")
	}
}

// ruleCompressibleArg (C03.compressible): every block decode is told whether the packet kind is compressed.
func ruleCompressibleArg(c *Ctx, p *core.Program, rule string) {
	c.R.Rule(rule, "every call of Client.decodeBlock passes decodeOptions whose Compressible field is assigned from ServerCode.Compressible() of the packet code being handled: with compression negotiated, a block decoded without it is parsed from the compressed frame's bytes (block info fails or, worse, succeeds on garbage)")
	cfg := p.Cfg.Name
	n := 0
	for _, fn := range p.Funcs() {
		if pkgOf(fn) == nil || pkgOf(fn).Path() != core.PkgCh {
			continue
		}
		for _, call := range core.FindCalls(fn, isClientMethod("decodeBlock")) {
			n++
			key := core.CallKey(fn, call)
			args := call.Common().Args
			opt := args[len(args)-1]
			okC := false
			// the options literal: a local Alloc whose fields are stored, then loaded as a whole
			core.DependsOn(opt, func(v ssa.Value) bool {
				al, ok := v.(*ssa.Alloc)
				if !ok {
					return false
				}
				for _, r := range *al.Referrers() {
					fa, ok := r.(*ssa.FieldAddr)
					if !ok || fieldNameOnly(fa.X.Type(), fa.Field) != "Compressible" {
						continue
					}
					for _, r2 := range *fa.Referrers() {
						if st, ok := r2.(*ssa.Store); ok && st.Addr == ssa.Value(fa) {
							if _, ok := core.CallTo(st.Val, func(f *types.Func) bool { return core.IsMethod(f, core.PkgProto, "ServerCode", "Compressible") }); ok {
								okC = true
							}
						}
					}
				}
				return false
			}, false)
			if okC {
				c.R.Ok(rule, key, cfg, p.Pos(call.Pos()), "Compressible <- code.Compressible()")
				// a helper that is handed the packet code: every caller that passes a ServerCode is a decode site
				for pi, prm := range fn.Params {
					if !core.IsNamed(prm.Type(), core.PkgProto, "ServerCode") {
						continue
					}
					for _, g := range p.Funcs() {
						if pkgOf(g) == nil || pkgOf(g).Path() != core.PkgCh || g.Blocks == nil {
							continue
						}
						for _, hc := range core.Calls(g) {
							if core.StaticFn(hc) == fn && pi < len(hc.Common().Args) {
								n++
								c.R.Ok(rule, core.CallKey(g, hc), cfg, p.Pos(hc.Pos()), "decodes through "+fn.Name()+", which takes Compressible from the code it is handed")
							}
						}
					}
				}
			} else {
				c.R.Bad(rule, key, cfg, p.Pos(call.Pos()), "this block decode does not pass code.Compressible(): on a connection with compression the packet's compressed frame is parsed as a plain block")
			}
		}
	}
	c.R.Floor(rule, cfg, n, 3)
}

// ---- rowwise (C03): columnar telemetry is transposed row by row
func ruleRowwise(c *Ctx, p *core.Program, rule string) {
	c.R.Rule(rule, "the conversion of a columnar telemetry block into per-entry values (ProfileEvents.All, Logs.All: a proto function returning a slice of a proto struct, built in a loop) fills every field of entry i from row i: each value stored into a field of the entry inside the loop depends on the loop's index; a value hoisted out of the loop (the first row's host for every entry) gives every entry of a packet merged from several shards the same host")
	cfg := p.Cfg.Name
	n := 0
	for _, fn := range p.Funcs() {
		if pkgOf(fn) == nil || pkgOf(fn).Path() != core.PkgProto || fn.Blocks == nil || fn.Signature.Results().Len() == 0 {
			continue
		}
		sl, ok := fn.Signature.Results().At(0).Type().Underlying().(*types.Slice)
		if !ok {
			continue
		}
		en := core.NamedOf(sl.Elem())
		if en == nil || en.Obj().Pkg() == nil || en.Obj().Pkg().Path() != core.PkgProto {
			continue
		}
		if _, isStruct := en.Underlying().(*types.Struct); !isStruct {
			continue
		}
		// entries built by a helper called from the loop with the row index (`out = append(out, s.row(i))`)
		for _, b := range fn.Blocks {
			for _, in := range b.Instrs {
				cl, ok := in.(*ssa.Call)
				if !ok || !core.InLoop(in) {
					continue
				}
				g := core.StaticFn(cl)
				if g == nil || g.Blocks == nil || pkgOf(g) == nil || pkgOf(g).Path() != core.PkgProto || g.Signature.Results().Len() != 1 || core.NamedOf(g.Signature.Results().At(0).Type()) != en {
					continue
				}
				hdr := core.LoopHeader(in)
				if hdr == nil {
					continue
				}
				// which parameter carries the row index
				idxParam := -1
				for ai, a := range cl.Call.Args {
					bt, okb := a.Type().Underlying().(*types.Basic)
					if !okb || bt.Info()&types.IsInteger == 0 {
						continue
					}
					if core.DependsOn(a, func(v ssa.Value) bool {
						ph, ok := v.(*ssa.Phi)
						return ok && ph.Block() == hdr
					}, false) {
						idxParam = ai
					}
				}
				for _, gb := range g.Blocks {
					for _, gi := range gb.Instrs {
						st, ok := gi.(*ssa.Store)
						if !ok {
							continue
						}
						fa, ok := st.Addr.(*ssa.FieldAddr)
						if !ok {
							continue
						}
						al, ok := fa.X.(*ssa.Alloc)
						if !ok || core.NamedOf(al.Type()) != en {
							continue
						}
						n++
						key := core.FuncName(g) + "/" + fieldNameOnly(fa.X.Type(), fa.Field)
						if _, isConst := st.Val.(*ssa.Const); isConst {
							c.R.Ok(rule, key, cfg, p.Pos(st.Pos()), "constant")
							continue
						}
						if idxParam >= 0 && idxParam < len(g.Params) && core.DependsOn(st.Val, func(v ssa.Value) bool { return v == ssa.Value(g.Params[idxParam]) }, true) {
							c.R.Ok(rule, key, cfg, p.Pos(st.Pos()), "taken from the row whose index the loop passes")
						} else {
							c.R.Bad(rule, key, cfg, p.Pos(st.Pos()), "the field is filled with a value that does not depend on the row index the loop passes: every entry of the packet gets the same value")
						}
					}
				}
			}
		}
		for _, b := range fn.Blocks {
			for _, in := range b.Instrs {
				st, ok := in.(*ssa.Store)
				if !ok || !core.InLoop(in) {
					continue
				}
				fa, ok := st.Addr.(*ssa.FieldAddr)
				if !ok {
					continue
				}
				al, ok := fa.X.(*ssa.Alloc)
				if !ok || core.NamedOf(al.Type()) != en {
					continue
				}
				hdr := core.LoopHeader(in)
				if hdr == nil {
					continue
				}
				n++
				key := core.FuncName(fn) + "/" + fieldNameOnly(fa.X.Type(), fa.Field)
				if _, isConst := st.Val.(*ssa.Const); isConst {
					c.R.Ok(rule, key, cfg, p.Pos(st.Pos()), "constant")
					continue
				}
				dep := core.DependsOn(st.Val, func(v ssa.Value) bool {
					ph, ok := v.(*ssa.Phi)
					if !ok || ph.Block() != hdr {
						return false
					}
					bt, ok := ph.Type().Underlying().(*types.Basic)
					return ok && bt.Info()&types.IsInteger != 0
				}, true)
				if dep {
					c.R.Ok(rule, key, cfg, p.Pos(st.Pos()), "taken from the row with the loop's index")
				} else {
					c.R.Bad(rule, key, cfg, p.Pos(st.Pos()), "the field is filled with a value that does not depend on the row index: every entry of the packet gets the same value (the first row's)")
				}
			}
		}
	}
	c.R.Floor(rule, cfg, n, 10)
}

// fieldOriginsAll is FieldOrigin over every edge of the phis v is merged from:
// the set of distinct struct fields the value can come from.
func fieldOriginsAll(v ssa.Value, depth int) map[string]bool {
	out := map[string]bool{}
	if depth > 6 {
		return out
	}
	switch x := v.(type) {
	case *ssa.Phi:
		for _, e := range x.Edges {
			for o := range fieldOriginsAll(e, depth+1) {
				out[o] = true
			}
		}
		return out
	case *ssa.UnOp:
		if x.Op == token.MUL {
			if al, ok := x.X.(*ssa.Alloc); ok {
				for _, r := range *al.Referrers() {
					if st, ok := r.(*ssa.Store); ok && st.Addr == ssa.Value(al) {
						for o := range fieldOriginsAll(st.Val, depth+1) {
							out[o] = true
						}
					}
				}
				return out
			}
		}
	}
	if o := core.FieldOrigin(v, 0); o != "" {
		out[o] = true
	}
	return out
}
