package props

// Mutants for the rules added in seeding round 11.

func init() {
	add := func(prop string, ms ...Mutant) { mutants[prop] = append(mutants[prop], ms...) }
	add("C04",
		Mutant{Name: "flush-clears-both-deadlines", File: "client.go", Old: "\t\tdefer func() { _ = c.conn.SetWriteDeadline(time.Time{}) }()", New: "\t\tdefer func() { _ = c.conn.SetDeadline(time.Time{}) }()", Nth: 2, Rule: "C04.deadline-kind", Construct: "SetDeadline"},
		Mutant{Name: "block-encoder-flushes-on-its-own", File: "proto/block.go", Old: "\tfor _, col := range input {\n\t\tif r := col.Data.Rows(); r != b.Rows {\n\t\t\treturn errors.Errorf(\"%q has %d rows, expected %d\", col.Name, r, b.Rows)\n\t\t}\n\t\tw.ChainBuffer(", New: "\tfor i, col := range input {\n\t\tif r := col.Data.Rows(); r != b.Rows {\n\t\t\treturn errors.Errorf(\"%q has %d rows, expected %d\", col.Name, r, b.Rows)\n\t\t}\n\t\tif i > 0 && i%512 == 0 {\n\t\t\tif _, err := w.Flush(); err != nil {\n\t\t\t\treturn errors.Wrap(err, \"flush\")\n\t\t\t}\n\t\t}\n\t\tw.ChainBuffer(", Rule: "C04.flush-owner", Construct: "WriteBlock"},
	)
	add("C07",
		Mutant{Name: "raw-column-reuses-capacity-without-length", File: "proto/col_raw.go", Old: "\tc.Data = append(c.Data[:0], make([]byte, c.Size*rows)...)", New: "\tif n := c.Size * rows; cap(c.Data) < n {\n\t\tc.Data = make([]byte, n)\n\t}", Rule: "C07.readfull-sized", Construct: "ColRaw"},
	)
	add("C11",
		Mutant{Name: "second-close-does-not-wait", File: "chpool/pool.go", Old: "\tp.closeOnce.Do(func() {\n\t\tclose(p.closeChan)\n\t\tp.wg.Wait()\n\t\tp.pool.Close()\n\t})", New: "\tselect {\n\tcase <-p.closeChan:\n\t\treturn\n\tdefault:\n\t}\n\tclose(p.closeChan)\n\tp.wg.Wait()\n\tp.pool.Close()", Rule: "C11.close-waits", Construct: "Close"},
	)
	add("C14",
		Mutant{Name: "fixedstr-vectored-window", File: "proto/col_fixed_str.go", Old: "\tw.ChainWrite(c.Buf)", New: "\tw.ChainWrite(c.Buf[:c.Rows()*c.Size])", Rule: "C14.same-extent", Construct: "ColFixedStr"},
	)
	add("C17",
		Mutant{Name: "hello-revision-clamped-in-encoder", File: "proto/client_hello.go", Old: "\tb.PutInt(c.ProtocolVersion)", New: "\tb.PutInt(min(c.ProtocolVersion, Version))", Rule: "C17.verbatim", Construct: "ClientHello"},
		Mutant{Name: "skip-path-gate-excludes-threshold", File: "proto/block.go", Old: "\t\t\tif FeatureCustomSerialization.In(version) {", New: "\t\t\tif version > FeatureCustomSerialization.Version() {", Rule: "C17.gate-compare", Construct: "DecodeRawBlock"},
	)
	add("C18",
		Mutant{Name: "auto-records-type-only-for-inferable", File: "proto/col_auto.go", Old: "\t\t\t}\n\t\t}\n\t\tc.DataType = t // update subtype if needed\n\t\treturn nil", New: "\t\t\t}\n\t\t\tc.DataType = t // update subtype if needed\n\t\t}\n\t\treturn nil", Rule: "C18.auto-records", Construct: "keep"},
	)
	add("C20",
		Mutant{Name: "interval-reset-returns-to-zero-value", File: "proto/col_interval.go", Old: "func (c *ColInterval) Reset() {\n\tc.Values.Reset()\n}", New: "func (c *ColInterval) Reset() {\n\t*c = ColInterval{Values: c.Values[:0]}\n}", Rule: "C20.reset-keeps", Construct: "ColInterval.Reset"},
	)
}
