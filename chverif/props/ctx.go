// Package props instantiates the rules per property.
package props

import (
	"fmt"
	"sort"

	"chverif/core"
)

// Ctx is the context of one property run.
type Ctx struct {
	Repo    string
	Verif   string
	Tier    string
	R       *core.Report
	Overlay map[string][]byte // mutant overlay (self-tests)
	progs   map[string]*core.Program
}

func NewCtx(repo, verif, tier string, r *core.Report) *Ctx {
	return &Ctx{Repo: repo, Verif: verif, Tier: tier, R: r, progs: map[string]*core.Program{}}
}

// shared across the properties of one process (-prop all): programs without overlay
var sharedProgs = map[string]*core.Program{}

// Prog loads (once) a configuration; a load failure is fatal for the check.
func (c *Ctx) Prog(cfg core.Config) *core.Program {
	if p, ok := c.progs[cfg.Name]; ok {
		return p
	}
	if c.Overlay == nil {
		if sp, ok := sharedProgs[c.Repo+"|"+cfg.Name]; ok {
			c.progs[cfg.Name] = sp
			c.R.Configs = append(c.R.Configs, cfg.Name)
			c.R.Count("packages["+cfg.Name+"]", len(sp.Pkgs))
			c.R.Count("functions["+cfg.Name+"]", len(sp.Funcs()))
			return sp
		}
	}
	p, err := core.Load(c.Repo, cfg, c.Overlay)
	if err != nil {
		c.R.Fatalf("%v", err)
		c.progs[cfg.Name] = nil
		return nil
	}
	c.progs[cfg.Name] = p
	if c.Overlay == nil {
		sharedProgs[c.Repo+"|"+cfg.Name] = p
	}
	c.R.Configs = append(c.R.Configs, cfg.Name)
	c.R.Count("packages["+cfg.Name+"]", len(p.Pkgs))
	c.R.Count("functions["+cfg.Name+"]", len(p.Funcs()))
	return p
}

// Thorough reports whether the thorough tier was requested.
func (c *Ctx) Thorough() bool { return c.Tier == "thorough" }

// Configs returns the configurations a multi-config rule covers in this tier.
func (c *Ctx) Configs() []core.Config {
	if c.Thorough() {
		return []core.Config{core.CfgDefault, core.CfgPurego, core.Cfg386}
	}
	return []core.Config{core.CfgDefault, core.CfgPurego}
}

// Runner decides one property.
type Runner func(c *Ctx)

var registry = map[string]Runner{}

// Mutants registered per property (thorough-tier self-tests).
var mutants = map[string][]Mutant{}

func register(id string, r Runner) { registry[id] = r }

// Lookup returns the runner of a property.
func Lookup(id string) (Runner, bool) { r, ok := registry[id]; return r, ok }

// IDs lists registered properties.
func IDs() []string {
	var out []string
	for k := range registry {
		out = append(out, k)
	}
	sort.Strings(out)
	return out
}

// anchor fetches a function and reports a fatal error when it is missing.
func (c *Ctx) must(p *core.Program, what string, ok bool) bool {
	if !ok {
		c.R.Fatalf("[%s] anchor unresolved: %s", p.Cfg.Name, what)
	}
	return ok
}

func sprintf(f string, a ...any) string { return fmt.Sprintf(f, a...) }
