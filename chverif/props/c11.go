package props

import (
	"go/token"
	"go/types"
	"sort"
	"strings"

	"golang.org/x/tools/go/ssa"

	"chverif/core"
)

func init() { register("C11", runC11) }

const pkgPuddle = "github.com/jackc/puddle/v2"

func isResourceMethod(names ...string) func(*types.Func) bool {
	return func(f *types.Func) bool {
		for _, n := range names {
			if core.IsMethod(f, pkgPuddle, "Resource", n) {
				return true
			}
		}
		return false
	}
}

var isDisposer = isResourceMethod("Release", "ReleaseUnused", "Destroy", "Hijack")

// poolClientField: &c.<name> for c *chpool.Client
func poolClientField(in ssa.Instruction, name string) bool {
	fa, ok := in.(*ssa.FieldAddr)
	if !ok || !core.IsNamed(fa.X.Type(), core.PkgPool, "Client") {
		return false
	}
	st := core.NamedOf(fa.X.Type()).Underlying().(*types.Struct)
	return st.Field(fa.Field).Name() == name
}

func runC11(c *Ctx) {
	p := c.Prog(core.CfgDefault)
	if p == nil {
		return
	}
	cfg := p.Cfg.Name
	pc := p.NamedType(core.PkgPool, "Client")
	if !c.must(p, "type chpool.Client", pc != nil) {
		return
	}

	ruleCloseMarks(c, p, "C11.close-marks")
	rulePoolSyncUse(c, p, "C11.sync-use")
	rulePoolLimits(c, p, "C11.limits")
	rulePoolCtorLeak(c, p, "C11.ctor-leak")
	ruleHealthNonBlocking(c, p, "C11.health-nonblocking")
	ruleClockKind(c, p, "C11.clock-kind")
	rulePoolCtxDetached(c, p, "C11.pool-ctx")
	ruleHandleSlabFresh(c, p, "C11.handle-slab")
	ruleNewPoolCloses(c, p, "C11.newpool-closes")
	ruleHijackCloses(c, p, "C11.hijack-closes")
	ruleCloseWaits(c, p, "C11.close-waits")
	if roles := resolveDo(c, p); roles != nil {
		ruleWatch(c, p, roles, "C11")
	}

	// ---- C11.handle
	rule := "C11.handle"
	c.R.Rule(rule, "typestate of the pooled handle: in every method of chpool.Client, a call of puddle Resource.{Release,ReleaseUnused,Destroy,Hijack} on the handle's resource is accompanied on every path to exit by a store of nil to the handle's `res` field (before or after it), and the method starts with a nil guard - so a released handle cannot act on the resource again, whoever holds it now")
	nDisp := 0
	ptr := types.NewPointer(pc)
	ms := p.Prog.MethodSets.MethodSet(ptr)
	for i := 0; i < ms.Len(); i++ {
		fn := p.Prog.MethodValue(ms.At(i))
		if fn == nil || fn.Blocks == nil {
			continue
		}
		for _, call := range core.FindCalls(fn, isDisposer) {
			nDisp++
			in := call.(ssa.Instruction)
			key := core.CallKey(fn, call)
			isClear := func(x ssa.Instruction) bool {
				s, ok := x.(*ssa.Store)
				if !ok || !core.IsNilConst(s.Val) {
					return false
				}
				ai, ok := s.Addr.(ssa.Instruction)
				return ok && poolClientField(ai, "res")
			}
			// cleared before on every path?
			before := len(core.ReachAvoiding(core.Entry(fn), func(x ssa.Instruction) bool { return x == in }, isClear, nil)) == 0
			after := len(core.ReachAvoiding(core.PointOf(in), core.IsExit, isClear, nil)) == 0
			if !before && !after {
				c.R.Bad(rule, key, cfg, p.Pos(in.Pos()), "the handle keeps its resource pointer after giving the resource back: a second Release by a previous holder destroys or re-idles a connection that somebody else now holds (or panics inside puddle)")
				continue
			}
			// nil guard at entry
			guard := core.CondEdges(fn, false, func(cond ssa.Value) (bool, bool) {
				x, nonNil, ok := nilCmp(cond)
				if !ok || core.FieldOrigin(x, 0) != "Client.res" {
					return false, false
				}
				return !nonNil, true // predicate: res == nil; want the false edge (res != nil)
			})
			if len(guard) == 0 || !core.OnlyViaEdges(fn, in, guard) {
				c.R.Bad(rule, key, cfg, p.Pos(in.Pos()), "the disposer is reachable without the `res == nil` guard")
				continue
			}
			c.R.Ok(rule, key, cfg, p.Pos(in.Pos()), "res is cleared on every path; entry is nil-guarded")
		}
	}
	if nDisp == 0 {
		c.R.Unk(rule, "chpool.Client", cfg, "", "no disposer call in the methods of chpool.Client (anchor lost)")
	}

	ruleSlab(c, p, "C11.slab")
	// ---- C11.release
	rule = "C11.release"
	c.R.Rule(rule, "return-to-idle (Resource.Release) in chpool.Client.Release is reachable only through the false edge of client.IsClosed() and the false edge of the `age > MaxConnLifetime` comparison; the other edges destroy the resource; and (*ch.Client).Close marks the client closed on every path on which it attempts to close the connection, whatever conn.Close returns")
	func() {
		rel := p.Method(core.PkgPool, "Client", "Release")
		if !c.must(p, "(*chpool.Client).Release", rel != nil) {
			return
		}
		idle := core.FindCalls(rel, isResourceMethod("Release"))
		if len(idle) != 1 {
			c.R.Unk(rule, core.FuncName(rel), cfg, p.Pos(rel.Pos()), sprintf("%d Resource.Release calls", len(idle)))
			return
		}
		in := idle[0].(ssa.Instruction)
		closedFalse := core.PredEdges(rel, false, func(cond ssa.Value) (bool, bool) {
			_, ok := core.CallTo(cond, func(f *types.Func) bool { return core.IsMethod(f, core.PkgCh, "Client", "IsClosed") })
			return true, ok
		})
		ageFalse := core.PredEdges(rel, false, lifetimeCmp("Options.MaxConnLifetime"))
		switch {
		case len(closedFalse) == 0 || !core.OnlyViaEdges(rel, in, closedFalse):
			c.R.Bad(rule, core.FuncName(rel), cfg, p.Pos(in.Pos()), "a connection whose client is closed can be returned to the idle set")
		case len(ageFalse) == 0 || !core.OnlyViaEdges(rel, in, ageFalse):
			c.R.Bad(rule, core.FuncName(rel), cfg, p.Pos(in.Pos()), "a connection older than MaxConnLifetime can be returned to the idle set")
		default:
			// other edges destroy
			w := core.ReachAvoiding(core.Entry(rel), core.IsExit, func(x ssa.Instruction) bool {
				return core.IsCallOf(x, isDisposer)
			}, core.WithoutEdges(core.CondEdges(rel, true, func(cond ssa.Value) (bool, bool) {
				x, nonNil, ok := nilCmp(cond)
				if !ok || core.FieldOrigin(x, 0) != "Client.res" {
					return false, false
				}
				return !nonNil, true
			})))
			if len(w) > 0 {
				c.R.Bad(rule, core.FuncName(rel), cfg, p.Pos(w[0].At.Pos()), "Release can return without disposing of the resource")
			} else {
				c.R.Ok(rule, core.FuncName(rel), cfg, p.Pos(in.Pos()), "idle only if !IsClosed() && age <= MaxConnLifetime; otherwise Destroy")
			}
		}
		// ch.Client.Close sets closed on every path that reaches conn.Close
		cl := p.Method(core.PkgCh, "Client", "Close")
		if !c.must(p, "(*ch.Client).Close", cl != nil) {
			return
		}
		already := core.CondEdges(cl, true, func(cond ssa.Value) (bool, bool) {
			return true, core.FieldOrigin(cond, 0) == "Client.closed"
		})
		isSet := func(x ssa.Instruction) bool {
			s, ok := x.(*ssa.Store)
			if !ok {
				return false
			}
			fa, ok := s.Addr.(*ssa.FieldAddr)
			if !ok {
				return false
			}
			f, ok := clientFieldAddr(fa)
			if !ok || f != "closed" {
				return false
			}
			cst, ok := s.Val.(*ssa.Const)
			return ok && cst.Value != nil && cst.Value.String() == "true"
		}
		w := core.ReachAvoiding(core.Entry(cl), core.IsExit, isSet, core.WithoutEdges(already))
		if len(w) > 0 {
			c.R.Bad(rule, core.FuncName(cl), cfg, p.Pos(w[0].At.Pos()), "Close can return (e.g. when conn.Close reports an error) without marking the client closed: the pool then re-idles a dead connection", p.TrailString(w[0])...)
		} else {
			c.R.Ok(rule, core.FuncName(cl), cfg, p.Pos(cl.Pos()), "closed=true on every path that is not the already-closed exit")
		}
		// IsClosed reports that flag
		ic := p.Method(core.PkgCh, "Client", "IsClosed")
		if ic != nil {
			ok := false
			for _, b := range ic.Blocks {
				for _, x := range b.Instrs {
					if r, isRet := x.(*ssa.Return); isRet && len(r.Results) == 1 && core.FieldOrigin(core.ResolveCellLoad(r.Results[0], r), 0) == "Client.closed" {
						ok = true
					}
				}
			}
			if ok {
				c.R.Ok(rule, core.FuncName(ic), cfg, p.Pos(ic.Pos()), "IsClosed returns the closed flag")
			} else {
				c.R.Bad(rule, core.FuncName(ic), cfg, p.Pos(ic.Pos()), "IsClosed does not return the closed flag")
			}
		}
	}()

	// ---- C11.bypass
	rule = "C11.bypass"
	c.R.Rule(rule, "who-may-return: outside (*chpool.Client).Release - the one place that tests IsClosed and the lifetime - a function of package chpool that returns a resource to the idle set with Resource.Release never also reaches the connection inside it (Resource.Value): a connection that has been used is always handed back through the guarded Release")
	func() {
		n := 0
		for _, fn := range p.Funcs() {
			if pkgOf(fn) == nil || pkgOf(fn).Path() != core.PkgPool || fn.Blocks == nil {
				continue
			}
			if core.IsMethod(fnObj(fn), core.PkgPool, "Client", "Release") {
				continue
			}
			rels := core.FindCalls(fn, isResourceMethod("Release"))
			if len(rels) == 0 {
				continue
			}
			n++
			vals := core.FindCalls(fn, isResourceMethod("Value"))
			key := core.FuncName(fn)
			if len(vals) > 0 {
				c.R.Bad(rule, key, cfg, p.Pos(rels[0].Pos()), "this function uses the pooled connection (Resource.Value) and returns it to the idle set with Resource.Release itself: the closed-client and MaxConnLifetime tests of chpool.Client.Release are bypassed, a dead or expired connection is reissued")
			} else {
				c.R.Ok(rule, key, cfg, p.Pos(rels[0].Pos()), "returns an unused resource")
			}
		}
		c.R.Count("direct Resource.Release outside Client.Release", n)
	}()

	// ---- C11.pairing
	rule = "C11.pairing"
	c.R.Rule(rule, "pairing: every resource the pool takes for itself is given back on every path - Pool.Do/Ping defer Release right after a successful Acquire, the dial probe releases what it acquired, and every element of AcquireAllIdle reaches exactly one of Destroy / ReleaseUnused in each iteration")
	func() {
		pool := p.NamedType(core.PkgPool, "Pool")
		if !c.must(p, "type chpool.Pool", pool != nil) {
			return
		}
		n := 0
		// Pool.Do / Pool.Ping, or the helper they share: whoever calls Pool.Acquire inside the package
		var holders []*ssa.Function
		for _, fn := range p.Funcs() {
			if pkgOf(fn) != nil && pkgOf(fn).Path() == core.PkgPool && fn.Blocks != nil {
				holders = append(holders, fn)
			}
		}
		sort.Slice(holders, func(i, j int) bool { return holders[i].Pos() < holders[j].Pos() })
		for _, fn := range holders {
			acq := core.FindCalls(fn, func(f *types.Func) bool { return core.IsMethod(f, core.PkgPool, "Pool", "Acquire") })
			for _, a := range acq {
				n++
				key := core.CallKey(fn, a)
				ev := core.ErrValue(a)
				al := core.Aliases(fn, ev)
				edge := func(b *ssa.BasicBlock, i int) bool {
					if ifi, ok := b.Instrs[len(b.Instrs)-1].(*ssa.If); ok {
						if ns, ok := core.NilTest(ifi, al); ok && ns != i {
							return false
						}
					}
					return true
				}
				isRel := func(x ssa.Instruction) bool {
					return core.IsCallOf(x, func(f *types.Func) bool { return core.IsMethod(f, core.PkgPool, "Client", "Release") })
				}
				// after a successful acquire, any use or exit must be preceded by (defer) Release
				w := core.ReachAvoiding(core.PointOf(a.(ssa.Instruction)), func(x ssa.Instruction) bool {
					if core.IsExit(x) {
						return true
					}
					_, isCall := x.(*ssa.Call)
					return isCall && !isRel(x)
				}, isRel, edge)
				if len(w) > 0 {
					c.R.Bad(rule, key, cfg, p.Pos(w[0].At.Pos()), "an acquired connection can be used or the method can return before Release is deferred")
				} else {
					c.R.Ok(rule, key, cfg, p.Pos(a.Pos()), "defer Release() immediately follows the successful Acquire")
				}
			}
		}
		// probe in newPool and others: puddle Pool.Acquire results
		for _, fn := range p.Funcs() {
			if fn.Pkg == nil || fn.Pkg.Pkg.Path() != core.PkgPool {
				continue
			}
			for _, a := range core.FindCalls(fn, func(f *types.Func) bool { return core.IsMethod(f, pkgPuddle, "Pool", "Acquire") }) {
				if core.FuncName(fn) == "chpool.(*Pool).Acquire" {
					continue // hands the resource to the caller's handle
				}
				n++
				key := core.CallKey(fn, a)
				ev := core.ErrValue(a)
				al := core.Aliases(fn, ev)
				edge := func(b *ssa.BasicBlock, i int) bool {
					if ifi, ok := b.Instrs[len(b.Instrs)-1].(*ssa.If); ok {
						if ns, ok := core.NilTest(ifi, al); ok && ns != i {
							return false
						}
					}
					return true
				}
				w := core.ReachAvoiding(core.PointOf(a.(ssa.Instruction)), core.IsExit, func(x ssa.Instruction) bool { return core.IsCallOf(x, isDisposer) }, edge)
				if len(w) > 0 {
					c.R.Bad(rule, key, cfg, p.Pos(w[0].At.Pos()), "a resource acquired by the pool itself is not given back on some path")
				} else {
					c.R.Ok(rule, key, cfg, p.Pos(a.Pos()), "given back on every path")
				}
			}
		}
		c.R.Floor(rule, cfg, n, 2)
	}()

	// ---- C11.health
	rule = "C11.health"
	c.R.Rule(rule, "in the health check every idle resource reaches exactly one disposer per iteration; ReleaseUnused (which keeps the last-used time) is the only way back to idle and is reachable only through the false edges of the lifetime and idle-time comparisons; Resource.Release (which resets the idle clock) is never used there")
	func() {
		var hc *ssa.Function
		for _, fn := range p.Funcs() {
			if fn.Pkg != nil && fn.Pkg.Pkg.Path() == core.PkgPool && len(core.FindCalls(fn, func(f *types.Func) bool { return core.IsMethod(f, pkgPuddle, "Pool", "AcquireAllIdle") })) > 0 {
				hc = fn
			}
		}
		if hc == nil {
			// a health check that takes idle resources one at a time instead of the whole idle set
			for _, fn := range p.Funcs() {
				if fn.Pkg == nil || fn.Pkg.Pkg.Path() != core.PkgPool || fn.Blocks == nil {
					continue
				}
				if len(core.FindCalls(fn, isResourceMethod("ReleaseUnused"))) == 0 {
					continue
				}
				for _, call := range core.FindCalls(fn, func(f *types.Func) bool {
					return core.IsMethod(f, pkgPuddle, "Pool", "TryAcquire") || core.IsMethod(f, pkgPuddle, "Pool", "Acquire")
				}) {
					if core.InLoop(call.(ssa.Instruction)) {
						c.R.Bad(rule, core.FuncName(fn), cfg, p.Pos(call.Pos()), "the health check takes idle connections one at a time and puts the healthy ones back with ReleaseUnused: the idle set is a stack, the connection just put back is the next one taken, so the pass looks at the most recently used connection again and again and never at the ones below it - an idle connection under a busier one outlives MaxConnIdleTime and MaxConnLifetime")
						return
					}
				}
			}
		}
		if !c.must(p, "health check (function calling puddle Pool.AcquireAllIdle)", hc != nil) {
			return
		}
		key := core.FuncName(hc)
		if bad := core.FindCalls(hc, isResourceMethod("Release", "Hijack")); len(bad) > 0 {
			c.R.Bad(rule, key, cfg, p.Pos(bad[0].Pos()), "the health check returns healthy idle connections with Release(): every tick resets their idle clock, so MaxConnIdleTime never expires")
			return
		}
		ru := core.FindCalls(hc, isResourceMethod("ReleaseUnused"))
		if len(ru) != 1 {
			c.R.Bad(rule, key, cfg, p.Pos(hc.Pos()), sprintf("%d ReleaseUnused calls in the health check", len(ru)))
			return
		}
		in := ru[0].(ssa.Instruction)
		lifeFalse := core.PredEdges(hc, false, lifetimeCmp("Options.MaxConnLifetime"))
		idleFalse := core.PredEdges(hc, false, lifetimeCmp("Options.MaxConnIdleTime"))
		if len(lifeFalse) == 0 || len(idleFalse) == 0 || !core.OnlyViaEdges(hc, in, lifeFalse) || !core.OnlyViaEdges(hc, in, idleFalse) {
			c.R.Bad(rule, key, cfg, p.Pos(in.Pos()), "an idle connection past its lifetime or idle time can be kept")
			return
		}
		// each iteration disposes: from the element load to the loop back edge
		bad := false
		for _, b := range hc.Blocks {
			for _, x := range b.Instrs {
				u, ok := x.(*ssa.UnOp)
				if !ok || u.Op != token.MUL {
					continue
				}
				ia, ok := u.X.(*ssa.IndexAddr)
				if !ok {
					continue
				}
				_ = ia
				// from the element load, reaching the loop header again or an exit without a disposer
				hdr := loopHeaderOf(b)
				w := core.ReachAvoiding(core.PointOf(x), func(y ssa.Instruction) bool {
					return core.IsExit(y) || (hdr != nil && y == hdr.Instrs[0])
				}, func(y ssa.Instruction) bool { return core.IsCallOf(y, isDisposer) }, nil)
				if len(w) > 0 {
					bad = true
					c.R.Bad(rule, key, cfg, p.Pos(w[0].At.Pos()), "an idle resource taken by AcquireAllIdle is not disposed of on some path of the loop body")
				}
			}
		}
		if !bad {
			c.R.Ok(rule, key, cfg, p.Pos(in.Pos()), "Destroy on lifetime/idle expiry, ReleaseUnused otherwise; one disposer per element")
		}
	}()

	// ---- C11.periodic
	rule = "C11.periodic"
	c.R.Rule(rule, "the health check keeps running for the life of the pool: the function that calls it does so from a loop around a select that receives from a periodic source - the channel of a time.Ticker (or a time.After evaluated in the select itself); when the source is a one-shot time.Timer, every path from the select back to the select passes a Reset of that timer - a path that skips the re-arm (an early `continue`) makes that tick the last one, after which neither idle time nor lifetime nor MinConns is enforced")
	func() {
		var hc *ssa.Function
		for _, fn := range p.Funcs() {
			if fn.Pkg != nil && fn.Pkg.Pkg.Path() == core.PkgPool && len(core.FindCalls(fn, func(f *types.Func) bool { return core.IsMethod(f, pkgPuddle, "Pool", "AcquireAllIdle") })) > 0 {
				hc = fn
			}
		}
		if hc == nil {
			return // reported by C11.health
		}
		var drv *ssa.Function
		var sel *ssa.Select
		for _, fn := range p.Funcs() {
			if fn.Pkg == nil || fn.Pkg.Pkg.Path() != core.PkgPool || fn.Blocks == nil {
				continue
			}
			calls := false
			for _, cc := range core.Calls(fn) {
				if core.StaticFn(cc) == hc {
					calls = true
				}
			}
			if !calls {
				continue
			}
			for _, b := range fn.Blocks {
				for _, in := range b.Instrs {
					if sx, ok := in.(*ssa.Select); ok && loopHeaderOf(b) != nil {
						drv, sel = fn, sx
					}
				}
			}
		}
		if drv == nil {
			c.R.Bad(rule, core.FuncName(hc), cfg, p.Pos(hc.Pos()), "the health check is not driven from a loop around a select: it does not run periodically")
			return
		}
		// the driver is started on every successful construction of a pool
		started := 0
		for _, fn := range p.Funcs() {
			if fn.Pkg == nil || fn.Pkg.Pkg.Path() != core.PkgPool || fn.Blocks == nil {
				continue
			}
			isStart := func(in ssa.Instruction) bool {
				g, ok := in.(*ssa.Go)
				if !ok {
					return false
				}
				if sf := core.StaticFn(g); sf == drv {
					return true
				}
				if mc, ok := g.Call.Value.(*ssa.MakeClosure); ok {
					if bf, ok := mc.Fn.(*ssa.Function); ok && (bf == drv || core.StaticReach(bf, 1)[drv]) {
						return true
					}
				}
				return false
			}
			has := false
			for _, b := range fn.Blocks {
				for _, in := range b.Instrs {
					if isStart(in) {
						has = true
					}
				}
			}
			if !has {
				continue
			}
			started++
			w := core.ReachAvoiding(core.Entry(fn), func(in ssa.Instruction) bool {
				r, ok := in.(*ssa.Return)
				return ok && defaultSuccess(fn, r)
			}, isStart, nil)
			if len(w) > 0 {
				c.R.Bad(rule, core.FuncName(fn)+"/started", cfg, p.Pos(w[0].At.Pos()), "a pool can be constructed successfully without its health-check goroutine being started: idle time, lifetime and MinConns are never enforced for it", p.TrailString(w[0])...)
			} else {
				c.R.Ok(rule, core.FuncName(fn)+"/started", cfg, p.Pos(fn.Pos()), "every success exit starts the health check")
			}
		}
		if started == 0 {
			c.R.Bad(rule, core.FuncName(drv)+"/started", cfg, p.Pos(drv.Pos()), "the health-check driver is never started with `go`")
		}
		key := core.FuncName(drv)
		timeField := func(v ssa.Value) (string, ssa.Value) {
			u, ok := v.(*ssa.UnOp)
			if !ok || u.Op != token.MUL {
				return "", nil
			}
			fa, ok := u.X.(*ssa.FieldAddr)
			if !ok {
				return "", nil
			}
			for _, tn := range []string{"Ticker", "Timer"} {
				if core.IsNamed(fa.X.Type(), "time", tn) {
					return tn, fa.X
				}
			}
			return "", nil
		}
		kind, n := "", 0
		var timer ssa.Value
		for _, st := range sel.States {
			if st.Dir != types.RecvOnly {
				continue
			}
			if tn, tv := timeField(st.Chan); tn != "" {
				kind, timer = tn, tv
				n++
			} else if cl, ok := st.Chan.(*ssa.Call); ok {
				if f := core.CalleeFunc(cl); f != nil && core.IsFunc(f, "time", "After") {
					kind = "After"
					n++
				}
			}
		}
		switch {
		case n == 0:
			c.R.Bad(rule, key, cfg, p.Pos(sel.Pos()), "the loop that drives the health check receives from no ticker or timer")
		case kind == "Ticker" || kind == "After":
			c.R.Ok(rule, key, cfg, p.Pos(sel.Pos()), "driven by time."+kind+" in a select loop")
		default:
			isReset := func(in ssa.Instruction) bool {
				cl, ok := in.(*ssa.Call)
				if !ok {
					return false
				}
				f := core.CalleeFunc(cl)
				return f != nil && core.IsMethod(f, "time", "Timer", "Reset") && len(cl.Call.Args) > 0 && cl.Call.Args[0] == timer
			}
			w := core.ReachAvoiding(core.Point{B: sel.Block(), I: indexIn(sel)}, func(in ssa.Instruction) bool { return in == ssa.Instruction(sel) }, isReset, nil)
			if len(w) > 0 {
				c.R.Bad(rule, key, cfg, p.Pos(sel.Pos()), "the one-shot timer that drives the health check is not re-armed on some path back to the select: after that iteration the health check never runs again", p.TrailString(w[0])...)
			} else {
				c.R.Ok(rule, key, cfg, p.Pos(sel.Pos()), "timer re-armed on every path back to the select")
			}
		}
	}()

	ruleConnChannel(c, p, "C11.conn-channel")
	ruleWhoCloses(c, p, "C11.who-closes")

	// ---- C11.factory
	rule = "C11.factory"
	c.R.Rule(rule, "connections are dialled only inside the puddle Constructor, MaxSize comes from Options.MaxConns, the Destructor closes the ch.Client, and Pool.Close reaches puddle's Close")
	func() {
		np := p.Func(core.PkgPool, "newPool")
		if !c.must(p, "chpool.newPool", np != nil) {
			return
		}
		var ctor, dtor *ssa.Function
		maxOK := false
		for _, b := range np.Blocks {
			for _, x := range b.Instrs {
				s, ok := x.(*ssa.Store)
				if !ok {
					continue
				}
				fa, ok := s.Addr.(*ssa.FieldAddr)
				if !ok || !core.IsNamed(fa.X.Type(), pkgPuddle, "Config") {
					continue
				}
				st := fa.X.Type().Underlying().(*types.Pointer).Elem().Underlying().(*types.Struct)
				switch st.Field(fa.Field).Name() {
				case "Constructor":
					ctor = unbound(closureOf(s.Val))
				case "Destructor":
					dtor = unbound(closureOf(s.Val))
				case "MaxSize":
					maxOK = core.FieldOrigin(s.Val, 0) == "Options.MaxConns"
				}
			}
		}
		isDial := func(f *types.Func) bool {
			return core.IsFunc(f, core.PkgCh, "Dial") || core.IsFunc(f, core.PkgCh, "Connect")
		}
		bad := false
		for _, fn := range p.Funcs() {
			if fn.Pkg == nil || fn.Pkg.Pkg.Path() != core.PkgPool {
				continue
			}
			for _, call := range core.FindCalls(fn, isDial) {
				if fn != ctor {
					bad = true
					c.R.Bad(rule, core.CallKey(fn, call), cfg, p.Pos(call.Pos()), "a connection is dialled outside the pool's constructor: it bypasses MaxConns and the destructor")
				}
			}
		}
		switch {
		case ctor == nil || len(core.FindCalls(ctor, isDial)) == 0:
			c.R.Bad(rule, "constructor", cfg, p.Pos(np.Pos()), "puddle Constructor does not dial")
		case dtor == nil || len(core.FindCalls(dtor, func(f *types.Func) bool { return core.IsMethod(f, core.PkgCh, "Client", "Close") })) == 0:
			c.R.Bad(rule, "destructor", cfg, p.Pos(np.Pos()), "puddle Destructor does not close the ch.Client")
		case !maxOK:
			c.R.Bad(rule, "MaxSize", cfg, p.Pos(np.Pos()), "MaxSize is not Options.MaxConns")
		case !bad:
			c.R.Ok(rule, "newPool", cfg, p.Pos(np.Pos()), "Constructor dials, Destructor closes, MaxSize <- Options.MaxConns")
		}
		pcl := p.Method(core.PkgPool, "Pool", "Close")
		if pcl != nil && core.ReachesCallee(pcl, func(f *types.Func) bool { return core.IsMethod(f, pkgPuddle, "Pool", "Close") }, 2) {
			c.R.Ok(rule, core.FuncName(pcl), cfg, p.Pos(pcl.Pos()), "Pool.Close -> puddle Pool.Close")
		} else {
			c.R.Bad(rule, "chpool.(*Pool).Close", cfg, "", "Pool.Close does not close the puddle pool")
		}
	}()
	c.R.Assumptions = append(c.R.Assumptions,
		"puddle guarantees mutual exclusion of acquired resources and the MaxSize bound; chpool is checked never to bypass it",
		"decided: handle typestate, release/destroy conditions, acquire/dispose pairing, health-check disposal, factory wiring; not decided: interleavings inside puddle")
}

func closureOf(v ssa.Value) *ssa.Function {
	switch x := v.(type) {
	case *ssa.MakeClosure:
		f, _ := x.Fn.(*ssa.Function)
		return f
	case *ssa.Function:
		return x
	case *ssa.ChangeType:
		return closureOf(x.X)
	}
	return nil
}

// unbound follows a synthetic bound-method / thunk wrapper to the method it calls.
func unbound(fn *ssa.Function) *ssa.Function {
	if fn == nil || fn.Synthetic == "" {
		return fn
	}
	for _, call := range core.Calls(fn) {
		if sf := core.StaticFn(call); sf != nil && sf.Blocks != nil {
			return sf
		}
	}
	return fn
}

// lifetimeCmp matches `age > options.<field>` (true = expired).
func lifetimeCmp(field string) func(cond ssa.Value) (bool, bool) {
	return func(cond ssa.Value) (bool, bool) {
		bo, ok := cond.(*ssa.BinOp)
		if !ok {
			return false, false
		}
		l, r := core.FieldOrigin(bo.X, 0), core.FieldOrigin(bo.Y, 0)
		switch {
		case bo.Op == token.GTR && r == field, bo.Op == token.GEQ && r == field:
			return true, true
		case bo.Op == token.LSS && l == field, bo.Op == token.LEQ && l == field:
			return true, true
		case bo.Op == token.LEQ && r == field, bo.Op == token.LSS && r == field:
			return false, true
		case bo.Op == token.GEQ && l == field, bo.Op == token.GTR && l == field:
			return false, true
		}
		return false, false
	}
}

// loopHeaderOf returns the header of the innermost loop containing b (a block
// that dominates b and has a back edge from a block dominated by it).
func loopHeaderOf(b *ssa.BasicBlock) *ssa.BasicBlock {
	var best *ssa.BasicBlock
	for _, h := range b.Parent().Blocks {
		if !(h == b || h.Dominates(b)) {
			continue
		}
		for _, pr := range h.Preds {
			if pr == h || h.Dominates(pr) {
				// h is a loop header; is b inside (can reach pr)?
				if best == nil || best.Dominates(h) {
					best = h
				}
			}
		}
	}
	return best
}

// fnObj returns the types.Func of a source function (nil for closures / synthetic).
func fnObj(fn *ssa.Function) *types.Func {
	if fn == nil {
		return nil
	}
	f, _ := fn.Object().(*types.Func)
	return f
}

// ruleSlab (C11.slab / C12.slab): pooled handles are never shared between holders.
func ruleSlab(c *Ctx, p *core.Program, rule string) {
	cfg := p.Cfg.Name
	c.R.Rule(rule, "handle structs handed out by getConn are never recycled: the per-connection slab is refilled with a fresh make, and otherwise only shrinks; re-slicing it back into its capacity would hand a new holder the very struct an earlier holder still has, so the earlier holder's stale Release acts on the new holder's resource pointer")
	func() {
		gc := p.Method(core.PkgPool, "connResource", "getConn")
		if gc == nil {
			c.R.Unk(rule, "chpool.(*connResource).getConn", cfg, "", "anchor lost")
			return
		}
		// where does the handle that getConn returns live?
		slabField := ""
		for _, b := range gc.Blocks {
			ret, ok := b.Instrs[len(b.Instrs)-1].(*ssa.Return)
			if !ok || len(ret.Results) != 1 {
				continue
			}
			switch h := ret.Results[0].(type) {
			case *ssa.Alloc:
				// a fresh handle per acquisition
			case *ssa.IndexAddr:
				if ld, ok := h.X.(*ssa.UnOp); ok {
					if fa, ok := ld.X.(*ssa.FieldAddr); ok {
						slabField = fieldNameOnly(fa.X.Type(), fa.Field)
					}
				}
			case *ssa.FieldAddr:
				c.R.Bad(rule, core.FuncName(gc), cfg, p.Pos(ret.Pos()), "getConn hands out the address of a field of the connection object ("+fieldNameOnly(h.X.Type(), h.Field)+"): every holder of this connection, past and present, has the same handle struct, so a stale Release by an earlier holder acts on the current holder's resource (the connection goes back to the pool while in use)")
				return
			default:
				c.R.Unk(rule, core.FuncName(gc), cfg, p.Pos(ret.Pos()), "origin of the returned handle not recognised")
				return
			}
		}
		if slabField == "" {
			c.R.Ok(rule, core.FuncName(gc), cfg, p.Pos(gc.Pos()), "a fresh handle is allocated per acquisition")
			return
		}
		n := 0
		bad := false
		for _, b := range gc.Blocks {
			for _, in := range b.Instrs {
				st, ok := in.(*ssa.Store)
				if !ok {
					continue
				}
				fa, ok := st.Addr.(*ssa.FieldAddr)
				if !ok || fieldNameOnly(fa.X.Type(), fa.Field) != slabField {
					continue
				}
				n++
				switch v := st.Val.(type) {
				case *ssa.MakeSlice:
				case *ssa.Slice:
					if _, fresh := v.X.(*ssa.Alloc); fresh {
						continue // make with constant size: slice of a fresh array
					}
					// must shrink: high = len(x) - k
					shr := false
					if bo, ok := v.High.(*ssa.BinOp); ok && bo.Op == token.SUB {
						if cl, ok := bo.X.(*ssa.Call); ok {
							if bi, ok := cl.Call.Value.(*ssa.Builtin); ok && bi.Name() == "len" {
								shr = true
							}
						}
					}
					if !shr {
						bad = true
						c.R.Bad(rule, core.FuncName(gc), cfg, p.Pos(st.Pos()), "the handle slab is re-sliced to something other than len-1: already handed-out handle structs are reused")
					}
				default:
					bad = true
					c.R.Bad(rule, core.FuncName(gc), cfg, p.Pos(st.Pos()), "the handle slab is assigned an unrecognised value")
				}
			}
		}
		if n == 0 {
			c.R.Unk(rule, core.FuncName(gc), cfg, p.Pos(gc.Pos()), "no slab assignment found")
		} else if !bad {
			c.R.Ok(rule, core.FuncName(gc), cfg, p.Pos(gc.Pos()), "fresh make when empty, otherwise pop from the end")
		}
	}()

}

func indexIn(in ssa.Instruction) int {
	for i, x := range in.Block().Instrs {
		if x == in {
			return i
		}
	}
	return -1
}

// ---- conn-channel (C11 / C13): a connection never changes hands through a channel
// connSends lists the channel sends in fn whose element carries a net.Conn (the interface itself,
// or a struct with such a field).
func connSends(fn *ssa.Function) []ssa.Instruction {
	var out []ssa.Instruction
	carries := func(t types.Type) bool {
		if core.IsNamed(t, "net", "Conn") {
			return true
		}
		if st, ok := t.Underlying().(*types.Struct); ok {
			for i := 0; i < st.NumFields(); i++ {
				ft := st.Field(i).Type()
				if core.IsNamed(ft, "net", "Conn") || core.IsNamed(ft, core.PkgCh, "Client") {
					return true
				}
				if pt, ok := ft.Underlying().(*types.Pointer); ok && core.IsNamed(pt.Elem(), core.PkgCh, "Client") {
					return true
				}
			}
		}
		return false
	}
	for _, b := range fn.Blocks {
		for _, in := range b.Instrs {
			switch x := in.(type) {
			case *ssa.Send:
				if carries(x.X.Type()) {
					out = append(out, in)
				}
			case *ssa.Select:
				for _, st := range x.States {
					if st.Dir == types.SendOnly && st.Send != nil && carries(st.Send.Type()) {
						out = append(out, in)
					}
				}
			}
		}
	}
	return out
}

func ruleConnChannel(c *Ctx, p *core.Program, rule string) {
	c.R.Rule(rule, "ownership of a dialed connection stays on one call stack: in packages ch and chpool no channel send carries a net.Conn or a *ch.Client (directly or as a struct field). A connection handed from a dialing goroutine to its caller through a channel is lost whenever the caller stops waiting first (context done): nobody closes it, and a pool that has been closed still has an open socket")
	cfg := p.Cfg.Name
	n := 0
	for _, fn := range p.Funcs() {
		pk := pkgOf(fn)
		if pk == nil || (pk.Path() != core.PkgCh && pk.Path() != core.PkgPool) || fn.Blocks == nil || isServerSide(fn) || strings.HasPrefix(fn.Name(), "verifFixture") {
			continue
		}
		for i, in := range connSends(fn) {
			n++
			c.R.Bad(rule, sprintf("%s/send#%d", core.FuncName(fn), i+1), cfg, p.Pos(in.Pos()), "a connection is sent over a channel: if the receiver has stopped waiting (its context ended) the connection is never closed")
		}
	}
	if n == 0 {
		c.R.Ok(rule, "ch+chpool", cfg, "", "no channel send carries a connection")
	}
}

// rulePoolSyncUse (C11): a handle's connection is used only while the holder is inside the call.
func rulePoolSyncUse(c *Ctx, p *core.Program, rule string) {
	c.R.Rule(rule, "no goroutine started in package chpool reaches a method of ch.Client that uses the connection (Do, Ping): the handle's Do and Ping run the query on the caller's goroutine and return when it has ended, so a Release that follows them finds the connection idle or closed - a Do that returns at ctx.Done() while the query still runs in a goroutine lets Release put a connection back that is being read and about to be closed, and the next holder shares it")
	cfg := p.Cfg.Name
	usesConn := func(f *types.Func) bool {
		return core.IsMethod(f, core.PkgCh, "Client", "Do") || core.IsMethod(f, core.PkgCh, "Client", "Ping")
	}
	n := 0
	for _, fn := range p.Funcs() {
		if pkgOf(fn) == nil || pkgOf(fn).Path() != core.PkgPool || fn.Blocks == nil {
			continue
		}
		for _, b := range fn.Blocks {
			for _, in := range b.Instrs {
				g, ok := in.(*ssa.Go)
				if !ok {
					continue
				}
				n++
				key := core.FuncName(fn) + sprintf("/go#%d", n)
				var body *ssa.Function
				switch v := g.Call.Value.(type) {
				case *ssa.MakeClosure:
					body, _ = v.Fn.(*ssa.Function)
				case *ssa.Function:
					body = v
				}
				if body == nil {
					c.R.Unk(rule, key, cfg, p.Pos(g.Pos()), "goroutine body not resolved")
					continue
				}
				direct := false
				if f := core.CalleeFunc(g); f != nil && usesConn(f) {
					direct = true
				}
				if direct || core.ReachesCallee(body, usesConn, 3) {
					c.R.Bad(rule, key, cfg, p.Pos(g.Pos()), "a goroutine of the pool runs a query on a client's connection: the call that started it can return (and the handle be released) while the connection is still in use")
				} else {
					c.R.Ok(rule, key, cfg, p.Pos(g.Pos()), "does not use a client's connection through Do or Ping")
				}
			}
		}
	}
	c.R.Count("goroutines started in package chpool", n)
	c.R.Floor(rule, cfg, n, 2)
}

// rulePoolLimits (C11): the defaults never override a configured limit.
func rulePoolLimits(c *Ctx, p *core.Program, rule string) {
	c.R.Rule(rule, "chpool.Options.setDefaults assigns a field only where that field is zero (the store lies behind the true edge of a test `field == 0` of the same field): the configured MaxConns is the bound on open connections the property promises, a default that raises it to MinConns lets a pool configured with MaxConns 2 open four")
	cfg := p.Cfg.Name
	fn := p.Method(core.PkgPool, "Options", "setDefaults")
	if !c.must(p, "chpool.Options.setDefaults", fn != nil) {
		return
	}
	n := 0
	for _, b := range fn.Blocks {
		for _, in := range b.Instrs {
			st, ok := in.(*ssa.Store)
			if !ok {
				continue
			}
			fa, ok := st.Addr.(*ssa.FieldAddr)
			if !ok || !core.IsNamed(fa.X.Type(), core.PkgPool, "Options") {
				continue
			}
			fname := fieldNameOnly(fa.X.Type(), fa.Field)
			n++
			key := "setDefaults/" + fname
			zero := core.CondEdges(fn, true, func(cond ssa.Value) (bool, bool) {
				v, pol := core.StripNot(cond)
				bo, ok := v.(*ssa.BinOp)
				if !ok || (bo.Op != token.EQL && bo.Op != token.NEQ) {
					return false, false
				}
				x, y := bo.X, bo.Y
				isZero := func(v ssa.Value) bool {
					if k, ok := core.ConstInt(v); ok && k == 0 {
						return true
					}
					return core.IsNilConst(v)
				}
				if isZero(x) {
					x, y = y, x
				}
				if !isZero(y) || core.FieldOrigin(x, 0) != "Options."+fname {
					return false, false
				}
				if bo.Op == token.NEQ {
					pol = !pol
				}
				return pol, true
			})
			if len(zero) > 0 && core.OnlyViaEdges(fn, st, zero) {
				c.R.Ok(rule, key, cfg, p.Pos(st.Pos()), "assigned only when unset")
			} else {
				c.R.Bad(rule, key, cfg, p.Pos(st.Pos()), sprintf("Options.%s is assigned on a path where it was configured (non-zero): the caller's limit is replaced", fname))
			}
		}
	}
	c.R.Count("defaults assigned in chpool.Options.setDefaults", n)
	c.R.Floor(rule, cfg, n, 3)
}

// rulePoolCtorLeak (C11): a connection the pool's constructor has dialed is closed when the constructor fails.
func rulePoolCtorLeak(c *Ctx, p *core.Program, rule string) {
	c.R.Rule(rule, "in the resource constructor the pool hands to puddle (the closure of package chpool that calls ch.Dial), every exit that returns an error after the dial succeeded passes a Close of the dialed client: puddle forgets the slot of a failed constructor, so a client that is not closed there stays open outside the pool's accounting - MaxConns is exceeded by one per failed verification and Pool.Close leaves it open")
	cfg := p.Cfg.Name
	n := 0
	for _, fn := range p.Funcs() {
		if pkgOf(fn) == nil || pkgOf(fn).Path() != core.PkgPool || fn.Blocks == nil {
			continue
		}
		for _, call := range core.FindCalls(fn, func(f *types.Func) bool { return core.IsFunc(f, core.PkgCh, "Dial") }) {
			n++
			key := core.CallKey(fn, call)
			ev := core.ErrValue(call)
			al := core.Aliases(fn, ev)
			okEdge := func(b *ssa.BasicBlock, i int) bool {
				if ifi, ok := b.Instrs[len(b.Instrs)-1].(*ssa.If); ok {
					if ns, ok := core.NilTest(ifi, al); ok && ns != i {
						return false // the dial's own failure: nothing to close
					}
				}
				return true
			}
			w := core.ReachAvoiding(core.PointOf(call.(ssa.Instruction)), func(in ssa.Instruction) bool {
				r, ok := in.(*ssa.Return)
				if !ok || len(r.Results) == 0 {
					return false
				}
				last := r.Results[len(r.Results)-1]
				return !core.IsNilConst(last) && isErrorTyped(last)
			}, func(in ssa.Instruction) bool {
				return core.IsCallOf(in, func(f *types.Func) bool { return core.IsMethod(f, core.PkgCh, "Client", "Close") })
			}, okEdge)
			if len(w) > 0 {
				c.R.Bad(rule, key, cfg, p.Pos(w[0].At.Pos()), "the constructor can fail after the dial succeeded without closing the client it dialed: the connection is lost to the pool but stays open", p.TrailString(w[0])...)
			} else {
				c.R.Ok(rule, key, cfg, p.Pos(call.Pos()), "no failing exit after a successful dial (or the client is closed first)")
			}
		}
	}
	c.R.Count("ch.Dial calls in package chpool", n)
	c.R.Floor(rule, cfg, n, 1)
}

// ruleHijackCloses (C11): a resource taken out of the pool's accounting is closed by whoever took it.
func ruleHijackCloses(c *Ctx, p *core.Program, rule string) {
	c.R.Rule(rule, "every call of puddle Resource.Hijack in package chpool is followed on every path (to the function's exit or back to the loop it sits in) by a Close of a ch.Client: Hijack frees the slot without running the destructor, so a connection dropped that way stays open outside MaxConns and survives Pool.Close (no Hijack today)")
	cfg := p.Cfg.Name
	n, nd := 0, 0
	for _, fn := range p.Funcs() {
		if pkgOf(fn) == nil || pkgOf(fn).Path() != core.PkgPool || fn.Blocks == nil {
			continue
		}
		nd += len(core.FindCalls(fn, isDisposer))
		for _, call := range core.FindCalls(fn, isResourceMethod("Hijack")) {
			n++
			in := call.(ssa.Instruction)
			hdr := core.LoopHeader(in)
			w := core.ReachAvoiding(core.PointOf(in), func(x ssa.Instruction) bool {
				if core.IsExit(x) {
					return true
				}
				return hdr != nil && x == hdr.Instrs[0]
			}, func(x ssa.Instruction) bool {
				return core.IsCallOf(x, func(f *types.Func) bool { return core.IsMethod(f, core.PkgCh, "Client", "Close") })
			}, nil)
			if len(w) > 0 {
				c.R.Bad(rule, core.CallKey(fn, call), cfg, p.Pos(call.Pos()), "the resource is hijacked (slot freed, destructor not run) and its client is not closed afterwards: the connection leaks", p.TrailString(w[0])...)
			} else {
				c.R.Ok(rule, core.CallKey(fn, call), cfg, p.Pos(call.Pos()), "client closed after Hijack on every path")
			}
		}
	}
	if n == 0 {
		c.R.Ok(rule, "chpool", cfg, "", sprintf("no Hijack among the %d resource disposals of package chpool", nd)).Trivial = true
	}
	c.R.Count("resource disposals in package chpool", nd)
	c.R.Floor(rule, cfg, nd, 3)
}

// ruleCloseWaits (C11): every Close of the pool returns after the teardown.
func ruleCloseWaits(c *Ctx, p *core.Program, rule string) {
	c.R.Rule(rule, "no exit of chpool.Pool.Close is reachable without a call that runs (or has waited for) the teardown: sync.Once.Do with the closure that closes the puddle pool, or the puddle Close itself - sync.Once makes a second caller wait until the first has finished; a `closed` flag that sends the second caller straight back lets a holder's Close return while the connections are still open")
	cfg := p.Cfg.Name
	fn := p.Method(core.PkgPool, "Pool", "Close")
	if !c.must(p, "chpool.Pool.Close", fn != nil) {
		return
	}
	tears := func(x ssa.Instruction) bool {
		call, ok := x.(ssa.CallInstruction)
		if !ok {
			return false
		}
		f := core.CalleeFunc(call)
		if f == nil {
			return false
		}
		if core.IsMethod(f, pkgPuddle, "Pool", "Close") {
			return true
		}
		if core.IsMethod(f, "sync", "Once", "Do") {
			for _, a := range call.Common().Args {
				if mc, ok := a.(*ssa.MakeClosure); ok {
					if cf, ok := mc.Fn.(*ssa.Function); ok && core.ReachesCallee(cf, func(g *types.Func) bool { return core.IsMethod(g, pkgPuddle, "Pool", "Close") }, 2) {
						return true
					}
				}
			}
		}
		return false
	}
	w := core.ReachAvoiding(core.Entry(fn), core.IsExit, tears, nil)
	if len(w) > 0 {
		c.R.Bad(rule, core.FuncName(fn), cfg, p.Pos(w[0].At.Pos()), "Close can return without having run or waited for the teardown: a second, concurrent Close comes back while the first is still closing connections", p.TrailString(w[0])...)
	} else {
		c.R.Ok(rule, core.FuncName(fn), cfg, p.Pos(fn.Pos()), "every exit lies behind the (once-guarded) teardown")
	}
}
