package props

// Mutants for the rules added in seeding round 7.

func init() {
	add := func(prop string, ms ...Mutant) { mutants[prop] = append(mutants[prop], ms...) }

	add("C02",
		Mutant{Name: "downgrade-skipped-when-pinned", File: "handshake.go", Old: "\t\tif c.protocolVersion > c.server.Revision {", New: "\t\tif c.protocolVersion > c.server.Revision && c.quotaKey == \"\" {", Rule: "C02.min", Construct: "store-protocolVersion"},
		Mutant{Name: "block-encoded-at-library-revision", File: "proto/block.go", Old: "\tif err := b.EncodeRawBlock(buf, version, input); err != nil {", New: "\tif err := b.EncodeRawBlock(buf, Version, input); err != nil {", Rule: "C02.version-through", Construct: "EncodeBlock"},
	)
	add("C13",
		Mutant{Name: "downgrade-skipped-when-pinned", File: "handshake.go", Old: "\t\tif c.protocolVersion > c.server.Revision {", New: "\t\tif c.protocolVersion > c.server.Revision && c.quotaKey == \"\" {", Rule: "C13.min", Construct: "store-protocolVersion"},
		Mutant{Name: "progress-gate-on-library-revision", File: "proto/progress.go", Old: "FeatureServerQueryTimeInProgress.In(version)", New: "FeatureServerQueryTimeInProgress.In(Version)", Nth: 2, Rule: "C13.version-through", Construct: "Progress"},
	)
	add("C03",
		Mutant{Name: "profile-event-host-hoisted", File: "proto/profile_events.go", Old: "\t\t\tHost:     d.Host.Row(i),", New: "\t\t\tHost:     d.Host.First(),", Rule: "C03.rowwise", Construct: "ProfileEvents"},
		Mutant{Name: "auto-results-decoded-at-library-revision", File: "proto/results.go", Old: "\t\treturn s.DecodeResult(r, version, b)", New: "\t\treturn s.DecodeResult(r, Version, b)", Rule: "C03.version-through", Construct: "decodeAuto"},
	)
	add("C05",
		Mutant{Name: "data-buffer-never-shrinks", File: "compress/reader.go", Old: "\tr.data = append(r.data[:0], make([]byte, dataSize)...)\n", New: "\tif cap(r.data) < dataSize {\n\t\tr.data = make([]byte, dataSize)\n\t} else if len(r.data) < dataSize {\n\t\tr.data = r.data[:dataSize]\n\t}\n", Rule: "C05.datalen", Construct: "readBlock"},
		Mutant{Name: "lz4hc-level-table-too-short", File: "compress/writer.go", Old: "\t\tlz4hcWriter = &lz4.CompressorHC{Level: lz4.CompressionLevel(1 << (8 + levelLZ4HC))}", New: "\t\tlz4hcWriter = &lz4.CompressorHC{Level: [...]lz4.CompressionLevel{lz4.Fast, lz4.Level1, lz4.Level2, lz4.Level3, lz4.Level4, lz4.Level5, lz4.Level6, lz4.Level7, lz4.Level8, lz4.Level9}[levelLZ4HC]}", Rule: "C05.tables", Construct: ""},
	)
	add("C06",
		Mutant{Name: "enum-infer-same-type-shortcut", File: "proto/col_enum.go", Old: "func (e *ColEnum) Infer(t ColumnType) error {\n\tif !strings.HasPrefix(t.Base().String(), \"Enum\") {\n\t\treturn errors.Errorf(\"invalid base %q to infer enum\", t.Base())\n\t}\n\tif err := e.parse(t); err != nil {\n\t\treturn errors.Wrap(err, \"parse type\")\n\t}\n\tbase := t.Base()\n\tswitch base {\n\tcase ColumnTypeEnum8, ColumnTypeEnum16:\n\t\te.base = base\n\tdefault:\n\t\treturn errors.Errorf(\"invalid base %q\", base)\n\t}\n", New: "func (e *ColEnum) Infer(t ColumnType) error {\n\tif t == e.t {\n\t\treturn nil\n\t}\n\tbase := t.Base()\n\tswitch base {\n\tcase ColumnTypeEnum8, ColumnTypeEnum16:\n\t\te.base = base\n\tdefault:\n\t\treturn errors.Errorf(\"invalid base %q to infer enum\", base)\n\t}\n\tif err := e.parse(t); err != nil {\n\t\treturn errors.Wrap(err, \"parse type\")\n\t}\n", Rule: "C06.infer-cache", Construct: "ColEnum"},
	)
	add("C07",
		Mutant{Name: "lc-single-entry-fast-path", File: "proto/col_low_cardinality.go", Old: "\tkeyRows, err := r.Int64()\n", New: "\tif indexRows == 1 {\n\t\treturn nil\n\t}\n\tkeyRows, err := r.Int64()\n", Rule: "C07.consume", Construct: "ColLowCardinality/EncodeColumn/exact"},
	)
	add("C01",
		Mutant{Name: "lc-single-entry-fast-path", File: "proto/col_low_cardinality.go", Old: "\tkeyRows, err := r.Int64()\n", New: "\tif indexRows == 1 {\n\t\treturn nil\n\t}\n\tkeyRows, err := r.Int64()\n", Rule: "C01.shape", Construct: "ColLowCardinality/EncodeColumn/exact"},
	)
	add("C09",
		Mutant{Name: "block-encoded-at-library-revision", File: "proto/block.go", Old: "\tif err := b.EncodeRawBlock(buf, version, input); err != nil {", New: "\tif err := b.EncodeRawBlock(buf, Version, input); err != nil {", Rule: "C09.version-through", Construct: "EncodeBlock"},
	)
	add("C10",
		Mutant{Name: "cancel-deadline-from-read-timeout", File: "query.go", Old: "\tconst cancelDeadline = time.Second * 1\n", New: "\tcancelDeadline := time.Second * 1\n\tif c.readTimeout < cancelDeadline {\n\t\tcancelDeadline = c.readTimeout\n\t}\n", Rule: "C10.sentinel", Construct: "cancelQuery"},
	)
	add("C10",
		Mutant{Name: "cancel-write-bounded-by-deadline-only", File: "query.go", Old: "\ttimer := time.AfterFunc(cancelDeadline, func() { _ = c.conn.Close() })\n\tdefer timer.Stop()\n", New: "", Rule: "C10.cancel-bound", Construct: "cancelQuery"},
	)
	add("C04",
		Mutant{Name: "cancel-packet-written-without-deadline", File: "query.go", Old: "\tif err := c.flushBuf(ctx, &b); err != nil {\n\t\tretErr = errors.Join(retErr, errors.Wrap(err, \"flush\"))", New: "\t_ = ctx\n\tif err := c.flushBuf(context.Background(), &b); err != nil {\n\t\tretErr = errors.Join(retErr, errors.Wrap(err, \"flush\"))", Rule: "C04.cancel-closes", Construct: "bounded"},
	)
	add("C11",
		Mutant{Name: "health-check-not-started-for-new", File: "chpool/pool.go", Old: "\tif dial {\n\t\tres, err := p.pool.Acquire(ctx)\n\t\tif err != nil {\n\t\t\tp.Close()\n\t\t\treturn nil, err\n\t\t}\n\t\tres.Release()\n\t}\n", New: "\tif !dial {\n\t\treturn p, nil\n\t}\n\tres, err := p.pool.Acquire(ctx)\n\tif err != nil {\n\t\tp.Close()\n\t\treturn nil, err\n\t}\n\tres.Release()\n", Rule: "C11.periodic", Construct: "started"},
	)
	add("C12",
		Mutant{Name: "waitgroup-add-inside-goroutine", File: "chpool/pool.go", Old: "\t\tgo func() {\n\t\t\tctx, cancel := context.WithTimeout(context.Background(), time.Minute)", New: "\t\tgo func() {\n\t\t\tp.wg.Add(1)\n\t\t\tdefer p.wg.Done()\n\t\t\tctx, cancel := context.WithTimeout(context.Background(), time.Minute)", Rule: "C12.wg", Construct: "checkMinConns"},
	)
	add("C14",
		Mutant{Name: "fixedstr-grows-by-reslice", File: "proto/col_fixed_str.go", Old: "func (c ColFixedStr) EncodeColumn(b *Buffer) {\n\tb.Buf = append(b.Buf, c.Buf...)", New: "func (c ColFixedStr) EncodeColumn(b *Buffer) {\n\tstart := len(b.Buf)\n\tb.Buf = append(b.Buf, c.Buf...)[:start+len(c.Buf)]", Rule: "C14.grow", Construct: "ColFixedStr"},
	)
	add("C16",
		Mutant{Name: "str-prefix-chained-from-scratch", File: "proto/col_str.go", Old: "\tw.ChainBuffer(func(b *Buffer) {\n\t\tfor _, p := range c.Pos {\n\t\t\tn := binary.PutUvarint(buf, uint64(p.End-p.Start))\n\t\t\tb.PutRaw(buf[:n])\n\t\t\tb.PutRaw(c.Buf[p.Start:p.End])\n\t\t}\n\t})", New: "\tfor _, p := range c.Pos {\n\t\tn := binary.PutUvarint(buf, uint64(p.End-p.Start))\n\t\tw.ChainWrite(buf[:n])\n\t\tw.ChainWrite(c.Buf[p.Start:p.End])\n\t}", Rule: "C16.chain-scratch", Construct: "ColStr"},
	)
	add("C18",
		Mutant{Name: "auto-results-decoded-at-library-revision", File: "proto/results.go", Old: "\t\treturn s.DecodeResult(r, version, b)", New: "\t\treturn s.DecodeResult(r, Version, b)", Rule: "C18.version-through", Construct: "decodeAuto"},
	)
	add("C18",
		Mutant{Name: "map-parameters-cut-at-first-comma", File: "proto/col_map.go", Old: "\tkeytype, valtype, ok := cutMapTypes(string(t.Elem()))\n\tif !ok {", New: "\tkeytype, valtype, ok := strings.Cut(string(t.Elem()), \",\")\n\tif !ok || strings.ContainsRune(valtype, ',') {", Rule: "C18.mapinfer", Construct: "split"},
	)
	add("C19",
		Mutant{Name: "enum-offers-nullable", File: "proto/col_enum.go", Old: "func (e *ColEnum) Rows() int {", New: "func (e *ColEnum) Nullable() *ColNullable[string] {\n\treturn &ColNullable[string]{Values: e}\n}\n\nfunc (e *ColEnum) Rows() int {", Rule: "C19.nullable-total", Construct: "ColEnum"},
	)
	add("C20",
		Mutant{Name: "int128-sign-on-low-limb", File: "proto/int128.go", Old: "func (i Int128) UInt64() uint64 {\n\tswitch i.High {\n\tcase 0, math.MaxUint64:\n\t\treturn uint64(int(i.Low))\n\tdefault:\n\t\treturn math.MaxUint64\n\t}\n}", New: "func (i Int128) UInt64() uint64 {\n\tif i.High != 0 || int64(i.Low) < 0 {\n\t\treturn math.MaxUint64\n\t}\n\treturn i.Low\n}", Rule: "C20.lowsign", Construct: "Int128"},
	)
}
