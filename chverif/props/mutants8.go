package props

// Mutants for the rules added in seeding round 8.

func init() {
	add := func(prop string, ms ...Mutant) { mutants[prop] = append(mutants[prop], ms...) }

	add("C01",
		Mutant{Name: "array-state-skipped-when-empty", File: "proto/col_arr.go", Old: "func (c *ColArr[T]) EncodeState(b *Buffer) {\n", New: "func (c *ColArr[T]) EncodeState(b *Buffer) {\n\tif c.Data.Rows() == 0 {\n\t\treturn\n\t}\n", Rule: "C01.forward-always", Construct: "ColArr/EncodeState"},
		Mutant{Name: "scale-loop-off-by-one", File: "proto/datetime64.go", Old: "\tfor i := PrecisionNano; i > p; i-- {", New: "\tfor i := PrecisionNano; i >= p; i-- {", Rule: "C01.scale", Construct: "Scale"},
	)
	add("C02",
		Mutant{Name: "settings-terminator-under-format-gate", File: "proto/query.go", Old: "\t\tfor _, s := range q.Settings {\n\t\t\ts.Encode(b)\n\t\t}\n\t}\n\tb.PutString(\"\") // end of settings\n", New: "\t\tfor _, s := range q.Settings {\n\t\t\ts.Encode(b)\n\t\t}\n\t\tb.PutString(\"\") // end of settings\n\t}\n", Rule: "C02.settings-end", Construct: "settings-terminator"},
	)
	add("C13",
		Mutant{Name: "settings-terminator-under-format-gate", File: "proto/query.go", Old: "\t\tfor _, s := range q.Settings {\n\t\t\ts.Encode(b)\n\t\t}\n\t}\n\tb.PutString(\"\") // end of settings\n", New: "\t\tfor _, s := range q.Settings {\n\t\t\ts.Encode(b)\n\t\t}\n\t\tb.PutString(\"\") // end of settings\n\t}\n", Rule: "C13.settings-end", Construct: "settings-terminator"},
		Mutant{Name: "watchdog-stood-down-after-packet-code", File: "handshake.go", Old: "\t\tif code == proto.ServerCodeException {\n\t\t\t// Bad password, etc.", New: "\t\tcancel()\n\t\tif code == proto.ServerCodeException {\n\t\t\t// Bad password, etc.", Rule: "C13.watchdog", Construct: "stand-down"},
	)
	add("C04",
		Mutant{Name: "ping-closes-transport-directly", File: "ping.go", Old: "\tp, err := c.packet(ctx)\n\tif err != nil {\n\t\treturn errors.Wrap(err, \"read\")", New: "\tp, err := c.packet(ctx)\n\tif err != nil {\n\t\t_ = c.conn.Close()\n\t\treturn errors.Wrap(err, \"read\")", Rule: "C04.who-closes", Construct: "Ping"},
	)
	add("C11",
		Mutant{Name: "ping-closes-transport-directly", File: "ping.go", Old: "\tp, err := c.packet(ctx)\n\tif err != nil {\n\t\treturn errors.Wrap(err, \"read\")", New: "\tp, err := c.packet(ctx)\n\tif err != nil {\n\t\t_ = c.conn.Close()\n\t\treturn errors.Wrap(err, \"read\")", Rule: "C11.who-closes", Construct: "Ping"},
	)
	add("C05",
		Mutant{Name: "column-error-formatted-with-v", File: "proto/results.go", Old: "\t\t\treturn errors.Wrap(err, columnName)", New: "\t\t\treturn errors.Errorf(\"%s: %v\", columnName, err)", Rule: "C05.chain", Construct: "chain"},
		Mutant{Name: "read-drops-error-after-partial-copy", File: "compress/reader.go", Old: "\t\t\tr.data = r.data[:0]\n\t\t\tr.pos = 0\n\t\t\treturn 0, errors.Wrap(err, \"read next block\")", New: "\t\t\tr.data = r.data[:0]\n\t\t\tr.pos = 0\n\t\t\tif len(p) == 0 {\n\t\t\t\treturn 0, nil\n\t\t\t}\n\t\t\treturn 0, errors.Wrap(err, \"read next block\")", Rule: "C05.errors", Construct: "Read"},
	)
	add("C07",
		Mutant{Name: "lcraw-keys-selected-before-key-stored", File: "proto/col_low_cardinality_raw.go", Old: "\tc.Key = key\n", New: "\tkeys := c.Keys()\n\t_ = keys\n\tc.Key = key\n", Rule: "C07.field-before-use", Construct: "Key-before-Keys"},
	)
	add("C09",
		Mutant{Name: "raw-block-returns-early-without-rows", File: "proto/block.go", Old: "\tbuf.PutInt(b.Columns)\n\tbuf.PutInt(b.Rows)\n\tfor _, col := range input {", New: "\tbuf.PutInt(b.Columns)\n\tbuf.PutInt(b.Rows)\n\tif b.Rows == 0 {\n\t\treturn nil\n\t}\n\tfor _, col := range input {", Rule: "C09.all-columns", Construct: "EncodeRawBlock"},
	)
	add("C10",
		Mutant{Name: "read-timeout-defaulted-only-in-dial", File: "client.go", Old: "\tif o.ReadTimeout == 0 {\n\t\to.ReadTimeout = DefaultReadTimeout\n\t}\n}", New: "}", Rule: "C10.defaults", Construct: "Connect/Options.ReadTimeout"},
		Mutant{Name: "oninput-in-own-goroutine", File: "query.go", Old: "\t\tif err := f(ctx); err != nil {\n\t\t\tif errors.Is(err, io.EOF) {\n\t\t\t\t// No more data.", New: "\t\tdoneIn := make(chan error, 1)\n\t\tgo func() { doneIn <- f(ctx) }()\n\t\tif err := <-doneIn; err != nil {\n\t\t\tif errors.Is(err, io.EOF) {\n\t\t\t\t// No more data.", Rule: "C10.no-stray-goroutine", Construct: "sendInput"},
	)
	add("C12",
		Mutant{Name: "oninput-in-own-goroutine", File: "query.go", Old: "\t\tif err := f(ctx); err != nil {\n\t\t\tif errors.Is(err, io.EOF) {\n\t\t\t\t// No more data.", New: "\t\tdoneIn := make(chan error, 1)\n\t\tgo func() { doneIn <- f(ctx) }()\n\t\tif err := <-doneIn; err != nil {\n\t\t\tif errors.Is(err, io.EOF) {\n\t\t\t\t// No more data.", Rule: "C12.no-stray-goroutine", Construct: "sendInput"},
	)
	add("C14",
		Mutant{Name: "write-block-asserts-stateful", File: "proto/block.go", Old: "\t\tif v, ok := col.Data.(StateEncoder); ok {\n\t\t\tw.ChainBuffer(v.EncodeState)", New: "\t\tif v, ok := col.Data.(Stateful); ok {\n\t\t\tw.ChainBuffer(v.EncodeState)", Rule: "C14.assert-siblings", Construct: "WriteBlock"},
	)
	add("C16",
		Mutant{Name: "array-state-skipped-when-empty", File: "proto/col_arr.go", Old: "func (c *ColArr[T]) EncodeState(b *Buffer) {\n", New: "func (c *ColArr[T]) EncodeState(b *Buffer) {\n\tif c.Data.Rows() == 0 {\n\t\treturn\n\t}\n", Rule: "C16.forward-always", Construct: "ColArr/EncodeState"},
	)
	add("C17",
		Mutant{Name: "patch-invented-for-old-revisions", File: "proto/client_info.go", Old: "\t\tc.Patch = v\n\t}\n", New: "\t\tc.Patch = v\n\t} else {\n\t\tc.Patch = c.ProtocolVersion\n\t}\n", Rule: "C17.invented", Construct: "ClientInfo"},
	)
	add("C18",
		Mutant{Name: "header-only-block-skips-type-check", File: "proto/results.go", Old: "\t\tgotType := ColumnType(columnType)\n", New: "\t\tif b.Rows == 0 {\n\t\t\tcontinue\n\t\t}\n\t\tgotType := ColumnType(columnType)\n", Rule: "C18.order", Construct: "always-typecheck"},
	)
	add("C19",
		Mutant{Name: "decimal-downcast-for-sized-aliases", File: "proto/column.go", Old: "\tif c.Base() != ColumnTypeDecimal {\n\t\treturn c\n\t}", New: "\tif !strings.HasPrefix(string(c.Base()), string(ColumnTypeDecimal)) {\n\t\treturn c\n\t}", Rule: "C19.decimal-guard", Construct: "decimalDowncast"},
	)
	add("C20",
		Mutant{Name: "date-batch-uses-first-zone", File: "proto/col_date.go", Old: "\tfor i, v := range vs {\n\t\tdates[i] = ToDate(v)\n\t}", New: "\tif len(vs) == 0 {\n\t\treturn\n\t}\n\t_, off := vs[0].Zone()\n\tfor i, v := range vs {\n\t\tdates[i] = ToDate(v.Add(time.Duration(off) * 0))\n\t}", Rule: "C20.per-element", Construct: "ColDate"},
	)
}
