package props

// Mutants for the rules added (or newly shared) in seeding round 12.

func init() {
	add := func(prop string, ms ...Mutant) { mutants[prop] = append(mutants[prop], ms...) }
	add("C01",
		Mutant{Name: "datetime-appendarr-converts-in-front", File: "proto/col_datetime.go", Old: "\tvar dates = make([]DateTime, len(vs))\n\n\tfor i, v := range vs {\n\t\tdates[i] = ToDateTime(v)\n\t}\n\n\tc.Data = append(c.Data, dates...)", New: "\tc.Data = append(c.Data, make([]DateTime, len(vs))...)\n\tfor i, v := range vs {\n\t\tc.Data[i] = ToDateTime(v)\n\t}", Rule: "C01.tail", Construct: "ColDateTime.AppendArr"},
		Mutant{Name: "tuple-infer-stops-after-first-inferable", File: "proto/col_tuple.go", Old: "\t\t\tif err := s.Infer(t); err != nil {\n\t\t\t\treturn errors.Wrap(err, \"infer\")\n\t\t\t}", New: "\t\t\treturn errors.Wrap(s.Infer(t), \"infer\")", Rule: "C01.forward-every", Construct: "ColTuple.Infer"},
		Mutant{Name: "key-width-test-on-truncated-count", File: "proto/col_low_cardinality.go", Old: "\t} else if n < math.MaxUint16 {", New: "\t} else if uint16(n) < math.MaxUint16 {", Rule: "C01.keywidth", Construct: "width16"},
	)
	add("C02",
		Mutant{Name: "data-packet-without-table-name", File: "query.go", Old: "\t\t\tTableName: tableName,", New: "\t\t\tTableName: \"\",", Rule: "C02.header-per-block", Construct: "TableName"},
		Mutant{Name: "external-block-only-for-named-table", File: "query.go", Old: "\tif len(q.ExternalData) > 0 {", New: "\tif len(q.ExternalData) > 0 && q.ExternalTable != \"\" {", Rule: "C02.external-presence", Construct: "sendQuery"},
	)
	add("C03",
		Mutant{Name: "callback-replaced-whenever-input-is-set", File: "query.go", Old: "\tif q.Result == nil && len(q.Input) > 0 {", New: "\tif len(q.Input) > 0 && (q.Result == nil || q.OnResult == nil) {", Rule: "C03.callback-kept", Construct: "store-OnResult"},
		Mutant{Name: "none-frame-served-from-raw-buffer", File: "compress/reader.go", Old: "\t\tcopy(r.data, r.raw[headerSize:])", New: "\t\tr.data = r.raw[headerSize : headerSize+dataSize]", Rule: "C03.alias", Construct: "readBlock"},
	)
	add("C04",
		Mutant{Name: "addendum-left-for-the-first-request", File: "handshake.go", Old: "\t\t\tc.encodeAddendum()\n\t\t\tif err := c.flush(wgCtx); err != nil {\n\t\t\t\treturn errors.Wrap(err, \"flush\")\n\t\t\t}", New: "\t\t\tc.encodeAddendum()", Rule: "C04.addendum", Construct: "flush"},
		Mutant{Name: "log-block-failure-tolerated", File: "query.go", Old: "\t\t\tCompressible: p.Compressible(),\n\t\t\tResult:       data.Result(),\n\t\t}); err != nil {\n\t\t\treturn errors.Wrap(err, \"decode block\")\n\t\t}", New: "\t\t\tCompressible: p.Compressible(),\n\t\t\tResult:       data.Result(),\n\t\t}); err != nil && (q.OnLogs != nil || q.OnLog != nil) {\n\t\t\treturn errors.Wrap(err, \"decode block\")\n\t\t}", Rule: "C04.errors", Construct: "decodeBlock"},
	)
	add("C05",
		Mutant{Name: "log-packets-taken-for-framed", File: "proto/server_code.go", Old: "\tcase ServerCodeData, ServerCodeTotals, ServerCodeExtremes:\n\t\treturn true", New: "\tcase ServerCodeData, ServerCodeTotals, ServerCodeExtremes, ServerCodeLog:\n\t\treturn true", Rule: "C05.compressible-table", Construct: "ServerCodeLog"},
	)
	add("C06",
		Mutant{Name: "auto-array-stored-without-ok", File: "proto/col_auto.go", Old: "\t\t\t\tif col, ok := arrayMethod.Call(nil)[0].Interface().(Column); ok {\n\t\t\t\t\tc.Data = col\n\t\t\t\t\tc.DataType = t\n\t\t\t\t\treturn nil\n\t\t\t\t}", New: "\t\t\t\tcol, _ := arrayMethod.Call(nil)[0].Interface().(Column)\n\t\t\t\tc.Data = col\n\t\t\t\tc.DataType = t\n\t\t\t\treturn nil", Rule: "C06.infer-nonnil", Construct: "store-Data"},
		Mutant{Name: "lcraw-key-width-committed-last", File: "proto/col_low_cardinality_raw.go", Old: "\tc.Key = key\n", New: "\tkeys := c.Keys()\n\t_ = keys\n\tc.Key = key\n", Rule: "C06.field-before-use", Construct: "Key-before-Keys"},
	)
	add("C07",
		Mutant{Name: "string-row-loop-clamped", File: "proto/col_str.go", Old: "\tfor i := 0; i < rows; i++ {\n\t\tn, err := r.StrLen()", New: "\tlimit := rows\n\tif limit > 1<<20 {\n\t\tlimit = 1 << 20\n\t}\n\tfor i := 0; i < limit; i++ {\n\t\tn, err := r.StrLen()", Rule: "C07.row-loop", Construct: "ColStr"},
		Mutant{Name: "named-encode-state-on-pointer-only", File: "proto/col_tuple.go", Old: "func (c ColNamed[T]) EncodeState(b *Buffer) {", New: "func (c *ColNamed[T]) EncodeState(b *Buffer) {", Rule: "C07.state-methodset", Construct: "ColNamed"},
	)
	add("C08",
		Mutant{Name: "idle-timeout-also-armed-as-timer", File: "client.go", Old: "\t\tdeadline = time.Now().Add(timeout)", New: "\t\tdeadline = time.Now().Add(timeout)\n\t\tdefer time.AfterFunc(timeout, func() { _ = c.conn.SetReadDeadline(time.Now()) }).Stop()", Rule: "C08.timer", Construct: "AfterFunc"},
	)
	add("C09",
		Mutant{Name: "pool-retries-on-closed-client", File: "chpool/pool.go", Old: "\treturn c.Do(ctx, q)\n}", New: "\tif err = c.Do(ctx, q); err != nil && ctx.Err() == nil && c.client().IsClosed() {\n\t\treturn c.Do(ctx, q)\n\t}\n\treturn err\n}", Rule: "C09.no-replay", Construct: "Pool"},
		Mutant{Name: "tuple-prepare-stops-after-first-preparable", File: "proto/col_tuple.go", Old: "\t\t\tif err := s.Prepare(); err != nil {\n\t\t\t\treturn errors.Wrap(err, \"prepare\")\n\t\t\t}", New: "\t\t\treturn errors.Wrap(s.Prepare(), \"prepare\")", Rule: "C09.forward-every", Construct: "ColTuple.Prepare"},
	)
	add("C10",
		Mutant{Name: "dial-keeps-conn-when-context-done", File: "client.go", Old: "\t\t// Connection was dialed here, so nobody else can close it.\n\t\t_ = conn.Close()\n", New: "\t\tif ctx.Err() == nil {\n\t\t\t_ = conn.Close()\n\t\t}\n", Rule: "C10.dialclose", Construct: "Dial"},
	)
	add("C11",
		Mutant{Name: "warm-up-dial-on-the-health-check-goroutine", File: "chpool/pool.go", Old: "\t\tgo func() {\n\t\t\tctx, cancel := context.WithTimeout(context.Background(), time.Minute)\n\t\t\tdefer cancel()\n\t\t\t_ = p.pool.CreateResource(ctx)\n\t\t}()", New: "\t\tfunc() {\n\t\t\tctx, cancel := context.WithTimeout(context.Background(), time.Minute)\n\t\t\tdefer cancel()\n\t\t\t_ = p.pool.CreateResource(ctx)\n\t\t}()", Rule: "C11.health-nonblocking", Construct: "backgroundHealthCheck"},
	)
	add("C14",
		Mutant{Name: "flush-keeps-queue-when-context-is-done", File: "client.go", Old: "\t\t// Do not keep data of failed request queued.\n\t\tc.writer.Reset()\n", New: "", Rule: "C14.discard-flush", Construct: "flush"},
	)
	add("C17",
		Mutant{Name: "query-encoder-moves-last-parameter-first", File: "proto/query.go", Old: "\t\tfor _, p := range q.Parameters {\n\t\t\tp.Encode(b)\n\t\t}", New: "\t\tif n := len(q.Parameters); n > 1 && q.Parameters[n-1].Key < q.Parameters[0].Key {\n\t\t\tq.Parameters[0], q.Parameters[n-1] = q.Parameters[n-1], q.Parameters[0]\n\t\t}\n\t\tfor _, p := range q.Parameters {\n\t\t\tp.Encode(b)\n\t\t}", Rule: "C17.encode-pure", Construct: "Query"},
	)
	add("C16",
		Mutant{Name: "raw-column-keeps-reader-scratch", File: "proto/col_raw.go", Old: "\tc.Data = append(c.Data[:0], make([]byte, c.Size*rows)...)\n\tif err := r.ReadFull(c.Data); err != nil {\n\t\treturn errors.Wrap(err, \"read full\")\n\t}\n", New: "\tdata, err := r.ReadRaw(c.Size * rows)\n\tif err != nil {\n\t\treturn errors.Wrap(err, \"read full\")\n\t}\n\tc.Data = data\n", Rule: "C16.scratch", Construct: "ColRaw"},
	)
	add("C18",
		Mutant{Name: "map-infer-cuts-at-first-comma", File: "proto/col_map.go", Old: "\tkeytype, valtype, ok := cutMapTypes(string(t.Elem()))\n\tif !ok {", New: "\tparts := strings.SplitN(string(t.Elem()), \",\", 2)\n\tok := len(parts) == 2\n\tvar keytype, valtype string\n\tif ok {\n\t\tkeytype, valtype = parts[0], parts[1]\n\t}\n\tif !ok {", Rule: "C18.comma-split", Construct: "ColMap"},
	)
	add("C19",
		Mutant{Name: "scale-skips-one-decade", File: "proto/datetime64.go", Old: "\tfor i := PrecisionNano; i > p; i-- {", New: "\tfor i := PrecisionNano - 1; i > p; i-- {", Rule: "C19.scale", Construct: "Scale"},
	)
	add("C20",
		Mutant{Name: "uint256-put-crosses-upper-limbs", File: "proto/int256.go", Old: "\tbinary.LittleEndian.PutUint64(b[192/8:256/8], v.High.High)\n\tbinary.LittleEndian.PutUint64(b[128/8:192/8], v.High.Low)", New: "\tbinary.LittleEndian.PutUint64(b[128/8:192/8], v.High.High)\n\tbinary.LittleEndian.PutUint64(b[192/8:256/8], v.High.Low)", Rule: "C20.limbs", Construct: "UInt256"},
		Mutant{Name: "uint128-get-swaps-halves", File: "proto/int128.go", Old: "\t\tLow:  binary.LittleEndian.Uint64(b[0 : 64/8]),\n\t\tHigh: binary.LittleEndian.Uint64(b[64/8 : 128/8]),\n\t}\n}\n\nfunc binPutUInt128", New: "\t\tHigh: binary.LittleEndian.Uint64(b[0 : 64/8]),\n\t\tLow:  binary.LittleEndian.Uint64(b[64/8 : 128/8]),\n\t}\n}\n\nfunc binPutUInt128", Rule: "C20.limbs", Construct: "UInt128"},
	)
	add("C09",
		Mutant{Name: "named-prepare-on-pointer-only", File: "proto/col_tuple.go", Old: "func (c ColNamed[T]) Prepare() error {", New: "func (c *ColNamed[T]) Prepare() error {", Rule: "C09.prepare-methodset", Construct: "ColNamed"},
	)
	add("C01",
		Mutant{Name: "named-prepare-needs-pointer", File: "proto/col_tuple.go", Old: "func (c ColNamed[T]) Prepare() error {", New: "func (c *ColNamed[T]) Prepare() error {", Rule: "C01.prepare-methodset", Construct: "ColNamed"},
		Mutant{Name: "uint256-get-crosses-lower-limbs", File: "proto/int256.go", Old: "\t\t\tLow:  binary.LittleEndian.Uint64(b[0 : 64/8]),\n\t\t\tHigh: binary.LittleEndian.Uint64(b[64/8 : 128/8]),", New: "\t\t\tHigh: binary.LittleEndian.Uint64(b[0 : 64/8]),\n\t\t\tLow:  binary.LittleEndian.Uint64(b[64/8 : 128/8]),", Rule: "C01.limbs", Construct: "UInt256"},
	)
}
