package props

import (
	"fmt"
	"go/ast"
	"go/token"
	"go/types"
	"path/filepath"
	"sort"
	"strconv"
	"strings"

	"chverif/core"
)

// E11 clone consistency: the generated fixed-width column codecs are instances
// of one template per family; after abstracting the type-specific names and
// the element width, every instance must coincide with at least one sibling.

type cloneFile struct {
	name   string
	family string
	toks   []string
	pos    []token.Pos
	col    string
}

var uintAcc = map[string]int{"Uint16": 16, "Uint32": 32, "Uint64": 64, "PutUint16": 16, "PutUint32": 32, "PutUint64": 64,
	"Float32bits": 32, "Float64bits": 64, "Float32frombits": 32, "Float64frombits": 64}

func cloneFingerprint(p *core.Program, f *ast.File, fname string) *cloneFile {
	base := filepath.Base(fname)
	cf := &cloneFile{name: base}
	switch {
	case strings.HasSuffix(base, "_unsafe_gen.go"):
		cf.family = "unsafe"
	case strings.HasSuffix(base, "_safe_gen.go"):
		cf.family = "safe"
	case strings.HasSuffix(base, "_gen.go"):
		cf.family = "gen"
	default:
		return nil
	}
	// the column type: receiver of the first method
	for _, d := range f.Decls {
		fd, ok := d.(*ast.FuncDecl)
		if !ok || fd.Recv == nil || len(fd.Recv.List) == 0 {
			continue
		}
		t := fd.Recv.List[0].Type
		if st, ok := t.(*ast.StarExpr); ok {
			t = st.X
		}
		if id, ok := t.(*ast.Ident); ok {
			cf.col = id.Name
			break
		}
	}
	if cf.col == "" {
		return nil
	}
	named := p.NamedType(core.PkgProto, cf.col)
	if named == nil {
		return nil
	}
	// element type and width
	var elem types.Type
	switch u := named.Underlying().(type) {
	case *types.Slice:
		elem = u.Elem()
	case *types.Struct:
		for i := 0; i < u.NumFields(); i++ {
			if sl, ok := u.Field(i).Type().Underlying().(*types.Slice); ok && u.Field(i).Name() == "Data" {
				elem = sl.Elem()
			}
		}
	}
	if elem == nil {
		return nil
	}
	elemName := types.TypeString(elem, func(*types.Package) string { return "" })
	bits := int(p.Pkgs[core.PkgProto].TypesSizes.Sizeof(elem)) * 8
	basic := ""
	if b, ok := elem.Underlying().(*types.Basic); ok {
		basic = b.Name()
	}
	suffix := strings.TrimPrefix(cf.col, "Col")
	_, elemIsArray := elem.Underlying().(*types.Array)
	mapIdent := func(n string) string {
		switch {
		case n == cf.col:
			return "ColT"
		case n == elemName:
			return "ElemT"
		case strings.HasPrefix(n, "ColumnType"):
			return "ColumnTypeT"
		case n == basic && basic != "" && bits < 16:
			return "BasicT"
		}
		if suffix != "" && strings.Contains(n, suffix) {
			n = strings.ReplaceAll(n, suffix, "T")
		}
		// anything that carries the element's bit width in its name: Uint32, PutUint32,
		// Float32bits, uint32, binUInt128 ... (a name with another width stays as it is)
		if bits >= 16 && strings.Contains(n, strconv.Itoa(bits)) {
			n = strings.ReplaceAll(n, strconv.Itoa(bits), "W")
			n = strings.Replace(n, "uintW", "intW", 1)
		}
		return n
	}
	ast.Inspect(f, func(n ast.Node) bool {
		switch x := n.(type) {
		case nil:
			return false
		case *ast.CommentGroup, *ast.Comment:
			return false
		case *ast.Ident:
			cf.toks = append(cf.toks, mapIdent(x.Name))
			cf.pos = append(cf.pos, x.Pos())
		case *ast.BasicLit:
			v := x.Value
			if x.Kind == token.INT {
				if k, err := strconv.Atoi(v); err == nil {
					switch {
					case k == bits:
						v = "W"
					case k == bits/8 && elemIsArray:
						v = "WB"
					}
				}
			}
			if x.Kind == token.STRING {
				v = strings.ReplaceAll(v, suffix, "T")
				if elemIsArray {
					v = strings.ReplaceAll(v, strconv.Itoa(bits/8), "WB")
				}
			}
			cf.toks = append(cf.toks, v)
			cf.pos = append(cf.pos, x.Pos())
		case *ast.BinaryExpr:
			cf.toks = append(cf.toks, "bin"+x.Op.String())
			cf.pos = append(cf.pos, x.OpPos)
		case *ast.UnaryExpr:
			cf.toks = append(cf.toks, "un"+x.Op.String())
			cf.pos = append(cf.pos, x.OpPos)
		case *ast.AssignStmt:
			cf.toks = append(cf.toks, "as"+x.Tok.String())
			cf.pos = append(cf.pos, x.TokPos)
		case *ast.IncDecStmt:
			cf.toks = append(cf.toks, x.Tok.String())
			cf.pos = append(cf.pos, x.TokPos)
		case *ast.BranchStmt:
			cf.toks = append(cf.toks, x.Tok.String())
			cf.pos = append(cf.pos, x.TokPos)
		case *ast.RangeStmt:
			cf.toks = append(cf.toks, "range"+x.Tok.String())
			cf.pos = append(cf.pos, x.For)
		case *ast.GenDecl:
			cf.toks = append(cf.toks, "decl"+x.Tok.String())
			cf.pos = append(cf.pos, x.TokPos)
		default:
			cf.toks = append(cf.toks, strings.TrimPrefix(fmt.Sprintf("%T", n), "*ast."))
			cf.pos = append(cf.pos, n.Pos())
		}
		return true
	})
	return cf
}

// cloneExempt: generated files that are the only instance of their shape, with the reason.
var cloneExempt = map[string]string{
	"col_uint8_safe_gen.go": "ColUInt8 is []uint8, i.e. already the wire image: the pure-Go codec appends the bytes themselves, there is no per-element conversion to share with the other 8-bit columns",
}

func ruleClones(c *Ctx, p *core.Program, rule string) {
	c.R.Rule(rule, "E11 clone consistency (sibling cross-check): every generated column file (col_*_gen.go, col_*_safe_gen.go, col_*_unsafe_gen.go) is reduced to a token sequence with its column type, element type, ColumnType constant, element width (bits and bytes) and the encoding/binary accessor of that width abstracted; within each family a file must coincide with at least one sibling - a file that deviates from all of them (an accessor of another width, a changed bound, a dropped statement) is reported with the first token at which it departs from its nearest sibling; legitimate singletons are enumerated with a reason")
	cfg := p.Cfg.Name
	pk := p.Pkgs[core.PkgProto]
	var files []*cloneFile
	for _, f := range pk.Syntax {
		fname := p.Fset.Position(f.Pos()).Filename
		if strings.HasSuffix(fname, "_test.go") {
			continue
		}
		if cf := cloneFingerprint(p, f, fname); cf != nil {
			files = append(files, cf)
		}
	}
	groups := map[string][]*cloneFile{}
	for _, cf := range files {
		k := cf.family + "\x00" + strings.Join(cf.toks, " ")
		groups[k] = append(groups[k], cf)
	}
	n := 0
	for _, cf := range files {
		n++
		k := cf.family + "\x00" + strings.Join(cf.toks, " ")
		key := "clone/" + cf.name
		if len(groups[k]) > 1 {
			c.R.Ok(rule, key, cfg, "proto/"+cf.name, sprintf("identical to %d sibling(s) after abstraction", len(groups[k])-1))
			continue
		}
		if why, ok := cloneExempt[cf.name]; ok {
			c.R.Ok(rule, key, cfg, "proto/"+cf.name, "singleton by design: "+why)
			continue
		}
		// nearest sibling: longest common prefix + suffix among same family
		var best *cloneFile
		bestScore := -1
		for _, o := range files {
			if o == cf || o.family != cf.family {
				continue
			}
			i := 0
			for i < len(o.toks) && i < len(cf.toks) && o.toks[i] == cf.toks[i] {
				i++
			}
			j := 0
			for j < len(o.toks)-i && j < len(cf.toks)-i && o.toks[len(o.toks)-1-j] == cf.toks[len(cf.toks)-1-j] {
				j++
			}
			if i+j > bestScore {
				bestScore, best = i+j, o
			}
		}
		where, what := "proto/"+cf.name, "no sibling in its family"
		if best != nil {
			i := 0
			for i < len(best.toks) && i < len(cf.toks) && best.toks[i] == cf.toks[i] {
				i++
			}
			if i < len(cf.toks) {
				where = p.Pos(cf.pos[i])
				exp := "<end>"
				if i < len(best.toks) {
					exp = best.toks[i]
				}
				what = sprintf("departs from its nearest sibling %s at token %q (sibling has %q); %d of %d tokens agree", best.name, cf.toks[i], exp, bestScore, len(cf.toks))
			} else {
				what = sprintf("is a proper prefix of sibling %s", best.name)
			}
		}
		c.R.Bad(rule, key, cfg, where, "generated file "+cf.name+" "+what)
	}
	sizes := map[string][]int{}
	for k, g := range groups {
		fam := k[:strings.Index(k, "\x00")]
		sizes[fam] = append(sizes[fam], len(g))
	}
	for fam, ss := range sizes {
		sort.Sort(sort.Reverse(sort.IntSlice(ss)))
		c.R.Count(sprintf("clone clusters[%s][%s] sizes %v", cfg, fam, ss), len(ss))
	}
	c.R.Floor(rule, cfg, n, 60)
}

var _ = sort.Strings
