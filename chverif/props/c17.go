package props

import (
	"go/constant"
	"go/token"
	"go/types"
	"sort"
	"strings"

	"golang.org/x/tools/go/ssa"

	"chverif/core"
)

func init() { register("C17", runC17) }

type msgPair struct {
	name     string
	enc, dec *ssa.Function
}

// messagePairs discovers the protocol messages: named types of package proto
// (columns excluded) having an encoder (*Buffer) and a decoder (*Reader).
func messagePairs(p *core.Program) []msgPair {
	var out []msgPair
	sc := p.Pkgs[core.PkgProto].Types.Scope()
	for _, n := range sc.Names() {
		tn, ok := sc.Lookup(n).(*types.TypeName)
		if !ok {
			continue
		}
		named, ok := tn.Type().(*types.Named)
		if !ok || named.TypeParams().Len() > 0 {
			continue
		}
		var enc, dec *ssa.Function
		isCol := false
		for i := 0; i < named.NumMethods(); i++ {
			m := named.Method(i)
			sig := m.Type().(*types.Signature)
			switch m.Name() {
			case "Encode", "EncodeAware":
				if sig.Params().Len() >= 1 && core.IsNamed(sig.Params().At(0).Type(), core.PkgProto, "Buffer") {
					enc = p.Prog.FuncValue(m)
				}
			case "Decode", "DecodeAware":
				if sig.Params().Len() >= 1 && core.IsNamed(sig.Params().At(0).Type(), core.PkgProto, "Reader") {
					dec = p.Prog.FuncValue(m)
				}
			case "EncodeColumn", "DecodeColumn":
				isCol = true
			}
		}
		if enc != nil && dec != nil && !isCol && n != "Buffer" && n != "Reader" {
			out = append(out, msgPair{n, enc, dec})
		}
	}
	return out
}

func gateSignature(th []int64, r int64) string {
	var sb strings.Builder
	for _, t := range th {
		if r >= t {
			sb.WriteByte('1')
		} else {
			sb.WriteByte('0')
		}
	}
	return sb.String()
}

func thresholds(p *core.Program) []int64 {
	set := map[int64]bool{}
	for _, fn := range p.Funcs() {
		for _, call := range core.FindCalls(fn, isFeatureIn) {
			if v, ok := core.ConstInt(call.Common().Args[0]); ok {
				set[v] = true
			}
		}
	}
	var out []int64
	for t := range set {
		out = append(out, t)
	}
	sort.Slice(out, func(i, j int) bool { return out[i] < out[j] })
	return out
}

// terminatorDriven: messages whose decoder legitimately succeeds on a shorter sequence than
// the encoder of one value emits, because a list terminator is an ordinary value of the
// element type (the condition "key is empty" / "field id is 0" is data, which E2 erases).
// For these only L(enc) ⊆ L(dec) is checked.
var terminatorDriven = map[string]string{
	"Setting":   "Setting.Decode returns after an empty key: the terminator of the settings list is an empty key written by Query.EncodeAware",
	"Parameter": "same scheme for the parameters list",
	"Query":     "contains the two terminator-driven lists",
	"BlockInfo": "field list ended by field id 0; which ids precede it is data",
}

// ruleShapePairs checks L(enc_r) ⊆ L(dec_r) for all pairs and revisions, and L(dec_r) ⊆ L(enc_r)
// for every message that is not terminator-driven.
func ruleShapePairs(c *Ctx, p *core.Program, rule string, pairs []msgPair, withPath bool) {
	cfg := p.Cfg.Name
	revs := revisionSamples(p, c.Thorough())
	th := thresholds(p)
	c.R.Count("revisions sampled", len(revs))
	cls := wireClassifier(p, withPath)
	for _, mp := range pairs {
		type res struct {
			ok     bool
			empty  bool
			word   []string
			undec  []string
			sample []string
			rev    []string // a sequence the decoder accepts and the encoder never emits
		}
		cache := map[string]res{}
		var firstBad *res
		var badRev int64
		var revBad []string
		var revBadRev int64
		window := int64(-1)
		nDistinct := 0
		for _, r := range revs {
			sig := gateSignature(th, r)
			rs, ok := cache[sig]
			if !ok {
				nDistinct++
				o := langOpts{p: p, classify: cls, revision: r}
				ea := buildLang(mp.enc, o)
				da := buildLang(mp.dec, o)
				normaliseRaw(ea, da)
				ed, dd := ea.determinize(), da.determinize()
				rs.undec = append(append([]string{}, ea.undec...), da.undec...)
				if dd.isEmpty() {
					rs.empty = true
					rs.ok = true
				} else {
					rs.ok, rs.word = contained(ed, dd)
					rs.sample = ed.sampleWords(1, 40)
					if rs.ok && terminatorDriven[mp.name] == "" {
						// the decoder must not succeed on less (or other) than the encoder emits
						if ok2, w2 := contained(dd, ed); !ok2 {
							rs.rev = w2
						}
					}
				}
				cache[sig] = rs
			}
			if rs.empty {
				continue
			}
			if window < 0 {
				window = r
			}
			if rs.rev != nil && revBad == nil {
				revBad, revBadRev = rs.rev, r
			}
			if (!rs.ok || len(rs.undec) > 0) && firstBad == nil {
				cp := rs
				firstBad = &cp
				badRev = r
			}
		}
		key := "message/" + mp.name
		pos := p.Pos(mp.enc.Pos())
		switch {
		case window < 0:
			c.R.Unk(rule, key, cfg, pos, "the decoder accepts nothing at any sampled revision")
		case firstBad != nil && len(firstBad.undec) > 0:
			c.R.Unk(rule, key, cfg, pos, sprintf("revision %d: construction left the fragment: %s", badRev, strings.Join(firstBad.undec, "; ")))
		case firstBad != nil:
			c.R.Bad(rule, key, cfg, pos, sprintf("revision %d: the encoder can emit the field sequence [%s] which no success path of the decoder consumes (missing, extra, reordered or re-typed field, or a gate that differs between the two sides)", badRev, strings.Join(firstBad.word, " ")))
		case revBad != nil:
			c.R.Bad(rule, key+"/exact", cfg, p.Pos(mp.dec.Pos()), sprintf("revision %d: a success path of the decoder consumes only [%s], which the encoder never emits: the decoder stops early (or reads something else), so part of an encoded message is accepted as a complete one and the rest of the stream is misread", revBadRev, strings.Join(revBad, " ")))
		default:
			smp := ""
			for _, rs := range cache {
				if len(rs.sample) > 0 && len(rs.sample[0]) > len(smp) {
					smp = rs.sample[0]
				}
			}
			c.R.Ok(rule, key, cfg, pos, sprintf("L(enc) ⊆ L(dec) at %d revisions (%d distinct gate valuations), supported from revision %d; e.g. [%s]", len(revs), nDistinct, window, smp))
		}
	}
}

func runC17(c *Ctx) {
	p := c.Prog(core.CfgDefault)
	if p == nil {
		return
	}
	cfg := p.Cfg.Name
	rule := "C17.shape"
	c.R.Rule(rule, "E2 containment: for every protocol message type (discovered: an encoder taking *Buffer and a decoder taking *Reader) and every sampled revision r (both neighbours of every Feature threshold found in the tree, 0 and max+1; every revision 50000..54500 in the thorough tier) the language of primitive-width sequences the encoder can emit is contained in the language the decoder's success paths consume; a leading packet code is routed to the dispatcher checks; revisions where the decoder refuses everything define the supported window")
	pairs := messagePairs(p)
	c.R.Count("message pairs", len(pairs))
	c.R.Floor(rule, cfg, len(pairs), 9)
	ruleEncodersPure(c, p, "C17.encode-pure")
	ruleTraceStateInverse(c, p, "C17.tracestate")
	ruleDecodedValueStored(c, p, "C17.decoded-stored")
	ruleShapePairs(c, p, rule, pairs, false)

	ruleGates(c, p, pairs, "C17.gates")
	ruleBitFlags(c, p, pairs, "C17.flags")
	ruleLossyDecode(c, p, pairs, "C17.lossy")
	ruleNoInventedFields(c, p, pairs, "C17.invented")
	ruleThresholds(c, p, "C17.thresholds")
	ruleFreshTargets(c, p, "C17.fresh")
	ruleScratchAlias(c, p, "C17.scratch")
	ruleLimitSiblings(c, p, "C17.limits")
	ruleStrLenUncapped(c, p, "C17.strlen")
	ruleLostReceiverWrite(c, p, "C17.receiver")
	ruleHeaderEveryColumn(c, p, "C17.descriptor")
	ruleVarintFastPath(c, p, "C17.varint")
	ruleOpenCodes(c, p, "C17.open-codes")
	ruleGateCompare(c, p, "C17.gate-compare")
	ruleEncodeVerbatim(c, p, "C17.verbatim")
	ruleReadSizeUncapped(c, p, "C17.readsize")
	ruleReadFull(c, p, "C17.readfull")
	ruleVersionPassThrough(c, p, "C17.version-through")
	ruleEnsureExact(c, p, "C17.ensure")

	// ---- C17.fieldorder
	rule = "C17.fieldorder"
	c.R.Rule(rule, "E2 containment over field-labelled atoms: every primitive written by an encoder is labelled with the struct field it is loaded from, every primitive read by a decoder with the field its result is stored to; restricted to the fields labelled on both sides, the encoder's sequences of field names are contained in the decoder's at every revision - two same-typed fields written in one order and read in the other are caught although their widths agree")
	func() {
		fcls := fieldClassifier(p)
		th := thresholds(p)
		for _, mp := range pairs {
			key := "fieldorder/" + mp.name
			seen := map[string]bool{}
			bad := false
			nval := 0
			for _, r := range revisionSamples(p, false) {
				sig := gateSignature(th, r)
				if seen[sig] {
					continue
				}
				seen[sig] = true
				o := langOpts{p: p, classify: fcls, revision: r}
				ea, da := buildLang(mp.enc, o), buildLang(mp.dec, o)
				if len(ea.undec)+len(da.undec) > 0 {
					continue // reported by C17.shape
				}
				// keep only labels present on both sides
				el, dl := labelsOf(ea), labelsOf(da)
				keep := map[string]bool{}
				for l := range el {
					if dl[l] {
						keep[l] = true
					}
				}
				keep["*"] = true
				project(ea, keep)
				project(da, keep)
				addWildcards(da)
				dd := da.determinize()
				if dd.isEmpty() {
					continue
				}
				nval++
				if ok, w := contained(ea.determinize(), dd); !ok {
					bad = true
					c.R.Bad(rule, key, cfg, p.Pos(mp.enc.Pos()), sprintf("revision %d: the encoder writes the fields in the order [%s], which the decoder never reads in that order (two fields exchanged on one side)", r, strings.Join(w, " ")))
					break
				}
			}
			if !bad {
				c.R.Ok(rule, key, cfg, p.Pos(mp.enc.Pos()), sprintf("field order agrees under %d gate valuations", nval))
			}
		}
	}()

	// ---- C17.fields
	rule = "C17.fields"
	c.R.Rule(rule, "for every message type, the set of struct fields the encoder reads equals the set the decoder writes: a field decoded but never encoded (or vice versa) cannot round-trip")
	for _, mp := range pairs {
		ef := fieldsTouched(mp.enc, mp.name, false)
		df := fieldsTouched(mp.dec, mp.name, true)
		var onlyDec, onlyEnc []string
		for f := range df {
			if !ef[f] {
				onlyDec = append(onlyDec, f)
			}
		}
		for f := range ef {
			if !df[f] {
				onlyEnc = append(onlyEnc, f)
			}
		}
		sort.Strings(onlyDec)
		sort.Strings(onlyEnc)
		if len(onlyDec) == 0 && len(onlyEnc) == 0 {
			c.R.Ok(rule, "fields/"+mp.name, cfg, p.Pos(mp.enc.Pos()), sprintf("%d fields on both sides", len(ef)))
		}
		for _, f := range onlyDec {
			c.R.Bad(rule, "fields/"+mp.name+"."+f, cfg, p.Pos(mp.enc.Pos()), "field "+f+" is decoded but the encoder never reads it: a message with another value of "+f+" does not round-trip")
		}
		for _, f := range onlyEnc {
			c.R.Bad(rule, "fields/"+mp.name+"."+f, cfg, p.Pos(mp.dec.Pos()), "field "+f+" is encoded but never decoded")
		}
	}

	// ---- C17.tags
	rule = "C17.tags"
	c.R.Rule(rule, "BlockInfo: the field ids the encoder emits, each with the primitive that follows it, equal the case table of the decoder, and the encoder ends with the terminator id the decoder returns on")
	func() {
		enc := p.Method(core.PkgProto, "BlockInfo", "Encode")
		dec := p.Method(core.PkgProto, "BlockInfo", "Decode")
		if !c.must(p, "BlockInfo.Encode/Decode", enc != nil && dec != nil) {
			return
		}
		// encoder: ordered (id, prim)
		type tag struct {
			id   int64
			prim string
		}
		var etags []tag
		var calls []*ssa.Call
		for _, call := range core.Calls(enc) {
			if cl, ok := call.(*ssa.Call); ok {
				if f := core.CalleeFunc(cl); f != nil && core.IsMethod(f, core.PkgProto, "Buffer", f.Name()) {
					calls = append(calls, cl)
				}
			}
		}
		for i := 0; i < len(calls); i++ {
			f := core.CalleeFunc(calls[i])
			if f.Name() != "PutUVarInt" {
				continue
			}
			id, ok := core.ConstInt(calls[i].Call.Args[1])
			if !ok {
				continue
			}
			prim := ""
			if i+1 < len(calls) && core.CalleeFunc(calls[i+1]).Name() != "PutUVarInt" {
				prim = bufferAtoms[core.CalleeFunc(calls[i+1]).Name()]
				i++
			}
			etags = append(etags, tag{id, prim})
		}
		tbl := switchTable(dec, func(v ssa.Value) bool {
			b, ok := v.Type().Underlying().(*types.Basic)
			return ok && b.Kind() == types.Uint64
		})
		dtags := map[int64]string{}
		for id, blk := range tbl {
			prim := ""
			for _, in := range blk.Instrs {
				if cl, ok := in.(*ssa.Call); ok {
					if f := core.CalleeFunc(cl); f != nil && core.IsMethod(f, core.PkgProto, "Reader", f.Name()) {
						prim = readerAtoms[f.Name()]
						break
					}
				}
			}
			dtags[id] = prim
		}
		bad := false
		for i, t := range etags {
			dp, ok := dtags[t.id]
			switch {
			case !ok:
				bad = true
				c.R.Bad(rule, sprintf("BlockInfo/id%d", t.id), cfg, p.Pos(enc.Pos()), "encoder emits a field id the decoder rejects")
			case dp != t.prim:
				bad = true
				c.R.Bad(rule, sprintf("BlockInfo/id%d", t.id), cfg, p.Pos(enc.Pos()), sprintf("field id %d is followed by %q in the encoder but read as %q", t.id, t.prim, dp))
			case t.prim == "" && i != len(etags)-1:
				bad = true
				c.R.Bad(rule, sprintf("BlockInfo/id%d", t.id), cfg, p.Pos(enc.Pos()), "terminator id is not last")
			}
		}
		if len(etags) < 2 || etags[len(etags)-1].prim != "" {
			bad = true
			c.R.Bad(rule, "BlockInfo/terminator", cfg, p.Pos(enc.Pos()), "encoder does not end with the bare terminator id")
		}
		if !bad {
			c.R.Ok(rule, "BlockInfo", cfg, p.Pos(enc.Pos()), sprintf("%d tags agree", len(etags)))
		}
	}()

	// ---- C17.prims
	rulePrims(c, p)
	c.R.Assumptions = append(c.R.Assumptions,
		"the revision is only ever compared with constant thresholds through Feature.In (checked: the thresholds are collected from those calls)",
		"decided: same fields, order, primitive width and gate on both sides for every revision, field sets, tags, primitive pairs; not decided: equality of field values after a round trip")
}

// fieldsTouched: names of the fields of message type tname read (write=false)
// or stored (write=true) in fn through its receiver.
func fieldsTouched(root *ssa.Function, tname string, write bool) map[string]bool {
	out := map[string]bool{}
	var fns []*ssa.Function
	for f := range core.StaticReach(root, 2) {
		if f == root {
			fns = append(fns, f)
			continue
		}
		// helpers of the same message type (methods on it, or functions taking it)
		if recv := f.Signature.Recv(); recv != nil {
			if n := core.NamedOf(recv.Type()); n != nil && n.Obj().Name() == tname {
				fns = append(fns, f)
			}
		}
	}
	for _, fn := range fns {
		for _, b := range fn.Blocks {
			for _, in := range b.Instrs {
				switch x := in.(type) {
				case *ssa.FieldAddr:
					n := core.NamedOf(x.X.Type())
					if n == nil || n.Obj().Name() != tname {
						continue
					}
					name := fieldNameOnly(x.X.Type(), x.Field)
					isW, isR := false, false
					for _, r := range *x.Referrers() {
						switch y := r.(type) {
						case *ssa.Store:
							if y.Addr == x {
								isW = true
							} else {
								isR = true
							}
						case *ssa.DebugRef:
						default:
							isR = true
							// address passed to a call (e.g. q.Info.DecodeAware): counts as both
							if _, ok := r.(ssa.CallInstruction); ok {
								isW = true
							}
						}
					}
					if write && isW || !write && isR {
						out[name] = true
					}
				case *ssa.Field:
					n := core.NamedOf(x.X.Type())
					if n == nil || n.Obj().Name() != tname {
						continue
					}
					if !write {
						out[fieldNameOnly(x.X.Type(), x.Field)] = true
					}
				}
			}
		}
	}
	return out
}

// rulePrims: primitive pairs have the same width and byte order.
func rulePrims(c *Ctx, p *core.Program) {
	rule := "C17.prims"
	c.R.Rule(rule, "each fixed-width Buffer.PutUIntK appends K/8 bytes written by encoding/binary.LittleEndian.PutUintK and the paired Reader.UIntK reads K/8 bytes and converts them with LittleEndian.UintK; PutString = length as uvarint + bytes and Str = StrLen + full read; the signed/float variants are conversions of the unsigned ones; the atom tables used by C17.shape pair a Put with a reader of the same width")
	cfg := p.Cfg.Name
	type pr struct {
		put, get string
		bytes    int64
		binPut   string
		binGet   string
	}
	for _, q := range []pr{
		{"PutUInt16", "UInt16", 2, "PutUint16", "Uint16"},
		{"PutUInt32", "UInt32", 4, "PutUint32", "Uint32"},
		{"PutUInt64", "UInt64", 8, "PutUint64", "Uint64"},
	} {
		put := p.Method(core.PkgProto, "Buffer", q.put)
		get := p.Method(core.PkgProto, "Reader", q.get)
		key := "prim/" + q.get
		if put == nil || get == nil {
			c.R.Unk(rule, key, cfg, "", "primitive missing")
			continue
		}
		okPut := callsLE(put, q.binPut) && allocBytes(put) == q.bytes
		// the one-call form: LittleEndian.AppendUintK appends exactly K/8 bytes by its contract
		if !okPut && callsLE(put, "Append"+strings.TrimPrefix(q.binPut, "Put")) && allocBytes(put) == -1 {
			okPut = true
		}
		okGet := callsLE(get, q.binGet) && readFullConst(get) == q.bytes
		if okPut && okGet {
			c.R.Ok(rule, key, cfg, p.Pos(put.Pos()), sprintf("%d bytes, little endian, both sides", q.bytes))
		} else {
			c.R.Bad(rule, key, cfg, p.Pos(put.Pos()), sprintf("width/byte order disagree: put(LE.%s=%v, %d bytes) get(LE.%s=%v, %d bytes), expected %d", q.binPut, callsLE(put, q.binPut), allocBytes(put), q.binGet, callsLE(get, q.binGet), readFullConst(get), q.bytes))
		}
	}
	// derived primitives are conversions of the base ones
	for put, base := range map[string]string{"PutInt16": "PutUInt16", "PutInt32": "PutUInt32", "PutInt64": "PutUInt64", "PutFloat32": "PutUInt32", "PutFloat64": "PutUInt64", "PutInt8": "PutUInt8", "PutByte": "PutUInt8", "PutBool": "PutUInt8", "PutInt": "PutUVarInt", "PutLen": "PutUVarInt", "PutInt128": "PutUInt128"} {
		fn := p.Method(core.PkgProto, "Buffer", put)
		key := "prim/" + put
		if fn == nil {
			c.R.Unk(rule, key, cfg, "", "missing")
			continue
		}
		if core.ReachesCallee(fn, func(f *types.Func) bool { return core.IsMethod(f, core.PkgProto, "Buffer", base) }, 0) {
			c.R.Ok(rule, key, cfg, p.Pos(fn.Pos()), "= "+base+" of the converted value").Trivial = true
		} else {
			c.R.Bad(rule, key, cfg, p.Pos(fn.Pos()), put+" is not built on "+base)
		}
	}
	for get, base := range map[string]string{"Int16": "UInt16", "Int32": "UInt32", "Int64": "UInt64", "Float32": "UInt32", "Float64": "UInt64", "Int8": "UInt8", "Byte": "UInt8", "Bool": "UInt8", "Int": "UVarInt", "StrLen": "Int", "Int128": "UInt128"} {
		fn := p.Method(core.PkgProto, "Reader", get)
		key := "prim/" + get
		if fn == nil {
			c.R.Unk(rule, key, cfg, "", "missing")
			continue
		}
		if core.ReachesCallee(fn, func(f *types.Func) bool { return core.IsMethod(f, core.PkgProto, "Reader", base) }, 0) {
			c.R.Ok(rule, key, cfg, p.Pos(fn.Pos()), "= conversion of "+base).Trivial = true
		} else {
			c.R.Bad(rule, key, cfg, p.Pos(fn.Pos()), get+" is not built on "+base)
		}
	}
	// atom tables pair equal widths
	for put, a := range bufferAtoms {
		if p.Method(core.PkgProto, "Buffer", put) == nil {
			c.R.Unk(rule, "table/"+put, cfg, "", "atom table names a Buffer method that does not exist")
		}
		_ = a
	}
	for get := range readerAtoms {
		if p.Method(core.PkgProto, "Reader", get) == nil {
			c.R.Unk(rule, "table/"+get, cfg, "", "atom table names a Reader method that does not exist")
		}
	}
	// uvarint pair
	puv := p.Method(core.PkgProto, "Buffer", "PutUVarInt")
	guv := p.Method(core.PkgProto, "Reader", "UVarInt")
	// the encoder proper may be a package-local appender that PutUVarInt (and PutString) call
	var uvHelper *ssa.Function
	isPutUvarint := func(f *types.Func) bool {
		return core.IsFunc(f, "encoding/binary", "PutUvarint") || core.IsFunc(f, "encoding/binary", "AppendUvarint")
	}
	if puv != nil && !core.ReachesCallee(puv, isPutUvarint, 0) {
		for _, call := range core.Calls(puv) {
			cl, isC := call.(*ssa.Call)
			g := core.StaticFn(call)
			if !isC || g == nil || g.Blocks == nil || !core.ReachesCallee(g, isPutUvarint, 0) {
				continue
			}
			if _, ok := appendBaseOf(cl); !ok {
				continue
			}
			// the helper appends nothing but the uvarint bytes
			only := true
			for _, c2 := range core.Calls(g) {
				if bi, ok := c2.Common().Value.(*ssa.Builtin); ok && bi.Name() == "append" {
					if len(c2.Common().Args) < 2 || !isUvarintSlice(c2.Common().Args[1]) {
						only = false
					}
				}
			}
			// and PutUVarInt stores nothing else
			for _, b := range puv.Blocks {
				for _, in := range b.Instrs {
					if st, ok := in.(*ssa.Store); ok && isBufAddr(st.Addr) && st.Val != ssa.Value(cl) {
						only = false
					}
				}
			}
			if only {
				uvHelper = g
			}
		}
	}
	if puv != nil && guv != nil && uvHelper != nil &&
		core.ReachesCallee(guv, func(f *types.Func) bool { return core.IsFunc(f, "encoding/binary", "ReadUvarint") }, 0) {
		c.R.Ok(rule, "prim/UVarInt", cfg, p.Pos(puv.Pos()), "binary.PutUvarint through the appender "+uvHelper.Name()+" / binary.ReadUvarint, no other append")
	} else if puv != nil && guv != nil &&
		core.ReachesCallee(puv, func(f *types.Func) bool { return core.IsFunc(f, "encoding/binary", "PutUvarint") }, 0) &&
		core.ReachesCallee(guv, func(f *types.Func) bool { return core.IsFunc(f, "encoding/binary", "ReadUvarint") }, 0) {
		// and nothing else is ever appended by PutUVarInt (no hand-written fast path)
		extra := false
		for _, b := range puv.Blocks {
			for _, in := range b.Instrs {
				st, ok := in.(*ssa.Store)
				if !ok || !isBufAddr(st.Addr) {
					continue
				}
				ap, ok := st.Val.(*ssa.Call)
				if !ok || len(ap.Call.Args) < 2 || !isUvarintSlice(ap.Call.Args[1]) {
					extra = true
				}
			}
		}
		for _, call := range core.Calls(puv) {
			if f := core.CalleeFunc(call); f != nil && core.IsMethod(f, core.PkgProto, "Buffer", f.Name()) {
				// a plain appender of its argument (PutRaw) handed the PutUvarint slice is the same append
				if g := core.StaticFn(call); g != nil && isPlainAppender(g) && len(call.Common().Args) == 2 && isUvarintSlice(call.Common().Args[1]) {
					continue
				}
				extra = true
			}
		}
		if extra {
			c.R.Bad(rule, "prim/UVarInt", cfg, p.Pos(puv.Pos()), "PutUVarInt appends bytes that do not come from binary.PutUvarint (a hand-written fast path): its boundary must be shown to agree with ReadUvarint for every value")
		} else {
			c.R.Ok(rule, "prim/UVarInt", cfg, p.Pos(puv.Pos()), "binary.PutUvarint / binary.ReadUvarint (10-byte capable pair of the standard library), no other append")
		}
	} else {
		c.R.Bad(rule, "prim/UVarInt", cfg, "", "the uvarint pair is not encoding/binary's PutUvarint / ReadUvarint: the hand-written side must be shown to accept every 64-bit value the other side emits")
	}
	// string pair
	ps := p.Method(core.PkgProto, "Buffer", "PutString")
	sr := p.Method(core.PkgProto, "Reader", "StrRaw")
	if ps != nil && sr != nil &&
		core.ReachesCallee(ps, func(f *types.Func) bool {
			return core.IsMethod(f, core.PkgProto, "Buffer", "PutUVarInt") || uvHelper != nil && f == uvHelper.Object()
		}, 3) &&
		core.ReachesCallee(sr, func(f *types.Func) bool { return core.IsMethod(f, core.PkgProto, "Reader", "UVarInt") }, 3) &&
		core.ReachesCallee(sr, func(f *types.Func) bool { return core.IsFunc(f, "io", "ReadFull") }, 3) {
		c.R.Ok(rule, "prim/Str", cfg, p.Pos(ps.Pos()), "uvarint length + bytes / uvarint length + ReadFull")
	} else {
		c.R.Bad(rule, "prim/Str", cfg, "", "string primitives are not length-prefixed full reads")
	}
}

func callsLE(fn *ssa.Function, name string) bool {
	for _, call := range core.Calls(fn) {
		f := core.CalleeFunc(call)
		if f == nil || f.Name() != name || f.Pkg() == nil || f.Pkg().Path() != "encoding/binary" {
			continue
		}
		if n := core.RecvNamed(f); n != nil && n.Obj().Name() == "littleEndian" {
			return true
		}
	}
	return false
}

// allocBytes: constant length of the temporary byte array/slice a Put method creates.
func allocBytes(fn *ssa.Function) int64 {
	for _, b := range fn.Blocks {
		for _, in := range b.Instrs {
			switch x := in.(type) {
			case *ssa.MakeSlice:
				if n, ok := core.ConstInt(x.Len); ok {
					return n
				}
			case *ssa.Alloc:
				if at, ok := x.Type().(*types.Pointer).Elem().Underlying().(*types.Array); ok {
					return at.Len()
				}
			}
		}
	}
	return -1
}

func readFullConst(fn *ssa.Function) int64 {
	for _, call := range core.Calls(fn) {
		f := core.CalleeFunc(call)
		if f != nil && core.IsMethod(f, core.PkgProto, "Reader", "readFull") {
			if n, ok := core.ConstInt(call.Common().Args[1]); ok {
				return n
			}
		}
	}
	return -1
}

// paramFedByParam: every static call of helper inside the functions reachable
// from root passes one of the caller's own parameters for pr.
func paramFedByParam(root, helper *ssa.Function, pr *ssa.Parameter) bool {
	idx := -1
	for i, q := range helper.Params {
		if q == pr {
			idx = i
		}
	}
	if idx < 0 {
		return false
	}
	n := 0
	for fn := range core.StaticReach(root, 2) {
		for _, call := range core.Calls(fn) {
			if core.StaticFn(call) != helper {
				continue
			}
			n++
			args := call.Common().Args
			if idx >= len(args) {
				return false
			}
			if _, ok := args[idx].(*ssa.Parameter); !ok {
				return false
			}
		}
	}
	return n > 0
}

func labelsOf(a *nfa) map[string]bool {
	out := map[string]bool{}
	for _, m := range a.tr {
		for l := range m {
			out[l] = true
		}
	}
	return out
}

// project relabels every transition whose label is not kept as the wildcard "*".
func project(a *nfa, keep map[string]bool) {
	for s, m := range a.tr {
		for l, ts := range m {
			if keep[l] {
				continue
			}
			for _, t := range ts {
				a.addTr(s, "*", t)
			}
			delete(m, l)
		}
	}
}

// addWildcards lets the decoder read any labelled field where the encoder
// wrote a value that comes from no field (constants, terminators).
func addWildcards(a *nfa) {
	for s, m := range a.tr {
		for l, ts := range m {
			if l == "*" {
				continue
			}
			for _, t := range ts {
				a.addTr(s, "*", t)
			}
		}
	}
}

// ruleGates: provenance of the revision operand of every Feature.In in the message codecs.
func ruleGates(c *Ctx, p *core.Program, pairs []msgPair, rule string) {
	cfg := p.Cfg.Name
	c.R.Rule(rule, "provenance of gates: in every message encoder/decoder (and the library helpers they call statically), the revision operand of every Feature.In is the function's own revision parameter - never a value taken from the message being decoded (such as the peer's advertised revision) or a constant")
	nG := 0
	for _, mp := range pairs {
		for _, root := range []*ssa.Function{mp.enc, mp.dec} {
			for fn := range core.StaticReach(root, 2) {
				if !core.IsLib(pkgOf(fn)) || pkgOf(fn).Path() != core.PkgProto {
					continue
				}
				for _, call := range core.FindCalls(fn, isFeatureIn) {
					nG++
					arg := call.Common().Args[1]
					key := "gate/" + mp.name + "/" + core.CallKey(fn, call)
					if _, ok := arg.(*ssa.Parameter); ok && (fn == root || paramFedByParam(root, fn, arg.(*ssa.Parameter))) {
						c.R.Ok(rule, key, cfg, p.Pos(call.Pos()), "gated on the revision parameter")
					} else {
						c.R.Bad(rule, key, cfg, p.Pos(call.Pos()), "gate is evaluated on "+orDash(core.FieldOrigin(arg, 0), arg)+" instead of the negotiated revision parameter: encoder and decoder disagree whenever that value and the negotiated revision lie on different sides of the threshold")
					}
				}
			}
		}
	}
	c.R.Count("gates in message codecs", nG)

}

// ruleBitFlags (C17.flags): bit-flag bytes are written and read with the same single-bit masks.
func ruleBitFlags(c *Ctx, p *core.Program, pairs []msgPair, rule string) {
	c.R.Rule(rule, "table extraction: for every message whose encoder builds a flags word by OR-ing constants under tests of boolean fields and whose decoder assigns boolean fields from `word & constant != 0`, the field -> mask tables of the two sides are equal, every mask has exactly one bit set and no two fields share a bit - otherwise a flag written alone reads back as a combination of others")
	cfg := p.Cfg.Name
	n := 0
	for _, mp := range pairs {
		enc, dec := map[string]int64{}, map[string]int64{}
		// the codec and the methods of the same type it calls (flags may be packed in a helper)
		family := func(root *ssa.Function) []*ssa.Function {
			out := []*ssa.Function{root}
			recvOf := func(f *ssa.Function) *types.Named {
				if o := fnObj(f); o != nil {
					return core.RecvNamed(o)
				}
				return nil
			}
			rn := recvOf(root)
			for g := range core.StaticReach(root, 2) {
				if gn := recvOf(g); g != root && g.Blocks != nil && rn != nil && gn != nil && gn.Obj() == rn.Obj() {
					out = append(out, g)
				}
			}
			return out
		}
		var encBlocks, decBlocks []*ssa.BasicBlock
		for _, f := range family(mp.enc) {
			encBlocks = append(encBlocks, f.Blocks...)
		}
		for _, f := range family(mp.dec) {
			decBlocks = append(decBlocks, f.Blocks...)
		}
		for _, b := range encBlocks {
			for _, in := range b.Instrs {
				bo, ok := in.(*ssa.BinOp)
				if !ok || bo.Op != token.OR {
					continue
				}
				k, okc := core.ConstInt(bo.Y)
				if !okc {
					continue
				}
				// the field whose test guards this block
				for _, pred := range b.Preds {
					ifi, ok := pred.Instrs[len(pred.Instrs)-1].(*ssa.If)
					if !ok || pred.Succs[0] != b {
						continue
					}
					if f := accessPath(ifi.Cond, 0); strings.HasPrefix(f, "recv.") {
						enc[strings.TrimPrefix(f, "recv.")] = k
					}
				}
			}
		}
		for _, b := range decBlocks {
			for _, in := range b.Instrs {
				st, ok := in.(*ssa.Store)
				if !ok {
					continue
				}
				ne, ok := st.Val.(*ssa.BinOp)
				if !ok || ne.Op != token.NEQ {
					continue
				}
				and, ok := ne.X.(*ssa.BinOp)
				if !ok || and.Op != token.AND {
					continue
				}
				k, okc := core.ConstInt(and.Y)
				if z, okz := core.ConstInt(ne.Y); !okc || !okz || z != 0 {
					continue
				}
				if f := accessPath(st.Addr, 0); strings.HasPrefix(f, "recv.") {
					dec[strings.TrimPrefix(f, "recv.")] = k
				}
			}
		}
		if len(enc) == 0 && len(dec) == 0 {
			continue
		}
		n++
		key := "flags/" + mp.name
		var probs []string
		used := map[int64]string{}
		var names []string
		for f := range enc {
			names = append(names, f)
		}
		for f := range dec {
			if _, ok := enc[f]; !ok {
				names = append(names, f)
			}
		}
		sort.Strings(names)
		for _, f := range names {
			e, okE := enc[f]
			d, okD := dec[f]
			switch {
			case !okE || !okD:
				probs = append(probs, sprintf("%s has a mask on one side only", f))
			case e != d:
				probs = append(probs, sprintf("%s written with %#x, read with %#x", f, e, d))
			case e <= 0 || e&(e-1) != 0:
				probs = append(probs, sprintf("mask of %s (%#x) is not a single bit", f, e))
			case used[e] != "":
				probs = append(probs, sprintf("%s and %s share mask %#x", used[e], f, e))
			}
			if okE {
				used[e] = f
			}
		}
		if len(probs) > 0 {
			c.R.Bad(rule, key, cfg, p.Pos(mp.enc.Pos()), strings.Join(probs, "; "))
		} else {
			c.R.Ok(rule, key, cfg, p.Pos(mp.enc.Pos()), sprintf("%d single-bit masks, same on both sides", len(names)))
		}
	}
	c.R.Floor(rule, cfg, n, 1)
}

// protocolDefines: revision at which each feature appears (ClickHouse src/Core/ProtocolDefines.h,
// the source cited in proto/feature.go).
var protocolDefines = map[string]int64{
	"FeatureTempTables":                  50264,
	"FeatureBlockInfo":                   51903,
	"FeatureTimezone":                    54058,
	"FeatureQuotaKeyInClientInfo":        54060,
	"FeatureDisplayName":                 54372,
	"FeatureVersionPatch":                54401,
	"FeatureServerLogs":                  54406,
	"FeatureColumnDefaultsMetadata":      54410,
	"FeatureClientWriteInfo":             54420,
	"FeatureSettingsSerializedAsStrings": 54429,
	"FeatureInterServerSecret":           54441,
	"FeatureOpenTelemetry":               54442,
	"FeatureXForwardedForInClientInfo":   54443,
	"FeatureRefererInClientInfo":         54447,
	"FeatureDistributedDepth":            54448,
	"FeatureQueryStartTime":              54449,
	"FeatureProfileEvents":               54451,
	"FeatureParallelReplicas":            54453,
	"FeatureCustomSerialization":         54454,
	"FeatureQuotaKey":                    54458,
	"FeatureAddendum":                    54458,
	"FeatureParameters":                  54459,
	"FeatureServerQueryTimeInProgress":   54460,
}

// ruleThresholds: the feature table is the protocol's, and In is `revision >= threshold`.
func ruleThresholds(c *Ctx, p *core.Program, rule string) {
	c.R.Rule(rule, "table comparison: every proto.Feature constant named in ClickHouse's ProtocolDefines.h has the revision defined there (a field gated one revision early or late is present in one direction of a mixed-version connection and absent in the other, although this library's own encoder and decoder still agree with each other); Feature.In folds to `false, true, true` at threshold-1, threshold, threshold+1")
	cfg := p.Cfg.Name
	n := 0
	names := make([]string, 0, len(protocolDefines))
	for k := range protocolDefines {
		names = append(names, k)
	}
	sort.Strings(names)
	for _, nm := range names {
		got, ok := constOf(p, core.PkgProto, nm)
		if !ok {
			continue // a feature the library no longer names is not this rule's business
		}
		n++
		if got == protocolDefines[nm] {
			c.R.Ok(rule, nm, cfg, "proto/feature.go", sprintf("= %d", got))
		} else {
			c.R.Bad(rule, nm, cfg, "proto/feature.go", sprintf("%s = %d, the protocol defines it at revision %d: fields gated on it are written / expected for revisions where the peer does not have them", nm, got, protocolDefines[nm]))
		}
	}
	c.R.Floor(rule, cfg, n, 20)
	in := p.Method(core.PkgProto, "Feature", "In")
	if !c.must(p, "proto.Feature.In", in != nil) {
		return
	}
	const k = 54459
	var got []int64
	for _, v := range []int64{k - 1, k, k + 1} {
		r, ok := core.FoldFunc(in, nil, map[int]int64{0: k, 1: v})
		if !ok {
			c.R.Unk(rule, "Feature.In", cfg, p.Pos(in.Pos()), "Feature.In is not a foldable comparison of the revision with the threshold")
			return
		}
		got = append(got, r)
	}
	if got[0] == 0 && got[1] == 1 && got[2] == 1 {
		c.R.Ok(rule, "Feature.In", cfg, p.Pos(in.Pos()), "In(v) = v >= threshold")
	} else {
		c.R.Bad(rule, "Feature.In", cfg, p.Pos(in.Pos()), sprintf("Feature.In at threshold-1, threshold, threshold+1 = %v, want [0 1 1]: every gated field appears one revision off", got))
	}
}

// ruleFreshTargets (C17.fresh): a decode target used in a loop is a new zero value each round.
func ruleFreshTargets(c *Ctx, p *core.Program, rule string) {
	c.R.Rule(rule, "in the library's decode loops (proto, ch) a local struct that receives a Decode / DecodeAware / Infer / DecodeColumn / DecodeState call inside a loop is declared inside that loop (a fresh zero value per iteration): element decoders may return early without touching their receiver (Setting.Decode on the empty terminator key), so a target declared outside the loop keeps the previous element's fields and the end-of-list test never fires")
	cfg := p.Cfg.Name
	n := 0
	for _, fn := range p.Funcs() {
		if pkgOf(fn) == nil || (pkgOf(fn).Path() != core.PkgProto && pkgOf(fn).Path() != core.PkgCh) {
			continue
		}
		k := 0
		for _, call := range core.Calls(fn) {
			f := core.CalleeFunc(call)
			if f == nil || !core.InLoop(call.(ssa.Instruction)) {
				continue
			}
			switch f.Name() {
			case "Decode", "DecodeAware", "Infer", "DecodeColumn", "DecodeState":
			default:
				continue
			}
			args := call.Common().Args
			var recv ssa.Value
			if call.Common().IsInvoke() {
				recv = call.Common().Value
			} else if len(args) > 0 {
				recv = args[0]
			}
			if mi, ok := recv.(*ssa.MakeInterface); ok {
				recv = mi.X
			}
			al, ok := recv.(*ssa.Alloc)
			if !ok {
				continue
			}
			if _, isStruct := al.Type().(*types.Pointer).Elem().Underlying().(*types.Struct); !isStruct {
				continue
			}
			n++
			k++
			key := sprintf("%s/target#%d", core.FuncName(fn), k)
			h := core.LoopHeader(call.(ssa.Instruction))
			if h != nil && core.LoopHeader(al) == h || h != nil && h.Dominates(al.Block()) && core.InLoop(al) {
				c.R.Ok(rule, key, cfg, p.Pos(al.Pos()), "target declared inside the loop")
				continue
			}
			// declared outside: accepted when the loop stores a zero value into it before the call
			zeroed := false
			for _, r := range *al.Referrers() {
				if st, ok := r.(*ssa.Store); ok && st.Addr == ssa.Value(al) && core.InLoop(st) {
					if cst, ok := st.Val.(*ssa.Const); ok && cst.Value == nil && core.Dominates(st, call.(ssa.Instruction)) {
						zeroed = true
					}
				}
			}
			// hazard only if the element decoder can succeed without writing its receiver
			untouched := true
			if g := core.StaticFn(call); g != nil && g.Blocks != nil && len(g.Params) > 0 {
				rp := g.Params[0]
				// the fields of the target that the loop reads: each must be written by the
				// decoder on every success path
				fields := map[int]bool{}
				for _, r := range *al.Referrers() {
					if fa, ok := r.(*ssa.FieldAddr); ok && core.InLoop(fa) {
						for _, r2 := range *fa.Referrers() {
							if u, ok := r2.(*ssa.UnOp); ok && u.Op == token.MUL {
								fields[fa.Field] = true
							}
						}
					}
				}
				untouched = false
				if len(fields) == 0 {
					fields[-1] = true // whole value used (copied / appended): any field counts
				}
				for fidx := range fields {
					fidx := fidx
					hits := core.ReachAvoiding(core.Entry(g), func(x ssa.Instruction) bool {
						ret, ok := x.(*ssa.Return)
						return ok && x.Block().Comment != "recover" && defaultSuccess(g, ret)
					}, func(x ssa.Instruction) bool {
						st, ok := x.(*ssa.Store)
						if !ok {
							return false
						}
						if st.Addr == ssa.Value(rp) {
							return true
						}
						fa, ok := st.Addr.(*ssa.FieldAddr)
						return ok && fa.X == ssa.Value(rp) && (fidx < 0 || fa.Field == fidx)
					}, nil)
					if len(hits) > 0 {
						untouched = true
					}
				}
			}
			if zeroed {
				c.R.Ok(rule, key, cfg, p.Pos(al.Pos()), "target zeroed at the top of each iteration")
			} else if !untouched {
				c.R.Ok(rule, key, cfg, p.Pos(al.Pos()), "target declared outside the loop, but its decoder writes every field the loop reads on every success path")
			} else {
				c.R.Bad(rule, key, cfg, p.Pos(al.Pos()), "the decode target "+al.Comment+" is declared outside the loop that decodes into it: fields an element decoder leaves untouched (early return on a terminator) keep the previous element's values, so the list never terminates / the last element repeats")
			}
		}
	}
	c.R.Floor(rule, cfg, n, 2)
}

// ruleLossyDecode (C17.lossy): message decoders keep what they read.
func ruleLossyDecode(c *Ctx, p *core.Program, pairs []msgPair, rule string) {
	c.R.Rule(rule, "in the message decoders, a value read from the wire is not narrowed by a constant bit mask before it is stored (v & K kept as a value; a mask used only in a comparison - flag extraction - is fine): the encoder writes the whole value, so masked-out bits do not survive decode(encode(x))")
	cfg := p.Cfg.Name
	rd := readerClass(p)
	n := 0
	for _, mp := range pairs {
		fns := []*ssa.Function{mp.dec}
		bad := false
		for _, fn := range fns {
			for _, b := range fn.Blocks {
				for _, in := range b.Instrs {
					and, ok := in.(*ssa.BinOp)
					if !ok || and.Op != token.AND {
						continue
					}
					var k ssa.Value = and.Y
					v := and.X
					if _, isC := k.(*ssa.Const); !isC {
						k, v = and.X, and.Y
					}
					if _, isC := k.(*ssa.Const); !isC {
						continue
					}
					fromWire := core.DependsOn(v, func(x ssa.Value) bool {
						cl, ok := x.(*ssa.Call)
						return ok && rd(fn, cl)
					}, false)
					if !fromWire || and.Referrers() == nil {
						continue
					}
					n++
					onlyCompared := true
					for _, r := range *and.Referrers() {
						if bo, ok := r.(*ssa.BinOp); ok && (bo.Op == token.EQL || bo.Op == token.NEQ) {
							continue
						}
						if _, isDbg := r.(*ssa.DebugRef); isDbg {
							continue
						}
						onlyCompared = false
					}
					if !onlyCompared {
						bad = true
						c.R.Bad(rule, "lossy/"+mp.name, cfg, p.Pos(and.Pos()), "a value read from the wire is masked with a constant and the result kept: bits outside the mask that the encoder wrote are dropped, so the decoded message differs from the encoded one")
					}
				}
			}
		}
		if !bad {
			c.R.Ok(rule, "lossy/"+mp.name, cfg, p.Pos(mp.dec.Pos()), "no masked value kept").Trivial = true
		}
	}
	c.R.Count("masks of wire values in message decoders", n)
}

// ---- C17.limits: sibling agreement of row-count limits
// limitsOfParam: constant upper bounds a validator applies to its i-th parameter
// (directly, against another parameter that is constant at the call, or through
// a callee), given the call's arguments.
func limitsOfParam(g *ssa.Function, i int, args []ssa.Value, depth int) []int64 {
	if g == nil || g.Blocks == nil || i >= len(g.Params) || depth > 3 {
		return nil
	}
	var out []int64
	argConst := func(v ssa.Value) (int64, bool) {
		if k, ok := core.ConstInt(stripConv(v)); ok {
			return k, true
		}
		if pr, ok := stripConv(v).(*ssa.Parameter); ok {
			for j, q := range g.Params {
				if q == pr && j < len(args) {
					return core.ConstInt(stripConv(args[j]))
				}
			}
		}
		return 0, false
	}
	isP := func(v ssa.Value) bool { return stripConv(v) == ssa.Value(g.Params[i]) }
	for _, b := range g.Blocks {
		for _, in := range b.Instrs {
			switch x := in.(type) {
			case *ssa.If:
				bo, ok := x.Cond.(*ssa.BinOp)
				if !ok {
					continue
				}
				switch {
				case (bo.Op == token.GTR || bo.Op == token.GEQ) && isP(bo.X):
					if k, ok := argConst(bo.Y); ok {
						out = append(out, k)
					}
				case (bo.Op == token.LSS || bo.Op == token.LEQ) && isP(bo.Y):
					if k, ok := argConst(bo.X); ok {
						out = append(out, k)
					}
				}
			case *ssa.Call:
				h := core.StaticFn(x)
				if h == nil || pkgOf(h) == nil || pkgOf(h).Path() != core.PkgProto {
					continue
				}
				for k, a := range x.Call.Args {
					if isP(a) {
						// substitute what is known about g's parameters into the inner call
						sub := make([]ssa.Value, len(x.Call.Args))
						for m, aa := range x.Call.Args {
							sub[m] = aa
							if pr, ok := stripConv(aa).(*ssa.Parameter); ok {
								for j, q := range g.Params {
									if q == pr && j < len(args) {
										sub[m] = args[j]
									}
								}
							}
						}
						out = append(out, limitsOfParam(h, k, sub, depth+1)...)
					}
				}
			}
		}
	}
	return out
}

// upperLimits: constant upper bounds under which v is accepted on the way to `at` in fn.
func upperLimits(fn *ssa.Function, v ssa.Value, at ssa.Instruction) []int64 {
	same := func(x ssa.Value) bool { return stripConv(x) == stripConv(v) }
	var out []int64
	for _, b := range fn.Blocks {
		for _, in := range b.Instrs {
			switch x := in.(type) {
			case *ssa.If:
				bo, ok := x.Cond.(*ssa.BinOp)
				if !ok {
					continue
				}
				if (bo.Op == token.GTR || bo.Op == token.GEQ) && same(bo.X) {
					if k, ok := core.ConstInt(bo.Y); ok && b.Dominates(at.Block()) {
						out = append(out, k)
					}
				}
			case *ssa.Call:
				g := core.StaticFn(x)
				if g == nil || pkgOf(g) == nil || pkgOf(g).Path() != core.PkgProto || !x.Block().Dominates(at.Block()) {
					continue
				}
				if _, hasErr := core.ReturnsError(g.Signature); !hasErr {
					continue
				}
				for i, a := range x.Call.Args {
					if same(a) {
						out = append(out, limitsOfParam(g, i, x.Call.Args, 0)...)
					}
				}
			}
		}
	}
	return out
}

func ruleLimitSiblings(c *Ctx, p *core.Program, rule string) {
	c.R.Rule(rule, "sibling validators agree on what a row count may be: the constant upper bound under which DecodeRawBlock accepts a block's row count is not lower than the bound under which the column decoders accept a nested row count (the argument they hand to an inner DecodeColumn) - the same quantity, a column's row count, is otherwise accepted inside an Array but rejected at the top level, so a block the encoder emits and a nested decoder would take is refused on decode")
	cfg := p.Cfg.Name
	rb := p.Method(core.PkgProto, "Block", "DecodeRawBlock")
	if !c.must(p, "Block.DecodeRawBlock", rb != nil) {
		return
	}
	var blockLim []int64
	var at ssa.Instruction
	for _, b := range rb.Blocks {
		for _, in := range b.Instrs {
			s, ok := in.(*ssa.Store)
			if !ok {
				continue
			}
			fa, ok := s.Addr.(*ssa.FieldAddr)
			if !ok || !core.IsNamed(fa.X.Type(), core.PkgProto, "Block") || fieldNameOnly(fa.X.Type(), fa.Field) != "Rows" {
				continue
			}
			at = s
			blockLim = append(blockLim, upperLimits(rb, s.Val, s)...)
		}
	}
	var nested []int64
	nSites := 0
	for _, fn := range p.Funcs() {
		if pkgOf(fn) == nil || pkgOf(fn).Path() != core.PkgProto || fn == rb {
			continue
		}
		for _, call := range core.FindCalls(fn, isColMethod("DecodeColumn")) {
			args := call.Common().Args
			rows := args[len(args)-1]
			if _, isParam := stripConv(rows).(*ssa.Parameter); isParam {
				continue
			}
			l := upperLimits(fn, rows, call.(ssa.Instruction))
			if len(l) > 0 {
				nSites++
				nested = append(nested, l...)
			}
		}
	}
	if at == nil || len(blockLim) == 0 || len(nested) == 0 {
		c.R.Unk(rule, "Block.Rows", cfg, p.Pos(rb.Pos()), sprintf("limits not resolved (block %v, nested %v)", blockLim, nested))
		return
	}
	minB, maxN := blockLim[0], nested[0]
	for _, k := range blockLim {
		if k < minB {
			minB = k
		}
	}
	for _, k := range nested {
		if k > maxN {
			maxN = k
		}
	}
	if minB >= maxN {
		c.R.Ok(rule, "Block.Rows", cfg, p.Pos(at.Pos()), sprintf("block rows accepted up to %d, nested counts up to %d (%d sites)", minB, maxN, nSites))
	} else {
		c.R.Bad(rule, "Block.Rows", cfg, p.Pos(at.Pos()), sprintf("a block's row count is accepted only up to %d while nested row counts are accepted up to %d: a block the encoder writes (and whose size every nested decoder accepts) is rejected by the block header check", minB, maxN))
	}
}

// isPlainAppender: a Buffer method whose only effect is Buf = append(Buf, param...).
func isPlainAppender(g *ssa.Function) bool {
	if g.Blocks == nil || len(g.Params) != 2 {
		return false
	}
	n := 0
	for _, b := range g.Blocks {
		for _, in := range b.Instrs {
			switch x := in.(type) {
			case *ssa.Store:
				if !isBufAddr(x.Addr) {
					return false
				}
				ap, ok := x.Val.(*ssa.Call)
				if !ok {
					return false
				}
				bi, ok := ap.Call.Value.(*ssa.Builtin)
				if !ok || bi.Name() != "append" || len(ap.Call.Args) != 2 || ap.Call.Args[1] != ssa.Value(g.Params[1]) {
					return false
				}
				n++
			case *ssa.Call:
				if _, ok := x.Call.Value.(*ssa.Builtin); !ok {
					return false
				}
			}
		}
	}
	return n == 1
}

// ---- C17.invented: a decoder fills fields only from what it read
func ruleNoInventedFields(c *Ctx, p *core.Program, pairs []msgPair, rule string) {
	c.R.Rule(rule, "decode(encode(m)) = m needs every field the decoder sets to come from the bytes: in the message decoders, no store to a field of the receiver takes its value from another field of the receiver - `else { c.Patch = c.ProtocolVersion }` for revisions that do not carry the field makes the decoded message differ from the encoded one in a field the encoding never had, and a relay re-encodes the invented value")
	cfg := p.Cfg.Name
	n := 0
	for _, mp := range pairs {
		dec := mp.dec
		if dec == nil || dec.Blocks == nil || len(dec.Params) == 0 {
			continue
		}
		recv := dec.Params[0]
		n++
		key := "decoder/" + mp.name
		var bad *ssa.Store
		for _, b := range dec.Blocks {
			for _, in := range b.Instrs {
				st, ok := in.(*ssa.Store)
				if !ok {
					continue
				}
				fa, ok := st.Addr.(*ssa.FieldAddr)
				if !ok || fa.X != ssa.Value(recv) {
					continue
				}
				dst := fa.Field
				if core.DependsOn(st.Val, func(v ssa.Value) bool {
					u, ok := v.(*ssa.UnOp)
					if !ok || u.Op != token.MUL {
						return false
					}
					sfa, ok := u.X.(*ssa.FieldAddr)
					return ok && sfa.X == ssa.Value(recv) && sfa.Field != dst
				}, false) {
					bad = st
				}
			}
		}
		if bad != nil {
			c.R.Bad(rule, key, cfg, p.Pos(bad.Pos()), "the decoder sets a field of the message from another field of the message instead of from the wire: at the revisions where this happens the decoded message is not the encoded one")
		} else {
			c.R.Ok(rule, key, cfg, p.Pos(dec.Pos()), "fields are set from reads and constants only")
		}
	}
	c.R.Floor(rule, cfg, n, 9)
}

// ruleStrLenUncapped (C01 / C17): the string length reader does not refuse what every encoder writes.
func ruleStrLenUncapped(c *Ctx, p *core.Program, rule string) {
	c.R.Rule(rule, "Reader.StrLen, through which every string and every String row is read, puts no constant upper bound below 2^31-1 on the length it returns: the encoders (PutString, ColStr.EncodeColumn) cannot refuse a value, so a bound borrowed from the row-count validator (100,000,000) makes a block with one longer String value encodable but undecodable")
	cfg := p.Cfg.Name
	fn := p.Method(core.PkgProto, "Reader", "StrLen")
	if !c.must(p, "Reader.StrLen", fn != nil) {
		return
	}
	key := core.FuncName(fn)
	n := 0
	for _, b := range fn.Blocks {
		for _, in := range b.Instrs {
			r, ok := in.(*ssa.Return)
			if !ok || len(r.Results) != 2 {
				continue
			}
			if k, isC := core.ConstInt(r.Results[0]); isC && k == 0 {
				continue // failure exits
			}
			n++
			lims := upperLimits(fn, r.Results[0], r)
			bad := false
			for _, k := range lims {
				if k < 1<<31-1 {
					bad = true
					c.R.Bad(rule, key, cfg, p.Pos(r.Pos()), sprintf("string lengths above %d are rejected on decode although the encoders write them", k))
				}
			}
			if !bad {
				c.R.Ok(rule, key, cfg, p.Pos(r.Pos()), "no constant upper bound on the returned length")
			}
		}
	}
	if n == 0 {
		c.R.Unk(rule, key, cfg, p.Pos(fn.Pos()), "no success return found")
	}
}

// ruleLostReceiverWrite (C17 / C19): a method that fills its receiver has a pointer receiver.
func ruleLostReceiverWrite(c *Ctx, p *core.Program, rule string) {
	c.R.Rule(rule, "in packages proto and ch, a method with a value receiver does not store into a field of that receiver unless the modified copy is used as a whole afterwards (returned, assigned, passed on): a DecodeAware or Infer that lost the `*` of its receiver still reads the bytes and validates the type, but fills a copy - the caller's struct keeps its zero value (table name empty, interval scale Second) and the call reports success")
	cfg := p.Cfg.Name
	n, nm := 0, 0
	for _, fn := range p.Funcs() {
		if pkgOf(fn) == nil || (pkgOf(fn).Path() != core.PkgProto && pkgOf(fn).Path() != core.PkgCh) || fn.Blocks == nil || fn.Signature.Recv() == nil || len(fn.Params) == 0 {
			continue
		}
		if fn.Synthetic != "" {
			continue
		}
		rt := fn.Signature.Recv().Type()
		if _, isPtr := rt.Underlying().(*types.Pointer); isPtr {
			continue
		}
		if _, isStruct := rt.Underlying().(*types.Struct); !isStruct {
			continue
		}
		nm++
		// the spill slot of the receiver
		var slot *ssa.Alloc
		for _, r := range *fn.Params[0].Referrers() {
			if st, ok := r.(*ssa.Store); ok && st.Val == ssa.Value(fn.Params[0]) {
				if al, ok := st.Addr.(*ssa.Alloc); ok {
					slot = al
				}
			}
		}
		if slot == nil {
			continue
		}
		var stores []*ssa.Store
		wholeUse := false
		for _, r := range *slot.Referrers() {
			switch x := r.(type) {
			case *ssa.FieldAddr:
				for _, r2 := range *x.Referrers() {
					if st, ok := r2.(*ssa.Store); ok && st.Addr == ssa.Value(x) {
						stores = append(stores, st)
					}
				}
			case *ssa.UnOp:
				if x.Op == token.MUL {
					wholeUse = true // the copy is read as a whole: returned or handed on
				}
			case *ssa.Store, *ssa.DebugRef:
			default:
				wholeUse = true // address escapes (method call with pointer receiver on the copy, closure)
			}
		}
		if len(stores) == 0 {
			continue
		}
		n++
		key := core.FuncName(fn)
		if wholeUse {
			c.R.Ok(rule, key, cfg, p.Pos(fn.Pos()), "the modified copy is used as a whole afterwards")
		} else {
			c.R.Bad(rule, key, cfg, p.Pos(stores[0].Pos()), sprintf("%s has a value receiver and stores into %d field(s) of it; the copy is dropped on return, the caller's value is never filled", fn.Name(), len(stores)))
		}
	}
	c.R.Count("value-receiver methods on structs["+cfg+"]", nm)
	c.R.Floor(rule, cfg, nm, 20)
}

// ruleHeaderEveryColumn (C17 / C02 / C14): a block writes the descriptor of every column, rows or not.
func ruleHeaderEveryColumn(c *Ctx, p *core.Program, rule string) {
	c.R.Rule(rule, "in the block encoders (Block.EncodeRawBlock, Block.WriteBlock) no iteration of the column loop returns to the loop header without having written the column's descriptor (InputColumn.EncodeStart, directly or in the closure handed to ChainBuffer): the `no rows, nothing to encode` shortcut belongs behind the descriptor - a header block (N columns, 0 rows) that announces N columns and describes none makes the decoder read the next packet as column names")
	cfg := p.Cfg.Name
	n := 0
	isStart := func(f *types.Func) bool { return core.IsMethod(f, core.PkgProto, "InputColumn", "EncodeStart") }
	for _, mn := range []string{"EncodeRawBlock", "WriteBlock"} {
		fn := p.Method(core.PkgProto, "Block", mn)
		if fn == nil || fn.Blocks == nil {
			c.R.Unk(rule, "Block."+mn, cfg, "", "method missing")
			continue
		}
		writes := func(in ssa.Instruction) bool {
			call, ok := in.(ssa.CallInstruction)
			if !ok {
				return false
			}
			if f := core.CalleeFunc(call); f != nil && isStart(f) {
				return true
			}
			for _, a := range call.Common().Args {
				if mc, ok := a.(*ssa.MakeClosure); ok {
					if cf, ok := mc.Fn.(*ssa.Function); ok && core.ReachesCallee(cf, isStart, 1) {
						return true
					}
				}
			}
			if sf := core.StaticFn(call); sf != nil && sf.Blocks != nil && pkgOf(sf) != nil && pkgOf(sf).Path() == core.PkgProto && sf != fn && core.ReachesCallee(sf, isStart, 1) {
				return true
			}
			return false
		}
		found := false
		for _, b := range fn.Blocks {
			for _, in := range b.Instrs {
				if !writes(in) || !core.InLoop(in) {
					continue
				}
				hdr := core.LoopHeader(in)
				if hdr == nil {
					continue
				}
				found = true
				n++
				key := "Block." + mn
				bad := false
				for _, sb := range hdr.Succs {
					if !hdr.Dominates(sb) || sb == hdr {
						continue
					}
					if len(core.ReachAvoiding(core.Point{B: sb, I: -1}, func(x ssa.Instruction) bool { return x.Block() == hdr }, nil, nil)) == 0 {
						continue
					}
					w := core.ReachAvoiding(core.Point{B: sb, I: -1}, func(x ssa.Instruction) bool { return x.Block() == hdr }, writes, nil)
					if len(w) > 0 {
						bad = true
						c.R.Bad(rule, key, cfg, p.Pos(in.Pos()), "an iteration of the column loop can go on to the next column without writing this column's descriptor: a block with zero rows announces its columns and describes none", p.TrailString(w[0])...)
						break
					}
				}
				if !bad {
					c.R.Ok(rule, key, cfg, p.Pos(in.Pos()), "every iteration writes the column descriptor")
				}
			}
		}
		if !found {
			c.R.Unk(rule, "Block."+mn, cfg, p.Pos(fn.Pos()), "no EncodeStart inside a loop found")
		}
	}
	c.R.Count("block encoder column loops", n)
}

// ruleVarintFastPath (C02 / C17): a one-byte shortcut for uvarints only covers values below 0x80.
func ruleVarintFastPath(c *Ctx, p *core.Program, rule string) {
	c.R.Rule(rule, "in every proto function that encodes a value with encoding/binary's uvarint routines (PutUvarint, AppendUvarint) and also has a branch that emits the same value as one byte (byte(x) appended or stored), that branch is reachable only where the value is below 0x80 (x < K with K <= 128, x <= K with K <= 127): 0x80 itself needs two bytes (80 01), a single 0x80 reads as the first byte of a longer varint and shifts everything behind it")
	cfg := p.Cfg.Name
	n := 0
	for _, fn := range p.Funcs() {
		if pkgOf(fn) == nil || pkgOf(fn).Path() != core.PkgProto || fn.Blocks == nil {
			continue
		}
		var xs []ssa.Value
		for _, call := range core.Calls(fn) {
			f := core.CalleeFunc(call)
			if f == nil || f.Pkg() == nil || f.Pkg().Path() != "encoding/binary" || !strings.HasSuffix(f.Name(), "Uvarint") || strings.HasPrefix(f.Name(), "Read") {
				continue
			}
			args := call.Common().Args
			xs = append(xs, stripConv(args[len(args)-1]))
		}
		if len(xs) == 0 {
			continue
		}
		n++
		isX := func(v ssa.Value) bool {
			v = stripConv(v)
			for _, x := range xs {
				if v == x {
					return true
				}
			}
			return false
		}
		bad := false
		nb := 0
		for _, b := range fn.Blocks {
			for _, in := range b.Instrs {
				cv, ok := in.(*ssa.Convert)
				if !ok || !isX(cv.X) {
					continue
				}
				bt, ok := cv.Type().Underlying().(*types.Basic)
				if !ok || bt.Kind() != types.Uint8 {
					continue
				}
				nb++
				small := core.CondEdges(fn, true, func(cond ssa.Value) (bool, bool) {
					bo, ok := cond.(*ssa.BinOp)
					if !ok || !isX(bo.X) {
						return false, false
					}
					k, okc := core.ConstInt(bo.Y)
					if !okc {
						if kc, isK := bo.Y.(*ssa.Const); isK && kc.Value != nil {
							if u, isU := constant.Uint64Val(kc.Value); isU && u < 1<<62 {
								k, okc = int64(u), true
							}
						}
					}
					if !okc {
						return false, false
					}
					switch bo.Op {
					case token.LSS:
						return true, k <= 128
					case token.LEQ:
						return true, k <= 127
					case token.GEQ:
						return false, k <= 128
					case token.GTR:
						return false, k <= 127
					}
					return false, false
				})
				if len(small) == 0 || !core.OnlyViaEdges(fn, cv, small) {
					bad = true
					c.R.Bad(rule, core.FuncName(fn), cfg, p.Pos(cv.Pos()), "the value is emitted as a single byte on a path where it can be 0x80 or more: the byte has the continuation bit set and the decoder reads on into what follows")
				}
			}
		}
		if !bad {
			c.R.Ok(rule, core.FuncName(fn), cfg, p.Pos(fn.Pos()), sprintf("uvarint encoder; %d one-byte branch(es), each below 0x80", nb))
		}
	}
	c.R.Count("uvarint encoders["+cfg+"]", n)
	c.R.Floor(rule, cfg, n, 1)
}

// ruleOpenCodes (C17 / C03): exception codes are an open set.
func ruleOpenCodes(c *Ctx, p *core.Program, rule string) {
	c.R.Rule(rule, "nothing reachable from Exception.DecodeAware or Client.exception tests an exception code for membership in the library's table of known codes (Error.IsAError, the generated name table): the table is a subset of the server's codes and every server release adds new ones, the encoder writes any int32 - a decoder that rejects unknown codes turns a server exception into a protocol error and leaves the rest of the packet unread")
	cfg := p.Cfg.Name
	roots := []*ssa.Function{p.Method(core.PkgProto, "Exception", "DecodeAware"), p.Method(core.PkgCh, "Client", "exception")}
	n := 0
	bad := false
	seen := map[*ssa.Function]bool{}
	for _, root := range roots {
		if root == nil {
			continue
		}
		for fn := range core.StaticReach(root, 2) {
			if fn.Blocks == nil || seen[fn] || pkgOf(fn) == nil || (pkgOf(fn).Path() != core.PkgProto && pkgOf(fn).Path() != core.PkgCh) {
				continue
			}
			seen[fn] = true
			n++
			for _, call := range core.Calls(fn) {
				if f := core.CalleeFunc(call); f != nil && core.IsMethod(f, core.PkgProto, "Error", "IsAError") {
					bad = true
					c.R.Bad(rule, core.CallKey(fn, call), cfg, p.Pos(call.Pos()), "an exception code is validated against the library's table of known codes while decoding: a code the table does not list (newer server) is refused")
				}
			}
		}
	}
	if !c.must(p, "Exception.DecodeAware / Client.exception", n > 0) {
		return
	}
	if !bad {
		c.R.Ok(rule, "exception-decoders", cfg, "", sprintf("%d functions on the exception decode path, none tests table membership", n))
	}
}

// ruleReadSizeUncapped (C15 / C17): the raw read primitive is not bounded by a row limit.
func ruleReadSizeUncapped(c *Ctx, p *core.Program, rule string) {
	c.R.Rule(rule, "Reader.readFull and Reader.ReadRaw put no constant upper bound below 2^31-1 on the byte count they are asked for: the pure-Go decoders fetch a whole column with ReadRaw(rows*size), so the row-count limit (100,000,000) applied to bytes refuses a 100 MB column that the default build decodes")
	cfg := p.Cfg.Name
	n := 0
	for _, name := range []string{"readFull", "ReadRaw"} {
		fn := p.Method(core.PkgProto, "Reader", name)
		if fn == nil || fn.Blocks == nil || len(fn.Params) < 2 {
			continue
		}
		size := fn.Params[1]
		var use ssa.Instruction
		for _, call := range core.Calls(fn) {
			for _, a := range call.Common().Args {
				if stripConv(a) == ssa.Value(size) && use == nil {
					use = call.(ssa.Instruction)
				}
			}
		}
		if use == nil {
			continue
		}
		n++
		key := core.FuncName(fn)
		lims := upperLimits(fn, size, use)
		bad := false
		for _, k := range lims {
			if k < 1<<31-1 {
				bad = true
				c.R.Bad(rule, key, cfg, p.Pos(use.Pos()), sprintf("read sizes above %d bytes are refused", k))
			}
		}
		if !bad {
			c.R.Ok(rule, key, cfg, p.Pos(use.Pos()), "no constant upper bound on the requested size")
		}
	}
	c.R.Count("raw read primitives", n)
	c.R.Floor(rule, cfg, n, 1)
}

// ruleGateCompare (C17 / C02): a hand-written feature gate includes the threshold revision.
func ruleGateCompare(c *Ctx, p *core.Program, rule string) {
	c.R.Rule(rule, "wherever package proto or ch compares a revision with the threshold of a feature directly (the result of Feature.Version(), or a Feature constant converted to int) instead of calling Feature.In, the comparison includes the threshold: `v >= F` / `v < F`, never `v > F` / `v <= F` - Feature.In is `>=`, and a path that gates one field with `>` skips it at exactly the threshold revision while its sibling paths and the encoder write it")
	cfg := p.Cfg.Name
	isThreshold := func(v ssa.Value) bool {
		v = stripConv(v)
		if core.IsNamed(v.Type(), core.PkgProto, "Feature") {
			return true // a Feature value compared as an integer (int(f) <= v)
		}
		if cl, ok := v.(*ssa.Call); ok {
			if f := core.CalleeFunc(cl); f != nil && core.IsMethod(f, core.PkgProto, "Feature", "Version") {
				return true
			}
		}
		if cv, ok := v.(*ssa.Convert); ok && core.IsNamed(cv.X.Type(), core.PkgProto, "Feature") {
			return true
		}
		if k, ok := v.(*ssa.Const); ok && core.IsNamed(k.Type(), core.PkgProto, "Feature") {
			return true
		}
		return false
	}
	n := 0
	bad := false
	for _, fn := range p.Funcs() {
		if pkgOf(fn) == nil || (pkgOf(fn).Path() != core.PkgProto && pkgOf(fn).Path() != core.PkgCh) || fn.Blocks == nil {
			continue
		}
		for _, b := range fn.Blocks {
			for _, in := range b.Instrs {
				bo, ok := in.(*ssa.BinOp)
				if !ok {
					continue
				}
				op := bo.Op
				var other ssa.Value
				switch {
				case isThreshold(bo.Y):
					other = bo.X
				case isThreshold(bo.X):
					other = bo.Y
					switch op {
					case token.LSS:
						op = token.GTR
					case token.GTR:
						op = token.LSS
					case token.LEQ:
						op = token.GEQ
					case token.GEQ:
						op = token.LEQ
					}
				default:
					continue
				}
				if isThreshold(other) {
					continue
				}
				switch op {
				case token.GEQ, token.LSS:
					n++
				case token.GTR, token.LEQ:
					n++
					bad = true
					c.R.Bad(rule, core.FuncName(fn)+sprintf("/gate#%d", n), cfg, p.Pos(bo.Pos()), "a revision is compared with a feature threshold excluding the threshold itself: at exactly that revision this path disagrees with Feature.In")
				}
			}
		}
	}
	if !bad {
		c.R.Ok(rule, "gates", cfg, "", sprintf("%d direct comparisons with feature thresholds, all inclusive", n))
	}
	c.R.Count("direct comparisons with feature thresholds", n)
	c.R.Floor(rule, cfg, n, 1)
}

// ruleEncodeVerbatim (C17): an encoder writes its fields, not a clamped version of them.
func ruleEncodeVerbatim(c *Ctx, p *core.Program, rule string) {
	c.R.Rule(rule, "in the Encode / EncodeAware methods of the protocol messages of package proto no value handed to a Buffer.Put* call is the result of the builtin min or max over a field of the message: a saturating clamp in the encoder (never announce more than the library's own revision) makes decode(encode(x)) differ from x for every value beyond the bound and lets the two ends of a connection gate later packets on different revisions")
	cfg := p.Cfg.Name
	n := 0
	bad := false
	for _, fn := range p.Funcs() {
		if pkgOf(fn) == nil || pkgOf(fn).Path() != core.PkgProto || fn.Blocks == nil || (fn.Name() != "Encode" && fn.Name() != "EncodeAware") || fn.Signature.Recv() == nil {
			continue
		}
		n++
		for _, call := range core.Calls(fn) {
			f := core.CalleeFunc(call)
			if f == nil || !core.IsMethod(f, core.PkgProto, "Buffer", f.Name()) || !strings.HasPrefix(f.Name(), "Put") {
				continue
			}
			for _, a := range call.Common().Args[1:] {
				clamped := core.DependsOn(a, func(x ssa.Value) bool {
					cl, ok := x.(*ssa.Call)
					if !ok {
						return false
					}
					bi, ok := cl.Call.Value.(*ssa.Builtin)
					return ok && (bi.Name() == "min" || bi.Name() == "max")
				}, false)
				if clamped {
					bad = true
					c.R.Bad(rule, core.CallKey(fn, call), cfg, p.Pos(call.Pos()), "the value written is min/max of a field and a bound: values beyond the bound are not what the decoder gives back")
				}
			}
		}
	}
	if !bad {
		c.R.Ok(rule, "encoders", cfg, "", sprintf("%d message encoders, none clamps a field", n))
	}
	c.R.Count("message encoders", n)
	c.R.Floor(rule, cfg, n, 10)
}
