package props

import (
	"golang.org/x/tools/go/ssa"

	"chverif/core"
)

func init() { register("C07", runC07) }

// isDoReceiverPacket: the call of Client.packet inside a closure of Client.Do
// (the receive loop) - its timeout retry is property C08's subject.
func isDoReceiverPacket(fn *ssa.Function, c ssa.CallInstruction) string {
	callee := core.CalleeFunc(c)
	if callee == nil || !core.IsMethod(callee, core.PkgCh, "Client", "packet") {
		return ""
	}
	if fn.Parent() != nil && core.FuncName(fn.Parent()) == "ch.(*Client).Do" {
		return "receive loop of Do retries net.OpError timeouts of packet(); decided by C08.retry"
	}
	return ""
}

func runC07(c *Ctx) {
	c.R.Rule("C07.errors", "E6 over every library function: from each call that reads from a proto.Reader/io.Reader (directly or through library helpers) and returns an error, neither a success exit nor a further read is reachable without first crossing the nil edge of a test of that error, or returning it (possibly wrapped)")
	for _, cfg := range c.Configs() {
		p := c.Prog(cfg)
		if p == nil {
			continue
		}
		cls := readerClass(p)
		n := runErrDisc(c, p, p.Funcs(), errDiscOpts{Rule: "C07.errors", Class: cls, Exempt: isDoReceiverPacket})
		c.R.Count("reader call sites["+cfg.Name+"]", n)
		c.R.Floor("C07.errors", cfg.Name, n, 190)
		ruleReadFull(c, p, "C07.readfull")
		ruleReaderSource(c, p, "C07.source")
	}
	// consumption: the decoders consume everything the encoders emit (C17 / C01 containments, shared)
	if p := c.Prog(core.CfgDefault); p != nil {
		c.R.Rule("C07.consume", "E2 containment (as C17.shape / C01.shape): for every message and every column type the encoder's atom sequences are contained in what the decoder's success paths consume, at every revision, with every gate evaluated on the codec's own revision parameter - a decoder that stops early (or skips fields the encoder wrote) accepts a truncated encoding")
		pairs := messagePairs(p)
		ruleShapePairs(c, p, "C07.consume", pairs, false)
		ruleGates(c, p, pairs, "C07.consume")
		ruleColumnShapeAs(c, p, "C07.consume")
		ruleInferTables(c, p, "C07")
	}
	c.R.Assumptions = append(c.R.Assumptions,
		"io.ReadFull / binary.ReadUvarint / bufio return an error on every short read (standard library contract)",
		"go-faster/errors.Wrap(nil) is non-nil (read in v0.7.1)",
		"decided: every read error reaches only failure exits on all paths in all analysed build configurations; not decided: that a given prefix makes some read fail is the argument of DESIGN.md C07 (i)-(iii), composed with C01/C17 shape containment")
}
