package props

import (
	"go/token"
	"go/types"
	"strings"

	"golang.org/x/tools/go/ssa"

	"chverif/core"
)

func init() { register("C07", runC07) }

// isDoReceiverPacket: the call of Client.packet inside a closure of Client.Do
// (the receive loop) - its timeout retry is property C08's subject.
func isDoReceiverPacket(fn *ssa.Function, c ssa.CallInstruction) string {
	callee := core.CalleeFunc(c)
	if callee == nil || !core.IsMethod(callee, core.PkgCh, "Client", "packet") {
		return ""
	}
	if fn.Parent() != nil && core.FuncName(fn.Parent()) == "ch.(*Client).Do" {
		return "receive loop of Do retries net.OpError timeouts of packet(); decided by C08.retry"
	}
	return ""
}

func runC07(c *Ctx) {
	c.R.Rule("C07.errors", "E6 over every library function: from each call that reads from a proto.Reader/io.Reader (directly or through library helpers) and returns an error, neither a success exit nor a further read is reachable without first crossing the nil edge of a test of that error, or returning it (possibly wrapped)")
	for _, cfg := range c.Configs() {
		p := c.Prog(cfg)
		if p == nil {
			continue
		}
		cls := readerClass(p)
		n := runErrDisc(c, p, p.Funcs(), errDiscOpts{Rule: "C07.errors", Class: cls, Exempt: isDoReceiverPacket})
		c.R.Count("reader call sites["+cfg.Name+"]", n)
		c.R.Floor("C07.errors", cfg.Name, n, 190)
		ruleReadFull(c, p, "C07.readfull")
		ruleEnsureExact(c, p, "C07.ensure")
		ruleFieldBeforeUse(c, p, "C07.field-before-use")
		ruleAutoStateful(c, p, "C07.auto-stateful")
		ruleRowLoopBound(c, p, "C07.row-loop")
		ruleStateMethodSet(c, p, "C07.state-methodset")
		ruleConfigParsed(c, p, "C07.config")
		ruleConflictsSymm(c, p, "C07.conflicts")
		ruleResetComplete(c, p, "C07.reset-clears")
		ruleRowsNeedTarget(c, p, "C07.rows-need-target")
		ruleAutoAdopts(c, p, "C07.auto-adopt")
		ruleForwardAll(c, p, "C07.forward-all")
		ruleReadFullSized(c, p, "C07.readfull-sized")
		ruleReaderSource(c, p, "C07.source")
		ruleReadSizes(c, p, "C07.sizes")
	}
	// consumption: the decoders consume everything the encoders emit (C17 / C01 containments, shared)
	if p := c.Prog(core.CfgDefault); p != nil {
		c.R.Rule("C07.consume", "E2 containment (as C17.shape / C01.shape): for every message and every column type the encoder's atom sequences are contained in what the decoder's success paths consume, at every revision, with every gate evaluated on the codec's own revision parameter - a decoder that stops early (or skips fields the encoder wrote) accepts a truncated encoding")
		pairs := messagePairs(p)
		ruleShapePairs(c, p, "C07.consume", pairs, false)
		ruleGates(c, p, pairs, "C07.consume")
		ruleColumnShapeAs(c, p, "C07.consume")
		ruleInferTables(c, p, "C07")
		ruleColumnCount(c, p, "C07.colcount")
		ruleVectoredEquiv(c, p, "C07.vectored")
		ruleRebuild(c, p, "C07.rebuild")
		ruleDict(c, p, "C07.dict")
	}
	c.R.Assumptions = append(c.R.Assumptions,
		"io.ReadFull / binary.ReadUvarint / bufio return an error on every short read (standard library contract)",
		"go-faster/errors.Wrap(nil) is non-nil (read in v0.7.1)",
		"decided: every read error reaches only failure exits on all paths in all analysed build configurations; not decided: that a given prefix makes some read fail is the argument of DESIGN.md C07 (i)-(iii), composed with C01/C17 shape containment")
}

// ruleColumnCount: the per-column header loops of the block decoders run b.Columns times.
func ruleColumnCount(c *Ctx, p *core.Program, rule string) {
	c.R.Rule(rule, "loop-bound provenance: in Block.DecodeRawBlock, Results.DecodeResult and Results.decodeAuto every counted loop that reads from the wire is bounded by the column count announced in the block header (Block.Columns), not by the size of the target: for a zero-row block the two may differ, and a loop over the target then leaves announced column headers unread (a truncated header block is accepted, the next packet is misparsed)")
	cfg := p.Cfg.Name
	rd := readerClass(p)
	fns := []*ssa.Function{
		p.Method(core.PkgProto, "Block", "DecodeRawBlock"),
		p.Method(core.PkgProto, "Results", "DecodeResult"),
		p.Method(core.PkgProto, "Results", "decodeAuto"),
	}
	// helpers of the three roots that read from the wire in a loop (a skip loop moved out of DecodeRawBlock)
	type site struct {
		caller *ssa.Function
		call   ssa.CallInstruction
	}
	callSites := map[*ssa.Function][]site{}
	for _, root := range append([]*ssa.Function{}, fns...) {
		if root == nil {
			continue
		}
		for _, call := range core.Calls(root) {
			sf := core.StaticFn(call)
			if sf == nil || sf.Blocks == nil || pkgOf(sf) == nil || pkgOf(sf).Path() != core.PkgProto || core.RecvNamed2(sf) != nil {
				continue
			}
			if _, seen := callSites[sf]; !seen {
				fns = append(fns, sf)
			}
			callSites[sf] = append(callSites[sf], site{root, call})
		}
	}
	isCols := func(x ssa.Value) bool { return strings.HasSuffix(core.FieldOrigin(x, 0), "Block.Columns") }
	n := 0
	for _, fn := range fns {
		if fn == nil || fn.Blocks == nil {
			continue
		}
		k := 0
		for _, b := range fn.Blocks {
			ifi, ok := b.Instrs[len(b.Instrs)-1].(*ssa.If)
			if !ok || !core.InLoop(ifi) {
				continue
			}
			bo, ok := ifi.Cond.(*ssa.BinOp)
			if !ok || bo.Op != token.LSS && bo.Op != token.GTR && bo.Op != token.LEQ && bo.Op != token.GEQ && bo.Op != token.NEQ {
				continue
			}
			var ind, bound ssa.Value
			if ph, ok := bo.X.(*ssa.Phi); ok && ph.Block() == b {
				ind, bound = ph, bo.Y
			} else if ph, ok := bo.Y.(*ssa.Phi); ok && ph.Block() == b {
				ind, bound = ph, bo.X
			} else if bx, ok := bo.X.(*ssa.BinOp); ok && bx.Op == token.ADD { // rotated range loop: i+1 < n
				if ph, ok := bx.X.(*ssa.Phi); ok {
					// the phi sits in this block, or (for range n: test at the bottom) in the block the test jumps back to
					back := ph.Block() == b
					for _, sc := range b.Succs {
						if sc == ph.Block() {
							back = true
						}
					}
					if back {
						ind, bound = ph, bo.Y
					}
				}
			}
			if ind == nil {
				continue
			}
			// the loop body reads from the wire
			reads := false
			for _, sc := range b.Succs {
				w := core.ReachAvoiding(core.Point{B: sc, I: -1}, func(in ssa.Instruction) bool {
					cl, ok := in.(ssa.CallInstruction)
					return ok && rd(fn, cl)
				}, func(in ssa.Instruction) bool { return in == ssa.Instruction(ifi) }, nil)
				if len(w) > 0 && core.InLoop(w[0].At) {
					reads = true
				}
			}
			if !reads {
				continue
			}
			n++
			k++
			key := sprintf("%s/loop#%d", core.FuncName(fn), k)
			fromCols := core.DependsOn(bound, isCols, false)
			if !fromCols && len(callSites[fn]) > 0 {
				// a helper: the bound is one of its parameters, fed with Block.Columns at every call site
				for i, pr := range fn.Params {
					if !core.DependsOn(bound, func(x ssa.Value) bool { return x == ssa.Value(pr) }, false) {
						continue
					}
					all := true
					for _, cs := range callSites[fn] {
						args := cs.call.Common().Args
						if i >= len(args) || !core.DependsOn(args[i], isCols, false) {
							all = false
						}
					}
					fromCols = all
				}
			}
			if fromCols {
				c.R.Ok(rule, key, cfg, p.Pos(ifi.Cond.Pos()), "bounded by Block.Columns")
			} else {
				c.R.Bad(rule, key, cfg, p.Pos(ifi.Cond.Pos()), "a loop that reads per-column data from the wire is not bounded by Block.Columns: when the target and the announced column count differ (allowed for zero-row header blocks) announced columns stay unread or absent ones are read")
			}
		}
	}
	c.R.Floor(rule, cfg, n, 3)
}

// ruleReadSizes: the amount a column decoder reads is not a remainder.
func ruleReadSizes(c *Ctx, p *core.Program, rule string) {
	c.R.Rule(rule, "in every DecodeColumn the size handed to a wire read (ReadRaw / ReadFull slice length / Ensure) does not derive from a remainder (`rows % k`): chunked skipping that reads the remainder last consumes 0 bytes for the final chunk whenever k divides the row count, so the column's last k bytes stay in the stream and any cut inside them goes unnoticed")
	cfg := p.Cfg.Name
	n := 0
	for _, ct := range columnTypes(p) {
		fn := methodOf(p, ct, "DecodeColumn")
		if fn == nil || fn.Blocks == nil {
			continue
		}
		bad := false
		for _, call := range core.Calls(fn) {
			f := core.CalleeFunc(call)
			if f == nil || !core.IsMethod(f, core.PkgProto, "Reader", f.Name()) {
				continue
			}
			for _, a := range call.Common().Args[1:] {
				if _, isInt := a.Type().Underlying().(*types.Basic); !isInt {
					continue
				}
				n++
				if core.DependsOn(a, func(x ssa.Value) bool {
					bo, ok := x.(*ssa.BinOp)
					return ok && bo.Op == token.REM
				}, false) {
					bad = true
					c.R.Bad(rule, core.CallKey(fn, call), cfg, p.Pos(call.Pos()), "the number of bytes read is a remainder: when the divisor divides the row count nothing is read for the last chunk")
				}
			}
		}
		_ = bad
	}
	c.R.Count("sized reads in column decoders["+cfg+"]", n)
	if n > 0 {
		c.R.Ok(rule, "decoders", cfg, "", sprintf("%d sized reads examined", n)).Trivial = true
	}
}

// ---- C07.field-before-use: a wire-derived selector is stored before the method that dispatches on it runs
func ruleFieldBeforeUse(c *Ctx, p *core.Program, rule string) {
	c.R.Rule(rule, "in a column decoder that stores a value read from the wire into a field of the receiver (the key width of LowCardinality) and calls a method of the same receiver that reads that field (Keys() selects the keys column by it), the call is not reachable from the entry without passing the store: a selection made before the store uses the width of the previous block (or the zero value), reads rows*1 instead of rows*2 key bytes and accepts a block cut by the difference")
	cfg := p.Cfg.Name
	n := 0
	for _, ct := range columnTypes(p) {
		dec := methodOf(p, ct, "DecodeColumn")
		if dec == nil || dec.Blocks == nil || len(dec.Params) == 0 {
			continue
		}
		recv := dec.Params[0]
		// wire-derived stores to receiver fields
		type fst struct {
			name string
			in   ssa.Instruction
		}
		var stores []fst
		for _, b := range dec.Blocks {
			for _, in := range b.Instrs {
				st, ok := in.(*ssa.Store)
				if !ok {
					continue
				}
				fa, ok := st.Addr.(*ssa.FieldAddr)
				if !ok || fa.X != ssa.Value(recv) {
					continue
				}
				// a selector is a scalar; a buffer that was grown by a wire-derived size is not one
				if _, scalar := st.Val.Type().Underlying().(*types.Basic); !scalar {
					continue
				}
				wire := func(v ssa.Value) bool {
					if isWireRead(v) {
						return true
					}
					e, ok := v.(*ssa.Extract)
					return ok && isWireRead(e.Tuple)
				}
				// (the value may come back from a parsing helper that read it)
				if core.DependsOn(st.Val, wire, true) || core.DependsOnResults(st.Val, wire) {
					stores = append(stores, fst{fieldNameOnly(fa.X.Type(), fa.Field), in})
				}
			}
		}
		if len(stores) == 0 {
			continue
		}
		for _, call := range core.Calls(dec) {
			m := core.StaticFn(call)
			if m == nil || m.Blocks == nil || len(call.Common().Args) == 0 || m == dec {
				continue
			}
			// same receiver object (pointer or its dereference)
			a0 := call.Common().Args[0]
			if a0 != ssa.Value(recv) {
				if u, ok := a0.(*ssa.UnOp); !ok || u.X != ssa.Value(recv) {
					continue
				}
			}
			// fields the method reads from its receiver
			reads := map[string]bool{}
			for _, mb := range m.Blocks {
				for _, mi := range mb.Instrs {
					switch x := mi.(type) {
					case *ssa.FieldAddr:
						if len(m.Params) > 0 && x.X == ssa.Value(m.Params[0]) {
							reads[fieldNameOnly(x.X.Type(), x.Field)] = true
						}
					case *ssa.Field:
						if len(m.Params) > 0 && x.X == ssa.Value(m.Params[0]) {
							reads[fieldNameOnly(x.X.Type(), x.Field)] = true
						}
						// value receiver spilled into a local copy
						if u, ok := x.X.(*ssa.UnOp); ok {
							if al, ok := u.X.(*ssa.Alloc); ok {
								_ = al
								reads[fieldNameOnly(x.X.Type(), x.Field)] = true
							}
						}
					}
				}
			}
			// value receivers: FieldAddr on the spill alloc
			for _, mb := range m.Blocks {
				for _, mi := range mb.Instrs {
					if fa, ok := mi.(*ssa.FieldAddr); ok {
						if al, ok := fa.X.(*ssa.Alloc); ok && core.NamedOf(al.Type()) == ct {
							reads[fieldNameOnly(fa.X.Type(), fa.Field)] = true
						}
					}
				}
			}
			for _, s := range stores {
				if !reads[s.name] {
					continue
				}
				n++
				key := sprintf("%s/%s-before-%s", core.FuncName(dec), s.name, m.Name())
				st := s.in
				w := core.ReachAvoiding(core.Entry(dec), func(x ssa.Instruction) bool { return x == call.(ssa.Instruction) }, func(x ssa.Instruction) bool { return x == st }, nil)
				if len(w) > 0 {
					c.R.Bad(rule, key, cfg, p.Pos(call.Pos()), m.Name()+"() reads "+ct.Obj().Name()+"."+s.name+" but can be called before the decoder has stored the value it read from the wire into that field: the previous block's (or the zero) value selects what is decoded")
				} else {
					c.R.Ok(rule, key, cfg, p.Pos(call.Pos()), "the field is stored before the method that reads it is called")
				}
			}
		}
	}
	c.R.Count("field-then-method pairs in decoders["+cfg+"]", n)
	c.R.Floor(rule, cfg, n, 1)
}

// ruleAutoStateful (C07 / C01): what ColAuto instantiates keeps its state prefix inside reflected wrappers.
func ruleAutoStateful(c *Ctx, p *core.Program, rule string) {
	c.R.Rule(rule, "ColAuto builds Array(T), Nullable(T) and LowCardinality(T) by calling the inferred element's Array / Nullable / LowCardinality helper through reflection. For every column type that ColAuto.Infer instantiates, either the type has no state prefix of its own (no DecodeState method that reads from the Reader), or each of those helpers puts the column itself into the wrapper - a helper that forwards to a field's helper (c.Str.Array()) wraps the inner column, the wrapper never consumes the 8-byte state prefix the encoder wrote, and every truncation behind it decodes cleanly")
	cfg := p.Cfg.Name
	inf := p.Method(core.PkgProto, "ColAuto", "Infer")
	if !c.must(p, "ColAuto.Infer", inf != nil) {
		return
	}
	seen := map[*types.Named]bool{}
	n := 0
	for _, b := range inf.Blocks {
		for _, in := range b.Instrs {
			al, ok := in.(*ssa.Alloc)
			if !ok || !al.Heap {
				continue
			}
			nm := core.NamedOf(al.Type())
			if nm == nil || seen[nm] || nm.Obj().Pkg() == nil || nm.Obj().Pkg().Path() != core.PkgProto || types.NewMethodSet(types.NewPointer(nm)).Lookup(nm.Obj().Pkg(), "DecodeColumn") == nil {
				continue
			}
			seen[nm] = true
			n++
			key := "ColAuto/" + nm.Obj().Name()
			ds := methodOf(p, nm, "DecodeState")
			stateful := false
			if ds != nil && ds.Blocks != nil && core.RecvNamed2(ds) != nil && core.RecvNamed2(ds).Obj() == nm.Obj() {
				stateful = core.ReachesCallee(ds, func(f *types.Func) bool {
					sig, ok := f.Type().(*types.Signature)
					return ok && sig.Recv() != nil && core.IsNamed(sig.Recv().Type(), core.PkgProto, "Reader")
				}, 2)
			}
			if !stateful {
				c.R.Ok(rule, key, cfg, p.Pos(al.Pos()), "no state prefix of its own")
				continue
			}
			var forwards []string
			for _, hn := range []string{"Array", "Nullable", "LowCardinality"} {
				h := methodOf(p, nm, hn)
				if h == nil || h.Blocks == nil || len(h.Params) == 0 {
					continue
				}
				for _, call := range core.Calls(h) {
					args := call.Common().Args
					if len(args) == 0 || call.Common().IsInvoke() {
						continue
					}
					if fa, ok := args[0].(*ssa.FieldAddr); ok && fa.X == ssa.Value(h.Params[0]) {
						forwards = append(forwards, hn+"() -> "+fieldNameOnly(fa.X.Type(), fa.Field)+"."+core.CalleeFunc(call).Name()+"()")
					}
				}
			}
			if len(forwards) > 0 {
				c.R.Bad(rule, key, cfg, p.Pos(al.Pos()), sprintf("%s has a state prefix and is instantiated by ColAuto, but %s: the reflected wrapper holds the inner column and skips the state prefix on decode", nm.Obj().Name(), strings.Join(forwards, ", ")))
			} else {
				c.R.Ok(rule, key, cfg, p.Pos(al.Pos()), "stateful; wrapper helpers wrap the column itself")
			}
		}
	}
	c.R.Count("column types instantiated by ColAuto.Infer", n)
	c.R.Floor(rule, cfg, n, 8)
}

// ruleReadFullSized (C07 / C16): the buffer a decoder reads into is given the size of what is announced.
func ruleReadFullSized(c *Ctx, p *core.Program, rule string) {
	c.R.Rule(rule, "in every DecodeColumn of package proto that hands Reader.ReadFull a receiver field or a slice of one, a store to that field of a value whose length derives from the row count (make / append of make / a re-slice to a bound computed from rows) lies on every path from the entry to a success exit: a reuse path that only checks the capacity leaves the length a previous Reset set - ReadFull of an empty slice reads nothing and every truncation of the block is accepted, or the rows are read into spare capacity while the column keeps reporting its old length")
	cfg := p.Cfg.Name
	n := 0
	for _, fn := range p.Funcs() {
		if pkgOf(fn) == nil || pkgOf(fn).Path() != core.PkgProto || fn.Name() != "DecodeColumn" || fn.Blocks == nil || len(fn.Params) < 3 {
			continue
		}
		rows := fn.Params[len(fn.Params)-1]
		fromRows := func(v ssa.Value) bool {
			return core.DependsOn(v, func(x ssa.Value) bool { return x == ssa.Value(rows) }, false)
		}
		for _, call := range core.FindCalls(fn, func(f *types.Func) bool { return core.IsMethod(f, core.PkgProto, "Reader", "ReadFull") }) {
			args := call.Common().Args
			buf := args[len(args)-1]
			if sl, ok := buf.(*ssa.Slice); ok {
				// a window computed from the row count; windows by running offsets (string rows) are not sized here
				if sl.High == nil || !fromRows(sl.High) {
					continue
				}
				buf = sl.X
			}
			ld, ok := buf.(*ssa.UnOp)
			if !ok || ld.Op != token.MUL {
				continue
			}
			fa, ok := ld.X.(*ssa.FieldAddr)
			if !ok || fa.X != ssa.Value(fn.Params[0]) {
				continue
			}
			field := fieldNameOnly(fa.X.Type(), fa.Field)
			n++
			key := core.CallKey(fn, call)
			sized := func(in ssa.Instruction) bool {
				// a method of the column that sizes the field from the argument it is given (c.resize(rows * c.Size))
				if cl, isCall := in.(*ssa.Call); isCall {
					g := core.StaticFn(cl)
					if g == nil || g.Blocks == nil || len(g.Params) == 0 || len(cl.Call.Args) == 0 || cl.Call.Args[0] != ssa.Value(fn.Params[0]) || pkgOf(g) == nil || pkgOf(g).Path() != core.PkgProto {
						return false
					}
					for pi := 1; pi < len(g.Params) && pi < len(cl.Call.Args); pi++ {
						if !fromRows(cl.Call.Args[pi]) {
							continue
						}
						gp := g.Params[pi]
						fromP := func(v ssa.Value) bool {
							return core.DependsOn(v, func(x ssa.Value) bool { return x == ssa.Value(gp) }, false)
						}
						for _, gb := range g.Blocks {
							for _, gi := range gb.Instrs {
								gs, ok := gi.(*ssa.Store)
								if !ok {
									continue
								}
								gfa, ok := gs.Addr.(*ssa.FieldAddr)
								if !ok || gfa.X != ssa.Value(g.Params[0]) || fieldNameOnly(gfa.X.Type(), gfa.Field) != field {
									continue
								}
								if core.DependsOn(gs.Val, func(x ssa.Value) bool {
									switch y := x.(type) {
									case *ssa.MakeSlice:
										return fromP(y.Len)
									case *ssa.Slice:
										return y.High != nil && fromP(y.High)
									}
									return false
								}, true) {
									return true
								}
							}
						}
					}
					return false
				}
				st, ok := in.(*ssa.Store)
				if !ok {
					return false
				}
				sfa, ok := st.Addr.(*ssa.FieldAddr)
				if !ok || sfa.X != ssa.Value(fn.Params[0]) || fieldNameOnly(sfa.X.Type(), sfa.Field) != field {
					return false
				}
				return core.DependsOn(st.Val, func(x ssa.Value) bool {
					switch y := x.(type) {
					case *ssa.MakeSlice:
						return fromRows(y.Len)
					case *ssa.Slice:
						return y.High != nil && fromRows(y.High)
					}
					return false
				}, true)
			}
			w := core.ReachAvoiding(core.Entry(fn), func(in ssa.Instruction) bool {
				r, ok := in.(*ssa.Return)
				return ok && defaultSuccess(fn, r)
			}, sized, nil)
			if len(w) > 0 {
				c.R.Bad(rule, key, cfg, p.Pos(call.Pos()), "DecodeColumn can succeed without having given "+field+" a length computed from the row count on that path", p.TrailString(w[0])...)
			} else {
				c.R.Ok(rule, key, cfg, p.Pos(call.Pos()), field+" is sized from the row count on every successful path")
			}
		}
	}
	if n == 0 {
		c.R.Ok(rule, "decoders", cfg, "", "no DecodeColumn hands ReadFull a receiver field directly").Trivial = true
	}
	c.R.Count("ReadFull into receiver fields["+cfg+"]", n)
}
