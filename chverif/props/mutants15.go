package props

// Mutants for the rules added in the short seeding round 15.

func init() {
	add := func(prop string, ms ...Mutant) { mutants[prop] = append(mutants[prop], ms...) }
	add("C06",
		Mutant{Name: "string-length-read-without-sign-check", File: "proto/reader.go", Old: "\tn, err := r.StrLen()", New: "\tn, err := r.Int()", Rule: "C06.strlen-source", Construct: "StrRaw"},
	)
	add("C09",
		Mutant{Name: "prepare-skipped-when-lengths-agree", File: "proto/col_low_cardinality.go", Old: "\t// Allocate keys slice.\n\tc.keys = append(", New: "\tif n := len(c.Values); n > 0 && n == len(c.keys) && len(c.kv) == c.index.Rows() {\n\t\treturn nil\n\t}\n\t// Allocate keys slice.\n\tc.keys = append(", Rule: "C09.prepare-rebuilds", Construct: "Prepare"},
	)
	add("C18",
		Mutant{Name: "normalisation-deletes-every-blank", File: "proto/column.go", Old: "\treturn ColumnType(strings.Join(elems, sep))", New: "\treturn ColumnType(strings.ReplaceAll(strings.Join(elems, sep), \" \", \"\"))", Rule: "C18.normalize", Construct: "normalizeCommas"},
	)
	add("C19",
		Mutant{Name: "datetime-array-helper-over-a-fresh-column", File: "proto/col_datetime.go", Old: "\treturn &ColArr[time.Time]{\n\t\tData: c,\n\t}", New: "\treturn &ColArr[time.Time]{\n\t\tData: new(ColDateTime),\n\t}", Rule: "C19.helper-receiver", Construct: "ColDateTime.Array"},
	)
}
