package props

// Mutants for the rules added (or newly shared) in seeding round 14.

func init() {
	add := func(prop string, ms ...Mutant) { mutants[prop] = append(mutants[prop], ms...) }
	add("C01",
		Mutant{Name: "date32-array-over-date-column", File: "proto/col_date32.go", Old: "\t\tData: new(ColDate32),", New: "\t\tData: new(ColDate),", Rule: "C01.ctor-elem", Construct: "NewArrDate32"},
	)
	add("C02",
		Mutant{Name: "do-span-context-discarded", File: "query.go", Old: "\t\tnewCtx, span := c.tracer.Start(ctx, \"Do\",", New: "\t\tnewCtx := ctx\n\t\t_, span := c.tracer.Start(ctx, \"Do\",", Rule: "C02.span-ctx", Construct: "Start"},
	)
	add("C04",
		Mutant{Name: "read-timeout-capped-by-handshake-timeout", File: "client.go", Old: "\tc.readTimeout = opt.ReadTimeout\n", New: "\tc.readTimeout = opt.ReadTimeout\n\tif opt.HandshakeTimeout > 0 && opt.HandshakeTimeout < c.readTimeout {\n\t\tc.readTimeout = opt.HandshakeTimeout\n\t}\n", Rule: "C04.readtimeout-source", Construct: "readTimeout"},
	)
	add("C11",
		Mutant{Name: "failed-warm-up-leaves-the-pool-open", File: "chpool/pool.go", Old: "\tif err := p.createIdleResources(ctx, int(p.options.MinConns)); err != nil {\n\t\tp.Close()\n\t\treturn nil, err", New: "\tif err := p.createIdleResources(ctx, int(p.options.MinConns)); err != nil {\n\t\treturn nil, err", Rule: "C11.newpool-closes", Construct: "newPool"},
	)
	add("C17",
		Mutant{Name: "profile-drops-rows-before-limit-without-limit", File: "proto/profile.go", Old: "\t\tp.RowsBeforeLimit = v\n", New: "\t\tif p.AppliedLimit {\n\t\t\tp.RowsBeforeLimit = v\n\t\t}\n", Rule: "C17.decoded-stored", Construct: "RowsBeforeLimit"},
	)
	add("C18",
		Mutant{Name: "result-decoder-prepares-its-target", File: "proto/results.go", Old: "\t\tt.Data.Reset()\n", New: "\t\tif pp, ok := t.Data.(Preparable); ok {\n\t\t\tif err := pp.Prepare(); err != nil {\n\t\t\t\treturn errors.Wrap(err, \"prepare\")\n\t\t\t}\n\t\t}\n\t\tt.Data.Reset()\n", Rule: "C18.no-prepare", Construct: "Prepare"},
	)
	add("C20",
		Mutant{Name: "date-saturates-on-the-unshifted-instant", File: "proto/date.go", Old: "\t_, offset := t.Zone()\n\treturn Date(", New: "\tif t.After(Date(65535).Time()) {\n\t\treturn Date(65535)\n\t}\n\t_, offset := t.Zone()\n\treturn Date(", Rule: "C20.range-shifted", Construct: "ToDate"},
	)
	add("C06",
		Mutant{Name: "map-type-scanner-looks-ahead-unchecked", File: "proto/col_map.go", Old: "\t\t\t} else if ch == '\\'' {\n\t\t\t\tquoted = false\n\t\t\t}", New: "\t\t\t} else if ch == '\\'' && s[i+1] == '\\'' {\n\t\t\t\ti++ // doubled quote\n\t\t\t} else if ch == '\\'' {\n\t\t\t\tquoted = false\n\t\t\t}", Rule: "C06.index-guard", Construct: "cutMapTypes"},
	)
	add("C07",
		Mutant{Name: "rows-accepted-without-target", File: "proto/block.go", Old: "\tif target == nil && b.Rows > 0 {\n\t\treturn errors.New(\"got rows without target\")\n\t}\n", New: "", Rule: "C07.rows-need-target", Construct: "DecodeRawBlock"},
	)
	add("C19",
		Mutant{Name: "dictionary-larger-than-column-refused", File: "proto/col_low_cardinality.go", Old: "\tif err := checkRows(int(indexRows)); err != nil {\n\t\treturn errors.Wrap(err, \"index size\")\n\t}\n", New: "\tif err := checkRows(int(indexRows)); err != nil {\n\t\treturn errors.Wrap(err, \"index size\")\n\t}\n\tif int(indexRows) > rows {\n\t\treturn errors.Errorf(\"index size %d is greater than rows count %d\", indexRows, rows)\n\t}\n", Rule: "C19.dict-rows", Construct: "ColLowCardinality"},
	)
	add("C05",
		Mutant{Name: "external-table-written-on-its-own-path", File: "query.go", Old: "\t\tif err := c.encodeBlock(ctx, q.ExternalTable, q.ExternalData); err != nil {", New: "\t\tc.writer.ChainBuffer(func(buf *proto.Buffer) {\n\t\t\tproto.ClientCodeData.Encode(buf)\n\t\t\tcd := proto.ClientData{TableName: q.ExternalTable}\n\t\t\tcd.EncodeAware(buf, c.protocolVersion)\n\t\t})\n\t\tif err := (proto.Block{Columns: len(q.ExternalData), Rows: q.ExternalData[0].Data.Rows()}).WriteBlock(c.writer, c.protocolVersion, q.ExternalData); err != nil {", Rule: "C05.block-path", Construct: "sendQuery"},
	)
	add("C19",
		Mutant{Name: "enum-absence-read-off-the-name", File: "proto/col_enum.go", Old: "\t\ts, ok := mapping[int(v)]\n\t\tif !ok {", New: "\t\ts := mapping[int(v)]\n\t\tif s == \"\" {", Rule: "C19.enum-sentinel", Construct: "appendEnum"},
	)
}
