package props

import (
	"go/token"
	"go/types"
	"strings"

	"golang.org/x/tools/go/ssa"
	"golang.org/x/tools/go/ssa/ssautil"

	"chverif/core"
)

// E4: append-only discipline of an output *proto.Buffer.
//
// In a function that receives a *proto.Buffer b (parameter or captured
// variable), b.Buf may only be (a) measured with len/cap, (b) extended by
// append stored back to b.Buf, (c) written at / sliced from positions proven
// >= a length of the buffer read earlier (the tail this call appended),
// (d) truncated to such a position as base of an append stored back (tail
// replacement).  Everything else touches bytes that were in the buffer before
// this encoder ran and makes the output depend on prior buffer contents.

func isBufferPtr(t types.Type) bool {
	pt, ok := t.(*types.Pointer)
	return ok && core.IsNamed(pt.Elem(), core.PkgProto, "Buffer")
}

// bufferRoots returns the SSA values of type *proto.Buffer that name an
// output buffer in fn: parameters and free variables.
func bufferRoots(fn *ssa.Function) []ssa.Value {
	var out []ssa.Value
	for _, p := range fn.Params {
		if isBufferPtr(p.Type()) {
			out = append(out, p)
		}
	}
	for _, fv := range fn.FreeVars {
		if isBufferPtr(fv.Type()) {
			out = append(out, fv)
		}
		// captured by reference: *(*proto.Buffer) cell
		if pt, ok := fv.Type().(*types.Pointer); ok && isBufferPtr(pt.Elem()) {
			out = append(out, fv)
		}
	}
	return out
}

type bufAnalysis struct {
	depth   int
	fn      *ssa.Function
	roots   map[ssa.Value]bool // values equal to the *Buffer
	whole   map[ssa.Value]bool // loads of b.Buf
	bufAddr map[ssa.Value]bool // &b.Buf
	geMemo  map[ssa.Value]int  // 0 unknown 1 in-progress(assumed) 2 yes 3 no
}

type bufViolation struct {
	at   ssa.Instruction
	what string
}

// newBufAnalysis builds the root / address / whole-load sets of fn without judging anything.
func newBufAnalysis(fn *ssa.Function) *bufAnalysis {
	roots := bufferRoots(fn)
	if len(roots) == 0 {
		return nil
	}
	a := &bufAnalysis{fn: fn, roots: map[ssa.Value]bool{}, whole: map[ssa.Value]bool{}, bufAddr: map[ssa.Value]bool{},
		geMemo: map[ssa.Value]int{}}
	for _, r := range roots {
		if pt, ok := r.Type().(*types.Pointer); ok && isBufferPtr(pt.Elem()) {
			for _, ref := range *r.Referrers() {
				if u, ok := ref.(*ssa.UnOp); ok && u.Op == token.MUL {
					a.roots[u] = true
				}
			}
			continue
		}
		a.roots[r] = true
	}
	for _, b := range fn.Blocks {
		for _, in := range b.Instrs {
			if fa, ok := in.(*ssa.FieldAddr); ok && a.roots[fa.X] {
				a.bufAddr[fa] = true
			}
		}
	}
	for _, b := range fn.Blocks {
		for _, in := range b.Instrs {
			if u, ok := in.(*ssa.UnOp); ok && u.Op == token.MUL && a.bufAddr[u.X] {
				a.whole[u] = true
			}
		}
	}
	return a
}

var bufCallersOnce = map[*ssa.Program]map[*ssa.Function][]ssa.CallInstruction{}

// staticCallersOf: static call sites of fn in the whole program (cached per program).
func staticCallersOf(fn *ssa.Function) []ssa.CallInstruction {
	prog := fn.Prog
	m := bufCallersOnce[prog]
	if m == nil {
		m = map[*ssa.Function][]ssa.CallInstruction{}
		for g := range ssautil.AllFunctions(prog) {
			for _, b := range g.Blocks {
				for _, in := range b.Instrs {
					if call, ok := in.(ssa.CallInstruction); ok {
						if sf := core.StaticFn(call); sf != nil {
							m[sf] = append(m[sf], call)
						}
					}
				}
			}
		}
		bufCallersOnce[prog] = m
	}
	return m[fn]
}

func analyseBuffer(fn *ssa.Function) (viol []bufViolation, touched bool) {
	roots := bufferRoots(fn)
	if len(roots) == 0 {
		return nil, false
	}
	a := &bufAnalysis{fn: fn, roots: map[ssa.Value]bool{}, whole: map[ssa.Value]bool{}, bufAddr: map[ssa.Value]bool{},
		geMemo: map[ssa.Value]int{}}
	for _, r := range roots {
		if pt, ok := r.Type().(*types.Pointer); ok && isBufferPtr(pt.Elem()) {
			// cell holding the pointer: loads of it are roots
			for _, ref := range *r.Referrers() {
				if u, ok := ref.(*ssa.UnOp); ok && u.Op == token.MUL {
					a.roots[u] = true
				}
			}
			continue
		}
		a.roots[r] = true
	}
	// roots through phi / spilled cells are not expected; keep it simple and strict
	for _, b := range fn.Blocks {
		for _, in := range b.Instrs {
			if fa, ok := in.(*ssa.FieldAddr); ok && a.roots[fa.X] {
				a.bufAddr[fa] = true
			}
		}
	}
	for _, b := range fn.Blocks {
		for _, in := range b.Instrs {
			if u, ok := in.(*ssa.UnOp); ok && u.Op == token.MUL && a.bufAddr[u.X] {
				a.whole[u] = true
			}
		}
	}
	// uses of the buffer pointer itself
	for r := range a.roots {
		for _, ref := range *r.Referrers() {
			switch x := ref.(type) {
			case *ssa.FieldAddr:
				touched = true
			case ssa.CallInstruction:
				cc := x.Common()
				if f := core.CalleeFunc(x); f != nil && core.IsMethod(f, core.PkgProto, "Buffer", f.Name()) && !cc.IsInvoke() && len(cc.Args) > 0 && cc.Args[0] == r {
					switch f.Name() {
					case "Reset", "Ensure", "Read", "Reader":
						viol = append(viol, bufViolation{ref, "calls (*Buffer)." + f.Name() + " on the output buffer: discards or consumes bytes that were already in it"})
					}
				}
				touched = true
			case *ssa.Store:
				if fa, ok := x.Addr.(*ssa.FieldAddr); ok && x.Val == r && core.IsNamed(fa.X.Type(), core.PkgProto, "Writer") {
					continue // ownership handed to the vectored writer (C14)
				}
				if x.Val == r {
					viol = append(viol, bufViolation{ref, "the output buffer pointer is stored away (escapes the append-only analysis)"})
				}
			case *ssa.MakeClosure, *ssa.DebugRef:
			case *ssa.BinOp: // nil comparison
			case *ssa.UnOp:
				// *b (copy of the struct): reading Buf wholesale
				if x.Op == token.MUL {
					viol = append(viol, bufViolation{ref, "the Buffer struct is copied"})
				}
			case *ssa.Phi, *ssa.MakeInterface, *ssa.ChangeType, *ssa.Return:
				viol = append(viol, bufViolation{ref, "the output buffer pointer flows into " + core.InstrString(ref) + " (outside the analysed fragment)"})
			}
		}
	}
	// stores to b.Buf
	for addr := range a.bufAddr {
		for _, ref := range *addr.Referrers() {
			switch x := ref.(type) {
			case *ssa.Store:
				if x.Addr != addr {
					continue
				}
				if !a.isAppended(x.Val, 0) {
					viol = append(viol, bufViolation{ref, "b.Buf is assigned a value that is not an append to the existing contents (or to a prefix that keeps everything present at entry)"})
				}
			case *ssa.UnOp:
			case *ssa.DebugRef:
			default:
				viol = append(viol, bufViolation{ref, "address of b.Buf escapes: " + core.InstrString(ref)})
			}
		}
	}
	// uses of loads of b.Buf
	for w := range a.whole {
		for _, ref := range *w.Referrers() {
			if msg := a.checkWholeUse(w, ref); msg != "" {
				viol = append(viol, bufViolation{ref, msg})
			}
		}
	}
	return viol, touched || len(a.whole) > 0
}

func (a *bufAnalysis) checkWholeUse(w ssa.Value, ref ssa.Instruction) string {
	switch x := ref.(type) {
	case *ssa.DebugRef:
		return ""
	case *ssa.Call:
		if bi, ok := x.Call.Value.(*ssa.Builtin); ok {
			switch bi.Name() {
			case "len", "cap":
				return ""
			case "append":
				if x.Call.Args[0] == w {
					// result must only be stored back to b.Buf
					return a.appendResultOK(x)
				}
				return "existing buffer contents are appended somewhere else (second operand of append)"
			case "copy":
				return "copy() on the whole buffer: reads or overwrites bytes present before this call"
			}
		}
		if base, ok := appendBaseOf(x); ok && base == w {
			// binary.LittleEndian.AppendUint16(b.Buf, v), a package-local appender: append under another name
			return a.appendResultOK(x)
		}
		return "the whole buffer (including bytes present at entry) is passed to " + calleeName(x)
	case *ssa.Slice:
		if x.X != w {
			return ""
		}
		if x.Low != nil {
			if a.ge(x.Low) {
				return "" // tail
			}
			return "b.Buf is sliced from a lower bound that is not proven >= the buffer length at entry"
		}
		// b.Buf[:h] - only as base of an append stored back, with h >= entry length
		if x.High != nil && a.ge(x.High) {
			for _, r2 := range *x.Referrers() {
				c2, ok := r2.(*ssa.Call)
				if !ok {
					if _, dbg := r2.(*ssa.DebugRef); dbg {
						continue
					}
					return "prefix of the buffer is used other than as base of an append"
				}
				bi, ok := c2.Call.Value.(*ssa.Builtin)
				if !ok || bi.Name() != "append" || c2.Call.Args[0] != x {
					return "prefix of the buffer is used other than as base of an append"
				}
				if msg := a.appendResultOK(c2); msg != "" {
					return msg
				}
			}
			return ""
		}
		return "b.Buf is truncated / re-sliced from its start (bytes present at entry can be dropped or rewritten)"
	case *ssa.IndexAddr:
		if a.ge(x.Index) {
			return ""
		}
		return "b.Buf is indexed at a position not proven >= the buffer length at entry"
	case *ssa.Index:
		return "b.Buf element read"
	default:
		return "the whole buffer flows into " + core.InstrString(ref)
	}
}

func calleeName(c *ssa.Call) string {
	if f := core.CalleeFunc(c); f != nil {
		return core.FuncKey(f)
	}
	return c.Call.Value.String()
}

// appendResultOK: every use of an append whose base is the buffer must be a
// store back to b.Buf.
func (a *bufAnalysis) appendResultOK(ap *ssa.Call) string {
	n := 0
	for _, r := range *ap.Referrers() {
		switch x := r.(type) {
		case *ssa.Store:
			if a.bufAddr[x.Addr] && x.Val == ap {
				n++
				continue
			}
			return "result of append(b.Buf, ...) is stored elsewhere than b.Buf"
		case *ssa.DebugRef:
		case *ssa.Call:
			// base of a further append (length prefix first, then the payload): judged by where that one ends up
			if base, ok := appendBaseOf(x); ok && base == ssa.Value(ap) {
				if msg := a.appendResultOK(x); msg != "" {
					return msg
				}
				n++
				continue
			}
			return "result of append(b.Buf, ...) is used by " + core.InstrString(r) + " instead of being stored back to b.Buf"
		default:
			return "result of append(b.Buf, ...) is used by " + core.InstrString(r) + " instead of being stored back to b.Buf"
		}
	}
	if n == 0 {
		return "result of append(b.Buf, ...) is dropped"
	}
	return ""
}

// appendBaseOf: c appends to its base and returns the extended slice - the builtin, a standard-library
// Append* function, or a function of package proto that only ever returns append(its first slice parameter, ...).
func appendBaseOf(c *ssa.Call) (ssa.Value, bool) {
	if bi, ok := c.Call.Value.(*ssa.Builtin); ok && bi.Name() == "append" && len(c.Call.Args) > 0 {
		return c.Call.Args[0], true
	}
	if b, ok := stdAppendBase(c); ok {
		return b, true
	}
	g := core.StaticFn(c)
	if g == nil || g.Blocks == nil || pkgOf(g) == nil || pkgOf(g).Path() != core.PkgProto || g.Signature.Recv() != nil || len(g.Params) == 0 || g.Signature.Results().Len() != 1 {
		return nil, false
	}
	dst := g.Params[0]
	if sl, ok := dst.Type().Underlying().(*types.Slice); !ok {
		return nil, false
	} else if bt, ok := sl.Elem().Underlying().(*types.Basic); !ok || bt.Kind() != types.Uint8 {
		return nil, false
	}
	var chain func(v ssa.Value, d int) bool
	chain = func(v ssa.Value, d int) bool {
		if d > 6 {
			return false
		}
		if v == ssa.Value(dst) {
			return true
		}
		switch x := v.(type) {
		case *ssa.Call:
			if b, ok := appendBaseOf(x); ok && x != c {
				return chain(b, d+1)
			}
		case *ssa.Phi:
			for _, e := range x.Edges {
				if !chain(e, d+1) {
					return false
				}
			}
			return true
		}
		return false
	}
	nret := 0
	for _, b := range g.Blocks {
		for _, in := range b.Instrs {
			switch x := in.(type) {
			case *ssa.Return:
				nret++
				if len(x.Results) != 1 || !chain(x.Results[0], 0) {
					return nil, false
				}
			case *ssa.Store:
				// writes through the parameter's elements would touch existing contents
				if ia, ok := x.Addr.(*ssa.IndexAddr); ok && ia.X == ssa.Value(dst) {
					return nil, false
				}
			}
		}
	}
	if nret == 0 {
		return nil, false
	}
	return c.Call.Args[0], true
}

// isAppended: v is append(WHOLE, ...) or append(WHOLE[:h>=entry], ...).
func (a *bufAnalysis) isAppended(v ssa.Value, d int) bool {
	c, ok := v.(*ssa.Call)
	if !ok {
		if ph, ok := v.(*ssa.Phi); ok && d < 4 {
			for _, e := range ph.Edges {
				if !a.isAppended(e, d+1) {
					return false
				}
			}
			return true
		}
		return false
	}
	base, ok := appendBaseOf(c)
	if !ok {
		return false
	}
	if bc, isCall := base.(*ssa.Call); isCall && d < 4 && a.isAppended(bc, d+1) {
		return true
	}
	if a.whole[base] {
		return true
	}
	if sl, ok := base.(*ssa.Slice); ok && a.whole[sl.X] && sl.Low == nil && sl.High != nil && a.ge(sl.High) {
		return true
	}
	return false
}

// ge: v is an int proven >= the length of the buffer at function entry:
// len(b.Buf) read at any point (the buffer only grows under this very rule),
// plus non-negative terms; phis of such values.
func (a *bufAnalysis) ge(v ssa.Value) bool {
	switch a.geMemo[v] {
	case 1, 2:
		return true
	case 3:
		return false
	}
	a.geMemo[v] = 1
	ok := a.ge1(v)
	if ok {
		a.geMemo[v] = 2
	} else {
		a.geMemo[v] = 3
		// assumptions made while in progress may be stale: clear optimistic entries
		for k, s := range a.geMemo {
			if s == 2 {
				_ = k
			}
		}
	}
	return ok
}

func (a *bufAnalysis) ge1(v ssa.Value) bool {
	switch x := v.(type) {
	case *ssa.Parameter:
		// an offset handed to an unexported helper together with the buffer: it is what every caller passes
		if a.fn.Object() == nil || a.fn.Object().Exported() || a.depth > 1 {
			return false
		}
		pi := -1
		for i, q := range a.fn.Params {
			if q == x {
				pi = i
			}
		}
		sites := staticCallersOf(a.fn)
		if pi < 0 || len(sites) == 0 {
			return false
		}
		for _, cs := range sites {
			caller := cs.Parent()
			ca := newBufAnalysis(caller)
			if ca == nil || pi >= len(cs.Common().Args) {
				return false
			}
			ca.depth = a.depth + 1
			// the buffer the helper works on is the caller's buffer
			sameBuf := false
			for i, q := range a.fn.Params {
				if a.roots[q] && i < len(cs.Common().Args) && ca.roots[cs.Common().Args[i]] {
					sameBuf = true
				}
			}
			if !sameBuf || !ca.ge(cs.Common().Args[pi]) {
				return false
			}
		}
		return true
	case *ssa.Call:
		if bi, ok := x.Call.Value.(*ssa.Builtin); ok && bi.Name() == "len" && a.whole[x.Call.Args[0]] {
			return true
		}
	case *ssa.BinOp:
		if x.Op == token.ADD {
			return (a.ge(x.X) && a.nonneg(x.Y)) || (a.ge(x.Y) && a.nonneg(x.X))
		}
	case *ssa.Phi:
		for _, e := range x.Edges {
			if !a.ge(e) {
				return false
			}
		}
		return true
	case *ssa.UnOp:
		// load of a local int cell: every store to it must be ge
		if x.Op == token.MUL {
			if al, ok := x.X.(*ssa.Alloc); ok {
				n := 0
				for _, r := range *al.Referrers() {
					if s, ok := r.(*ssa.Store); ok && s.Addr == al {
						n++
						if !a.ge(s.Val) {
							return false
						}
					}
				}
				return n > 0
			}
		}
	}
	return false
}

func (a *bufAnalysis) nonneg(v ssa.Value) bool {
	lb, ok := lowerBound(v, map[ssa.Value]int64{}, 0)
	return ok && lb >= 0
}

const lbInf = int64(1) << 40

// lowerBound computes a constant lower bound of an int value. Phis are solved
// by guess-and-verify: the candidate is the minimum over the edges that do not
// depend on the phi; the cyclic edges are then verified under the assumption
// phi >= candidate (covers `for i := range`, `offset += size`).
func lowerBound(v ssa.Value, assume map[ssa.Value]int64, d int) (int64, bool) {
	if d > 30 {
		return 0, false
	}
	if l, ok := assume[v]; ok {
		return l, true
	}
	switch x := v.(type) {
	case *ssa.Const:
		i, ok := core.ConstInt(x)
		return i, ok
	case *ssa.Call:
		if bi, ok := x.Call.Value.(*ssa.Builtin); ok && (bi.Name() == "len" || bi.Name() == "cap") {
			return 0, true
		}
	case *ssa.BinOp:
		l1, ok1 := lowerBound(x.X, assume, d+1)
		l2, ok2 := lowerBound(x.Y, assume, d+1)
		if !ok1 || !ok2 {
			return 0, false
		}
		switch x.Op {
		case token.ADD:
			return l1 + l2, true
		case token.MUL:
			if l1 >= 0 && l2 >= 0 {
				if l1 >= lbInf || l2 >= lbInf {
					return lbInf, true
				}
				return l1 * l2, true
			}
		}
	case *ssa.Phi:
		assume[x] = lbInf
		cand := lbInf
		for _, e := range x.Edges {
			l, ok := lowerBound(e, assume, d+1)
			if !ok {
				delete(assume, x)
				return 0, false
			}
			if l < cand {
				cand = l
			}
		}
		if cand >= lbInf/2 {
			delete(assume, x)
			return 0, false
		}
		assume[x] = cand
		for _, e := range x.Edges {
			l, ok := lowerBound(e, assume, d+1)
			if !ok || l < cand {
				delete(assume, x)
				return 0, false
			}
		}
		delete(assume, x)
		return cand, true
	case *ssa.Convert:
		if b, ok := x.X.Type().Underlying().(*types.Basic); ok && b.Info()&types.IsUnsigned != 0 {
			return 0, true
		}
		return lowerBound(x.X, assume, d+1)
	case *ssa.Extract:
		if _, ok := x.Tuple.(*ssa.Next); ok && x.Index == 0 {
			return 0, true
		}
	case *ssa.UnOp:
		if x.Op == token.MUL {
			if al, ok := x.X.(*ssa.Alloc); ok {
				n := 0
				min := lbInf
				for _, r := range *al.Referrers() {
					if s, ok := r.(*ssa.Store); ok && s.Addr == al {
						n++
						l, ok := lowerBound(s.Val, assume, d+1)
						if !ok {
							return 0, false
						}
						if l < min {
							min = l
						}
					}
				}
				if n > 0 {
					return min, true
				}
			}
		}
	}
	return 0, false
}

// bufferAPI: methods of Buffer itself that manage the buffer (exempt by role).
func isBufferMgmt(fn *ssa.Function) bool {
	if fn.Signature.Recv() == nil || !isBufferPtr(fn.Signature.Recv().Type()) {
		return false
	}
	switch fn.Name() {
	case "Reset", "Ensure", "Read", "Reader":
		return true
	}
	return false
}

// isBufferConsumer: the function hands the whole buffer to an io.Writer /
// net.Conn Write (its job is to read the buffer out).
func isBufferConsumer(fn *ssa.Function) bool {
	for _, c := range core.Calls(fn) {
		cc := c.Common()
		if cc.IsInvoke() && cc.Method.Name() == "Write" && len(cc.Args) == 1 {
			if u, ok := cc.Args[0].(*ssa.UnOp); ok && u.Op == token.MUL {
				if fa, ok := u.X.(*ssa.FieldAddr); ok && isBufferPtr(fa.X.Type()) {
					if _, isParam := fa.X.(*ssa.Parameter); isParam {
						return true
					}
				}
			}
		}
	}
	return false
}

// runBufDisc applies E4 to all encoder functions of p.
func runBufDisc(c *Ctx, p *core.Program, rule string) int {
	n := 0
	for _, fn := range p.Funcs() {
		if len(bufferRoots(fn)) == 0 {
			continue
		}
		key := core.FuncName(fn)
		pos := p.Pos(fn.Pos())
		if isBufferMgmt(fn) {
			c.R.Ok(rule, key, p.Cfg.Name, pos, "exempt: buffer-management API of Buffer itself").Trivial = true
			continue
		}
		if isBufferConsumer(fn) {
			c.R.Ok(rule, key, p.Cfg.Name, pos, "exempt by role: consumer that hands b.Buf to Write").Trivial = true
			continue
		}
		viol, touched := analyseBuffer(fn)
		n++
		if len(viol) == 0 {
			o := c.R.Ok(rule, key, p.Cfg.Name, pos, "b.Buf only measured, appended to, or touched at positions >= its entry length")
			o.Trivial = !touched
			continue
		}
		for _, v := range viol {
			c.R.Bad(rule, key, p.Cfg.Name, p.Pos(v.at.Pos()), v.what+"  ["+core.InstrString(v.at)+"]")
			break
		}
	}
	return n
}

// stdAppendBase: c is a call of a standard-library Append* function (encoding/binary's AppendUintN /
// AppendUvarint / ByteOrder methods, strconv.Append*, utf8.AppendRune) - functions documented to append to
// their []byte argument and return the extended slice; base is that argument.
func stdAppendBase(c *ssa.Call) (ssa.Value, bool) {
	f := core.CalleeFunc(c)
	if f == nil || f.Pkg() == nil || !strings.HasPrefix(f.Name(), "Append") {
		return nil, false
	}
	switch f.Pkg().Path() {
	case "encoding/binary", "strconv", "unicode/utf8":
	default:
		return nil, false
	}
	for _, a := range c.Call.Args {
		if sl, ok := a.Type().Underlying().(*types.Slice); ok {
			if bt, ok := sl.Elem().Underlying().(*types.Basic); ok && bt.Kind() == types.Uint8 {
				return a, true
			}
		}
	}
	return nil, false
}
