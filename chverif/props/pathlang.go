package props

import (
	"fmt"
	"go/constant"
	"go/token"
	"go/types"
	"sort"
	"strings"

	"golang.org/x/tools/go/ssa"

	"chverif/core"
)

// E2: path-language extraction and regular-language containment.
//
// A function is turned into an NFA whose transitions are atoms (calls that
// put something on / take something from the wire) or epsilon.  Statically
// resolved callees that handle the same stream are inlined; data conditions
// are erased (both edges kept); Feature.In gates are evaluated for one
// concrete revision; the non-nil edge of every error test is cut (failure
// paths are not part of the success language; that they only fail is C07).

type nfa struct {
	n      int
	eps    [][]int
	tr     []map[string][]int
	start  int
	final  map[int]bool
	undec  []string          // reasons the construction left the fragment
	atomAt map[string]string // label -> one source position (diagnostics)
}

func newNFA() *nfa { return &nfa{final: map[int]bool{}, atomAt: map[string]string{}} }

func (a *nfa) state() int {
	a.n++
	a.eps = append(a.eps, nil)
	a.tr = append(a.tr, nil)
	return a.n - 1
}
func (a *nfa) addEps(s, t int) { a.eps[s] = append(a.eps[s], t) }
func (a *nfa) addTr(s int, l string, t int) {
	if a.tr[s] == nil {
		a.tr[s] = map[string][]int{}
	}
	a.tr[s][l] = append(a.tr[s][l], t)
}

// atomKind is the classifier's decision for one instruction.
type atomKind int

const (
	akNone   atomKind = iota // epsilon
	akAtom                   // labelled transition
	akInline                 // inline the given function
	akDead                   // path ends here (not accepting)
)

type atomDecision struct {
	kind   atomKind
	label  string
	inline *ssa.Function
}

// langOpts parameterises the construction.
type langOpts struct {
	p        *core.Program
	classify func(fn *ssa.Function, in ssa.Instruction) atomDecision
	revision int64 // for Feature.In gates; <0: keep both edges
	maxDepth int
	// success decides whether a Return is an accepting exit; nil: default rule
	success func(fn *ssa.Function, r *ssa.Return) bool
}

func defaultSuccess(fn *ssa.Function, r *ssa.Return) bool {
	rv := core.ReturnErr(fn, r)
	if rv == nil {
		return true // no error result
	}
	if core.IsNilConst(rv) || core.MayBeNilError(rv, 0) {
		return true
	}
	if core.IsErrorCtor(rv) {
		return false
	}
	switch x := rv.(type) {
	case *ssa.Call:
		if isErrWrapper(x) {
			return false
		}
		return !onlyOnNonNilEdge(fn, r, rv) // tail call: success iff the callee succeeded
	case *ssa.Extract:
		return !onlyOnNonNilEdge(fn, r, rv)
	}
	return false
}

// onlyOnNonNilEdge: the return is reachable only through the non-nil edge of a test of v
// (`if err != nil { return err }`): a failure exit although v is returned unwrapped.
func onlyOnNonNilEdge(fn *ssa.Function, r *ssa.Return, v ssa.Value) bool {
	al := core.Aliases(fn, v)
	edges := core.CondEdges(fn, true, func(cond ssa.Value) (bool, bool) {
		x, nonNil, ok := nilCmp(cond)
		if !ok || !al[x] {
			return false, false
		}
		return nonNil, true
	})
	return len(edges) > 0 && core.OnlyViaEdges(fn, r, edges)
}

// buildLang constructs the automaton of fn.
func buildLang(fn *ssa.Function, o langOpts) *nfa {
	a := newNFA()
	if o.maxDepth == 0 {
		o.maxDepth = 8
	}
	if o.success == nil {
		o.success = defaultSuccess
	}
	a.start = a.state()
	end := a.state()
	a.final[end] = true
	buildInto(a, fn, o, 0, a.start, end, map[*ssa.Function]bool{})
	return a
}

func buildInto(a *nfa, fn *ssa.Function, o langOpts, depth int, entry, exit int, stack map[*ssa.Function]bool) {
	if fn.Blocks == nil {
		a.undec = append(a.undec, "no body for "+core.FuncName(fn))
		return
	}
	if depth > o.maxDepth || stack[fn] {
		a.undec = append(a.undec, "inlining bound / recursion at "+core.FuncName(fn))
		return
	}
	stack[fn] = true
	defer delete(stack, fn)
	// state before each instruction; the blocks of a counted loop (a loop whose
	// trip count is a compile-time constant, e.g. a range over an array literal)
	// get one copy per visit of the header, so the loop contributes exactly
	// that many iterations to the language and not a star
	loops := countedLoops(fn)
	loopOf := map[*ssa.BasicBlock]*countedLoop{}
	for _, l := range loops {
		for b := range l.body {
			loopOf[b] = l
		}
	}
	st := map[*ssa.BasicBlock][][]int{}
	for _, b := range fn.Blocks {
		copies := 1
		if l := loopOf[b]; l != nil {
			copies = l.n + 1
		}
		for k := 0; k < copies; k++ {
			arr := make([]int, len(b.Instrs)+1)
			for i := range arr {
				arr[i] = a.state()
			}
			st[b] = append(st[b], arr)
		}
	}
	// target returns the entry state of succ when left from copy k of from
	target := func(from *ssa.BasicBlock, k int, succ *ssa.BasicBlock) (int, bool) {
		l := loopOf[succ]
		if l == nil {
			return st[succ][0][0], true
		}
		if loopOf[from] != l {
			return st[succ][0][0], true
		}
		if succ == l.header {
			if k+1 > l.n {
				return 0, false
			}
			return st[succ][k+1][0], true
		}
		return st[succ][k][0], true
	}
	a.addEps(entry, st[fn.Blocks[0]][0][0])
	for _, b := range fn.Blocks {
		if b.Comment == "recover" {
			continue
		}
		for k := range st[b] {
			for i, in := range b.Instrs {
				s, t := st[b][k][i], st[b][k][i+1]
				switch x := in.(type) {
				case *ssa.Return:
					if o.success(fn, x) {
						a.addEps(s, exit)
					}
					continue
				case *ssa.Panic:
					continue
				case *ssa.If:
					for si, succ := range b.Succs {
						if l := loopOf[b]; l != nil && l.header == b {
							if l.taken[k] != si {
								continue
							}
						} else if !edgeKept(x, si, o) {
							continue
						}
						if tg, ok := target(b, k, succ); ok {
							a.addEps(s, tg)
						}
					}
					continue
				case *ssa.Jump:
					if tg, ok := target(b, k, b.Succs[0]); ok {
						a.addEps(s, tg)
					}
					continue
				}
				d := o.classify(fn, in)
				switch d.kind {
				case akAtom:
					a.addTr(s, d.label, t)
					if _, ok := a.atomAt[d.label]; !ok {
						a.atomAt[d.label] = o.p.Pos(in.Pos())
					}
				case akInline:
					ent, ext := a.state(), a.state()
					a.addEps(s, ent)
					a.addEps(ext, t)
					buildInto(a, d.inline, o, depth+1, ent, ext, stack)
				case akDead:
				default:
					a.addEps(s, t)
				}
			}
		}
	}
}

// countedLoop is a natural loop whose header tests a unit-step counter with a
// constant initial value against a constant: visit k of the header (k = 0..n)
// leaves through successor taken[k]; visits 0..n-1 enter the body, visit n exits.
type countedLoop struct {
	header *ssa.BasicBlock
	body   map[*ssa.BasicBlock]bool
	n      int
	taken  []int
}

const maxCountedTrips = 16

// countedLoops returns the outermost counted loops of fn.
func countedLoops(fn *ssa.Function) []*countedLoop {
	var out []*countedLoop
	for _, h := range fn.Blocks {
		if len(h.Instrs) == 0 || len(h.Succs) != 2 {
			continue
		}
		ifi, ok := h.Instrs[len(h.Instrs)-1].(*ssa.If)
		if !ok {
			continue
		}
		// natural loop of the back edges into h
		body := map[*ssa.BasicBlock]bool{h: true}
		var work []*ssa.BasicBlock
		outside := 0
		for _, p := range h.Preds {
			if h.Dominates(p) {
				if !body[p] {
					body[p] = true
					work = append(work, p)
				}
			} else {
				outside++
			}
		}
		if len(body) == 1 && !func() bool {
			for _, p := range h.Preds {
				if p == h {
					return true
				}
			}
			return false
		}() {
			continue
		}
		for len(work) > 0 {
			x := work[len(work)-1]
			work = work[:len(work)-1]
			for _, p := range x.Preds {
				if !body[p] {
					body[p] = true
					work = append(work, p)
				}
			}
		}
		// the counter: a phi of h with one constant edge from outside and one
		// edge from inside that is the phi plus a constant
		for _, in := range h.Instrs {
			ph, ok := in.(*ssa.Phi)
			if !ok {
				break
			}
			if len(ph.Edges) != 2 || outside != 1 {
				continue
			}
			var init, step int64
			okInit, okStep := false, false
			for i, e := range ph.Edges {
				if body[h.Preds[i]] {
					if bo, ok := e.(*ssa.BinOp); ok && (bo.Op == token.ADD || bo.Op == token.SUB) && bo.X == ph {
						if k, ok := intConstOf(bo.Y); ok {
							step, okStep = k, true
							if bo.Op == token.SUB {
								step = -k
							}
						}
					}
				} else if k, ok := intConstOf(e); ok {
					init, okInit = k, true
				}
			}
			if !okInit || !okStep || step == 0 {
				continue
			}
			var eval func(v ssa.Value, c int64, d int) (int64, bool)
			eval = func(v ssa.Value, c int64, d int) (int64, bool) {
				if v == ph {
					return c, true
				}
				if k, ok := intConstOf(v); ok {
					return k, true
				}
				if bo, ok := v.(*ssa.BinOp); ok && d < 4 && (bo.Op == token.ADD || bo.Op == token.SUB) {
					x, ok1 := eval(bo.X, c, d+1)
					y, ok2 := eval(bo.Y, c, d+1)
					if ok1 && ok2 {
						if bo.Op == token.ADD {
							return x + y, true
						}
						return x - y, true
					}
				}
				return 0, false
			}
			cmp, ok := ifi.Cond.(*ssa.BinOp)
			if !ok {
				continue
			}
			var taken []int
			done := false
			for k := 0; k <= maxCountedTrips; k++ {
				c := init + int64(k)*step
				x, ok1 := eval(cmp.X, c, 0)
				y, ok2 := eval(cmp.Y, c, 0)
				if !ok1 || !ok2 {
					break
				}
				var val bool
				switch cmp.Op {
				case token.LSS:
					val = x < y
				case token.LEQ:
					val = x <= y
				case token.GTR:
					val = x > y
				case token.GEQ:
					val = x >= y
				case token.NEQ:
					val = x != y
				case token.EQL:
					val = x == y
				default:
					ok1 = false
				}
				if !ok1 {
					break
				}
				si := 1
				if val {
					si = 0
				}
				taken = append(taken, si)
				if !body[h.Succs[si]] {
					done = true
					break
				}
			}
			if done {
				out = append(out, &countedLoop{header: h, body: body, n: len(taken) - 1, taken: taken})
				break
			}
		}
	}
	// keep only the outermost ones
	var keep []*countedLoop
	for _, l := range out {
		inner := false
		for _, m := range out {
			if m != l && m.body[l.header] {
				inner = true
			}
		}
		if !inner {
			keep = append(keep, l)
		}
	}
	return keep
}

// edgeKept applies gate evaluation and error-edge pruning to successor si of an If.
func edgeKept(ifi *ssa.If, si int, o langOpts) bool {
	cond, pol := core.StripNot(ifi.Cond)
	if k, _, ok := featureGate(cond); ok && o.revision >= 0 {
		val := o.revision >= k
		if !pol {
			val = !val
		}
		if val {
			return si == 0
		}
		return si == 1
	}
	// exhaustive switch over an enum-like named type: the no-match edge is infeasible
	if si == 1 && enumExhausted(ifi, o.p) {
		return false
	}
	// error test: keep only the nil edge
	if x, nonNilWhenTrue, ok := nilCmp(ifi.Cond); ok {
		if isErrorTyped(x) {
			nonNilSucc := 1
			if nonNilWhenTrue {
				nonNilSucc = 0
			}
			return si != nonNilSucc
		}
	}
	return true
}

func isErrorTyped(v ssa.Value) bool {
	return v.Type().String() == "error"
}

// ---------------------------------------------------------------------------
// determinisation and containment

type dfa struct {
	tr    []map[string]int
	final []bool
}

func (a *nfa) closure(set map[int]bool) {
	var stack []int
	for s := range set {
		stack = append(stack, s)
	}
	for len(stack) > 0 {
		s := stack[len(stack)-1]
		stack = stack[:len(stack)-1]
		for _, t := range a.eps[s] {
			if !set[t] {
				set[t] = true
				stack = append(stack, t)
			}
		}
	}
}

func setKey(set map[int]bool) string {
	ids := make([]int, 0, len(set))
	for s := range set {
		ids = append(ids, s)
	}
	sort.Ints(ids)
	var sb strings.Builder
	for _, i := range ids {
		fmt.Fprintf(&sb, "%d,", i)
	}
	return sb.String()
}

func (a *nfa) determinize() *dfa {
	d := &dfa{}
	index := map[string]int{}
	var sets []map[int]bool
	add := func(set map[int]bool) int {
		k := setKey(set)
		if i, ok := index[k]; ok {
			return i
		}
		i := len(sets)
		index[k] = i
		sets = append(sets, set)
		d.tr = append(d.tr, map[string]int{})
		fin := false
		for s := range set {
			if a.final[s] {
				fin = true
			}
		}
		d.final = append(d.final, fin)
		return i
	}
	s0 := map[int]bool{a.start: true}
	a.closure(s0)
	add(s0)
	for i := 0; i < len(sets); i++ {
		labels := map[string]map[int]bool{}
		for s := range sets[i] {
			for l, ts := range a.tr[s] {
				if labels[l] == nil {
					labels[l] = map[int]bool{}
				}
				for _, t := range ts {
					labels[l][t] = true
				}
			}
		}
		for l, set := range labels {
			a.closure(set)
			d.tr[i][l] = add(set)
		}
	}
	return d
}

// isEmpty reports whether the language is empty.
func (d *dfa) isEmpty() bool {
	seen := map[int]bool{0: true}
	stack := []int{0}
	for len(stack) > 0 {
		s := stack[len(stack)-1]
		stack = stack[:len(stack)-1]
		if d.final[s] {
			return false
		}
		for _, t := range d.tr[s] {
			if !seen[t] {
				seen[t] = true
				stack = append(stack, t)
			}
		}
	}
	return true
}

// contained checks L(x) ⊆ L(y); on failure it returns a shortest word of
// L(x) \ L(y).
func contained(x, y *dfa) (bool, []string) {
	type pair struct{ a, b int } // b == -1: dead
	type node struct {
		p    pair
		prev *node
		lab  string
	}
	seen := map[pair]bool{{0, 0}: true}
	queue := []*node{{p: pair{0, 0}}}
	for len(queue) > 0 {
		n := queue[0]
		queue = queue[1:]
		yFinal := n.p.b >= 0 && y.final[n.p.b]
		if x.final[n.p.a] && !yFinal {
			var w []string
			for m := n; m.prev != nil; m = m.prev {
				w = append([]string{m.lab}, w...)
			}
			return false, w
		}
		labs := make([]string, 0, len(x.tr[n.p.a]))
		for l := range x.tr[n.p.a] {
			labs = append(labs, l)
		}
		sort.Strings(labs)
		for _, l := range labs {
			ta := x.tr[n.p.a][l]
			tb := -1
			if n.p.b >= 0 {
				if t, ok := y.tr[n.p.b][l]; ok {
					tb = t
				}
			}
			np := pair{ta, tb}
			if !seen[np] {
				seen[np] = true
				queue = append(queue, &node{p: np, prev: n, lab: l})
			}
		}
	}
	return true, nil
}

// sampleWords returns up to n short words of the language (for evidence).
func (d *dfa) sampleWords(n, maxLen int) []string {
	var out []string
	type item struct {
		s int
		w []string
	}
	queue := []item{{0, nil}}
	for len(queue) > 0 && len(out) < n {
		it := queue[0]
		queue = queue[1:]
		if d.final[it.s] {
			out = append(out, strings.Join(it.w, " "))
		}
		if len(it.w) >= maxLen {
			continue
		}
		labs := make([]string, 0)
		for l := range d.tr[it.s] {
			labs = append(labs, l)
		}
		sort.Strings(labs)
		for _, l := range labs {
			queue = append(queue, item{d.tr[it.s][l], append(append([]string{}, it.w...), l)})
		}
		if len(queue) > 4000 {
			break
		}
	}
	return out
}

// enumExhausted: ifi tests `x == k` as the last case of a switch chain on x
// (reached through the false edges of earlier `x == k_i` tests) and the tested
// constants cover every declared constant of x's named type.
func enumExhausted(ifi *ssa.If, p *core.Program) bool {
	bo, ok := ifi.Cond.(*ssa.BinOp)
	if !ok || bo.Op != token.EQL {
		return false
	}
	named := core.NamedOf(bo.X.Type())
	if named == nil || named.Obj().Pkg() == nil || !core.IsLib(named.Obj().Pkg()) {
		return false
	}
	tested := map[int64]bool{}
	b := ifi.Block()
	x := bo.X
	laterPure := true // every later block of the chain only loads and compares
	for {
		last, ok := b.Instrs[len(b.Instrs)-1].(*ssa.If)
		if !ok {
			break
		}
		c, ok := last.Cond.(*ssa.BinOp)
		if !ok || c.Op != token.EQL || !sameSelector(c.X, x, laterPure) {
			break
		}
		k, ok := core.ConstInt(c.Y)
		if !ok {
			break
		}
		tested[k] = true
		// predecessor in the chain: single pred whose false edge is b
		if len(b.Preds) != 1 || len(b.Preds[0].Succs) != 2 || b.Preds[0].Succs[1] != b {
			break
		}
		laterPure = laterPure && pureTestBlock(b)
		b = b.Preds[0]
	}
	sc := named.Obj().Pkg().Scope()
	n := 0
	for _, name := range sc.Names() {
		cst, ok := sc.Lookup(name).(*types.Const)
		if !ok || !types.Identical(cst.Type(), named) {
			continue
		}
		v, ok := core.ConstInt(ssa.NewConst(cst.Val(), cst.Type()))
		if !ok {
			return false
		}
		n++
		if !tested[v] {
			return false
		}
	}
	return n > 0
}

// sameSelector: a and b are the same value, or two loads of the same field of the same object while
// every later block of the chain only loads and compares (an if-else chain re-reads the field per
// test; nothing between the tests can have changed it).
func sameSelector(a, b ssa.Value, laterPure bool) bool {
	if a == b {
		return true
	}
	if !laterPure {
		return false
	}
	la, ok1 := a.(*ssa.UnOp)
	lb, ok2 := b.(*ssa.UnOp)
	if !ok1 || !ok2 || la.Op != token.MUL || lb.Op != token.MUL {
		return false
	}
	fa, ok1 := la.X.(*ssa.FieldAddr)
	fb, ok2 := lb.X.(*ssa.FieldAddr)
	return ok1 && ok2 && fa.X == fb.X && fa.Field == fb.Field
}

func pureTestBlock(x *ssa.BasicBlock) bool {
	for _, in := range x.Instrs {
		switch in.(type) {
		case *ssa.FieldAddr, *ssa.UnOp, *ssa.BinOp, *ssa.If, *ssa.DebugRef, *ssa.Convert, *ssa.ChangeType:
		default:
			return false
		}
	}
	return true
}

// normaliseRaw: when either automaton moves raw bytes of unknown length ("RAW"),
// the sized labels ("RAW16") of both are compared as plain "RAW".
func normaliseRaw(a, b *nfa) {
	has := func(x *nfa) bool {
		for _, m := range x.tr {
			if _, ok := m["RAW"]; ok {
				return true
			}
		}
		return false
	}
	if !has(a) && !has(b) {
		return
	}
	for _, x := range []*nfa{a, b} {
		for s, m := range x.tr {
			for l, ts := range m {
				if strings.HasPrefix(l, "RAW") && l != "RAW" {
					for _, t := range ts {
						x.addTr(s, "RAW", t)
					}
					delete(m, l)
				}
			}
		}
	}
}

// intConstOf returns the value of an integer constant (conversions stripped).
func intConstOf(v ssa.Value) (int64, bool) {
	c, ok := stripConv(v).(*ssa.Const)
	if !ok || c.Value == nil || c.Value.Kind() != constant.Int {
		return 0, false
	}
	return c.Int64(), true
}
