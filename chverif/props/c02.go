package props

import (
	"go/token"
	"go/types"
	"sort"
	"strings"

	"golang.org/x/tools/go/ssa"

	"chverif/core"
)

func init() { register("C02", runC02) }

func runC02(c *Ctx) {
	p := c.Prog(core.CfgDefault)
	if p == nil {
		return
	}
	cfg := p.Cfg.Name
	r := resolveDo(c, p)
	if r == nil {
		return
	}
	sq := p.Method(core.PkgCh, "Client", "sendQuery")
	eb := p.Method(core.PkgCh, "Client", "encodeBlock")
	if !c.must(p, "(*ch.Client).sendQuery / encodeBlock", sq != nil && eb != nil) {
		return
	}
	succ := func(fn *ssa.Function) func(ssa.Instruction) bool {
		return func(in ssa.Instruction) bool {
			rt, ok := in.(*ssa.Return)
			return ok && defaultSuccess(fn, rt)
		}
	}

	// the revision everything is encoded with is the negotiated one (rule group of C13)
	if hs := p.Method(core.PkgCh, "Client", "handshake"); hs != nil {
		for _, a := range hs.AnonFuncs {
			if core.ReachesCallee(a, isClientMethod("packet"), 1) {
				ruleNegotiatedMin(c, p, "C02.min", a)
			}
		}
	}

	// ---- C02.order
	rule := "C02.order"
	c.R.Rule(rule, "path rules over sendQuery and the sender goroutine: the Query packet is encoded first and once; the external-data block is encoded only when external data is given and before the terminator; every success exit of sendQuery has passed exactly one empty terminator block after the query; the sender flushes after sendQuery and (C09) after the input stream; errors of each step are honoured")
	func() {
		var qEnc, ext, blank []ssa.Instruction
		for _, call := range core.Calls(sq) {
			in := call.(ssa.Instruction)
			f := core.CalleeFunc(call)
			switch {
			case f == nil:
			case core.IsMethod(f, core.PkgCh, "Client", "encode"):
				if mi, ok := call.Common().Args[1].(*ssa.MakeInterface); ok && core.IsNamed(mi.X.Type(), core.PkgProto, "Query") {
					qEnc = append(qEnc, in)
				}
			case core.IsMethod(f, core.PkgCh, "Client", "encodeBlankBlock"):
				blank = append(blank, in)
			case core.IsMethod(f, core.PkgCh, "Client", "encodeBlock"):
				args := call.Common().Args
				if core.IsNilConst(args[len(args)-1]) {
					blank = append(blank, in)
				} else {
					ext = append(ext, in)
				}
			}
		}
		key := core.FuncName(sq)
		if len(qEnc) != 1 || len(blank) != 1 || len(ext) > 1 {
			c.R.Bad(rule, key, cfg, p.Pos(sq.Pos()), sprintf("sendQuery encodes %d Query packets, %d external-data blocks and %d terminators (expected 1, at most 1, 1)", len(qEnc), len(ext), len(blank)))
			return
		}
		q, b := qEnc[0], blank[0]
		bad := false
		fail := func(msg string, at ssa.Instruction) {
			bad = true
			c.R.Bad(rule, key, cfg, p.Pos(at.Pos()), msg)
		}
		if core.InLoop(q) || core.InLoop(b) {
			fail("query packet or terminator is encoded in a loop", q)
		}
		if !core.Dominates(q, b) {
			fail("the terminator block is not preceded by the Query packet on every path", b)
		}
		for _, e := range ext {
			if !core.Dominates(q, e) {
				fail("external data can be sent before the Query packet", e)
			}
			if len(core.ReachAvoiding(core.PointOf(b), func(x ssa.Instruction) bool { return x == e }, nil, nil)) > 0 {
				fail("external data can be sent after its terminator", e)
			}
			// only when ExternalData is non-empty
			edges := core.CondEdges(sq, true, func(cond ssa.Value) (bool, bool) {
				bo, ok := cond.(*ssa.BinOp)
				if !ok || bo.Op != token.GTR {
					return false, false
				}
				cl, ok := bo.X.(*ssa.Call)
				if !ok {
					return false, false
				}
				bi, ok := cl.Call.Value.(*ssa.Builtin)
				return true, ok && bi.Name() == "len" && core.FieldOrigin(cl.Call.Args[0], 0) == "Query.ExternalData"
			})
			if len(edges) == 0 || !core.OnlyViaEdges(sq, e, edges) {
				fail("the external-data block is not conditional on len(q.ExternalData) > 0", e)
			}
			// its columns are the caller's
			args := e.(ssa.CallInstruction).Common().Args
			if core.FieldOrigin(args[len(args)-1], 0) != "Query.ExternalData" {
				fail("the external-data block is not built from Query.ExternalData", e)
			}
		}
		if w := core.ReachAvoiding(core.Entry(sq), succ(sq), func(x ssa.Instruction) bool { return x == b }, nil); len(w) > 0 {
			fail("sendQuery can succeed without the end-of-external-data terminator: the server keeps waiting for external tables", w[0].At)
		}
		if w := core.ReachAvoiding(core.Entry(sq), succ(sq), func(x ssa.Instruction) bool { return x == q }, nil); len(w) > 0 {
			fail("sendQuery can succeed without encoding the Query packet", w[0].At)
		}
		if !bad {
			c.R.Ok(rule, key, cfg, p.Pos(q.Pos()), "Query, [external data], terminator - in this order on every success path")
		}
		cls := func(fn *ssa.Function, call ssa.CallInstruction) bool {
			in := call.(ssa.Instruction)
			return in == b || (len(ext) == 1 && in == ext[0])
		}
		runErrDisc(c, p, []*ssa.Function{sq}, errDiscOpts{Rule: rule, Class: cls})
		// sender: sendQuery then flush before anything else
		var sqCall ssa.Instruction
		sender := bodyOf(r.Sender)
		for _, call := range core.Calls(sender) {
			if core.StaticFn(call) == sq {
				sqCall = call.(ssa.Instruction)
			}
		}
		if sqCall == nil {
			c.R.Bad(rule, core.FuncName(sender), cfg, p.Pos(sender.Pos()), "the sender does not call sendQuery")
		} else {
			w := core.ReachAvoiding(core.PointOf(sqCall), func(x ssa.Instruction) bool {
				if succ(sender)(x) {
					return true
				}
				cl, ok := x.(ssa.CallInstruction)
				return ok && core.CalleeFunc(cl) != nil && core.IsMethod(core.CalleeFunc(cl), core.PkgCh, "Client", "sendInput")
			}, func(x ssa.Instruction) bool { return core.IsCallOf(x, isClientMethod("flush")) }, nil)
			if len(w) > 0 {
				c.R.Bad(rule, core.FuncName(sender), cfg, p.Pos(w[0].At.Pos()), "the query is not flushed before the sender waits for column info / streams input: the server never sees the query and both sides wait")
			} else {
				c.R.Ok(rule, core.FuncName(sender), cfg, p.Pos(sqCall.Pos()), "sendQuery -> flush -> input")
			}
		}
	}()

	// ---- C02.wiring
	rule = "C02.wiring"
	c.R.Rule(rule, "provenance of the Query packet's fields in sendQuery (oracle: the statement): ID, Body, Secret, Parameters, QuotaKey, InitialUser and InitialQueryID come from the caller's Query fields of the same meaning, Compression and ProtocolVersion from the client, Settings from querySettings, whose loop over the connection-level settings precedes the loop over the query-level settings and copies Key/Value/Important field by field; the Data packet's table name is the block's table name")
	func() {
		checkWiring(c, p, rule, sq, "Query", map[string]string{"ID": "Query.QueryID", "Body": "Query.Body", "Secret": "Query.Secret", "Parameters": "Query.Parameters", "Compression": "Client.compression"})
		checkWiring(c, p, rule, sq, "ClientInfo", map[string]string{"ProtocolVersion": "Client.protocolVersion", "InitialUser": "Query.InitialUser", "InitialQueryID": "Query.QueryID", "QuotaKey": "Query.QuotaKey"})
		// the caller's Query is not rewritten from connection state on the way (q.QuotaKey = c.quotaKey under some
		// condition would pass the literal check above, which sees a load of the Query field)
		for _, b := range sq.Blocks {
			for _, in := range b.Instrs {
				st, ok := in.(*ssa.Store)
				if !ok {
					continue
				}
				fa, ok := st.Addr.(*ssa.FieldAddr)
				if !ok || !core.IsNamed(derefType(fa.X.Type()), core.PkgCh, "Query") {
					continue
				}
				if o := core.FieldOrigin(st.Val, 0); strings.HasPrefix(o, "Client.") {
					c.R.Bad(rule, "literal/Query."+fieldNameOnly(fa.X.Type(), fa.Field)+"/overwritten", cfg, p.Pos(st.Pos()), sprintf("sendQuery overwrites the caller's Query.%s with %s before encoding it", fieldNameOnly(fa.X.Type(), fa.Field), o))
				}
			}
		}
		// Settings <- the settings builder: whatever library function produces the value stored there
		var qs *ssa.Function
		var qsCall *ssa.Call
		for _, b := range sq.Blocks {
			for _, in := range b.Instrs {
				s, ok := in.(*ssa.Store)
				if !ok {
					continue
				}
				fa, ok := s.Addr.(*ssa.FieldAddr)
				if !ok || !core.IsNamed(fa.X.Type(), core.PkgProto, "Query") || fieldNameOnly(fa.X.Type(), fa.Field) != "Settings" {
					continue
				}
				if cl, ok := s.Val.(*ssa.Call); ok {
					if f := core.StaticFn(cl); f != nil && f.Blocks != nil && pkgOf(f) != nil && pkgOf(f).Path() == core.PkgCh {
						qs, qsCall = f, cl
					}
				}
			}
		}
		if qs != nil {
			c.R.Ok(rule, core.FuncName(sq)+"/Query.Settings", cfg, p.Pos(sq.Pos()), "Settings <- "+qs.Name()+"(...)")
		} else {
			c.R.Bad(rule, core.FuncName(sq)+"/Query.Settings", cfg, p.Pos(sq.Pos()), "the packet's settings are not produced by a settings builder of package ch")
		}
		// which of its parameters carry the connection-level / query-level list (by what the call site passes)
		paramSrc := map[ssa.Value]string{}
		if qs != nil {
			for i, a := range qsCall.Call.Args {
				if o := core.FieldOrigin(a, 0); (o == "Client.settings" || o == "Query.Settings") && i < len(qs.Params) {
					paramSrc[qs.Params[i]] = o
				}
			}
		}
		srcOf := func(v ssa.Value) string {
			if o := core.FieldOrigin(v, 0); o == "Client.settings" || o == "Query.Settings" {
				return o
			}
			return paramSrc[v]
		}
		if qs != nil {
			// the conversion may live in querySettings itself or in a package helper it calls
			family := []*ssa.Function{qs}
			for _, f := range core.StaticReachList(qs) {
				if f != qs && f.Blocks != nil && pkgOf(f) != nil && pkgOf(f).Path() == core.PkgCh {
					family = append(family, f)
				}
			}
			lit := qs
			for _, f := range family {
				for _, bb := range f.Blocks {
					for _, in := range bb.Instrs {
						if fa, ok := in.(*ssa.FieldAddr); ok && core.IsNamed(fa.X.Type(), core.PkgProto, "Setting") {
							lit = f
						}
					}
				}
			}
			checkWiring(c, p, rule, lit, "Setting", map[string]string{"Key": "Setting.Key", "Value": "Setting.Value", "Important": "Setting.Important"})
			// order: the first use of the connection-level list dominates the first use of the query-level list
			firstUse := func(origin string) ssa.Instruction {
				var uses []ssa.Instruction
				for _, bb := range qs.Blocks {
					for _, in := range bb.Instrs {
						if _, isDbg := in.(*ssa.DebugRef); isDbg {
							continue
						}
						for _, op := range in.Operands(nil) {
							if *op != nil && srcOf(*op) == origin {
								if _, isLoad := in.(*ssa.UnOp); isLoad && core.FieldOrigin(in.(ssa.Value), 0) == origin {
									continue // the load itself
								}
								uses = append(uses, in)
							}
						}
					}
				}
				var best ssa.Instruction
				for _, u := range uses {
					if best == nil || core.Dominates(u, best) {
						best = u
					}
				}
				return best
			}
			first, second := firstUse("Client.settings"), firstUse("Query.Settings")
			switch {
			case first == nil || second == nil:
				c.R.Bad(rule, core.FuncName(qs)+"/order", cfg, p.Pos(qs.Pos()), "querySettings does not use both the connection-level and the query-level settings")
			case !core.Dominates(first, second):
				c.R.Bad(rule, core.FuncName(qs)+"/order", cfg, p.Pos(second.Pos()), "query-level settings are not placed after the connection-level ones: the server applies them in order, so a query can no longer override a connection default")
			default:
				c.R.Ok(rule, core.FuncName(qs)+"/order", cfg, p.Pos(first.Pos()), "connection-level settings first, then query-level")
			}
			// every setting of both lists is forwarded: the append runs on every iteration
			nApp := 0
			var famBlocks []*ssa.BasicBlock
			for _, f := range family {
				famBlocks = append(famBlocks, f.Blocks...)
			}
			for _, b := range famBlocks {
				for _, in := range b.Instrs {
					cl, ok := in.(*ssa.Call)
					if !ok {
						continue
					}
					if bi, ok := cl.Call.Value.(*ssa.Builtin); !ok || bi.Name() != "append" || !core.InLoop(cl) {
						continue
					}
					nApp++
					if w := core.SkippedInLoop(cl); len(w) > 0 {
						c.R.Bad(rule, core.FuncName(qs)+"/all", cfg, p.Pos(cl.Pos()), "an iteration over the settings can skip the append: some of the caller's settings (e.g. a query-level setting whose key also exists at connection level) never reach the Query packet", p.TrailString(w[0])...)
					} else {
						c.R.Ok(rule, sprintf("%s/all#%d", core.FuncName(qs), nApp), cfg, p.Pos(cl.Pos()), "appended on every iteration")
					}
				}
			}
			if nApp == 0 {
				c.R.Unk(rule, core.FuncName(qs)+"/all", cfg, p.Pos(qs.Pos()), "no append inside a loop found in querySettings")
			}
		}
		// Data packet header carries the block's table name
		okTN := false
		// built in encodeBlock itself ...
		for _, b := range eb.Blocks {
			for _, in := range b.Instrs {
				st, ok := in.(*ssa.Store)
				if !ok {
					continue
				}
				fa, ok := st.Addr.(*ssa.FieldAddr)
				if !ok || !core.IsNamed(fa.X.Type(), core.PkgProto, "ClientData") || fieldNameOnly(fa.X.Type(), fa.Field) != "TableName" {
					continue
				}
				if core.DependsOn(st.Val, func(v ssa.Value) bool {
					if pr, ok := v.(*ssa.Parameter); ok {
						return pr.Name() == "tableName"
					}
					return isParamCell(eb, v, "tableName")
				}, false) {
					okTN = true
				}
			}
		}
		// ... or inside the closure handed to the writer
		for _, a := range eb.AnonFuncs {
			for _, b := range a.Blocks {
				for _, in := range b.Instrs {
					s, ok := in.(*ssa.Store)
					if !ok {
						continue
					}
					fa, ok := s.Addr.(*ssa.FieldAddr)
					if !ok || !core.IsNamed(fa.X.Type(), core.PkgProto, "ClientData") || fieldNameOnly(fa.X.Type(), fa.Field) != "TableName" {
						continue
					}
					if core.DependsOn(s.Val, func(v ssa.Value) bool {
						fv, ok := v.(*ssa.FreeVar)
						if !ok {
							return false
						}
						bnd := freeVarBinding(eb, a, fv.Name())
						if pr, ok := bnd.(*ssa.Parameter); ok {
							return pr.Name() == "tableName"
						}
						return bnd != nil && isParamCell(eb, bnd, "tableName")
					}, false) {
						okTN = true
					}
				}
			}
		}
		if !okTN {
			// ... or in a helper of package ch that is handed the name
			for _, prm := range eb.Params {
				if prm.Name() == "tableName" {
					if _, found, fromArg, _ := headerEncoding(eb, prm); found && fromArg {
						okTN = true
					}
				}
			}
		}
		if okTN {
			c.R.Ok(rule, core.FuncName(eb)+"/ClientData.TableName", cfg, p.Pos(eb.Pos()), "TableName <- tableName")
		} else {
			c.R.Bad(rule, core.FuncName(eb)+"/ClientData.TableName", cfg, p.Pos(eb.Pos()), "the Data packet does not carry the block's table name")
		}
	}()

	// ---- C02.block
	rule = "C02.block"
	c.R.Rule(rule, "encodeBlock: every block starts with the Data packet code and the ClientData header; without compression the block goes through WriteBlock; otherwise it is encoded after remembering the buffer length, compressed only when compression is enabled, and the uncompressed bytes are replaced by exactly one frame (append to buf[:start] of the compressor's output, copied into the client's own buffer)")
	func() {
		key := core.FuncName(eb)
		var hdr *ssa.Function
		for a := range core.StaticReach(eb, 2) {
			if len(core.FindCalls(a, func(f *types.Func) bool { return core.IsMethod(f, core.PkgProto, "ClientData", "EncodeAware") })) > 0 {
				hdr = a
			}
		}
		okHdr := false
		if hdr != nil {
			code, _ := constOf(p, core.PkgProto, "ClientCodeData")
			var seq []string
			for _, call := range core.Calls(hdr) {
				f := core.CalleeFunc(call)
				if f == nil {
					continue
				}
				if core.IsMethod(f, core.PkgProto, "ClientCode", "Encode") {
					if v, ok := core.ConstInt(call.Common().Args[0]); ok && v == code {
						seq = append(seq, "code")
					}
				}
				if core.IsMethod(f, core.PkgProto, "ClientData", "EncodeAware") {
					seq = append(seq, "clientdata")
				}
			}
			okHdr = strings.Join(seq, ",") == "code,clientdata"
		}
		if okHdr {
			c.R.Ok(rule, key+"/header", cfg, p.Pos(eb.Pos()), "ClientCodeData, ClientData")
		} else {
			c.R.Bad(rule, key+"/header", cfg, p.Pos(eb.Pos()), "a block does not start with the Data packet code followed by the ClientData header")
		}
		// header dominates the body
		wb := core.FindCalls(eb, func(f *types.Func) bool { return core.IsMethod(f, core.PkgProto, "Block", "WriteBlock") })
		disabled := core.CondEdges(eb, true, func(cond ssa.Value) (bool, bool) {
			bo, ok := cond.(*ssa.BinOp)
			if !ok || (bo.Op != token.EQL && bo.Op != token.NEQ) || core.FieldOrigin(bo.X, 0) != "Client.compression" {
				return false, false
			}
			k, okc := core.ConstInt(bo.Y)
			dis, _ := constOf(p, core.PkgProto, "CompressionDisabled")
			if !okc || k != dis {
				return false, false
			}
			return bo.Op == token.EQL, true
		})
		if len(wb) != 1 || len(disabled) == 0 || !core.OnlyViaEdges(eb, wb[0].(ssa.Instruction), disabled) {
			c.R.Bad(rule, key+"/plain", cfg, p.Pos(eb.Pos()), "the vectored WriteBlock path is not confined to compression == Disabled (an uncompressed block would be sent on a compressed connection, or vice versa)")
		} else {
			c.R.Ok(rule, key+"/plain", cfg, p.Pos(wb[0].Pos()), "WriteBlock iff compression disabled")
		}
		// compressed closure
		var cl *ssa.Function
		for a := range core.StaticReach(eb, 2) {
			if pkgOf(a) == nil || pkgOf(a).Path() != core.PkgCh {
				continue
			}
			if len(core.FindCalls(a, func(f *types.Func) bool { return core.IsMethod(f, core.PkgCompress, "Writer", "Compress") })) > 0 {
				cl = a
			}
		}
		if cl == nil {
			c.R.Bad(rule, key+"/compressed", cfg, p.Pos(eb.Pos()), "no compression of blocks")
			return
		}
		comp := core.FindCalls(cl, func(f *types.Func) bool { return core.IsMethod(f, core.PkgCompress, "Writer", "Compress") })[0].(ssa.Instruction)
		isEncode := func(f *types.Func) bool { return core.IsMethod(f, core.PkgProto, "Block", "EncodeBlock") }
		enc := core.FindCalls(cl, isEncode)
		// the compress-and-splice step may live in a helper that the encoding closure calls with the buffer
		// and the start offset: the encoding is then looked for in the caller, the offset at the call site
		var host *ssa.Function
		var hostCall ssa.CallInstruction
		if len(enc) == 0 {
			for a := range core.StaticReach(eb, 2) {
				if pkgOf(a) == nil || pkgOf(a).Path() != core.PkgCh || a == cl {
					continue
				}
				for _, call := range core.Calls(a) {
					if core.StaticFn(call) == cl && len(core.FindCalls(a, isEncode)) == 1 {
						host, hostCall = a, call
					}
				}
			}
			if host != nil {
				enc = core.FindCalls(host, isEncode)
			}
		}
		if len(enc) != 1 {
			c.R.Bad(rule, key+"/compressed", cfg, p.Pos(cl.Pos()), "compressed path does not encode the block exactly once")
			return
		}
		bad := false
		after := comp
		if host != nil {
			after = hostCall.(ssa.Instruction)
		}
		if !core.Dominates(enc[0].(ssa.Instruction), after) {
			bad = true
			c.R.Bad(rule, key+"/compressed", cfg, p.Pos(comp.Pos()), "compression does not follow the encoding of the block")
		}
		// Compress(arg) = buf.Buf[start:] with start = len(buf.Buf) taken before EncodeBlock
		arg := comp.(ssa.CallInstruction).Common().Args[1]
		sl, ok := arg.(*ssa.Slice)
		startOK := false
		var start ssa.Value
		if ok && sl.Low != nil && sl.High == nil && core.FieldOrigin(sl.X, 0) == "Buffer.Buf" {
			start = sl.Low
			lenSrc := start
			if pr, isP := start.(*ssa.Parameter); isP && host != nil {
				// the offset parameter of the helper: what the encoding closure passes for it
				for i, q := range cl.Params {
					if q == pr && i < len(hostCall.Common().Args) {
						lenSrc = hostCall.Common().Args[i]
					}
				}
			}
			if lc, ok := lenSrc.(*ssa.Call); ok {
				if bi, ok := lc.Call.Value.(*ssa.Builtin); ok && bi.Name() == "len" && core.FieldOrigin(lc.Call.Args[0], 0) == "Buffer.Buf" && core.Dominates(lc, enc[0].(ssa.Instruction)) {
					startOK = true
				}
			}
		}
		if !startOK {
			bad = true
			c.R.Bad(rule, key+"/compressed", cfg, p.Pos(comp.Pos()), "what is compressed is not exactly the bytes this block appended (buf[start:], start = length before encoding)")
		}
		// splice
		spliceOK := false
		for _, b := range cl.Blocks {
			for _, in := range b.Instrs {
				s, ok := in.(*ssa.Store)
				if !ok {
					continue
				}
				if !isBufAddr(s.Addr) {
					continue
				}
				ap, ok := s.Val.(*ssa.Call)
				if !ok {
					continue
				}
				bi, ok := ap.Call.Value.(*ssa.Builtin)
				if !ok || bi.Name() != "append" {
					continue
				}
				base, ok := ap.Call.Args[0].(*ssa.Slice)
				if ok && base.Low == nil && base.High == start && core.FieldOrigin(ap.Call.Args[1], 0) == "Writer.Data" && core.Dominates(comp, s) {
					spliceOK = true
				}
			}
		}
		if !spliceOK {
			bad = true
			c.R.Bad(rule, key+"/compressed", cfg, p.Pos(comp.Pos()), "the uncompressed encoding is not replaced by the frame (buf.Buf = append(buf.Buf[:start], compressor.Data...)): raw and compressed bytes would both be sent, or the frame would alias the compressor's reusable buffer")
		}
		if !bad {
			c.R.Ok(rule, key+"/compressed", cfg, p.Pos(comp.Pos()), "encode -> compress(buf[start:]) -> splice into buf[:start]")
		}
	}()

	// ---- C02.writers
	rule = "C02.writers"
	c.R.Rule(rule, "who-may-write: in package ch (client side) net.Conn.Write is called only by flushBuf, (*proto.Writer).Flush only by Client.flush, ChainWrite (which captures the caller's slice until Flush) only from package proto's column writers; the receive goroutine reaches no writer at all and the cancel-watch reaches only flushBuf with its private buffer")
	func() {
		n := 0
		for _, fn := range p.Funcs() {
			if pkgOf(fn) == nil || isServerSide(fn) {
				continue
			}
			inCh := pkgOf(fn).Path() == core.PkgCh
			for _, call := range core.Calls(fn) {
				f := core.CalleeFunc(call)
				if f == nil {
					continue
				}
				cc := call.Common()
				key := core.CallKey(fn, call)
				switch {
				case inCh && cc.IsInvoke() && f.Name() == "Write" && core.IsNamed(cc.Value.Type(), "net", "Conn"):
					n++
					if fn.Name() == "flushBuf" {
						c.R.Ok(rule, key, cfg, p.Pos(call.Pos()), "the one raw connection write")
					} else {
						c.R.Bad(rule, key, cfg, p.Pos(call.Pos()), "bytes are written to the connection outside flushBuf / the vectored writer")
					}
				case isWriterFlush(f):
					n++
					if inCh && fn.Name() == "flush" {
						c.R.Ok(rule, key, cfg, p.Pos(call.Pos()), "the one flush")
					} else if inCh {
						c.R.Bad(rule, key, cfg, p.Pos(call.Pos()), "the vectored writer is flushed outside Client.flush")
					}
				case core.IsMethod(f, core.PkgProto, "Writer", "ChainWrite"):
					n++
					if inCh {
						c.R.Bad(rule, key, cfg, p.Pos(call.Pos()), "package ch chains a slice into the writer by reference: it stays referenced until Flush, so any buffer that is reused before then (the compressor's output, a scratch buffer) is sent with later contents")
					} else {
						c.R.Ok(rule, key, cfg, p.Pos(call.Pos()), "column writer chaining caller-owned column memory").Trivial = true
					}
				}
			}
		}
		c.R.Count("writer call sites", n)
		isWrite := func(f *types.Func) bool {
			return isWriterFlush(f) || core.IsMethod(f, core.PkgProto, "Writer", "ChainWrite") || core.IsMethod(f, core.PkgProto, "Writer", "ChainBuffer") || isClientMethod("flushBuf")(f) || isClientMethod("flush")(f)
		}
		if core.ReachesCallee(r.Receiver, isWrite, 6) {
			c.R.Bad(rule, core.FuncName(r.Receiver)+"/no-writes", cfg, p.Pos(r.Receiver.Pos()), "the receive goroutine reaches the writer")
		} else {
			c.R.Ok(rule, core.FuncName(r.Receiver)+"/no-writes", cfg, p.Pos(r.Receiver.Pos()), "receiver writes nothing")
		}
		if core.ReachesCallee(r.Watch, func(f *types.Func) bool {
			return isWriterFlush(f) || core.IsMethod(f, core.PkgProto, "Writer", "ChainWrite") || core.IsMethod(f, core.PkgProto, "Writer", "ChainBuffer")
		}, 6) {
			c.R.Bad(rule, core.FuncName(r.Watch)+"/private-buffer", cfg, p.Pos(r.Watch.Pos()), "the cancel-watch writes through the shared writer")
		} else {
			c.R.Ok(rule, core.FuncName(r.Watch)+"/private-buffer", cfg, p.Pos(r.Watch.Pos()), "cancel-watch writes only its private buffer")
		}
	}()

	// ---- C02.compression
	rule = "C02.compression"
	c.R.Rule(rule, "table extraction from Connect: every ch.Compression option selects proto.CompressionEnabled together with the compress.Method of the same name (LZ4, LZ4HC, ZSTD, None), anything else selects CompressionDisabled; the compressor is constructed from that method and Client.compression from that flag")
	func() {
		cn := p.Func(core.PkgCh, "Connect")
		if cn == nil {
			return
		}
		// the function holding the option switch: Connect or a package helper it calls
		isSel := func(v ssa.Value) bool { return core.IsNamed(v.Type(), core.PkgCh, "Compression") }
		var sw *ssa.Function
		for _, f := range append([]*ssa.Function{cn}, core.StaticReachList(cn)...) {
			if f == nil || f.Blocks == nil || f.Pkg == nil || f.Pkg.Pkg.Path() != core.PkgCh {
				continue
			}
			if n := len(switchTable(f, isSel)); n > 0 && (sw == nil || n > len(switchTable(sw, isSel)) || n == len(switchTable(sw, isSel)) && f.String() < sw.String()) {
				sw = f
			}
		}
		if sw == nil {
			c.R.Unk(rule, "table", cfg, p.Pos(cn.Pos()), "no switch over ch.Compression reachable from Connect")
			return
		}
		enabled, _ := constOf(p, core.PkgProto, "CompressionEnabled")
		// partial evaluation of sw with the option fixed to k: blocks feasible when
		// every `option == const` test takes the matching edge
		feasibleFor := func(k int64) map[*ssa.BasicBlock]bool {
			seen := map[*ssa.BasicBlock]bool{}
			var walk func(b *ssa.BasicBlock)
			walk = func(b *ssa.BasicBlock) {
				if seen[b] {
					return
				}
				seen[b] = true
				if ifi, ok := b.Instrs[len(b.Instrs)-1].(*ssa.If); ok {
					if bo, ok := ifi.Cond.(*ssa.BinOp); ok && bo.Op == token.EQL && isSel(bo.X) {
						if v, okc := core.ConstInt(bo.Y); okc {
							if v == k {
								walk(b.Succs[0])
							} else {
								walk(b.Succs[1])
							}
							return
						}
					}
				}
				for _, sc := range b.Succs {
					walk(sc)
				}
			}
			walk(sw.Blocks[0])
			return seen
		}
		var eval func(v ssa.Value, feas map[*ssa.BasicBlock]bool, d int, out map[int64]bool) bool
		eval = func(v ssa.Value, feas map[*ssa.BasicBlock]bool, d int, out map[int64]bool) bool {
			if k, ok := core.ConstInt(v); ok {
				out[k] = true
				return true
			}
			if ph, ok := v.(*ssa.Phi); ok && d < 6 {
				for i, e := range ph.Edges {
					if feas[ph.Block().Preds[i]] {
						if !eval(e, feas, d+1, out) {
							return false
						}
					}
				}
				return true
			}
			return false
		}
		selected := func(feas map[*ssa.BasicBlock]bool, pkg, name string) (map[int64]bool, bool) {
			out := map[int64]bool{}
			okAll := true
			for _, b := range sw.Blocks {
				if !feas[b] {
					continue
				}
				for _, in := range b.Instrs {
					var vals []ssa.Value
					switch x := in.(type) {
					case *ssa.Phi:
						vals = []ssa.Value{x}
					case *ssa.Return:
						vals = x.Results
					case *ssa.Store:
						vals = []ssa.Value{x.Val}
					}
					for _, v := range vals {
						if v != nil && core.IsNamed(v.Type(), pkg, name) {
							if !eval(v, feas, 0, out) {
								okAll = false
							}
						}
					}
				}
			}
			return out, okAll
		}
		only := func(m map[int64]bool, k int64) bool { return len(m) == 1 && m[k] }
		for _, nm := range []string{"LZ4", "LZ4HC", "ZSTD", "None"} {
			kv, ok := constOf(p, core.PkgCh, "Compression"+nm)
			mv, ok2 := constOf(p, core.PkgCompress, nm)
			if !ok || !ok2 {
				c.R.Unk(rule, "Compression"+nm, cfg, "", "constant missing")
				continue
			}
			feas := feasibleFor(kv)
			flags, okF := selected(feas, core.PkgProto, "Compression")
			meths, okM := selected(feas, core.PkgCompress, "Method")
			pos := p.Pos(sw.Pos())
			switch {
			case !okF || !okM:
				c.R.Unk(rule, "Compression"+nm, cfg, pos, "a selected value is not a constant")
			case only(flags, enabled) && only(meths, mv):
				c.R.Ok(rule, "Compression"+nm, cfg, pos, "-> CompressionEnabled, compress."+nm+" (in "+sw.Name()+")")
			default:
				c.R.Bad(rule, "Compression"+nm, cfg, pos, sprintf("option Compression%s does not select exactly (CompressionEnabled, compress.%s): flags=%v methods=%v", nm, nm, keysOf(flags), keysOf(meths)))
			}
		}
	}()

	ruleRebuild(c, p, "C02.rebuild")
	ruleCompressDst(c, p, "C02.dst")
	ruleForwardAll(c, p, "C02.forward-all")
	ruleHeaderPerBlock(c, p, "C02.header-per-block")
	ruleInferByName(c, p, "C02.infer-name")
	ruleSpanContextUsed(c, p, "C02.span-ctx")
	ruleExternalPresence(c, p, "C02.external-presence")
	if roles := resolveDo(c, p); roles != nil {
		ruleDiscard(c, p, roles, "C02")
	}
	{
		c.R.Rule("C02.messages", "E2 containment, exactness and gate provenance (as C17.shape / C17.gates) for every protocol message at every revision sample: what the client writes for a Query packet (client info, settings, parameters, data header) is what a decoder of that revision consumes, no byte more")
		pairs := messagePairs(p)
		ruleShapePairs(c, p, "C02.messages", pairs, false)
		ruleGates(c, p, pairs, "C02.messages")
	}
	ruleMethodTable(c, p, "C02.methods")
	ruleDict(c, p, "C02.dict")
	ruleVersionArgs(c, p, "C02.version")
	ruleBitFlags(c, p, messagePairs(p), "C02.flags")
	ruleSettingsEnd(c, p, "C02.settings-end")
	ruleKeyWidth(c, p, "C02.keywidth")
	ruleVarintFastPath(c, p, "C02.varint")
	// the column encoders differ between the default and the pure-Go build: both are what the client writes
	for _, cf := range c.Configs() {
		if pc := c.Prog(cf); pc != nil {
			ruleSwapRegion(c, pc, "C02.swap")
			ruleExitGuards(c, pc, "C02.guard")
			ruleEncoderPure(c, pc, "C02.pure")
		}
	}
	ruleTableLookups(c, p, "C02.tables")
	rb := p.Method(core.PkgCompress, "Reader", "readBlock")
	wr := p.Method(core.PkgCompress, "Writer", "Compress")
	if rb != nil && wr != nil {
		ruleFrameLayout(c, p, "C02.frame", rb, wr)
	}
	ruleVectoredEquiv(c, p, "C02.vectored")
	ruleInputStream(c, p, r, "C02.input")
	ruleWriterInvariant(c, p, "C02.writer")
	c.R.Assumptions = append(c.R.Assumptions,
		"the byte-level shape of each packet under every revision is decided by C17 (messages) and C01 (blocks); here: order of emissions, provenance of the packet's fields, block framing, who may write, negotiated-revision arguments, frame layout",
		"not decided: that the resulting bytes parse under an independent reference parser (no second implementation is run)")
}

func isBufAddr(v ssa.Value) bool {
	fa, ok := v.(*ssa.FieldAddr)
	return ok && core.IsNamed(fa.X.Type(), core.PkgProto, "Buffer") && fieldNameOnly(fa.X.Type(), fa.Field) == "Buf"
}

func keysOf(m map[int64]bool) []int64 {
	var out []int64
	for k := range m {
		out = append(out, k)
	}
	sort.Slice(out, func(i, j int) bool { return out[i] < out[j] })
	return out
}
