package props

// Mutants for the rules added in seeding round 10.

func init() {
	add := func(prop string, ms ...Mutant) { mutants[prop] = append(mutants[prop], ms...) }
	add("C05",
		Mutant{Name: "compression-none-negotiated-as-disabled", File: "client.go", Old: "\tcase CompressionNone:\n\t\tcompression = proto.CompressionEnabled", New: "\tcase CompressionNone:\n\t\tcompression = proto.CompressionDisabled", Rule: "C05.option-table", Construct: "CompressionNone"},
		Mutant{Name: "frame-dropped-when-callers-buffer-is-full", File: "compress/reader.go", Old: "\tn = copy(p, r.data[r.pos:])\n\tr.pos += int64(n)\n", New: "\tn = copy(p, r.data[r.pos:])\n\tr.pos += int64(n)\n\tif n == len(p) && cap(r.data) > 1<<20 {\n\t\tr.data, r.pos = nil, 0\n\t}\n", Rule: "C05.no-early-drop", Construct: "Read"},
	)
	add("C17",
		Mutant{Name: "uvarint-one-byte-path-includes-0x80", File: "proto/buffer.go", Old: "\tbuf := make([]byte, binary.MaxVarintLen64)\n\tn := binary.PutUvarint(buf, x)\n\tb.Buf = append(b.Buf, buf[:n]...)", New: "\tif x <= 0x80 {\n\t\tb.Buf = append(b.Buf, byte(x))\n\t\treturn\n\t}\n\tbuf := make([]byte, binary.MaxVarintLen64)\n\tn := binary.PutUvarint(buf, x)\n\tb.Buf = append(b.Buf, buf[:n]...)", Rule: "C17.varint", Construct: "PutUVarInt"},
	)
	add("C04",
		Mutant{Name: "column-info-channel-not-closed-by-receiver", File: "query.go", Old: "\t\tif colInfo != nil {\n\t\t\tdefer close(colInfo)\n\t\t}\n", New: "", Rule: "C04.waiter-woken", Construct: "colInfo"},
	)
	add("C09",
		Mutant{Name: "flush-writes-staging-tail-ahead-of-chained-slices", File: "proto/writer.go", Old: "func (w *Writer) Flush() (n int64, err error) {\n\tw.cutBuffer()", New: "func (w *Writer) Flush() (n int64, err error) {\n\tif len(w.vec) > 16 {\n\t\tfor _, chunk := range w.vec {\n\t\t\tw.buf.Buf = append(w.buf.Buf, chunk...)\n\t\t}\n\t\tm, err := w.conn.Write(w.buf.Buf[w.bufOffset:])\n\t\tw.reset()\n\t\treturn int64(m), err\n\t}\n\tw.cutBuffer()", Rule: "C09.writer.flush", Construct: "Flush"},
	)
	add("C19",
		Mutant{Name: "wrapper-helper-looked-up-by-type-name", File: "proto/col_auto.go", Old: "\t\t\tarrayMethod := innerValue.MethodByName(\"Array\")", New: "\t\t\tarrayMethod := innerValue.MethodByName(t.Base().String())", Rule: "C19.reflect-name", Construct: "MethodByName"},
	)
	add("C03",
		Mutant{Name: "map-values-state-read-from-keys", File: "proto/col_map.go", Old: "\tif s, ok := c.Values.(StateDecoder); ok {", New: "\tif s, ok := c.Keys.(StateDecoder); ok {", Rule: "C03.forward", Construct: "ColMap/DecodeState"},
	)
	add("C02",
		Mutant{Name: "array-encoder-skips-when-no-elements", File: "proto/col_arr.go", Old: "func (c ColArr[T]) EncodeColumn(b *Buffer) {\n", New: "func (c ColArr[T]) EncodeColumn(b *Buffer) {\n\tif c.Data.Rows() == 0 {\n\t\treturn\n\t}\n", Rule: "C02.guard", Construct: "ColArr"},
	)
}

func init() {
	add := func(prop string, ms ...Mutant) { mutants[prop] = append(mutants[prop], ms...) }
	add("C11",
		Mutant{Name: "pool-constructor-leaks-unverified-connection", File: "chpool/pool.go", Old: "\t\t\tif err != nil {\n\t\t\t\treturn nil, err\n\t\t\t}\n\n\t\t\treturn &connResource{", New: "\t\t\tif err != nil {\n\t\t\t\treturn nil, err\n\t\t\t}\n\t\t\tif err := c.Ping(ctx); err != nil {\n\t\t\t\treturn nil, err\n\t\t\t}\n\n\t\t\treturn &connResource{", Rule: "C11.ctor-leak", Construct: "ch.Dial"},
	)
	add("C17",
		Mutant{Name: "exception-code-validated-against-table", File: "proto/exception.go", Old: "\te.Code = Error(code)\n", New: "\te.Code = Error(code)\n\tif !e.Code.IsAError() {\n\t\treturn errors.Errorf(\"unknown error code %d\", code)\n\t}\n", Rule: "C17.open-codes", Construct: "IsAError"},
		Mutant{Name: "raw-read-under-row-limit", File: "proto/reader.go", Old: "func (r *Reader) readFull(n int) error {\n", New: "func (r *Reader) readFull(n int) error {\n\tif n < 0 || n > maxRowsInBLock {\n\t\treturn errors.Errorf(\"invalid read size %d\", n)\n\t}\n", Rule: "C17.readsize", Construct: "readFull"},
	)
	add("C13",
		Mutant{Name: "handshake-deadline-left-armed", File: "handshake.go", Old: "\t\tif code == proto.ServerCodeException {\n\t\t\t// Bad password, etc.", New: "\t\tif deadline, ok := ctx.Deadline(); ok {\n\t\t\tif err := c.conn.SetReadDeadline(deadline); err != nil {\n\t\t\t\treturn errors.Wrap(err, \"set read deadline\")\n\t\t\t}\n\t\t}\n\t\tif code == proto.ServerCodeException {\n\t\t\t// Bad password, etc.", Rule: "C13.disarm", Construct: "SetReadDeadline"},
	)
	add("C16",
		Mutant{Name: "auto-installs-generated-column-before-keep-test", File: "proto/col_auto.go", Old: "func (c *ColAuto) Infer(t ColumnType) error {\n", New: "func (c *ColAuto) Infer(t ColumnType) error {\n\tif v := inferGenerated(t); v != nil {\n\t\tc.Data = v\n\t\tc.DataType = t\n\t\treturn nil\n\t}\n", Rule: "C16.auto-keeps", Construct: "ColAuto.Infer"},
		Mutant{Name: "tuple-prepare-stops-at-first-plain-element", File: "proto/col_tuple.go", Old: "\t\tif s, ok := v.(Preparable); ok {\n\t\t\tif err := s.Prepare(); err != nil {\n\t\t\t\treturn errors.Wrap(err, \"prepare\")\n\t\t\t}\n\t\t}", New: "\t\ts, ok := v.(Preparable)\n\t\tif !ok {\n\t\t\treturn nil\n\t\t}\n\t\tif err := s.Prepare(); err != nil {\n\t\t\treturn errors.Wrap(err, \"prepare\")\n\t\t}", Rule: "C16.forward-all", Construct: "ColTuple.Prepare"},
	)
	add("C14",
		Mutant{Name: "uuid-vectored-encoder-swaps-column-in-place", File: "proto/col_uuid_unsafe.go", Old: "\t// Can't write UUID as-is: bswap is required.\n\tw.ChainBuffer(c.EncodeColumn)", New: "\ts := *(*slice)(unsafe.Pointer(&c))\n\tconst size = 16\n\ts.Len *= size\n\ts.Cap *= size\n\tsrc := *(*[]byte)(unsafe.Pointer(&s))\n\tbswap.Swap64(src)\n\tw.ChainWrite(src)", Rule: "C14.pure", Construct: "ColUUID.WriteColumn"},
	)
}
