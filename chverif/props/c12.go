package props

import (
	"go/token"
	"go/types"
	"sort"
	"strings"

	"golang.org/x/tools/go/ssa"

	"chverif/core"
)

func init() { register("C12", runC12) }

type fieldAcc struct {
	field string
	write bool
	fn    *ssa.Function
	at    ssa.Instruction
}

// reachNoCallbacks: functions reachable from root through static calls and
// closures, not entering user callbacks (dynamic calls are not followed).
func reachNoCallbacks(root *ssa.Function) map[*ssa.Function]bool {
	return core.StaticReach(root, 8)
}

// clientAccesses lists accesses to fields of *ch.Client in fn.
func clientAccesses(fn *ssa.Function) []fieldAcc {
	var out []fieldAcc
	for _, b := range fn.Blocks {
		for _, in := range b.Instrs {
			f, ok := clientFieldAddr(in)
			if !ok {
				continue
			}
			fa := in.(*ssa.FieldAddr)
			w := false
			for _, r := range *fa.Referrers() {
				if s, ok := r.(*ssa.Store); ok && s.Addr == fa {
					w = true
				}
			}
			out = append(out, fieldAcc{f, w, fn, in})
		}
	}
	return out
}

func isMutexOp(name string) func(*types.Func) bool {
	return func(f *types.Func) bool {
		return f.Name() == name && (core.IsMethod(f, "sync", "Mutex", name) || core.IsMethod(f, "sync", "RWMutex", name))
	}
}

// underLock: in fn, a Lock() call dominates `at` and its Unlock is deferred (or follows on all paths).
func underLock(fn *ssa.Function, at ssa.Instruction) bool {
	for _, l := range core.FindCalls(fn, isMutexOp("Lock")) {
		li := l.(ssa.Instruction)
		if !core.Dominates(li, at) {
			continue
		}
		// deferred unlock after the lock, before at
		for _, b := range fn.Blocks {
			for _, in := range b.Instrs {
				if core.IsDeferOf(in, isMutexOp("Unlock")) && core.Dominates(li, in) {
					return true
				}
			}
		}
		// or: no Unlock between lock and the access on any path
		w := core.ReachAvoiding(core.PointOf(li), func(x ssa.Instruction) bool { return x == at }, func(x ssa.Instruction) bool {
			return core.IsCallOf(x, isMutexOp("Unlock"))
		}, nil)
		unlocked := core.ReachAvoiding(core.PointOf(li), func(x ssa.Instruction) bool { return core.IsCallOf(x, isMutexOp("Unlock")) }, func(x ssa.Instruction) bool { return x == at }, nil)
		if len(w) > 0 && len(unlocked) == 0 {
			return true
		}
	}
	return false
}

func isSyncType(t types.Type) bool {
	if pt, ok := t.(*types.Pointer); ok {
		t = pt.Elem()
	}
	if _, ok := t.Underlying().(*types.Chan); ok {
		return true
	}
	if n := core.NamedOf(t); n != nil && n.Obj().Pkg() != nil {
		switch n.Obj().Pkg().Path() {
		case "sync", "sync/atomic":
			return true
		}
	}
	return false
}

func runC12(c *Ctx) {
	p := c.Prog(core.CfgDefault)
	if p == nil {
		return
	}
	cfg := p.Cfg.Name
	r := resolveDo(c, p)
	if r == nil {
		return
	}
	roots := map[string]*ssa.Function{"sender": r.Sender, "receiver": r.Receiver, "cancel-watch": r.Watch}

	// ---- C12.owner
	rule := "C12.owner"
	c.R.Rule(rule, "E7 single-owner table for the fields of ch.Client among the goroutines of Do, computed from every function reachable from each goroutine through static calls (user callbacks excluded): writer and compressor are touched by the sender only; reader and readTimeout by the receiver only; closed only between mux.Lock and its Unlock, in every function of the package; conn by anyone but never reassigned (net.Conn is concurrency-safe); every other field is read-only inside the goroutines; lg is assigned only in Do outside the span between the first Go and Wait")
	owner := map[string]string{"writer": "sender", "compressor": "sender", "reader": "receiver", "readTimeout": "receiver"}
	acc := map[string][]fieldAcc{}
	nAcc := 0
	for name, root := range roots {
		for fn := range reachNoCallbacks(root) {
			if pkgOf(fn) == nil || pkgOf(fn).Path() != core.PkgCh {
				continue
			}
			for _, a := range clientAccesses(fn) {
				acc[name] = append(acc[name], a)
				nAcc++
			}
		}
	}
	c.R.Count("Client field accesses in the goroutines of Do", nAcc)
	names := []string{"cancel-watch", "receiver", "sender"}
	for _, g := range names {
		byField := map[string][]fieldAcc{}
		for _, a := range acc[g] {
			byField[a.field] = append(byField[a.field], a)
		}
		var fields []string
		for f := range byField {
			fields = append(fields, f)
		}
		sort.Strings(fields)
		for _, f := range fields {
			as := byField[f]
			key := "goroutine/" + g + "/" + f
			first := as[0]
			for _, a := range as {
				if a.at.Pos() < first.at.Pos() {
					first = a
				}
			}
			wr := false
			for _, a := range as {
				if a.write {
					wr = true
					first = a
				}
			}
			switch {
			case owner[f] != "" && owner[f] != g:
				c.R.Bad(rule, key, cfg, p.Pos(first.at.Pos()), sprintf("the %s goroutine touches Client.%s (in %s), which belongs to the %s goroutine: the two run concurrently (proto.Writer / proto.Reader / compress.Writer are not goroutine-safe)", g, f, core.FuncName(first.fn), owner[f]))
			case owner[f] != "":
				c.R.Ok(rule, key, cfg, p.Pos(first.at.Pos()), "owner")
			case f == "closed" || f == "mux":
				c.R.Ok(rule, key, cfg, p.Pos(first.at.Pos()), "see lock rule").Trivial = true
			case wr:
				c.R.Bad(rule, key, cfg, p.Pos(first.at.Pos()), sprintf("Client.%s is written inside the %s goroutine (in %s) while the other goroutines of Do may read it", f, g, core.FuncName(first.fn)))
			default:
				c.R.Ok(rule, key, cfg, p.Pos(first.at.Pos()), "read-only")
			}
		}
	}
	// methods that may be called from a foreign goroutine while Do runs (Close, IsClosed) touch only mux / closed / conn
	for _, name := range []string{"Close", "IsClosed"} {
		fn := p.Method(core.PkgCh, "Client", name)
		if fn == nil {
			c.R.Unk(rule, "foreign/"+name, cfg, "", "method missing")
			continue
		}
		okAll := true
		for f := range reachNoCallbacks(fn) {
			for _, a := range clientAccesses(f) {
				switch a.field {
				case "mux", "closed", "conn":
				default:
					okAll = false
					c.R.Bad(rule, "foreign/"+name+"/"+a.field, cfg, p.Pos(a.at.Pos()), "Client."+name+" may run on another goroutine than Do, and touches Client."+a.field+", which Do and its goroutines use without synchronisation")
				}
			}
		}
		if okAll {
			c.R.Ok(rule, "foreign/"+name, cfg, p.Pos(fn.Pos()), "touches only mux, closed, conn")
		}
	}
	// closed only under mux - everywhere in package ch
	nClosed := 0
	for _, fn := range p.Funcs() {
		if pkgOf(fn) == nil || pkgOf(fn).Path() != core.PkgCh {
			continue
		}
		for _, a := range clientAccesses(fn) {
			if a.field != "closed" {
				continue
			}
			nClosed++
			key := core.FuncName(fn) + "/closed"
			if underLock(fn, a.at) {
				c.R.Ok(rule, key, cfg, p.Pos(a.at.Pos()), "access under mux")
			} else {
				c.R.Bad(rule, key, cfg, p.Pos(a.at.Pos()), "Client.closed is accessed without holding Client.mux: races with Close() from another goroutine")
			}
		}
	}
	if nClosed < 2 {
		c.R.Unk(rule, "closed/population", cfg, "", sprintf("%d accesses to Client.closed found", nClosed))
	}
	// lg stores
	for _, fn := range p.Funcs() {
		if pkgOf(fn) == nil || pkgOf(fn).Path() != core.PkgCh {
			continue
		}
		for _, a := range clientAccesses(fn) {
			if a.field != "lg" || !a.write {
				continue
			}
			key := core.FuncName(fn) + "/lg-store"
			top := fn
			for top.Parent() != nil {
				top = top.Parent()
			}
			switch {
			case fn == r.Do:
				okBefore := true
				for _, g := range r.GoCalls {
					// the store must not be executable after a goroutine was started
					if w := core.ReachAvoiding(core.PointOf(g.(ssa.Instruction)), func(x ssa.Instruction) bool { return x == a.at }, nil, nil); len(w) > 0 {
						okBefore = false
					}
				}
				if okBefore {
					c.R.Ok(rule, key, cfg, p.Pos(a.at.Pos()), "assigned before the first Go")
				} else {
					c.R.Bad(rule, key, cfg, p.Pos(a.at.Pos()), "Client.lg is assigned while the goroutines of Do may be running")
				}
			case top == r.Do && fn.Parent() == r.Do && fn != r.Sender && fn != r.Receiver && fn != r.Watch:
				// deferred restore in Do: runs after Wait
				c.R.Ok(rule, key, cfg, p.Pos(a.at.Pos()), "deferred restore, after Wait")
			case top == r.Do:
				c.R.Bad(rule, key, cfg, p.Pos(a.at.Pos()), "Client.lg is assigned inside a goroutine of Do")
			default:
				c.R.Ok(rule, key, cfg, p.Pos(a.at.Pos()), "constructor / outside Do").Trivial = true
			}
		}
	}

	// ---- C12.captured
	rule = "C12.captured"
	c.R.Rule(rule, "variables of Do captured by more than one of its goroutines are channels, sync / sync/atomic values, or cells that are only written in Do before the first Go (never inside a goroutine)")
	func() {
		gor := []*ssa.Function{r.Sender, r.Receiver, r.Watch}
		capt := map[ssa.Value]int{}
		for _, g := range gor {
			for _, b := range r.Do.Blocks {
				for _, in := range b.Instrs {
					if mc, ok := in.(*ssa.MakeClosure); ok && mc.Fn == g {
						for _, bv := range mc.Bindings {
							capt[bv]++
						}
					}
				}
			}
		}
		n := 0
		for v, k := range capt {
			if k < 2 {
				continue
			}
			n++
			name := v.Name()
			if al, ok := v.(*ssa.Alloc); ok {
				name = al.Comment
			}
			key := "captured/" + name
			t := v.Type()
			if pt, ok := t.(*types.Pointer); ok {
				t = pt.Elem()
			}
			if isSyncType(t) {
				c.R.Ok(rule, key, cfg, p.Pos(v.Pos()), "synchronisation type "+t.String())
				continue
			}
			// stores inside goroutines (through the free variable)
			bad := false
			for _, g := range gor {
				for fn := range core.StaticReach(g, 2) {
					for _, b := range fn.Blocks {
						for _, in := range b.Instrs {
							s, ok := in.(*ssa.Store)
							if !ok {
								continue
							}
							root := s.Addr
							for {
								if fa, ok := root.(*ssa.FieldAddr); ok {
									root = fa.X
									continue
								}
								break
							}
							if fv, ok := root.(*ssa.FreeVar); ok && fn == g {
								if b := freeVarBinding(r.Do, g, fv.Name()); b == v {
									bad = true
									c.R.Bad(rule, key, cfg, p.Pos(s.Pos()), "a plain variable shared by the goroutines of Do is written inside "+core.FuncName(g)+" without synchronisation")
								}
							}
						}
					}
				}
			}
			// the address of the shared variable handed to a function by a goroutine: that function must not write through it
			for _, g := range gor {
				for _, call := range core.Calls(g) {
					for ai, a := range call.Common().Args {
						fv, ok := a.(*ssa.FreeVar)
						if !ok || freeVarBinding(r.Do, g, fv.Name()) != v {
							continue
						}
						h := core.StaticFn(call)
						if h == nil || h.Blocks == nil || ai >= len(h.Params) {
							continue
						}
						if st := writesThrough(h, h.Params[ai], 0); st != nil && !bad {
							bad = true
							c.R.Bad(rule, key, cfg, p.Pos(st.Pos()), "the address of a plain variable shared by the goroutines of Do is passed to "+core.FuncName(h)+", which writes through it ("+core.FuncName(g)+" runs concurrently with the goroutines that read the variable)")
						}
					}
				}
			}
			// stores in Do must precede the first Go
			if al, ok := v.(*ssa.Alloc); ok {
				for _, ref := range *al.Referrers() {
					s, ok := ref.(*ssa.Store)
					if !ok || s.Addr != al {
						continue
					}
					for _, g := range r.GoCalls {
						after := core.ReachAvoiding(core.PointOf(g.(ssa.Instruction)), func(x ssa.Instruction) bool { return x == ssa.Instruction(s) }, nil, nil)
						if len(after) > 0 && !bad {
							bad = true
							c.R.Bad(rule, key, cfg, p.Pos(s.Pos()), "a shared variable is assigned in Do after goroutines were started")
						}
					}
				}
			}
			if !bad {
				c.R.Ok(rule, key, cfg, p.Pos(v.Pos()), "written only before the first Go")
			}
		}
		// a variable captured by even ONE goroutine is shared with Do's own goroutine: Do must not write it
		// (or a field of it) after the Go call that starts that goroutine and before Wait
		closureOf := func(gc ssa.CallInstruction) *ssa.MakeClosure {
			for _, a := range gc.Common().Args {
				if mc, ok := a.(*ssa.MakeClosure); ok {
					return mc
				}
			}
			return nil
		}
		for _, b := range r.Do.Blocks {
			for _, in := range b.Instrs {
				st, ok := in.(*ssa.Store)
				if !ok {
					continue
				}
				root := st.Addr
				for {
					if fa, ok := root.(*ssa.FieldAddr); ok {
						root = fa.X
						continue
					}
					break
				}
				al, ok := root.(*ssa.Alloc)
				if !ok {
					continue
				}
				t := al.Type().(*types.Pointer).Elem()
				if isSyncType(t) {
					continue
				}
				if r.Wait != nil && core.Dominates(r.Wait.(ssa.Instruction), st) {
					continue
				}
				for _, gc := range r.GoCalls {
					mc := closureOf(gc)
					if mc == nil {
						continue
					}
					binds := false
					for _, bv := range mc.Bindings {
						if bv == ssa.Value(al) {
							binds = true
						}
					}
					if !binds {
						continue
					}
					if len(core.ReachAvoiding(core.PointOf(gc.(ssa.Instruction)), func(x ssa.Instruction) bool { return x == ssa.Instruction(st) }, nil, nil)) > 0 {
						c.R.Bad(rule, "captured/"+al.Comment+"/late-store", cfg, p.Pos(st.Pos()), "Do assigns "+al.Comment+" (captured by a goroutine it has already started) after the Go call: the goroutine reads it concurrently")
					}
				}
			}
		}
		c.R.Count("variables shared by the goroutines of Do", n)
		if n < 3 {
			c.R.Unk(rule, "population", cfg, "", sprintf("%d shared captured variables found", n))
		}
	}()

	// ---- C12.ctxvalue
	rule = "C12.ctxvalue"
	c.R.Rule(rule, "a struct of package ch reachable through the query context (context.WithValue in Do) whose fields are written in functions reachable from two or more goroutines of Do must be written under a mutex of that struct (Lock dominating the stores, Unlock deferred) or consist of atomic fields")
	func() {
		// types stored with context.WithValue in Do
		var shared []*types.Named
		for _, call := range core.Calls(r.Do) {
			if f := core.CalleeFunc(call); f != nil && core.IsFunc(f, "context", "WithValue") {
				v := call.Common().Args[2]
				if mi, ok := v.(*ssa.MakeInterface); ok {
					if n := core.NamedOf(mi.X.Type()); n != nil && n.Obj().Pkg() != nil && n.Obj().Pkg().Path() == core.PkgCh {
						shared = append(shared, n)
					}
				}
			}
		}
		if len(shared) == 0 {
			c.R.Ok(rule, "none", cfg, "", "no library struct is shared through the context").Trivial = true
			return
		}
		for _, named := range shared {
			key := "ctxvalue/" + named.Obj().Name()
			writers := map[string][]ssa.Instruction{}
			var wfn = map[ssa.Instruction]*ssa.Function{}
			for g, root := range roots {
				for fn := range reachNoCallbacks(root) {
					for _, b := range fn.Blocks {
						for _, in := range b.Instrs {
							s, ok := in.(*ssa.Store)
							if !ok {
								continue
							}
							through := false
							for a := s.Addr; ; {
								fa, ok := a.(*ssa.FieldAddr)
								if !ok {
									break
								}
								if n := core.NamedOf(fa.X.Type()); n != nil && n.Obj() == named.Obj() {
									through = true
								}
								a = fa.X
							}
							if !through {
								continue
							}
							if isSyncType(s.Val.Type()) {
								continue
							}
							writers[g] = append(writers[g], s)
							wfn[s] = fn
						}
					}
				}
			}
			if len(writers) < 2 {
				c.R.Ok(rule, key, cfg, p.Pos(named.Obj().Pos()), sprintf("written from %d goroutine(s) only", len(writers)))
				continue
			}
			var gs []string
			for g := range writers {
				gs = append(gs, g)
			}
			sort.Strings(gs)
			bad := false
			for _, g := range gs {
				for _, s := range writers[g] {
					if !underLock(wfn[s], s) {
						bad = true
						c.R.Bad(rule, key, cfg, p.Pos(s.Pos()), sprintf("%s is written from the %s goroutines (here in %s) without a lock or atomics: a data race whenever OpenTelemetry instrumentation is on and the server sends progress/data while the client is still sending", named.Obj().Name(), strings.Join(gs, " and "), core.FuncName(wfn[s])))
						break
					}
				}
				if bad {
					break
				}
			}
			if !bad {
				c.R.Ok(rule, key, cfg, p.Pos(named.Obj().Pos()), "all writes under the struct's mutex")
			}
		}
	}()

	// ---- C12.pool
	rule = "C12.pool"
	c.R.Rule(rule, "fields of chpool.Pool are assigned only while it is constructed (before the health-check goroutine is started and the pool is returned); afterwards they are only read or used through their own synchronised methods (puddle.Pool, sync.Once, sync.WaitGroup, channels)")
	func() {
		np := p.Func(core.PkgPool, "newPool")
		if !c.must(p, "chpool.newPool", np != nil) {
			return
		}
		var goCall ssa.Instruction
		for _, b := range np.Blocks {
			for _, in := range b.Instrs {
				if _, ok := in.(*ssa.Go); ok {
					goCall = in
				}
			}
		}
		n := 0
		bad := false
		for _, fn := range p.Funcs() {
			if pkgOf(fn) == nil || pkgOf(fn).Path() != core.PkgPool {
				continue
			}
			for _, b := range fn.Blocks {
				for _, in := range b.Instrs {
					s, ok := in.(*ssa.Store)
					if !ok {
						continue
					}
					fa, ok := s.Addr.(*ssa.FieldAddr)
					if !ok || !core.IsNamed(fa.X.Type(), core.PkgPool, "Pool") {
						continue
					}
					n++
					fname := fieldNameOnly(fa.X.Type(), fa.Field)
					if fn != np {
						bad = true
						c.R.Bad(rule, core.FuncName(fn)+"/store-"+fname, cfg, p.Pos(s.Pos()), "Pool."+fname+" is assigned outside the constructor: races with the health check and with users of the pool")
					} else if goCall != nil && !core.Dominates(s, goCall) {
						bad = true
						c.R.Bad(rule, core.FuncName(fn)+"/store-"+fname, cfg, p.Pos(s.Pos()), "Pool."+fname+" is assigned after the health-check goroutine was started")
					}
				}
			}
		}
		if goCall == nil {
			c.R.Unk(rule, "newPool/go", cfg, p.Pos(np.Pos()), "health-check goroutine start not found")
		} else if !bad {
			c.R.Ok(rule, "chpool.Pool", cfg, p.Pos(np.Pos()), sprintf("%d field stores, all in newPool before `go backgroundHealthCheck`", n))
		}
	}()
	// ---- C12.borrowed
	rule = "C12.borrowed"
	c.R.Rule(rule, "no write through a pointer borrowed from the caller's configuration: in packages ch and chpool no Store's address is reached (through field / index selection, phis, type assertions, local variables) from a pointer loaded out of a field of ch.Options, chpool.Options or ch.Query - those objects (a *net.Dialer, a *tls.Config, ...) are shared by every Dial made from the same options, so a write races with the concurrent dials of a pool")
	func() {
		isCfgStruct := func(t types.Type) bool {
			return core.IsNamed(t, core.PkgCh, "Options") || core.IsNamed(t, core.PkgPool, "Options") || core.IsNamed(t, core.PkgCh, "Query")
		}
		var origin func(v ssa.Value, d int, seen map[ssa.Value]bool) string
		origin = func(v ssa.Value, d int, seen map[ssa.Value]bool) string {
			if d > 12 || seen[v] {
				return ""
			}
			seen[v] = true
			switch x := v.(type) {
			case *ssa.Phi:
				for _, e := range x.Edges {
					if o := origin(e, d+1, seen); o != "" {
						return o
					}
				}
			case *ssa.TypeAssert:
				return origin(x.X, d+1, seen)
			case *ssa.Extract:
				return origin(x.Tuple, d+1, seen)
			case *ssa.ChangeType:
				return origin(x.X, d+1, seen)
			case *ssa.ChangeInterface:
				return origin(x.X, d+1, seen)
			case *ssa.MakeInterface:
				return origin(x.X, d+1, seen)
			case *ssa.FieldAddr:
				return origin(x.X, d+1, seen)
			case *ssa.IndexAddr:
				return origin(x.X, d+1, seen)
			case *ssa.UnOp:
				if x.Op != token.MUL {
					return ""
				}
				if fa, ok := x.X.(*ssa.FieldAddr); ok && isCfgStruct(fa.X.Type()) {
					if _, isPtr := x.Type().Underlying().(*types.Pointer); isPtr {
						return core.FieldOrigin(x, 0)
					}
					if _, isIface := x.Type().Underlying().(*types.Interface); isIface {
						return core.FieldOrigin(x, 0)
					}
					return ""
				}
				if al, ok := x.X.(*ssa.Alloc); ok {
					for _, ref := range *al.Referrers() {
						if st, ok := ref.(*ssa.Store); ok && st.Addr == al {
							if o := origin(st.Val, d+1, seen); o != "" {
								return o
							}
						}
					}
				}
			}
			return ""
		}
		n, bad := 0, false
		for _, fn := range p.Funcs() {
			if pkgOf(fn) == nil || (pkgOf(fn).Path() != core.PkgCh && pkgOf(fn).Path() != core.PkgPool) {
				continue
			}
			k := 0
			for _, b := range fn.Blocks {
				for _, in := range b.Instrs {
					st, ok := in.(*ssa.Store)
					if !ok {
						continue
					}
					switch st.Addr.(type) {
					case *ssa.FieldAddr, *ssa.IndexAddr:
					default:
						continue
					}
					n++
					if o := origin(st.Addr, 0, map[ssa.Value]bool{}); o != "" {
						k++
						bad = true
						c.R.Bad(rule, sprintf("%s/store#%d", core.FuncName(fn), k), cfg, p.Pos(st.Pos()), "a store writes through the pointer the caller supplied in "+o+": the object is shared by every connection created from the same options (concurrent Dial calls of a pool race on it)")
					}
				}
			}
		}
		// append onto a slice that lives in the caller's configuration (or in the Client,
		// which shares Options.Settings with every connection dialed from the same options)
		// writes into the shared backing array whenever it has spare capacity
		nApp := 0
		for _, fn := range p.Funcs() {
			if pkgOf(fn) == nil || (pkgOf(fn).Path() != core.PkgCh && pkgOf(fn).Path() != core.PkgPool) {
				continue
			}
			for _, call := range core.Calls(fn) {
				bi, ok := call.Common().Value.(*ssa.Builtin)
				if !ok || bi.Name() != "append" || len(call.Common().Args) == 0 {
					continue
				}
				nApp++
				base := call.Common().Args[0]
				ld, ok := base.(*ssa.UnOp)
				if !ok || ld.Op != token.MUL {
					continue
				}
				fa, ok := ld.X.(*ssa.FieldAddr)
				if !ok || !(isCfgStruct(fa.X.Type()) || core.IsNamed(fa.X.Type(), core.PkgCh, "Client")) {
					continue
				}
				// storing the result back into the same field is the owner growing its own slice
				v, _ := call.(ssa.Value)
				sameField := false
				if v != nil && v.Referrers() != nil {
					for _, r := range *v.Referrers() {
						if st, ok := r.(*ssa.Store); ok {
							if fa2, ok := st.Addr.(*ssa.FieldAddr); ok && fa2.Field == fa.Field && fa2.X.Type() == fa.X.Type() {
								sameField = true
							}
						}
					}
				}
				if sameField {
					continue
				}
				bad = true
				c.R.Bad(rule, core.CallKey(fn, call), cfg, p.Pos(call.Pos()), "append onto "+core.FieldOrigin(ld, 0)+" whose result goes elsewhere: when that slice has spare capacity the new elements are written into its backing array, which is shared by every connection created from the same options (concurrent queries race, and see each other's settings)")
			}
		}
		c.R.Count("append sites in ch+chpool", nApp)
		if !bad {
			c.R.Ok(rule, "ch+chpool", cfg, "", sprintf("%d field/element stores, none through a pointer taken from Options / Query; no append onto a shared configuration slice", n))
		}
		c.R.Floor(rule, cfg, n, 40)
	}()

	// ---- C12.spawn
	rule = "C12.spawn"
	c.R.Rule(rule, "every `go` statement of packages ch and chpool that starts a closure: a variable of the enclosing function that the closure writes (captured by reference) is of a synchronisation type, unless the statement is outside any loop and the enclosing function does not touch the variable after it - several instances of the goroutine, or the goroutine and its parent, otherwise write a plain variable concurrently")
	func() {
		n := 0
		for _, fn := range p.Funcs() {
			if pkgOf(fn) == nil || (pkgOf(fn).Path() != core.PkgCh && pkgOf(fn).Path() != core.PkgPool) {
				continue
			}
			for _, b := range fn.Blocks {
				for _, in := range b.Instrs {
					gi, ok := in.(*ssa.Go)
					if !ok {
						continue
					}
					mc, ok := gi.Call.Value.(*ssa.MakeClosure)
					if !ok {
						continue
					}
					cl := mc.Fn.(*ssa.Function)
					n++
					key := core.FuncName(cl)
					bad := false
					for fi, fv := range cl.FreeVars {
						bind := mc.Bindings[fi]
						al, isAlloc := bind.(*ssa.Alloc)
						if !isAlloc {
							continue
						}
						t := al.Type().(*types.Pointer).Elem()
						if isSyncType(t) {
							continue
						}
						// does the closure (or a nested one) write it?
						var wr ssa.Instruction
						for _, cb := range cl.Blocks {
							for _, ci := range cb.Instrs {
								if st, ok := ci.(*ssa.Store); ok {
									root := st.Addr
									for {
										if fa, ok := root.(*ssa.FieldAddr); ok {
											root = fa.X
											continue
										}
										break
									}
									if root == ssa.Value(fv) {
										wr = st
									}
								}
							}
						}
						if wr == nil {
							continue
						}
						multi := core.InLoop(gi)
						touched := false
						for _, ref := range *al.Referrers() {
							ri, ok := ref.(ssa.Instruction)
							if !ok || ri == ssa.Instruction(mc) {
								continue
							}
							if w := core.ReachAvoiding(core.PointOf(gi), func(x ssa.Instruction) bool { return x == ri }, nil, nil); len(w) > 0 {
								touched = true
							}
						}
						if multi || touched {
							bad = true
							c.R.Bad(rule, key, cfg, p.Pos(wr.Pos()), "the goroutine writes the plain variable "+al.Comment+" of its enclosing function, which is also accessed "+map[bool]string{true: "by the other instances started in the same loop", false: "by the enclosing function after the go statement"}[multi]+": unsynchronised concurrent access")
						}
					}
					if !bad {
						c.R.Ok(rule, key, cfg, p.Pos(gi.Pos()), "no plain captured variable written concurrently")
					}
				}
			}
		}
		c.R.Count("go statements with closures in ch+chpool", n)
	}()

	ruleSlab(c, p, "C12.slab")
	ruleWaitGroupAdd(c, p, "C12.wg")
	ruleNoStrayGoroutine(c, p, r, "C12.no-stray-goroutine")
	ruleChannelHandoff(c, p, r, "C12.handoff")
	rulePoolCtorShared(c, p, "C12.ctor-shared")
	ruleNoGlobalToggles(c, p, "C12.global-toggles")
	ruleHandshakeOwner(c, p, "C12.handshake-owner")
	ruleNoGlobalBuffers(c, p, "C12.global-buffers")
	rulePoolPutOnce(c, p, "C12.pool-put-once")

	// ---- C12.globals
	rule = "C12.globals"
	c.R.Rule(rule, "package-level variables of the library are never assigned outside package initialisation (or they are sync / sync/atomic values, or the store is under a package-level mutex): independent clients, readers and pools share nothing mutable, so two connections used from two goroutines cannot race through library globals")
	func() {
		nG, bad := 0, false
		for _, path := range []string{core.PkgCh, core.PkgProto, core.PkgCompress, core.PkgPool} {
			for _, m := range p.SSA[path].Members {
				if _, ok := m.(*ssa.Global); ok {
					nG++
				}
			}
		}
		for _, fn := range p.Funcs() {
			if pkgOf(fn) == nil || fn.Name() == "init" || strings.HasPrefix(fn.Name(), "init#") {
				continue
			}
			top := fn
			for top.Parent() != nil {
				top = top.Parent()
			}
			if top.Name() == "init" || strings.HasPrefix(top.Name(), "init#") {
				continue
			}
			for _, b := range fn.Blocks {
				for _, in := range b.Instrs {
					var root ssa.Value
					var st ssa.Instruction
					switch x := in.(type) {
					case *ssa.Store:
						root, st = x.Addr, x
					case *ssa.MapUpdate:
						root, st = x.Map, x
						if u, ok := root.(*ssa.UnOp); ok {
							root = u.X
						}
					default:
						continue
					}
					for {
						switch x := root.(type) {
						case *ssa.FieldAddr:
							root = x.X
							continue
						case *ssa.IndexAddr:
							root = x.X
							continue
						}
						break
					}
					g, ok := root.(*ssa.Global)
					if !ok || g.Pkg == nil || !core.IsLib(g.Pkg.Pkg) {
						continue
					}
					if isSyncType(g.Type()) || underLock(fn, st) {
						continue
					}
					bad = true
					c.R.Bad(rule, core.FuncName(fn)+"/store-"+g.Name(), cfg, p.Pos(st.Pos()), "package-level variable "+g.Name()+" is assigned at run time without synchronisation: two independent connections (e.g. two users of one pool) race on it")
				}
			}
		}
		c.R.Count("package-level variables of the library", nG)
		if !bad {
			c.R.Ok(rule, "library globals", cfg, "", sprintf("%d package-level variables, none assigned outside init", nG))
		}
	}()

	c.R.Assumptions = append(c.R.Assumptions,
		"net.Conn, puddle.Pool, zap.Logger, errgroup and the sync types are safe for concurrent use; user callbacks are outside the library",
		"no pointer analysis is available (go/pointer is absent from x/tools v0.29.0): effects are attributed through access paths rooted at the Client, the Pool, the context-value struct and the captured variables of Do",
		"decided: single-owner discipline of the client's I/O objects, lock discipline of the closed flag, shared captured variables, context-shared structs, pool fields; not decided: freedom from all races including through aliased caller memory and third-party code")
	_ = token.ADD
}

// writesThrough finds a store whose address is reached from pointer parameter pr of h
// (field selection, or the pointer handed on to a callee that stores), or nil.
func writesThrough(h *ssa.Function, pr *ssa.Parameter, d int) ssa.Instruction {
	if d > 2 {
		return nil
	}
	for _, b := range h.Blocks {
		for _, in := range b.Instrs {
			switch x := in.(type) {
			case *ssa.Store:
				root := x.Addr
				for {
					if fa, ok := root.(*ssa.FieldAddr); ok {
						root = fa.X
						continue
					}
					break
				}
				if root == ssa.Value(pr) {
					return x
				}
			case ssa.CallInstruction:
				g := core.StaticFn(x)
				if g == nil || g.Blocks == nil {
					continue
				}
				for i, a := range x.Common().Args {
					if a == ssa.Value(pr) && i < len(g.Params) {
						if st := writesThrough(g, g.Params[i], d+1); st != nil {
							return st
						}
					}
				}
			}
		}
	}
	return nil
}

// ---- C12.wg: WaitGroup.Add happens before the goroutine it accounts for is started
func ruleWaitGroupAdd(c *Ctx, p *core.Program, rule string) {
	c.R.Rule(rule, "a goroutine is registered with its WaitGroup before it is started: in packages ch and chpool no function that is the target of a `go` statement calls (*sync.WaitGroup).Add - Add inside the new goroutine is unordered with a concurrent Wait (Pool.Close): Wait can return, or the counter can be reused, before the goroutine has registered itself (the race detector reports the WaitGroup's state word); every `go` target that calls Done has a matching Add before the `go` statement in the spawning function")
	cfg := p.Cfg.Name
	isWG := func(name string) func(*types.Func) bool {
		return func(f *types.Func) bool { return core.IsMethod(f, "sync", "WaitGroup", name) }
	}
	n := 0
	for _, fn := range p.Funcs() {
		pk := pkgOf(fn)
		if pk == nil || (pk.Path() != core.PkgCh && pk.Path() != core.PkgPool) || fn.Blocks == nil {
			continue
		}
		for _, b := range fn.Blocks {
			for _, in := range b.Instrs {
				g, ok := in.(*ssa.Go)
				if !ok {
					continue
				}
				var target *ssa.Function
				if mc, ok := g.Call.Value.(*ssa.MakeClosure); ok {
					target, _ = mc.Fn.(*ssa.Function)
				} else {
					target = core.StaticFn(g)
				}
				if target == nil || target.Blocks == nil {
					continue
				}
				adds := core.FindCalls(target, isWG("Add"))
				dones := core.FindCalls(target, isWG("Done"))
				if len(adds) == 0 && len(dones) == 0 {
					continue
				}
				n++
				key := core.FuncName(fn) + "/go:" + target.Name()
				switch {
				case len(adds) > 0:
					c.R.Bad(rule, key, cfg, p.Pos(adds[0].Pos()), "the goroutine registers itself with WaitGroup.Add after it has been started: a concurrent Wait (Close) is not ordered with that Add")
				default:
					// Done in the goroutine: an Add must precede the go statement in the spawner
					pre := false
					for _, a := range core.FindCalls(fn, isWG("Add")) {
						if core.Dominates(a.(ssa.Instruction), in) {
							pre = true
						}
					}
					if pre {
						c.R.Ok(rule, key, cfg, p.Pos(in.Pos()), "Add before go, Done inside")
					} else {
						c.R.Bad(rule, key, cfg, p.Pos(in.Pos()), "the goroutine calls Done but the spawning function does not call Add before the go statement")
					}
				}
			}
		}
	}
	c.R.Count("go statements whose target uses a WaitGroup["+cfg+"]", n)
	c.R.Floor(rule, cfg, n, 1)
}

// ruleChannelHandoff (C12): what one goroutine of Do hands to another over a channel is not memory it keeps writing.
func ruleChannelHandoff(c *Ctx, p *core.Program, r *doRoles, rule string) {
	c.R.Rule(rule, "a slice, map or pointer sent over a channel between the goroutines of Do (the column info of an INSERT, from the receive loop's callback to the sender) is built for the hand-off - append to a nil slice, a clone, a fresh make - and is not the captured variable the receive loop decodes into: Results are decoded into the same variable for every Data block, so a second header block rewrites the backing array while the sender is still ranging over the slice it was sent")
	cfg := p.Cfg.Name
	var fns []*ssa.Function
	fns = append(fns, r.Do.AnonFuncs...)
	for _, call := range core.Calls(r.Do) {
		if h := core.StaticFn(call); h != nil && h.Blocks != nil && pkgOf(h) != nil && pkgOf(h).Path() == core.PkgCh {
			fns = append(fns, h.AnonFuncs...)
		}
	}
	n := 0
	fresh := func(v ssa.Value) bool {
		v = stripConv(v)
		switch x := v.(type) {
		case *ssa.MakeSlice, *ssa.MakeMap, *ssa.Alloc:
			return true
		case *ssa.Call:
			if bi, ok := x.Call.Value.(*ssa.Builtin); ok && bi.Name() == "append" && len(x.Call.Args) > 0 {
				if k, ok := stripConv(x.Call.Args[0]).(*ssa.Const); ok && k.Value == nil {
					return true
				}
			}
			if f := core.CalleeFunc(x); f != nil && f.Pkg() != nil && (f.Pkg().Path() == "slices" || f.Pkg().Path() == "maps") && f.Name() == "Clone" {
				return true
			}
		}
		return false
	}
	for _, fn := range fns {
		for _, b := range fn.Blocks {
			for _, in := range b.Instrs {
				var sent []ssa.Value
				switch x := in.(type) {
				case *ssa.Send:
					sent = append(sent, x.X)
				case *ssa.Select:
					for _, st := range x.States {
						if st.Dir == types.SendOnly {
							sent = append(sent, st.Send)
						}
					}
				}
				for _, v := range sent {
					switch v.Type().Underlying().(type) {
					case *types.Slice, *types.Map, *types.Pointer:
					default:
						continue
					}
					n++
					key := core.FuncName(fn) + sprintf("/handoff#%d", n)
					if fresh(v) {
						c.R.Ok(rule, key, cfg, p.Pos(in.Pos()), "the value sent is built for the hand-off")
						continue
					}
					shared := core.DependsOn(v, func(x ssa.Value) bool {
						switch x.(type) {
						case *ssa.FreeVar, *ssa.Global:
							return true
						}
						return false
					}, false)
					if shared {
						c.R.Bad(rule, key, cfg, p.Pos(in.Pos()), "the value sent is the captured variable itself (same backing array): the goroutine that sends it keeps decoding into it, the one that receives it reads it concurrently")
					} else {
						c.R.Unk(rule, key, cfg, p.Pos(in.Pos()), "origin of the value sent not recognised: "+v.String())
					}
				}
			}
		}
	}
	c.R.Count("reference values sent between the goroutines of Do", n)
	c.R.Floor(rule, cfg, n, 1)
}

// rulePoolCtorShared (C12): what puddle's concurrent constructor calls share is safe to share.
func rulePoolCtorShared(c *Ctx, p *core.Program, rule string) {
	c.R.Rule(rule, "puddle runs the pool's resource constructor (the closure of package chpool that calls ch.Dial) in a goroutine of its own for every acquisition that has to dial, so several run at once: inside it and the chpool functions it calls, a method is invoked on a value held in a field of chpool.Pool only when that value's type comes from a package whose types are documented as safe for concurrent use (sync, sync/atomic, puddle, zap, context, time, the ch.Dialer interface) - a *math/rand.Rand, a map or a buffer shared through the pool races between two dials")
	cfg := p.Cfg.Name
	safePkg := func(t types.Type) bool {
		n := core.NamedOf(t)
		if n == nil || n.Obj().Pkg() == nil {
			return true
		}
		switch path := n.Obj().Pkg().Path(); {
		case path == "sync", path == "sync/atomic", path == "context", path == "time", path == "net":
			return true
		case strings.Contains(path, "jackc/puddle"), strings.Contains(path, "go.uber.org/zap"), strings.Contains(path, "go.opentelemetry.io"):
			return true
		case path == core.PkgCh, path == core.PkgPool:
			return true
		}
		return false
	}
	n := 0
	for _, ctor := range p.Funcs() {
		if pkgOf(ctor) == nil || pkgOf(ctor).Path() != core.PkgPool || ctor.Blocks == nil {
			continue
		}
		if len(core.FindCalls(ctor, func(f *types.Func) bool { return core.IsFunc(f, core.PkgCh, "Dial") })) == 0 {
			continue
		}
		bad := false
		nCalls := 0
		for fn := range core.StaticReach(ctor, 2) {
			if fn.Blocks == nil || pkgOf(fn) == nil || pkgOf(fn).Path() != core.PkgPool {
				continue
			}
			for _, call := range core.Calls(fn) {
				cc := call.Common()
				var recv ssa.Value
				if cc.IsInvoke() {
					recv = cc.Value
				} else if f := core.CalleeFunc(call); f != nil {
					if sig, ok := f.Type().(*types.Signature); ok && sig.Recv() != nil && len(cc.Args) > 0 {
						recv = cc.Args[0]
					}
				}
				if recv == nil || !strings.HasPrefix(core.FieldOrigin(recv, 0), "Pool.") {
					continue
				}
				nCalls++
				if !safePkg(recv.Type()) {
					bad = true
					c.R.Bad(rule, core.CallKey(fn, call), cfg, p.Pos(call.Pos()), sprintf("the constructor (run concurrently by puddle) calls a method on %s, a %s shared through the pool: its type is not safe for concurrent use", core.FieldOrigin(recv, 0), recv.Type()))
				}
			}
		}
		n++
		if !bad {
			c.R.Ok(rule, core.FuncName(ctor), cfg, p.Pos(ctor.Pos()), sprintf("%d method calls on pool-held values, all on concurrency-safe types", nCalls))
		}
	}
	c.R.Count("pool resource constructors", n)
	c.R.Floor(rule, cfg, n, 1)
}

// ruleNoGlobalToggles (C12): the library does not flip process-wide switches of its dependencies.
func ruleNoGlobalToggles(c *Ctx, p *core.Program, rule string) {
	c.R.Rule(rule, "no function of the library calls one of the enumerated process-wide setters of its dependencies and of the standard library (google/uuid EnableRandPool / DisableRandPool / SetRand / SetNodeID / SetNodeInterface / SetClockSequence, math/rand Seed, os Setenv / Unsetenv, log SetOutput / SetFlags / SetPrefix, zap ReplaceGlobals, otel SetTracerProvider / SetMeterProvider / SetTextMapPropagator): they write unsynchronised package-level state that other goroutines of the process read - uuid.EnableRandPool() in Connect races with uuid.New() in every concurrent Do and with every other dial of a pool")
	cfg := p.Cfg.Name
	deny := map[string]map[string]bool{
		"github.com/google/uuid":   {"EnableRandPool": true, "DisableRandPool": true, "SetRand": true, "SetNodeID": true, "SetNodeInterface": true, "SetClockSequence": true},
		"math/rand":                {"Seed": true},
		"os":                       {"Setenv": true, "Unsetenv": true, "Clearenv": true},
		"log":                      {"SetOutput": true, "SetFlags": true, "SetPrefix": true},
		"go.uber.org/zap":          {"ReplaceGlobals": true, "RedirectStdLog": true},
		"go.opentelemetry.io/otel": {"SetTracerProvider": true, "SetMeterProvider": true, "SetTextMapPropagator": true, "SetErrorHandler": true, "SetLogger": true},
	}
	n := 0
	bad := false
	for _, fn := range p.Funcs() {
		if pkgOf(fn) == nil || fn.Blocks == nil {
			continue
		}
		for _, call := range core.Calls(fn) {
			n++
			f := core.CalleeFunc(call)
			if f == nil || f.Pkg() == nil {
				continue
			}
			if sig, ok := f.Type().(*types.Signature); ok && sig.Recv() != nil {
				continue
			}
			if deny[f.Pkg().Path()][f.Name()] {
				bad = true
				c.R.Bad(rule, core.CallKey(fn, call), cfg, p.Pos(call.Pos()), sprintf("%s.%s writes process-wide state of the package without synchronisation: concurrent clients (and every other user of that package in the process) race with it", f.Pkg().Name(), f.Name()))
			}
		}
	}
	if !bad {
		c.R.Ok(rule, "library", cfg, "", sprintf("%d calls examined, none is an enumerated process-wide setter", n))
	}
	c.R.Count("calls examined for process-wide setters", n)
	c.R.Floor(rule, cfg, n, 1000)
}
