package props

import (
	"go/token"
	"go/types"
	"sort"
	"strings"

	"golang.org/x/tools/go/ssa"

	"chverif/core"
)

func init() { register("C14", runC14) }

func writerField(in ssa.Instruction) (string, bool) {
	fa, ok := in.(*ssa.FieldAddr)
	if !ok || !core.IsNamed(fa.X.Type(), core.PkgProto, "Writer") {
		return "", false
	}
	return fieldNameOnly(fa.X.Type(), fa.Field), true
}

func isWriterMethod(name string) func(*types.Func) bool {
	return func(f *types.Func) bool { return core.IsMethod(f, core.PkgProto, "Writer", name) }
}

// storesTo lists the stores to Writer field name in fn.
func storesTo(fn *ssa.Function, name string) []*ssa.Store {
	var out []*ssa.Store
	for _, b := range fn.Blocks {
		for _, in := range b.Instrs {
			s, ok := in.(*ssa.Store)
			if !ok {
				continue
			}
			if ai, ok := s.Addr.(ssa.Instruction); ok {
				if f, ok := writerField(ai); ok && f == name {
					out = append(out, s)
				}
			}
		}
	}
	return out
}

func runC14(c *Ctx) {
	p := c.Prog(core.CfgDefault)
	if p == nil {
		return
	}
	ruleWriterInvariant(c, p, "C14")
	ruleVectoredEquiv(c, p, "C14.equiv")
	ruleExitGuards(c, p, "C14.guard")
	ruleNoCapInEncoders(c, p, "C14.lenonly")
	ruleChainScratch(c, p, "C14.chain-scratch")
	ruleAllColumns(c, p, "C14.all-columns")
	ruleAssertSiblings(c, p, "C14.assert-siblings")
	ruleVersionArgs(c, p, "C14.version")
	ruleSameExtent(c, p, "C14.same-extent")
	ruleCutBeforeChain(c, p, "C14.cut-first")
	ruleSameAtomArgs(c, p, "C14.same-args")
	for _, cf := range c.Configs() {
		if pc := c.Prog(cf); pc != nil {
			ruleEncoderPure(c, pc, "C14.pure")
		}
	}
	ruleHeaderEveryColumn(c, p, "C14.descriptor")
	for _, cfg := range c.Configs() {
		if pc := c.Prog(cfg); pc != nil {
			ruleBufGrowByAppend(c, pc, "C14.grow")
			c.R.Rule("C14.append", "E4 (see C01.append) in every configuration: an encoder touches the buffer only at positions at or after its length at entry, so what was staged before it (packet code, block header, earlier columns) survives")
			c.R.Floor("C14.append", pc.Cfg.Name, runBufDisc(c, pc, "C14.append"), 90)
			ruleEveryElement(c, pc, "C14.every")
		}
	}
	if roles := resolveDo(c, p); roles != nil {
		// the client-level flush discipline that keeps zero-copy chained slices valid until they are written
		ruleInputStream(c, p, roles, "C14.input")
		ruleDiscard(c, p, roles, "C14")
	}
	c.R.Assumptions = append(c.R.Assumptions,
		"net.Buffers.WriteTo writes the slices in order and consumes them; short writes are its concern (standard library)",
		"decided: each induction step of the writer invariant and the language equality of the vectored and buffered encoders; not decided: byte values")
}

// ruleWriterInvariant: the induction steps of the vectored writer's invariant
// (pending output = concat(vec) ++ buf[bufOffset:]); shared by C14, C02, C04 and C09.
func ruleWriterInvariant(c *Ctx, p *core.Program, prefix string) {
	cfg := p.Cfg.Name
	// field roles by type, not by name: the vector is the net.Buffers field, the staging buffer the
	// *Buffer field, the offset the int field
	fVec, fOff, fBuf := "", "", ""
	if wn := p.NamedType(core.PkgProto, "Writer"); wn != nil {
		if st, ok := wn.Underlying().(*types.Struct); ok {
			for i := 0; i < st.NumFields(); i++ {
				f := st.Field(i)
				switch {
				case core.IsNamed(f.Type(), "net", "Buffers"):
					fVec = f.Name()
				case isBufferPtr(f.Type()):
					fBuf = f.Name()
				default:
					if b, ok := f.Type().Underlying().(*types.Basic); ok && b.Kind() == types.Int {
						fOff = f.Name()
					}
				}
			}
		}
	}
	if !c.must(p, "proto.Writer fields (net.Buffers vector, *Buffer staging buffer, int offset)", fVec != "" && fOff != "" && fBuf != "") {
		return
	}
	get := func(name string) *ssa.Function {
		fn := p.Method(core.PkgProto, "Writer", name)
		c.must(p, "(*proto.Writer)."+name, fn != nil)
		return fn
	}
	chainWrite, cut, flush := get("ChainWrite"), get("cutBuffer"), get("Flush")
	// the reset routine is found by what it does: the Writer method that stores the
	// constant 0 to the offset field (it may be unexported, or the exported Reset itself)
	var reset *ssa.Function
	bestScore := 0
	if wt := p.NamedType(core.PkgProto, "Writer"); wt != nil {
		for i := 0; i < wt.NumMethods(); i++ {
			fn := p.Prog.FuncValue(wt.Method(i))
			if fn == nil || fn.Blocks == nil {
				continue
			}
			if fn == chainWrite || fn == cut || fn == flush {
				continue
			}
			score := 0
			for _, st := range storesTo(fn, fOff) {
				if k, ok := core.ConstInt(st.Val); ok && k == 0 {
					score++
				}
			}
			for _, st := range storesTo(fn, fVec) {
				if sl, ok := st.Val.(*ssa.Slice); ok && sl.High != nil {
					if k, ok := core.ConstInt(sl.High); ok && k == 0 {
						score++
					}
				}
			}
			if len(core.FindCalls(fn, func(f *types.Func) bool { return core.IsMethod(f, core.PkgProto, "Buffer", "Reset") })) > 0 {
				score++
			}
			if score > bestScore || score == bestScore && score > 0 && reset != nil && fn.Name() < reset.Name() {
				bestScore, reset = score, fn
			}
		}
	}
	c.must(p, "(*proto.Writer) reset routine (clears offset / vector / staging buffer)", reset != nil)
	if chainWrite == nil || cut == nil || reset == nil || flush == nil {
		return
	}
	// a call of the reset routine, directly or through a thin wrapper method
	isResetCall := func(f *types.Func) bool {
		if f == nil || !core.IsMethod(f, core.PkgProto, "Writer", f.Name()) {
			return false
		}
		if f == fnObj(reset) {
			return true
		}
		g := p.Prog.FuncValue(f)
		return g != nil && g.Blocks != nil && len(g.Blocks) == 1 && core.ReachesCallee(g, func(h *types.Func) bool { return h == fnObj(reset) }, 0)
	}
	c.R.Notes = append(c.R.Notes, "invariant proved by induction over the Writer methods: pending output = concat(vec) ++ buf[bufOffset:]; each rule is one induction step")

	// ---- C14.cutfirst
	rule := prefix + ".cutfirst"
	c.R.Rule(rule, "ChainWrite cuts the staging buffer into the vector before it appends the caller's slice, so earlier ChainBuffer output precedes it")
	func() {
		cuts := core.FindCalls(chainWrite, isWriterMethod("cutBuffer"))
		vs := storesTo(chainWrite, fVec)
		if len(cuts) != 1 || len(vs) != 1 {
			c.R.Bad(rule, core.FuncName(chainWrite), cfg, p.Pos(chainWrite.Pos()), sprintf("%d cutBuffer calls, %d stores to vec", len(cuts), len(vs)))
			return
		}
		if !core.Dominates(cuts[0].(ssa.Instruction), vs[0]) {
			c.R.Bad(rule, core.FuncName(chainWrite), cfg, p.Pos(vs[0].Pos()), "the caller's slice is appended before the staging buffer is cut: order of output is not call order")
			return
		}
		// appended value is append(vec, data) with data the parameter
		ap, ok := vs[0].Val.(*ssa.Call)
		good := false
		if ok {
			if bi, ok := ap.Call.Value.(*ssa.Builtin); ok && bi.Name() == "append" && core.FieldOrigin(ap.Call.Args[0], 0) == "Writer."+fVec {
				for _, e := range variadicElems(ap.Call.Args[1]) {
					if pr, ok := e.(*ssa.Parameter); ok && pr.Name() == "data" {
						good = true
					}
				}
			}
		}
		if !good {
			c.R.Bad(rule, core.FuncName(chainWrite), cfg, p.Pos(vs[0].Pos()), "vec is not extended by exactly the chained slice")
			return
		}
		c.R.Ok(rule, core.FuncName(chainWrite), cfg, p.Pos(vs[0].Pos()), "cutBuffer dominates vec = append(vec, data)")
	}()

	// ---- C14.cut
	rule = prefix + ".cut"
	c.R.Rule(rule, "cutBuffer appends exactly buf[bufOffset:len(buf)] to the vector and advances bufOffset to that length on every path on which it appends (an empty tail appends nothing)")
	func() {
		vs := storesTo(cut, fVec)
		os := storesTo(cut, fOff)
		if len(vs) != 1 || len(os) != 1 {
			c.R.Bad(rule, core.FuncName(cut), cfg, p.Pos(cut.Pos()), sprintf("%d stores to vec and %d to bufOffset in cutBuffer (expected one each): the tail is emitted twice or never marked as emitted", len(vs), len(os)))
			return
		}
		// the slice appended (possibly computed by a single-exit helper that returns it)
		ap, ok := vs[0].Val.(*ssa.Call)
		var sl *ssa.Slice
		if ok {
			if bi, ok := ap.Call.Value.(*ssa.Builtin); ok && bi.Name() == "append" {
				for _, e := range variadicElems(ap.Call.Args[1]) {
					if s, ok := throughHelperResult(e).(*ssa.Slice); ok && sl == nil {
						sl = s
					}
				}
			}
		}
		offVal := throughHelperResult(os[0].Val)
		if sl == nil {
			c.R.Bad(rule, core.FuncName(cut), cfg, p.Pos(vs[0].Pos()), "what is appended to vec is not a slice of the staging buffer")
			return
		}
		isLenBuf := func(v ssa.Value) bool {
			cl, ok := v.(*ssa.Call)
			if !ok {
				return false
			}
			bi, ok := cl.Call.Value.(*ssa.Builtin)
			return ok && bi.Name() == "len" && core.FieldOrigin(cl.Call.Args[0], 0) == "Buffer.Buf"
		}
		switch {
		case core.FieldOrigin(sl.X, 0) != "Buffer.Buf":
			c.R.Bad(rule, core.FuncName(cut), cfg, p.Pos(sl.Pos()), "the cut is not taken from the staging buffer")
		case sl.Low == nil || core.FieldOrigin(sl.Low, 0) != "Writer."+fOff:
			c.R.Bad(rule, core.FuncName(cut), cfg, p.Pos(sl.Pos()), "the cut does not start at bufOffset: bytes are emitted twice or skipped")
		case sl.High != nil && !isLenBuf(sl.High):
			c.R.Bad(rule, core.FuncName(cut), cfg, p.Pos(sl.Pos()), "the cut does not end at the current length of the staging buffer")
		case !isLenBuf(offVal) && !(sl.High != nil && offVal == sl.High):
			c.R.Bad(rule, core.FuncName(cut), cfg, p.Pos(os[0].Pos()), "bufOffset is not advanced to the length that was cut")
		default:
			// both stores on the same paths: from the vec store every exit passes the bufOffset store or it precedes
			w1 := core.ReachAvoiding(core.PointOf(vs[0]), core.IsExit, func(in ssa.Instruction) bool { return in == ssa.Instruction(os[0]) }, nil)
			before := core.Dominates(os[0], vs[0])
			if len(w1) > 0 && !before {
				c.R.Bad(rule, core.FuncName(cut), cfg, p.Pos(vs[0].Pos()), "a tail can be appended to the vector without advancing bufOffset: it is written again by the next cut")
			} else {
				c.R.Ok(rule, core.FuncName(cut), cfg, p.Pos(sl.Pos()), "vec += buf[bufOffset:len]; bufOffset = len")
			}
		}
	}()

	// ---- C14.flush
	rule = prefix + ".flush"
	c.R.Rule(rule, "Flush = cutBuffer, then one WriteTo of the vector to the connection, then reset; reset lies on every path from the write to every exit (also when the write failed), and the results of WriteTo are what Flush returns")
	func() {
		cuts := core.FindCalls(flush, isWriterMethod("cutBuffer"))
		var wt []ssa.CallInstruction
		for _, call := range core.Calls(flush) {
			if f := core.CalleeFunc(call); f != nil && f.Name() == "WriteTo" && core.IsNamed(f.Type().(*types.Signature).Recv().Type(), "net", "Buffers") {
				wt = append(wt, call)
			}
		}
		if len(cuts) != 1 || len(wt) != 1 {
			c.R.Bad(rule, core.FuncName(flush), cfg, p.Pos(flush.Pos()), sprintf("%d cutBuffer and %d net.Buffers.WriteTo calls in Flush", len(cuts), len(wt)))
			return
		}
		w := wt[0].(ssa.Instruction)
		if !core.Dominates(cuts[0].(ssa.Instruction), w) {
			c.R.Bad(rule, core.FuncName(flush), cfg, p.Pos(w.Pos()), "the vector is written before the staging buffer's tail is cut into it: the tail is lost or delayed")
			return
		}
		miss := core.ReachAvoiding(core.PointOf(w), core.IsExit, func(in ssa.Instruction) bool { return core.IsCallOf(in, isResetCall) }, nil)
		if len(miss) > 0 {
			c.R.Bad(rule, core.FuncName(flush), cfg, p.Pos(miss[0].At.Pos()), "Flush can return (write error) without resetting: what was queued before the failed flush is written again by the next one", p.TrailString(miss[0])...)
			return
		}
		// no other way out to the connection: a direct Write of the Writer's conn in any Writer method would
		// emit staged bytes and chained slices in an order of its own
		for _, fn := range p.Funcs() {
			if rn := core.RecvNamed2(fn); rn == nil || rn.Obj().Name() != "Writer" || pkgOf(fn) == nil || pkgOf(fn).Path() != core.PkgProto {
				continue
			}
			for _, call := range core.Calls(fn) {
				cc := call.Common()
				if !cc.IsInvoke() || cc.Method.Name() != "Write" || !strings.HasPrefix(core.FieldOrigin(cc.Value, 0), "Writer.") {
					continue
				}
				dom := false
				for _, ct := range core.FindCalls(fn, isWriterMethod("cutBuffer")) {
					if core.Dominates(ct.(ssa.Instruction), call.(ssa.Instruction)) {
						dom = true
					}
				}
				// with nothing chained, the staging buffer's tail is all there is: writing it directly keeps the order
				emptyVec := core.CondEdges(fn, true, func(cond ssa.Value) (bool, bool) {
					bo, ok := cond.(*ssa.BinOp)
					if !ok || (bo.Op != token.EQL && bo.Op != token.NEQ) {
						return false, false
					}
					k, isC := core.ConstInt(bo.Y)
					cl, isL := bo.X.(*ssa.Call)
					if !isC || k != 0 || !isL {
						return false, false
					}
					bi, isB := cl.Call.Value.(*ssa.Builtin)
					if !isB || bi.Name() != "len" || core.FieldOrigin(cl.Call.Args[0], 0) != "Writer."+fVec {
						return false, false
					}
					return bo.Op == token.EQL, true
				})
				if !dom && len(emptyVec) > 0 && core.OnlyViaEdges(fn, call.(ssa.Instruction), emptyVec) {
					dom = true
				}
				if !dom {
					c.R.Bad(rule, core.CallKey(fn, call), cfg, p.Pos(call.Pos()), "the Writer writes to the connection directly, without the staging buffer's tail having been cut into the vector first: bytes staged after the last chained slice (a block header, the end-of-data marker) go out before the slices chained ahead of them")
					return
				}
			}
		}
		// receiver of WriteTo is &w.vec and its target w.conn
		c.R.Ok(rule, core.FuncName(flush), cfg, p.Pos(w.Pos()), "cutBuffer -> vec.WriteTo(conn) -> reset on all paths")
	}()

	// ---- C14.reset
	rule = prefix + ".reset"
	c.R.Rule(rule, "reset clears all three parts of the pending output: bufOffset = 0, the staging buffer (Buffer.Reset) and the vector (length 0)")
	func() {
		okOff := false
		for _, s := range storesTo(reset, fOff) {
			if v, ok := core.ConstInt(s.Val); ok && v == 0 {
				okOff = true
			}
		}
		okBuf := len(core.FindCalls(reset, func(f *types.Func) bool { return core.IsMethod(f, core.PkgProto, "Buffer", "Reset") })) > 0
		okVec := false
		for _, s := range storesTo(reset, fVec) {
			if sl, ok := s.Val.(*ssa.Slice); ok && sl.High != nil {
				if v, ok := core.ConstInt(sl.High); ok && v == 0 {
					okVec = true
				}
			}
			if core.IsNilConst(s.Val) {
				okVec = true
			}
		}
		if okOff && okBuf && okVec {
			c.R.Ok(rule, core.FuncName(reset), cfg, p.Pos(reset.Pos()), "bufOffset, buffer and vector cleared")
		} else {
			c.R.Bad(rule, core.FuncName(reset), cfg, p.Pos(reset.Pos()), sprintf("reset forgets part of the state (bufOffset=0: %v, buf.Reset(): %v, vec[:0]: %v)", okOff, okBuf, okVec))
		}
	}()

	// ---- C14.confine
	rule = prefix + ".confine"
	c.R.Rule(rule, "bufOffset and vec are written only by ChainWrite, cutBuffer, reset and the constructor; the staging buffer is only appended to (C01.append over every ChainBuffer callback), so bufOffset always points into it")
	func() {
		allowed := map[string]bool{chainWrite.Name(): true, cut.Name(): true, reset.Name(): true, "NewWriter": true}
		bad := false
		n := 0
		for _, fn := range p.Funcs() {
			for _, b := range fn.Blocks {
				for _, in := range b.Instrs {
					s, ok := in.(*ssa.Store)
					if !ok {
						continue
					}
					ai, ok := s.Addr.(ssa.Instruction)
					if !ok {
						continue
					}
					f, ok := writerField(ai)
					if !ok || (f != fOff && f != fVec && f != fBuf) {
						continue
					}
					n++
					if !allowed[fn.Name()] || pkgOf(fn) == nil || pkgOf(fn).Path() != core.PkgProto {
						bad = true
						c.R.Bad(rule, core.FuncName(fn)+"/store-"+f, cfg, p.Pos(s.Pos()), "Writer."+f+" is written outside the methods the invariant was proved over")
					}
				}
			}
		}
		// WriteTo consumes w.vec in place (net.Buffers.WriteTo takes *Buffers): only Flush may do so
		if !bad {
			c.R.Ok(rule, "proto.Writer", cfg, "", sprintf("%d stores, all inside ChainWrite/cutBuffer/reset/NewWriter", n))
		}
		nb := runBufDisc(c, p, prefix+".confine")
		c.R.Count("ChainBuffer-able encoders", nb)
	}()

	// the exported discard used by the client (Reset) performs the full reset
	if rs := p.Method(core.PkgProto, "Writer", "Reset"); rs != nil {
		if rs == reset || core.ReachesCallee(rs, isResetCall, 0) {
			c.R.Ok(prefix+".reset", core.FuncName(rs), cfg, p.Pos(rs.Pos()), "Reset = reset")
		} else {
			c.R.Bad(prefix+".reset", core.FuncName(rs), cfg, p.Pos(rs.Pos()), "the exported Reset (used to discard the output of a failed request) does not perform the full reset")
		}
	}
}

// ruleVectoredEquiv: L(WriteBlock) = L(EncodeBlock), L(WriteColumn) = L(EncodeColumn).
func ruleVectoredEquiv(c *Ctx, p *core.Program, rule string) {
	c.R.Rule(rule, "E2 language equality (both containments, data conditions erased, every revision sample): Block.WriteBlock emits the same atom sequences as Block.EncodeBlock, and for every column type WriteColumn emits the same sequences as EncodeColumn (atoms: wire primitives, raw appends / chained slices, nested column codecs keyed by their access path, state prefixes)")
	cfg := p.Cfg.Name
	wb := p.Method(core.PkgProto, "Block", "WriteBlock")
	eb := p.Method(core.PkgProto, "Block", "EncodeBlock")
	if c.must(p, "Block.WriteBlock / Block.EncodeBlock", wb != nil && eb != nil) {
		cls := wireClassifier(p, false)
		th := thresholds(p)
		seen := map[string]bool{}
		bad := false
		for _, r := range revisionSamples(p, false) {
			sig := gateSignature(th, r)
			if seen[sig] {
				continue
			}
			seen[sig] = true
			o := langOpts{p: p, classify: cls, revision: r}
			wa, ea := buildLang(wb, o), buildLang(eb, o)
			wd, ed := wa.determinize(), ea.determinize()
			if len(wa.undec)+len(ea.undec) > 0 {
				bad = true
				c.R.Unk(rule, "Block.WriteBlock=EncodeBlock", cfg, p.Pos(wb.Pos()), strings.Join(append(wa.undec, ea.undec...), "; "))
				break
			}
			if ok, w := contained(wd, ed); !ok {
				bad = true
				c.R.Bad(rule, "Block.WriteBlock=EncodeBlock", cfg, p.Pos(wb.Pos()), sprintf("revision %d: the vectored path can emit [%s], the buffered path cannot", r, strings.Join(w, " ")))
				break
			}
			if ok, w := contained(ed, wd); !ok {
				bad = true
				c.R.Bad(rule, "Block.WriteBlock=EncodeBlock", cfg, p.Pos(wb.Pos()), sprintf("revision %d: the buffered path can emit [%s], the vectored path cannot", r, strings.Join(w, " ")))
				break
			}
		}
		if !bad {
			c.R.Ok(rule, "Block.WriteBlock=EncodeBlock", cfg, p.Pos(wb.Pos()), sprintf("equal languages under %d gate valuations", len(seen)))
		}
	}
	// columns
	n := 0
	cls := wireClassifier(p, true)
	for _, ct := range columnTypes(p) {
		enc := methodOf(p, ct, "EncodeColumn")
		wr := methodOf(p, ct, "WriteColumn")
		if enc == nil || wr == nil || enc.Blocks == nil || wr.Blocks == nil {
			continue
		}
		n++
		key := "column/" + ct.Obj().Name()
		o := langOpts{p: p, classify: cls, revision: -1}
		ea, wa := buildLang(enc, o), buildLang(wr, o)
		if len(ea.undec)+len(wa.undec) > 0 {
			c.R.Unk(rule, key, cfg, p.Pos(wr.Pos()), strings.Join(append(ea.undec, wa.undec...), "; "))
			continue
		}
		ed, wd := ea.determinize(), wa.determinize()
		// zero rows: an early return and a zero-length raw write are the same bytes
		ed.final[0], wd.final[0] = true, true
		if ok, w := contained(wd, ed); !ok {
			c.R.Bad(rule, key, cfg, p.Pos(wr.Pos()), sprintf("WriteColumn can emit [%s], EncodeColumn cannot", strings.Join(w, " ")))
			continue
		}
		if ok, w := contained(ed, wd); !ok {
			c.R.Bad(rule, key, cfg, p.Pos(wr.Pos()), sprintf("EncodeColumn can emit [%s], WriteColumn cannot", strings.Join(w, " ")))
			continue
		}
		smp := ed.sampleWords(2, 12)
		c.R.Ok(rule, key, cfg, p.Pos(wr.Pos()), "equal languages, e.g. ["+strings.Join(smp, "] [")+"]")
	}
	c.R.Count("column types with EncodeColumn+WriteColumn["+cfg+"]", n)
	c.R.Floor(rule, cfg, n, 35)
}

// columnTypes lists the named types of package proto that have an
// EncodeColumn method (value or pointer receiver), generic origins included.
func columnTypes(p *core.Program) []*types.Named {
	var out []*types.Named
	sc := p.Pkgs[core.PkgProto].Types.Scope()
	for _, n := range sc.Names() {
		tn, ok := sc.Lookup(n).(*types.TypeName)
		if !ok || tn.IsAlias() {
			continue
		}
		named, ok := tn.Type().(*types.Named)
		if !ok {
			continue
		}
		if _, isIface := named.Underlying().(*types.Interface); isIface {
			continue
		}
		for i := 0; i < named.NumMethods(); i++ {
			if named.Method(i).Name() == "EncodeColumn" || named.Method(i).Name() == "DecodeColumn" {
				out = append(out, named)
				break
			}
		}
	}
	return out
}

// methodOf returns the declared (not promoted) method name of named.
func methodOf(p *core.Program, named *types.Named, name string) *ssa.Function {
	for i := 0; i < named.NumMethods(); i++ {
		if named.Method(i).Name() == name {
			return p.Prog.FuncValue(named.Method(i))
		}
	}
	return nil
}

var _ = token.ADD

// variadicElems returns the elements of a variadic argument slice built by
// the compiler (slice of a fresh array whose elements are stored), or v itself.
func variadicElems(v ssa.Value) []ssa.Value {
	sl, ok := v.(*ssa.Slice)
	if !ok {
		return []ssa.Value{v}
	}
	al, ok := sl.X.(*ssa.Alloc)
	if !ok {
		return []ssa.Value{v}
	}
	var out []ssa.Value
	for _, r := range *al.Referrers() {
		ia, ok := r.(*ssa.IndexAddr)
		if !ok {
			continue
		}
		for _, r2 := range *ia.Referrers() {
			if st, ok := r2.(*ssa.Store); ok && st.Addr == ia {
				out = append(out, st.Val)
			}
		}
	}
	return out
}

// ruleExitGuards: the empty-column shortcut of WriteColumn is the encoder's shortcut.
func ruleExitGuards(c *Ctx, p *core.Program, rule string) {
	c.R.Rule(rule, "for every column type, each condition under which WriteColumn returns at once without emitting anything is also a condition under which EncodeColumn does (conditions are canonicalised: operator, constants, access paths from the receiver, len / Rows() with trivial Rows methods inlined): a vectored shortcut taken on a different quantity (the key column's rows instead of the map's rows) drops bytes the buffered encoder emits")
	cfg := p.Cfg.Name
	var canon func(v ssa.Value, d int) string
	rowsOf := func(path string, callee *ssa.Function, d int) string {
		// inline `func (c T) Rows() int { return len(c.F) }` / `return c.F.Rows()`
		if callee != nil && len(callee.Blocks) == 1 && d < 4 {
			if ret, ok := callee.Blocks[0].Instrs[len(callee.Blocks[0].Instrs)-1].(*ssa.Return); ok && len(ret.Results) == 1 {
				inner := canon(ret.Results[0], d+1)
				if strings.HasPrefix(inner, "len(recv") || strings.HasPrefix(inner, "recv") {
					return strings.Replace(inner, "recv", path, 1)
				}
			}
		}
		return path + ".Rows()"
	}
	canon = func(v ssa.Value, d int) string {
		if d > 8 {
			return "?"
		}
		switch x := v.(type) {
		case *ssa.Const:
			if x.Value == nil {
				return "nil"
			}
			return x.Value.String()
		case *ssa.BinOp:
			return canon(x.X, d+1) + " " + x.Op.String() + " " + canon(x.Y, d+1)
		case *ssa.Convert:
			return canon(x.X, d+1)
		case *ssa.Call:
			if b, ok := x.Call.Value.(*ssa.Builtin); ok && b.Name() == "len" {
				return "len(" + accessPath(x.Call.Args[0], 0) + ")"
			}
			if x.Call.IsInvoke() && x.Call.Method.Name() == "Rows" {
				return accessPath(x.Call.Value, 0) + ".Rows()"
			}
			if f := core.CalleeFunc(x); f != nil && f.Name() == "Rows" && len(x.Call.Args) == 1 {
				return rowsOf(accessPath(x.Call.Args[0], 0), core.StaticFn(x), d)
			}
		}
		return accessPath(v, 0)
	}
	bareReturn := func(b *ssa.BasicBlock) bool {
		for _, in := range b.Instrs {
			switch in.(type) {
			case *ssa.Return, *ssa.RunDefers, *ssa.DebugRef:
			default:
				return false
			}
		}
		return true
	}
	guards := func(fn *ssa.Function) map[string]bool {
		out := map[string]bool{}
		for _, b := range fn.Blocks {
			ifi, ok := b.Instrs[len(b.Instrs)-1].(*ssa.If)
			if !ok {
				continue
			}
			// "returns at once without emitting anything": the test is reached before anything was written
			// (the exit of an encoding loop is a bare return too, but not a shortcut)
			effect := func(in ssa.Instruction) bool {
				switch x := in.(type) {
				case *ssa.Store:
					if _, spill := x.Val.(*ssa.Parameter); spill {
						return false // a value receiver / parameter moved to its stack slot
					}
					return true
				case *ssa.MapUpdate:
					return true
				case ssa.CallInstruction:
					if _, isB := x.Common().Value.(*ssa.Builtin); isB {
						return false
					}
					if x.Common().IsInvoke() {
						return x.Common().Method.Name() != "Rows"
					}
					if f := core.CalleeFunc(x); f != nil && f.Name() == "Rows" {
						return false
					}
					return true
				}
				return false
			}
			if len(core.ReachAvoiding(core.Entry(fn), func(x ssa.Instruction) bool { return x == ssa.Instruction(ifi) }, effect, nil)) == 0 {
				continue
			}
			for si, sc := range b.Succs {
				if bareReturn(sc) {
					k := canon(ifi.Cond, 0)
					if si == 1 {
						k = "!(" + k + ")"
					}
					out[k] = true
				}
			}
		}
		return out
	}
	n := 0
	for _, ct := range columnTypes(p) {
		enc, wr := methodOf(p, ct, "EncodeColumn"), methodOf(p, ct, "WriteColumn")
		if enc == nil || wr == nil || enc.Blocks == nil || wr.Blocks == nil {
			continue
		}
		n++
		ge, gw := guards(enc), guards(wr)
		key := "column/" + ct.Obj().Name()
		// an emit-nothing shortcut of the form `<count> == 0` must count the column's own rows
		if rowsFn := methodOf(p, ct, "Rows"); rowsFn != nil && rowsFn.Blocks != nil {
			own := rowsOf("recv", rowsFn, 0)
			badGuard := ""
			for _, gs := range []map[string]bool{ge, gw} {
				for g := range gs {
					lhs, ok := strings.CutSuffix(g, " == 0")
					if !ok {
						continue
					}
					if lhs != own && lhs != "recv.Rows()" && (strings.Contains(lhs, "Rows()") || strings.HasPrefix(lhs, "len(")) {
						badGuard = g
					}
				}
			}
			if badGuard != "" {
				c.R.Bad(rule, key+"/rows", cfg, p.Pos(enc.Pos()), sprintf("the encoder emits nothing when [%s], but the column's row count is %s: a column with rows for which that other count is zero (a Map whose maps are all empty) is sent without its data while the block header announces the rows", badGuard, own))
				continue
			}
		}
		var extra []string
		for k := range gw {
			if !ge[k] {
				extra = append(extra, k)
			}
		}
		sort.Strings(extra)
		if len(extra) > 0 && len(ge) > 0 {
			var have []string
			for k := range ge {
				have = append(have, k)
			}
			sort.Strings(have)
			c.R.Bad(rule, key, cfg, p.Pos(wr.Pos()), sprintf("WriteColumn returns without output when [%s]; EncodeColumn only when [%s]: for a column where the two differ the vectored path omits bytes", strings.Join(extra, "; "), strings.Join(have, "; ")))
		} else {
			c.R.Ok(rule, key, cfg, p.Pos(wr.Pos()), sprintf("%d shortcut(s), all shared with EncodeColumn", len(gw)))
		}
	}
	c.R.Floor(rule, cfg, n, 30)
}

// ruleNoCapInEncoders: what an encoder emits is sized by lengths, never by capacities.
func ruleNoCapInEncoders(c *Ctx, p *core.Program, rule string) {
	c.R.Rule(rule, "no EncodeColumn / WriteColumn / EncodeState of a column type evaluates cap() of column data (receiver-derived): the bytes between len and cap are not rows - they are zeroes or rows of an earlier batch - so a view or copy sized by the capacity emits them (the unsafe slice-header idiom scales the header's own Cap field and does not call cap)")
	cfg := p.Cfg.Name
	n := 0
	for _, ct := range columnTypes(p) {
		for _, mn := range []string{"EncodeColumn", "WriteColumn", "EncodeState"} {
			fn := methodOf(p, ct, mn)
			if fn == nil || fn.Blocks == nil {
				continue
			}
			n++
			key := ct.Obj().Name() + "." + mn
			bad := false
			fns := []*ssa.Function{fn}
			fns = append(fns, fn.AnonFuncs...)
			// helpers of the same column type the encoder calls on its receiver (c.raw())
			for _, call := range core.Calls(fn) {
				if h := core.StaticFn(call); h != nil && h.Blocks != nil && h != fn && h.Signature.Recv() != nil && core.NamedOf(h.Signature.Recv().Type()) != nil &&
					core.NamedOf(h.Signature.Recv().Type()).Obj() == ct.Obj() && h.Name() != "Rows" {
					fns = append(fns, h)
					// inside a generic body the callee is an instantiation wrapper: the declared method is behind it
					if h.Synthetic != "" {
						for _, wc := range core.Calls(h) {
							if g := core.StaticFn(wc); g != nil && g.Blocks != nil && strings.HasPrefix(h.Name(), g.Name()) {
								fns = append(fns, g)
							}
						}
					}
				}
			}
			for _, f := range fns {
				for _, call := range core.Calls(f) {
					bi, ok := call.Common().Value.(*ssa.Builtin)
					if !ok || bi.Name() != "cap" {
						continue
					}
					ap := accessPath(call.Common().Args[0], 0)
					if ap == "recv" || strings.HasPrefix(ap, "recv.") || strings.HasPrefix(ap, "free:") {
						bad = true
						c.R.Bad(rule, key, cfg, p.Pos(call.Pos()), "the encoder uses cap("+ap+"): output sized by a capacity carries bytes beyond the column's rows")
					}
				}
			}
			if !bad {
				c.R.Ok(rule, key, cfg, p.Pos(fn.Pos()), "no capacity of column data used").Trivial = true
			}
		}
	}
	c.R.Floor(rule, cfg, n, 80)
}

// throughHelperResult: a value that is the i-th result of a call to a single-exit helper of the
// same package is replaced by the expression the helper returns there.
func throughHelperResult(v ssa.Value) ssa.Value {
	idx := 0
	var call *ssa.Call
	switch x := v.(type) {
	case *ssa.Extract:
		idx = x.Index
		call, _ = x.Tuple.(*ssa.Call)
	case *ssa.Call:
		call = x
	}
	if call == nil {
		return v
	}
	g := core.StaticFn(call)
	if g == nil || g.Blocks == nil || call.Parent() == nil || pkgOf(g) == nil || pkgOf(g) != pkgOf(call.Parent()) {
		return v
	}
	var only *ssa.Return
	for _, b := range g.Blocks {
		if ret, ok := b.Instrs[len(b.Instrs)-1].(*ssa.Return); ok {
			if only != nil {
				return v
			}
			only = ret
		}
	}
	if only == nil || len(only.Results) <= idx {
		return v
	}
	return only.Results[idx]
}

// ---- chain-scratch (C14 / C16 / C09): memory handed to ChainWrite is not rewritten before Flush
// chainScratch examines the ChainWrite calls of fn on locally allocated buffers: for each, the witness
// of a later write to that buffer (nil when there is none).
func chainScratch(fn *ssa.Function) (calls []ssa.CallInstruction, later []*core.Witness) {
	baseOf := func(v ssa.Value) ssa.Value {
		for d := 0; d < 8; d++ {
			switch x := v.(type) {
			case *ssa.Slice:
				v = x.X
			case *ssa.ChangeType:
				v = x.X
			case *ssa.UnOp:
				// a local captured by a closure lives in a cell: follow its single store
				cell, ok := x.X.(*ssa.Alloc)
				if !ok || x.Op != token.MUL {
					return nil
				}
				var stored ssa.Value
				ns := 0
				for _, r := range *cell.Referrers() {
					if st, ok := r.(*ssa.Store); ok && st.Addr == cell {
						stored = st.Val
						ns++
					}
				}
				if ns != 1 {
					return nil
				}
				v = stored
			case *ssa.MakeSlice, *ssa.Alloc:
				return v
			default:
				return nil
			}
		}
		return nil
	}
	for _, call := range core.FindCalls(fn, isWriterMethod("ChainWrite")) {
		args := call.Common().Args
		if len(args) < 2 {
			continue
		}
		base := baseOf(args[1])
		if base == nil {
			continue
		}
		call := call
		writes := func(in ssa.Instruction) bool {
			switch x := in.(type) {
			case *ssa.Store:
				if ia, ok := x.Addr.(*ssa.IndexAddr); ok && baseOf(ia.X) == base {
					return true
				}
			case *ssa.Call:
				if ssa.CallInstruction(x) == call {
					return false
				}
				f := core.CalleeFunc(x)
				isCopy := false
				if bi, ok := x.Call.Value.(*ssa.Builtin); ok && bi.Name() == "copy" {
					isCopy = true
				}
				if isCopy || (f != nil && f.Pkg() != nil && f.Pkg().Path() == "encoding/binary" && strings.HasPrefix(f.Name(), "Put")) {
					for i, a := range x.Call.Args {
						if baseOf(a) == base && (i == 0 || (!isCopy && i == 1 && x.Call.Signature().Recv() != nil)) {
							return true
						}
					}
				}
			}
			return false
		}
		// re-executing the allocation yields a fresh object: only writes reached without passing it again count
		fresh := func(in ssa.Instruction) bool {
			v, ok := in.(ssa.Value)
			return ok && v == base
		}
		w := core.ReachAvoiding(core.PointOf(call.(ssa.Instruction)), writes, fresh, nil)
		calls = append(calls, call)
		if len(w) > 0 {
			later = append(later, &w[0])
		} else {
			later = append(later, nil)
		}
	}
	return
}

func ruleChainScratch(c *Ctx, p *core.Program, rule string) {
	c.R.Rule(rule, "Writer.ChainWrite records its argument by reference until Flush: in package proto, a slice of a buffer the function itself allocated (make / local array) that is handed to ChainWrite is not written again on any path after the call (PutUvarint / Put* / copy into it, indexed stores) - a per-row scratch slice chained and then refilled for the next row makes every chained prefix carry the last row's bytes")
	cfg := p.Cfg.Name
	n := 0
	for _, fn := range p.Funcs() {
		if pkgOf(fn) == nil || pkgOf(fn).Path() != core.PkgProto || fn.Blocks == nil || strings.HasPrefix(fn.Name(), "verifFixture") {
			continue
		}
		calls, later := chainScratch(fn)
		for i, call := range calls {
			n++
			key := core.CallKey(fn, call) + "/scratch"
			if later[i] != nil {
				c.R.Bad(rule, key, cfg, p.Pos(later[i].At.Pos()), "a locally allocated buffer is written again after a slice of it was handed to ChainWrite: the writer still references it, so what is flushed is the later contents", p.TrailString(*later[i])...)
			} else {
				c.R.Ok(rule, key, cfg, p.Pos(call.Pos()), "the chained local buffer is not written afterwards")
			}
		}
	}
	c.R.Count("ChainWrite calls on locally allocated buffers["+cfg+"]", n)
}

// ---- all-columns (C09 / C14 / C01): a block encoder visits every input column before it succeeds
func ruleAllColumns(c *Ctx, p *core.Program, rule string) {
	c.R.Rule(rule, "a block encoder (a proto function that ranges over its []InputColumn parameter and writes) succeeds only after the loop over the columns has run to its end: every success exit is reached through the exit edge of that loop - an early `rows == 0 -> return nil` after the counters drops the name/type header of every column of a block with columns but no rows (an idle round of a streamed INSERT), and the server parses the next packet as a column name. The language comparison of the two encoders cannot see this: with no columns the short form is legal")
	cfg := p.Cfg.Name
	n := 0
	for _, fn := range p.Funcs() {
		if pkgOf(fn) == nil || pkgOf(fn).Path() != core.PkgProto || fn.Blocks == nil {
			continue
		}
		var in *ssa.Parameter
		for _, pr := range fn.Params {
			if sl, ok := pr.Type().Underlying().(*types.Slice); ok && core.IsNamed(sl.Elem(), core.PkgProto, "InputColumn") {
				in = pr
			}
		}
		if in == nil {
			continue
		}
		// the loop test `i < len(input)`
		var exits []core.Edge
		for _, b := range fn.Blocks {
			ifi, ok := b.Instrs[len(b.Instrs)-1].(*ssa.If)
			if !ok {
				continue
			}
			bo, ok := ifi.Cond.(*ssa.BinOp)
			if !ok || bo.Op != token.LSS {
				continue
			}
			cl, ok := stripConv(bo.Y).(*ssa.Call)
			if !ok {
				continue
			}
			if bi, okb := cl.Call.Value.(*ssa.Builtin); okb && bi.Name() == "len" && cl.Call.Args[0] == ssa.Value(in) {
				exits = append(exits, core.Edge{B: b, Succ: 1})
			}
		}
		if len(exits) == 0 {
			continue
		}
		n++
		key := core.FuncName(fn)
		bad := false
		for _, b := range fn.Blocks {
			ret, ok := b.Instrs[len(b.Instrs)-1].(*ssa.Return)
			if !ok || !defaultSuccess(fn, ret) {
				continue
			}
			if !core.OnlyViaEdges(fn, ret, exits) {
				bad = true
				c.R.Bad(rule, key, cfg, p.Pos(ret.Pos()), "the block encoder can succeed without having visited the input columns: a block with columns but no rows is written without its column headers")
			}
		}
		if !bad {
			c.R.Ok(rule, key, cfg, p.Pos(fn.Pos()), "every success exit follows the end of the loop over the input columns")
		}
	}
	c.R.Count("block encoders["+cfg+"]", n)
	c.R.Floor(rule, cfg, n, 2)
}

// ---- assert-siblings (C14): the two block encoders ask their columns for the same optional interfaces
func ruleAssertSiblings(c *Ctx, p *core.Program, rule string) {
	c.R.Rule(rule, "sibling agreement of the block encoders: Block.EncodeRawBlock (buffered, compressed path) and Block.WriteBlock (vectored path) discover the optional behaviour of an input column through type assertions; the sets of interfaces they assert to are equal - asserting to the wider Stateful (encoder + decoder) in one of them silently skips the state prefix of columns passed by value (DecodeState has a pointer receiver), and only on that path")
	cfg := p.Cfg.Name
	eb := p.Method(core.PkgProto, "Block", "EncodeRawBlock")
	wb := p.Method(core.PkgProto, "Block", "WriteBlock")
	if !c.must(p, "Block.EncodeRawBlock / WriteBlock", eb != nil && wb != nil) {
		return
	}
	collect := func(root *ssa.Function) []string {
		set := map[string]bool{}
		for fn := range core.StaticReach(root, 2) {
			if pkgOf(fn) == nil || pkgOf(fn).Path() != core.PkgProto {
				continue
			}
			// the encoder, its closures, and helper methods of the input column it calls per column
			if rn := core.RecvNamed2(fn); fn != root && fn.Parent() != root && !(rn != nil && rn.Obj().Name() == "InputColumn") {
				continue
			}
			for _, b := range fn.Blocks {
				for _, in := range b.Instrs {
					if ta, ok := in.(*ssa.TypeAssert); ok {
						if nm := core.NamedOf(ta.AssertedType); nm != nil {
							set[nm.Obj().Name()] = true
						} else {
							set[ta.AssertedType.String()] = true
						}
					}
				}
			}
		}
		var out []string
		for k := range set {
			out = append(out, k)
		}
		sort.Strings(out)
		return out
	}
	a, b := collect(eb), collect(wb)
	if strings.Join(a, ",") == strings.Join(b, ",") && len(a) > 0 {
		c.R.Ok(rule, "Block.EncodeRawBlock=WriteBlock", cfg, p.Pos(wb.Pos()), "both assert to {"+strings.Join(a, ", ")+"}")
	} else {
		c.R.Bad(rule, "Block.EncodeRawBlock=WriteBlock", cfg, p.Pos(wb.Pos()), "the buffered encoder asserts its columns to {"+strings.Join(a, ", ")+"}, the vectored one to {"+strings.Join(b, ", ")+"}: a column that satisfies one set but not the other is encoded differently on the two paths")
	}
}

// ruleSameExtent (C14): the vectored path chains the same extent of column memory that the buffered path appends.
func ruleSameExtent(c *Ctx, p *core.Program, rule string) {
	c.R.Rule(rule, "for every column type whose EncodeColumn appends a receiver field as a whole (append(b.Buf, c.F...)) and whose WriteColumn chains that field (ChainWrite), WriteColumn chains the whole field too - not a window c.F[:n] computed from the row count: the two paths must put the same bytes on the wire for every state the public fields can be in (Buf filled directly, SetSize on a reused column), and only the buffered path would carry the bytes beyond n")
	cfg := p.Cfg.Name
	n := 0
	for _, ct := range columnTypes(p) {
		enc, wr := methodOf(p, ct, "EncodeColumn"), methodOf(p, ct, "WriteColumn")
		if enc == nil || wr == nil || enc.Blocks == nil || wr.Blocks == nil || len(enc.Params) == 0 || len(wr.Params) == 0 {
			continue
		}
		wholeField := func(fn *ssa.Function, v ssa.Value) (string, bool, bool) {
			// (field, isWhole, ok)
			windowed := false
			if sl, ok := v.(*ssa.Slice); ok {
				v = sl.X
				windowed = sl.Low != nil || sl.High != nil
			}
			ap := accessPath(v, 0)
			if !strings.HasPrefix(ap, "recv.") || strings.Contains(ap[5:], ".") || strings.Contains(ap, "[") {
				return "", false, false
			}
			return ap[5:], !windowed, true
		}
		// what EncodeColumn appends
		encWhole := map[string]bool{}
		for _, call := range core.Calls(enc) {
			if bi, ok := call.Common().Value.(*ssa.Builtin); ok && bi.Name() == "append" && len(call.Common().Args) == 2 {
				if f, whole, ok := wholeField(enc, call.Common().Args[1]); ok && whole {
					encWhole[f] = true
				}
			}
		}
		if len(encWhole) == 0 {
			continue
		}
		for _, call := range core.FindCalls(wr, func(f *types.Func) bool { return core.IsMethod(f, core.PkgProto, "Writer", "ChainWrite") }) {
			args := call.Common().Args
			f, whole, ok := wholeField(wr, args[len(args)-1])
			if !ok || !encWhole[f] {
				continue
			}
			n++
			key := ct.Obj().Name() + "/" + f
			if whole {
				c.R.Ok(rule, key, cfg, p.Pos(call.Pos()), "both paths emit the whole field")
			} else {
				c.R.Bad(rule, key, cfg, p.Pos(call.Pos()), "EncodeColumn appends the whole of "+f+", WriteColumn chains only a window of it: bytes beyond the window reach the wire on the buffered (compressed) path only")
			}
		}
	}
	c.R.Count("columns emitting a whole field on both paths["+cfg+"]", n)
	c.R.Floor(rule, cfg, n, 1)
}
