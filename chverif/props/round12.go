package props

import (
	"go/token"
	"go/types"
	"strings"

	"golang.org/x/tools/go/ssa"

	"chverif/core"
)

// Rules added in seeding round 12.

// handshakeGoroutine returns the closure of Client.handshake that reads the
// server hello (nil when the anchor is lost).
func handshakeGoroutine(c *Ctx, p *core.Program) *ssa.Function {
	hs := p.Method(core.PkgCh, "Client", "handshake")
	if !c.must(p, "(*ch.Client).handshake", hs != nil) {
		return nil
	}
	var hg *ssa.Function
	for _, a := range hs.AnonFuncs {
		if core.ReachesCallee(a, isClientMethod("packet"), 1) {
			hg = a
		}
	}
	if !c.must(p, "handshake goroutine (closure of handshake that calls packet())", hg != nil) {
		return nil
	}
	return hg
}

// nilErrEdge is an edge filter that cuts the non-nil edge of every error test.
func nilErrEdge(b *ssa.BasicBlock, i int) bool {
	if ifi, ok := b.Instrs[len(b.Instrs)-1].(*ssa.If); ok {
		if x, nonNil, ok := nilCmp(ifi.Cond); ok && isErrorTyped(x) {
			nn := 1
			if nonNil {
				nn = 0
			}
			if i == nn {
				return false
			}
		}
	}
	return true
}

// loadOfField reports whether v is a load (possibly converted) of the struct
// field called name, whatever the struct value is reached through.
func loadOfField(v ssa.Value, name string) bool {
	u, ok := stripConv(v).(*ssa.UnOp)
	if !ok || u.Op != token.MUL {
		return false
	}
	fa, ok := u.X.(*ssa.FieldAddr)
	return ok && fieldNameOnly(fa.X.Type(), fa.Field) == name
}

// ruleCallbackKept (C03.callback-kept): Do replaces the caller's OnResult only
// when the caller bound no Result.
func ruleCallbackKept(c *Ctx, p *core.Program, rule string) {
	c.R.Rule(rule, "Client.Do overwrites Query.OnResult (to collect the INSERT column info itself) only on paths where Query.Result == nil was established: a caller that binds Result and OnResult keeps its callback, so every data block still reaches it")
	cfg := p.Cfg.Name
	do := p.Method(core.PkgCh, "Client", "Do")
	if !c.must(p, "(*ch.Client).Do", do != nil) {
		return
	}
	n := 0
	fns := append([]*ssa.Function{do}, do.AnonFuncs...)
	// the set-up may live in a helper of package ch that Do calls
	for _, call := range core.Calls(do) {
		if sf := core.StaticFn(call); sf != nil && sf.Blocks != nil && pkgOf(sf) != nil && pkgOf(sf).Path() == core.PkgCh && sf != do {
			fns = append(fns, sf)
		}
	}
	for _, fn := range fns {
		for _, b := range fn.Blocks {
			for _, in := range b.Instrs {
				st, ok := in.(*ssa.Store)
				if !ok {
					continue
				}
				fa, ok := st.Addr.(*ssa.FieldAddr)
				if !ok || fieldNameOnly(fa.X.Type(), fa.Field) != "OnResult" || !core.IsNamed(derefType(fa.X.Type()), core.PkgCh, "Query") {
					continue
				}
				n++
				key := sprintf("%s/store-OnResult#%d", core.FuncName(fn), n)
				edges := core.CondEdges(fn, true, func(cond ssa.Value) (bool, bool) {
					x, nonNil, ok := nilCmp(cond)
					if !ok || !loadOfField(x, "Result") {
						return false, false
					}
					return !nonNil, true
				})
				if len(edges) > 0 && core.OnlyViaEdges(fn, st, edges) {
					c.R.Ok(rule, key, cfg, p.Pos(st.Pos()), "the callback is replaced only where Result == nil holds")
				} else {
					c.R.Bad(rule, key, cfg, p.Pos(st.Pos()), "Query.OnResult is overwritten on a path where the caller may have bound Result: the caller's callback never sees the blocks although Do returns nil")
				}
			}
		}
	}
	c.R.Count("stores to Query.OnResult in Do", n)
	c.R.Floor(rule, cfg, n, 1)
}

func derefType(t types.Type) types.Type {
	if pt, ok := t.Underlying().(*types.Pointer); ok {
		return pt.Elem()
	}
	return t
}

// rulePoolSingleDo (C09.no-replay): the pool runs a query once.
func rulePoolSingleDo(c *Ctx, p *core.Program, rule string) {
	c.R.Rule(rule, "Pool.Do hands the query to exactly one connection: after a call that reaches (*ch.Client).Do has returned, no second such call is reachable in Pool.Do (a retry on another connection replays a streamed INSERT: the OnInput callback is called again after it failed and rounds already sent are sent twice)")
	cfg := p.Cfg.Name
	pd := p.Method(core.PkgPool, "Pool", "Do")
	if !c.must(p, "(*chpool.Pool).Do", pd != nil) {
		return
	}
	isDo := func(f *types.Func) bool { return core.IsMethod(f, core.PkgCh, "Client", "Do") }
	var sites []ssa.Instruction
	for _, call := range core.Calls(pd) {
		if f := core.CalleeFunc(call); f != nil && isDo(f) {
			sites = append(sites, call.(ssa.Instruction))
			continue
		}
		if sf := core.StaticFn(call); sf != nil && sf.Blocks != nil && pkgOf(sf) != nil && pkgOf(sf).Path() == core.PkgPool && core.ReachesCallee(sf, isDo, 3) {
			sites = append(sites, call.(ssa.Instruction))
			continue
		}
		// the query handed over as a closure to a helper (withClient(ctx, func(c) { return c.Do(...) })):
		// the helper must run the closure once
		if sf := core.StaticFn(call); sf != nil && sf.Blocks != nil && pkgOf(sf) != nil && pkgOf(sf).Path() == core.PkgPool {
			for ai, a := range call.Common().Args {
				mc, ok := a.(*ssa.MakeClosure)
				if !ok {
					continue
				}
				cf, _ := mc.Fn.(*ssa.Function)
				if cf == nil || !core.ReachesCallee(cf, isDo, 3) {
					continue
				}
				sites = append(sites, call.(ssa.Instruction))
				pi := ai
				if sf.Signature.Recv() == nil && call.Common().IsInvoke() {
					pi = ai + 1
				}
				if pi >= len(sf.Params) {
					continue
				}
				prm := sf.Params[pi]
				var runs []ssa.Instruction
				for _, hc := range core.Calls(sf) {
					if hc.Common().Value == ssa.Value(prm) {
						runs = append(runs, hc.(ssa.Instruction))
					}
				}
				isRun := func(in ssa.Instruction) bool {
					for _, r := range runs {
						if r == in {
							return true
						}
					}
					return false
				}
				for _, r := range runs {
					if w := core.ReachAvoiding(core.PointOf(r), isRun, nil, nil); len(w) > 0 {
						c.R.Bad(rule, core.FuncName(sf), cfg, p.Pos(w[0].At.Pos()), "the helper can run the query closure a second time after it returned: a streamed INSERT is replayed", p.TrailString(w[0])...)
						return
					}
				}
			}
		}
	}
	if len(sites) == 0 {
		c.R.Unk(rule, core.FuncName(pd), cfg, p.Pos(pd.Pos()), "Pool.Do does not reach (*ch.Client).Do")
		return
	}
	isSite := func(in ssa.Instruction) bool {
		for _, s := range sites {
			if s == in {
				return true
			}
		}
		return false
	}
	bad := false
	for _, s := range sites {
		w := core.ReachAvoiding(core.PointOf(s), isSite, nil, nil)
		if len(w) > 0 {
			bad = true
			c.R.Bad(rule, core.FuncName(pd), cfg, p.Pos(w[0].At.Pos()), "the query can be executed a second time after the first execution returned: a streamed INSERT is replayed", p.TrailString(w[0])...)
			break
		}
	}
	if !bad {
		c.R.Ok(rule, core.FuncName(pd), cfg, p.Pos(sites[0].Pos()), sprintf("%d call site(s) reaching Client.Do, none followed by another", len(sites)))
	}
}

// ruleForwardEvery (C09.forward-every / C01.forward-every): a successful
// forward to one element goes on to the next element.
func ruleForwardEvery(c *Ctx, p *core.Program, rule string) {
	c.R.Rule(rule, "in the multi-element wrappers the loops that forward an optional capability to every element (EncodeState / DecodeState / Prepare / Infer / Reset) go on with the next element after an element that has the capability succeeded: from the passing edge of the type test, with the failing edge of every error test cut, the function exit is reachable only through the loop header - a `return err` that also runs for err == nil stops after the first capable element")
	cfg := p.Cfg.Name
	n := 0
	for _, ct := range columnTypes(p) {
		for _, mn := range []string{"EncodeState", "DecodeState", "Prepare", "Infer", "Reset"} {
			fn := methodOf(p, ct, mn)
			if fn == nil || fn.Blocks == nil {
				continue
			}
			k := 0
			// the capability test in a per-element helper called from the loop: after the helper
			// succeeded the loop goes on
			for _, call := range core.Calls(fn) {
				g := core.StaticFn(call)
				ci := call.(ssa.Instruction)
				if g == nil || g.Blocks == nil || !core.InLoop(ci) || pkgOf(g) == nil || pkgOf(g).Path() != core.PkgProto {
					continue
				}
				hasTest := false
				for _, gb := range g.Blocks {
					if gi, ok := gb.Instrs[len(gb.Instrs)-1].(*ssa.If); ok {
						if ex, ok := gi.Cond.(*ssa.Extract); ok && ex.Index == 1 {
							if ta, ok := ex.Tuple.(*ssa.TypeAssert); ok && ta.CommaOk {
								hasTest = true
							}
						}
					}
				}
				h := core.LoopHeader(ci)
				if !hasTest || h == nil {
					continue
				}
				n++
				k++
				key := sprintf("%s.%s/helper#%d", ct.Obj().Name(), mn, k)
				hits := core.ReachAvoiding(core.PointOf(ci), func(x ssa.Instruction) bool {
					_, isRet := x.(*ssa.Return)
					return isRet && x.Block().Comment != "recover"
				}, func(x ssa.Instruction) bool { return x.Block() == h }, nilErrEdge)
				if len(hits) > 0 {
					c.R.Bad(rule, key, cfg, p.Pos(hits[0].At.Pos()), "after the per-element helper succeeded the method returns instead of continuing with the next element", p.TrailString(hits[0])...)
				} else {
					c.R.Ok(rule, key, cfg, p.Pos(ci.Pos()), "a successful per-element helper call continues with the next element")
				}
			}
			for _, b := range fn.Blocks {
				ifi, ok := b.Instrs[len(b.Instrs)-1].(*ssa.If)
				if !ok || !core.InLoop(ifi) {
					continue
				}
				ex, ok := ifi.Cond.(*ssa.Extract)
				if !ok || ex.Index != 1 {
					continue
				}
				ta, ok := ex.Tuple.(*ssa.TypeAssert)
				if !ok || !ta.CommaOk {
					continue
				}
				h := core.LoopHeader(ifi)
				if h == nil {
					continue
				}
				n++
				k++
				key := sprintf("%s.%s/test#%d", ct.Obj().Name(), mn, k)
				hits := core.ReachAvoiding(core.Point{B: b.Succs[0], I: -1}, func(x ssa.Instruction) bool {
					_, isRet := x.(*ssa.Return)
					return isRet && x.Block().Comment != "recover"
				}, func(x ssa.Instruction) bool { return x.Block() == h }, nilErrEdge)
				if len(hits) > 0 {
					c.R.Bad(rule, key, cfg, p.Pos(hits[0].At.Pos()), "after an element with the capability succeeded the method returns instead of continuing: the elements after it are not forwarded to", p.TrailString(hits[0])...)
				} else {
					c.R.Ok(rule, key, cfg, p.Pos(ifi.Cond.Pos()), "a successful forward continues with the next element")
				}
			}
		}
	}
	c.R.Floor(rule, cfg, n, 3)
}

// ruleNoPrivateTimer (C08.timer): the idle timeout is only ever a read deadline.
func ruleNoPrivateTimer(c *Ctx, p *core.Program, rule string) {
	c.R.Rule(rule, "Client.readTimeout is consumed only as a read deadline on the connection (where an expiry between packets is retried by the receive loop): it never reaches time.NewTimer / time.After / time.AfterFunc / time.NewTicker / context.WithTimeout / context.WithDeadline in package ch - a private timer built from it runs down during an idle gap and is not retried by anybody")
	cfg := p.Cfg.Name
	n, bad := 0, 0
	isTimer := func(f *types.Func) bool {
		if f.Pkg() == nil {
			return false
		}
		switch f.Pkg().Path() + "." + f.Name() {
		case "time.NewTimer", "time.After", "time.AfterFunc", "time.NewTicker", "time.Tick", "context.WithTimeout", "context.WithDeadline":
			return true
		}
		return false
	}
	for _, fn := range p.Funcs() {
		if pkgOf(fn) == nil || pkgOf(fn).Path() != core.PkgCh || fn.Blocks == nil {
			continue
		}
		for _, call := range core.Calls(fn) {
			f := core.CalleeFunc(call)
			if f == nil || !isTimer(f) {
				continue
			}
			n++
			fromIdle := false
			for _, a := range call.Common().Args {
				if core.DependsOn(a, func(v ssa.Value) bool { return core.FieldOrigin(v, 0) == "Client.readTimeout" }, true) {
					fromIdle = true
				}
			}
			if fromIdle {
				bad++
				c.R.Bad(rule, core.CallKey(fn, call), cfg, p.Pos(call.Pos()), "a timer is armed with Client.readTimeout: an idle gap longer than ReadTimeout now fails the query although the receive loop retries the read")
			}
		}
	}
	c.R.Count("timer / context-timeout constructions in package ch", n)
	if bad == 0 {
		c.R.Ok(rule, "ch/timers", cfg, "", sprintf("%d timer constructions, none fed by Client.readTimeout", n))
	}
}

// ruleHeaderPerBlock (C02.header-per-block): every Data packet carries the table name it was asked to carry.
func ruleHeaderPerBlock(c *Ctx, p *core.Program, rule string) {
	c.R.Rule(rule, "Client.encodeBlock writes the packet header from its own tableName argument for every block: the store of ClientData.TableName takes the parameter, and the encoding that contains it lies on every path to a success exit (a header cached on the connection keeps the name of the first block for all later ones)")
	cfg := p.Cfg.Name
	eb := p.Method(core.PkgCh, "Client", "encodeBlock")
	if !c.must(p, "(*ch.Client).encodeBlock", eb != nil) {
		return
	}
	var tn *ssa.Parameter
	for _, prm := range eb.Params {
		if b, ok := prm.Type().Underlying().(*types.Basic); ok && b.Kind() == types.String {
			tn = prm
		}
	}
	if tn == nil {
		c.R.Unk(rule, core.FuncName(eb), cfg, p.Pos(eb.Pos()), "encodeBlock has no string parameter (table name)")
		return
	}
	fromParam := func(fn *ssa.Function, v ssa.Value) bool {
		return core.DependsOn(v, func(x ssa.Value) bool {
			if x == ssa.Value(tn) {
				return true
			}
			if fv, ok := x.(*ssa.FreeVar); ok && fn.Parent() == eb {
				for i, f := range fn.FreeVars {
					if f == fv {
						// the binding at the MakeClosure site
						for _, b := range eb.Blocks {
							for _, in := range b.Instrs {
								if mc, ok := in.(*ssa.MakeClosure); ok && mc.Fn == ssa.Value(fn) && i < len(mc.Bindings) {
									if mc.Bindings[i] == ssa.Value(tn) {
										return true
									}
									// the parameter spilled to a cell
									if al, ok := mc.Bindings[i].(*ssa.Alloc); ok {
										for _, r := range *al.Referrers() {
											if st, ok := r.(*ssa.Store); ok && st.Addr == ssa.Value(al) && st.Val == ssa.Value(tn) {
												return true
											}
										}
									}
								}
							}
						}
					}
				}
			}
			return false
		}, false)
	}
	// the store of TableName
	var site ssa.Instruction // the instruction of encodeBlock that performs (or hands over) the encoding
	found := false
	for _, fn := range append([]*ssa.Function{eb}, eb.AnonFuncs...) {
		for _, b := range fn.Blocks {
			for _, in := range b.Instrs {
				st, ok := in.(*ssa.Store)
				if !ok {
					continue
				}
				fa, ok := st.Addr.(*ssa.FieldAddr)
				if !ok || fieldNameOnly(fa.X.Type(), fa.Field) != "TableName" {
					continue
				}
				found = true
				if !fromParam(fn, st.Val) {
					c.R.Bad(rule, core.FuncName(fn)+"/TableName", cfg, p.Pos(st.Pos()), "ClientData.TableName is not taken from encodeBlock's table-name argument")
					return
				}
				if fn == eb {
					site = st
				} else {
					for _, b2 := range eb.Blocks {
						for _, in2 := range b2.Instrs {
							if cl, ok := in2.(ssa.CallInstruction); ok {
								for _, a := range cl.Common().Args {
									if mc, ok := a.(*ssa.MakeClosure); ok && mc.Fn == ssa.Value(fn) {
										site = in2
									}
								}
							}
						}
					}
				}
			}
		}
	}
	if !found || site == nil {
		c.R.Unk(rule, core.FuncName(eb), cfg, p.Pos(eb.Pos()), "no store of ClientData.TableName found in encodeBlock or its closures")
		return
	}
	w := core.ReachAvoiding(core.Entry(eb), func(in ssa.Instruction) bool {
		r, ok := in.(*ssa.Return)
		return ok && defaultSuccess(eb, r)
	}, func(in ssa.Instruction) bool { return in == site }, nilErrEdge)
	if len(w) > 0 {
		c.R.Bad(rule, core.FuncName(eb), cfg, p.Pos(w[0].At.Pos()), "a block can be written without encoding its header from the table-name argument (cached header): blocks with different table names on one connection all carry the first name", p.TrailString(w[0])...)
	} else {
		c.R.Ok(rule, core.FuncName(eb), cfg, p.Pos(site.Pos()), "the header is encoded from the argument on every success path")
	}
}

// ruleExternalPresence (C02.external-presence): a declared external table is sent whatever its row count.
func ruleExternalPresence(c *Ctx, p *core.Program, rule string) {
	c.R.Rule(rule, "Client.sendQuery sends the external-data block whenever Query.ExternalData has columns: under len(q.ExternalData) > 0 (folded through the CFG) no success exit is reachable without the encodeBlock call that takes q.ExternalData - a further condition on the contents (zero rows) drops the table's name and schema, which the statement refers to")
	cfg := p.Cfg.Name
	sq := p.Method(core.PkgCh, "Client", "sendQuery")
	if !c.must(p, "(*ch.Client).sendQuery", sq != nil) {
		return
	}
	var site ssa.Instruction
	for _, fn := range []*ssa.Function{sq} {
		for _, call := range core.FindCalls(fn, isClientMethod("encodeBlock")) {
			for _, a := range call.Common().Args {
				if loadOfField(a, "ExternalData") {
					site = call.(ssa.Instruction)
				}
			}
		}
	}
	if site == nil {
		c.R.Unk(rule, core.FuncName(sq), cfg, p.Pos(sq.Pos()), "no encodeBlock call taking Query.ExternalData in sendQuery")
		return
	}
	lenOfExt := func(v ssa.Value) bool {
		cl, ok := stripConv(v).(*ssa.Call)
		if !ok {
			return false
		}
		bi, ok := cl.Call.Value.(*ssa.Builtin)
		return ok && bi.Name() == "len" && loadOfField(cl.Call.Args[0], "ExternalData")
	}
	zero := func(v ssa.Value) bool {
		k, ok := intConstOf(v)
		return ok && k == 0
	}
	feas := core.FeasibleUnder(sq, func(cond ssa.Value) int {
		bo, ok := cond.(*ssa.BinOp)
		if !ok {
			return -1
		}
		switch {
		case lenOfExt(bo.X) && zero(bo.Y):
			switch bo.Op {
			case token.GTR, token.NEQ:
				return 1
			case token.EQL, token.LEQ:
				return 0
			}
		case zero(bo.X) && lenOfExt(bo.Y):
			switch bo.Op {
			case token.LSS, token.NEQ:
				return 1
			case token.EQL, token.GEQ:
				return 0
			}
		}
		return -1
	})
	edge := func(b *ssa.BasicBlock, i int) bool { return feas(b, i) && nilErrEdge(b, i) }
	w := core.ReachAvoiding(core.Entry(sq), func(in ssa.Instruction) bool {
		r, ok := in.(*ssa.Return)
		return ok && defaultSuccess(sq, r)
	}, func(in ssa.Instruction) bool { return in == site }, edge)
	if len(w) > 0 {
		c.R.Bad(rule, core.FuncName(sq), cfg, p.Pos(w[0].At.Pos()), "with external columns declared the query can be sent without the external-data block (an extra condition beside len(ExternalData) > 0)", p.TrailString(w[0])...)
	} else {
		c.R.Ok(rule, core.FuncName(sq), cfg, p.Pos(site.Pos()), "under len(ExternalData) > 0 every success path sends the external block")
	}
}

// ruleRowLoopBound (C07.row-loop): a per-row read loop of DecodeColumn runs for the announced number of rows.
func ruleRowLoopBound(c *Ctx, p *core.Program, rule string) {
	c.R.Rule(rule, "in every DecodeColumn(r, rows) of package proto a counted loop whose body reads from the wire is bounded by the rows parameter itself, never by a clamped copy of it (min(rows, K), or a merge of rows with a constant): a clamp that was meant for the allocation and reaches the loop accepts a prefix of the column as the whole column")
	cfg := p.Cfg.Name
	n, bad := 0, 0
	for _, fn := range p.Funcs() {
		if fn.Name() != "DecodeColumn" || pkgOf(fn) == nil || pkgOf(fn).Path() != core.PkgProto || fn.Blocks == nil || fn.Signature.Recv() == nil || len(fn.Params) != 3 {
			continue
		}
		rows := fn.Params[2]
		if b, ok := rows.Type().Underlying().(*types.Basic); !ok || b.Kind() != types.Int {
			continue
		}
		reads := map[*ssa.BasicBlock]bool{}
		for _, call := range core.Calls(fn) {
			cc := call.Common()
			isRead := false
			for _, a := range cc.Args {
				if core.IsNamed(derefType(a.Type()), core.PkgProto, "Reader") {
					isRead = true
				}
			}
			if cc.IsInvoke() {
				isRead = isRead || core.IsNamed(derefType(cc.Value.Type()), core.PkgProto, "Reader")
			}
			if isRead {
				reads[call.Block()] = true
			}
		}
		for _, l := range countedLoopHeaders(fn) {
			hasRead := false
			for b := range l.body {
				if reads[b] {
					hasRead = true
				}
			}
			if !hasRead {
				continue
			}
			bound := stripConv(l.bound)
			clamp := func(v ssa.Value) bool {
				v = stripConv(v)
				if cl, ok := v.(*ssa.Call); ok {
					if bi, ok := cl.Call.Value.(*ssa.Builtin); ok && (bi.Name() == "min" || bi.Name() == "max") {
						for _, a := range cl.Call.Args {
							if stripConv(a) == ssa.Value(rows) {
								return true
							}
						}
					}
				}
				if ph, ok := v.(*ssa.Phi); ok {
					hasRows, hasConst := false, false
					for _, e := range ph.Edges {
						if stripConv(e) == ssa.Value(rows) {
							hasRows = true
						}
						if _, ok := intConstOf(e); ok {
							hasConst = true
						}
					}
					return hasRows && hasConst
				}
				return false
			}
			key := sprintf("%s/loop@b%d", core.FuncName(fn), l.header.Index)
			switch {
			case bound == ssa.Value(rows):
				n++
				c.R.Ok(rule, key, cfg, p.Pos(fn.Pos()), "read loop bounded by rows")
			case clamp(bound):
				n++
				bad++
				c.R.Bad(rule, key, cfg, p.Pos(bound.Pos()), "the per-row read loop is bounded by a clamped copy of rows: a block with more rows than the clamp is accepted after reading only a prefix of the column")
			}
		}
	}
	c.R.Count("per-row read loops in DecodeColumn["+cfg+"]", n)
	if bad == 0 {
		c.R.Ok(rule, "proto/DecodeColumn", cfg, "", sprintf("%d per-row read loops bounded by rows, none clamped", n))
	}
}

// loopShape is a loop with a header test `counter < bound` (any comparison).
type loopShape struct {
	header *ssa.BasicBlock
	body   map[*ssa.BasicBlock]bool
	bound  ssa.Value
}

// countedLoopHeaders lists the loops of fn whose header compares a unit-step
// counter (a phi of the header, or the phi plus a constant) with a value.
func countedLoopHeaders(fn *ssa.Function) []loopShape {
	var out []loopShape
	for _, h := range fn.Blocks {
		if len(h.Instrs) == 0 || len(h.Succs) != 2 {
			continue
		}
		ifi, ok := h.Instrs[len(h.Instrs)-1].(*ssa.If)
		if !ok {
			continue
		}
		back := false
		body := map[*ssa.BasicBlock]bool{h: true}
		var work []*ssa.BasicBlock
		for _, pr := range h.Preds {
			if h.Dominates(pr) {
				back = true
				if !body[pr] {
					body[pr] = true
					work = append(work, pr)
				}
			}
		}
		if !back {
			continue
		}
		for len(work) > 0 {
			x := work[len(work)-1]
			work = work[:len(work)-1]
			for _, pr := range x.Preds {
				if !body[pr] {
					body[pr] = true
					work = append(work, pr)
				}
			}
		}
		cmp, ok := ifi.Cond.(*ssa.BinOp)
		if !ok {
			continue
		}
		isCounter := func(v ssa.Value) bool {
			v = stripConv(v)
			if bo, ok := v.(*ssa.BinOp); ok && (bo.Op == token.ADD || bo.Op == token.SUB) {
				v = stripConv(bo.X)
			}
			ph, ok := v.(*ssa.Phi)
			return ok && ph.Block() == h
		}
		switch {
		case isCounter(cmp.X):
			out = append(out, loopShape{h, body, cmp.Y})
		case isCounter(cmp.Y):
			out = append(out, loopShape{h, body, cmp.X})
		}
	}
	return out
}

// ruleStateMethodSet (C07.state-methodset): a column usable by value handles its state prefix in both directions.
func ruleStateMethodSet(c *Ctx, p *core.Program, rule string) {
	c.R.Rule(rule, "for every named type of package proto whose value method set has DecodeColumn and EncodeColumn (a column that can be put into a container by value: ColTuple, ColNamed, ColAuto ...), EncodeState and DecodeState are either both in the value method set or both absent: the containers find the state prefix through a type assertion on the element, so a pointer receiver on one side only makes the writer emit a prefix that the reader does not consume")
	cfg := p.Cfg.Name
	n := 0
	sc := p.Pkgs[core.PkgProto].Types.Scope()
	for _, name := range sc.Names() {
		tn, ok := sc.Lookup(name).(*types.TypeName)
		if !ok || tn.IsAlias() {
			continue
		}
		named, ok := tn.Type().(*types.Named)
		if !ok {
			continue
		}
		if _, isIface := named.Underlying().(*types.Interface); isIface {
			continue
		}
		ms := types.NewMethodSet(named)
		has := func(m string) bool { return ms.Lookup(tn.Pkg(), m) != nil }
		if !has("DecodeColumn") || !has("EncodeColumn") {
			continue
		}
		pms := types.NewMethodSet(types.NewPointer(named))
		phas := func(m string) bool { return pms.Lookup(tn.Pkg(), m) != nil }
		if !phas("EncodeState") && !phas("DecodeState") {
			continue
		}
		n++
		key := "value-methodset/" + name
		switch {
		case has("EncodeState") && !has("DecodeState"):
			c.R.Bad(rule, key, cfg, p.Pos(tn.Pos()), name+" used by value writes its state prefix (EncodeState) but does not expose DecodeState: inside a container the prefix is left in the stream and read as data")
		case !has("EncodeState") && has("DecodeState"):
			c.R.Bad(rule, key, cfg, p.Pos(tn.Pos()), name+" used by value consumes a state prefix (DecodeState) that its value never writes (EncodeState has a pointer receiver)")
		default:
			c.R.Ok(rule, key, cfg, p.Pos(tn.Pos()), "EncodeState and DecodeState agree on the value method set")
		}
	}
	c.R.Count("by-value columns with a state prefix", n)
	c.R.Floor(rule, cfg, n, 3)
}

// ruleCompressibleTable (C05.compressible-table): which packets are framed.
func ruleCompressibleTable(c *Ctx, p *core.Program, rule string) {
	c.R.Rule(rule, "ServerCode.Compressible, folded for every ServerCode constant, is true exactly for the packets the server frames when compression is on - Data, Totals, Extremes (protocol fact, frozen here) - and false for every other code, in particular Log and ProfileEvents whose blocks are always sent raw: a packet decoded on the wrong side of this table is parsed from compressed bytes, or skips checksum verification altogether")
	cfg := p.Cfg.Name
	fn := p.Method(core.PkgProto, "ServerCode", "Compressible")
	if !c.must(p, "proto.ServerCode.Compressible", fn != nil) {
		return
	}
	want := map[string]bool{"ServerCodeData": true, "ServerCodeTotals": true, "ServerCodeExtremes": true}
	sc := p.Pkgs[core.PkgProto].Types.Scope()
	n := 0
	seen := map[string]bool{}
	for _, name := range sc.Names() {
		k, ok := sc.Lookup(name).(*types.Const)
		if !ok || !strings.HasPrefix(name, "ServerCode") || !core.IsNamed(k.Type(), core.PkgProto, "ServerCode") {
			continue
		}
		v, ok := constOf(p, core.PkgProto, name)
		if !ok {
			continue
		}
		n++
		seen[name] = true
		key := "compressible/" + name
		res, ok := core.FoldFunc(fn, nil, map[int]int64{0: v})
		if !ok {
			c.R.Unk(rule, key, cfg, p.Pos(fn.Pos()), "Compressible() does not fold for this constant")
			continue
		}
		if (res != 0) != want[name] {
			c.R.Bad(rule, key, cfg, p.Pos(fn.Pos()), sprintf("Compressible(%s) = %v, the server frames it: %v", name, res != 0, want[name]))
		} else {
			c.R.Ok(rule, key, cfg, p.Pos(fn.Pos()), sprintf("Compressible(%s) = %v", name, res != 0))
		}
	}
	for name := range want {
		if !seen[name] {
			c.R.Unk(rule, "compressible/"+name, cfg, p.Pos(fn.Pos()), "constant not found")
		}
	}
	c.R.Floor(rule, cfg, n, 10)
}

// ruleInferNonNil (C06.infer-nonnil): inference never succeeds with a nil column.
func ruleInferNonNil(c *Ctx, p *core.Program, rule string) {
	c.R.Rule(rule, "every value ColAuto.Infer stores into ColAuto.Data is a column that exists: the result of a comma-ok type assertion is stored only behind its ok, and the result of a package helper that can return nil (a `return nil`, or the zero result of a failed comma-ok assertion) only behind a test that it is not nil - otherwise Infer reports success for a type it cannot build and the decoder dereferences nil on the first (even zero-row) block")
	cfg := p.Cfg.Name
	inf := p.Method(core.PkgProto, "ColAuto", "Infer")
	if !c.must(p, "(*proto.ColAuto).Infer", inf != nil) {
		return
	}
	var mayNil func(g *ssa.Function, d int) bool
	mayNilVal := func(v ssa.Value, d int) bool { return false }
	mayNilVal = func(v ssa.Value, d int) bool {
		if d > 4 {
			return false
		}
		switch x := v.(type) {
		case *ssa.Const:
			return x.IsNil()
		case *ssa.Extract:
			if ta, ok := x.Tuple.(*ssa.TypeAssert); ok && ta.CommaOk && x.Index == 0 {
				return true
			}
		case *ssa.Phi:
			for _, e := range x.Edges {
				if mayNilVal(e, d+1) {
					return true
				}
			}
		case *ssa.ChangeInterface:
			return mayNilVal(x.X, d+1)
		case *ssa.Call:
			if g := core.StaticFn(x); g != nil && g.Blocks != nil && pkgOf(g) != nil && pkgOf(g).Path() == core.PkgProto {
				return mayNil(g, d+1)
			}
		}
		return false
	}
	mayNil = func(g *ssa.Function, d int) bool {
		if g.Signature.Results().Len() != 1 {
			return false
		}
		if _, ok := g.Signature.Results().At(0).Type().Underlying().(*types.Interface); !ok {
			return false
		}
		for _, b := range g.Blocks {
			if r, ok := b.Instrs[len(b.Instrs)-1].(*ssa.Return); ok && len(r.Results) == 1 && mayNilVal(r.Results[0], d) {
				return true
			}
		}
		return false
	}
	n := 0
	for _, b := range inf.Blocks {
		for _, in := range b.Instrs {
			st, ok := in.(*ssa.Store)
			if !ok {
				continue
			}
			fa, ok := st.Addr.(*ssa.FieldAddr)
			if !ok || fieldNameOnly(fa.X.Type(), fa.Field) != "Data" || !core.IsNamed(derefType(fa.X.Type()), core.PkgProto, "ColAuto") {
				continue
			}
			n++
			v := st.Val
			if ci, ok := v.(*ssa.ChangeInterface); ok {
				v = ci.X
			}
			key := sprintf("%s/store-Data#%d", core.FuncName(inf), n)
			switch x := v.(type) {
			case *ssa.Extract:
				ta, ok := x.Tuple.(*ssa.TypeAssert)
				if !ok || !ta.CommaOk || x.Index != 0 {
					continue
				}
				edges := core.CondEdges(inf, true, func(cond ssa.Value) (bool, bool) {
					v, pol := core.StripNot(cond)
					e, ok := v.(*ssa.Extract)
					return pol, ok && e.Tuple == x.Tuple && e.Index == 1
				})
				if len(edges) == 0 || !core.OnlyViaEdges(inf, st, edges) {
					c.R.Bad(rule, key, cfg, p.Pos(st.Pos()), "the result of a comma-ok assertion is stored as the column without its ok having been tested: nil when the assertion fails")
				} else {
					c.R.Ok(rule, key, cfg, p.Pos(st.Pos()), "stored behind the assertion's ok")
				}
			case *ssa.Call:
				if !mayNilVal(x, 0) {
					continue
				}
				edges := core.CondEdges(inf, true, func(cond ssa.Value) (bool, bool) {
					y, nonNil, ok := nilCmp(cond)
					if !ok {
						return false, false
					}
					if ci, isCI := y.(*ssa.ChangeInterface); isCI {
						y = ci.X
					}
					return nonNil, y == ssa.Value(x)
				})
				if len(edges) == 0 || !core.OnlyViaEdges(inf, st, edges) {
					c.R.Bad(rule, key, cfg, p.Pos(st.Pos()), "the result of "+core.FuncName(core.StaticFn(x))+", which can be nil, is stored as the column without a nil test: Infer succeeds with no column")
				} else {
					c.R.Ok(rule, key, cfg, p.Pos(st.Pos()), "possibly-nil helper result stored behind a nil test")
				}
			}
		}
	}
	c.R.Count("stores to ColAuto.Data in Infer", n)
	c.R.Floor(rule, cfg, n, 10)
	c.R.Ok(rule, core.FuncName(inf), cfg, p.Pos(inf.Pos()), sprintf("%d stores examined", n))
}

// ruleHealthNonBlocking (C11.health-nonblocking): the periodic health check never waits for a dial.
func ruleHealthNonBlocking(c *Ctx, p *core.Program, rule string) {
	c.R.Rule(rule, "the goroutine that runs the periodic health check (the function of chpool with the ticker loop, and everything it calls synchronously - calls made by `go` statements excluded) never creates or acquires a connection itself: puddle Pool.CreateResource / Pool.Acquire and ch.Dial are reached from it only through a `go` statement - a dial whose server hello is slow would otherwise stall every later tick, and idle connections past MaxConnIdleTime / MaxConnLifetime stay in the pool and are handed out")
	cfg := p.Cfg.Name
	// the long-running goroutines of the pool: targets of `go` statements in package chpool whose body loops
	var roots []*ssa.Function
	for _, fn := range p.Funcs() {
		if pkgOf(fn) == nil || pkgOf(fn).Path() != core.PkgPool || fn.Blocks == nil {
			continue
		}
		for _, b := range fn.Blocks {
			for _, in := range b.Instrs {
				g, ok := in.(*ssa.Go)
				if !ok {
					continue
				}
				t := core.StaticFn(g)
				if t == nil || t.Blocks == nil || pkgOf(t) == nil || pkgOf(t).Path() != core.PkgPool {
					continue
				}
				loops := false
				for _, tb := range t.Blocks {
					for _, pr := range tb.Preds {
						if tb.Dominates(pr) {
							loops = true
						}
					}
				}
				if loops {
					roots = append(roots, t)
				}
			}
		}
	}
	if !c.must(p, "health-check goroutine (a looping function of chpool started with go)", len(roots) > 0) {
		return
	}
	root := roots[0]
	blocking := func(f *types.Func) bool {
		if f.Pkg() == nil {
			return false
		}
		if f.Pkg().Path() == pkgPuddle && (f.Name() == "CreateResource" || f.Name() == "Acquire") {
			return true
		}
		return f.Pkg().Path() == core.PkgCh && (f.Name() == "Dial" || f.Name() == "Connect")
	}
	seen := map[*ssa.Function]bool{}
	n := 0
	var walk func(fn *ssa.Function, trail []string) bool
	walk = func(fn *ssa.Function, trail []string) bool {
		if seen[fn] || len(trail) > 6 {
			return false
		}
		seen[fn] = true
		for _, b := range fn.Blocks {
			for _, in := range b.Instrs {
				call, ok := in.(ssa.CallInstruction)
				if !ok {
					continue
				}
				if _, isGo := in.(*ssa.Go); isGo {
					continue
				}
				n++
				if f := core.CalleeFunc(call); f != nil && blocking(f) {
					c.R.Bad(rule, core.FuncName(root), cfg, p.Pos(call.Pos()), "the health-check goroutine itself waits for "+f.FullName()+": while that dial is pending no tick runs and expired idle connections are kept and handed out", append(trail, core.FuncName(fn))...)
					return true
				}
				if sf := core.StaticFn(call); sf != nil && sf.Blocks != nil && pkgOf(sf) != nil && pkgOf(sf).Path() == core.PkgPool {
					if walk(sf, append(trail, core.FuncName(fn))) {
						return true
					}
				}
				// closures called in place
				for _, a := range call.Common().Args {
					if mc, ok := a.(*ssa.MakeClosure); ok {
						if cf, ok := mc.Fn.(*ssa.Function); ok && walk(cf, append(trail, core.FuncName(fn))) {
							return true
						}
					}
				}
			}
		}
		return false
	}
	found := false
	for _, r := range roots {
		root = r
		if walk(r, nil) {
			found = true
			break
		}
	}
	if !found {
		c.R.Ok(rule, core.FuncName(root), cfg, p.Pos(root.Pos()), sprintf("%d functions, %d synchronous calls: none creates, acquires or dials a connection", len(seen), n))
	}
}

// ruleEncodersPure (C17.encode-pure): encoding a message does not change it.
func ruleEncodersPure(c *Ctx, p *core.Program, rule string) {
	c.R.Rule(rule, "the encoder of every protocol message writes the message as it is: it calls nothing from package sort / slices that reorders, and stores through no element of a slice reached from its receiver - repeated elements (query parameters, settings) are decoded in the order they were given, and a value receiver does not protect the caller's backing array")
	cfg := p.Cfg.Name
	n := 0
	for _, mp := range messagePairs(p) {
		enc := mp.enc
		if enc == nil || enc.Blocks == nil {
			continue
		}
		n++
		key := "encoder/" + mp.name
		bad := false
		for _, fn := range append([]*ssa.Function{enc}, enc.AnonFuncs...) {
			for _, call := range core.Calls(fn) {
				f := core.CalleeFunc(call)
				if f == nil || f.Pkg() == nil {
					continue
				}
				pk := f.Pkg().Path()
				if pk == "sort" || (pk == "slices" && (strings.HasPrefix(f.Name(), "Sort") || f.Name() == "Reverse")) {
					bad = true
					c.R.Bad(rule, key, cfg, p.Pos(call.Pos()), "the encoder reorders with "+f.FullName()+": the peer decodes the elements in another order than the message holds them, and the caller's slice is permuted in place")
				}
			}
			for _, b := range fn.Blocks {
				for _, in := range b.Instrs {
					st, ok := in.(*ssa.Store)
					if !ok {
						continue
					}
					ia, ok := st.Addr.(*ssa.IndexAddr)
					if !ok {
						continue
					}
					fromRecv := core.DependsOn(ia.X, func(v ssa.Value) bool {
						u, ok := v.(*ssa.UnOp)
						if !ok || u.Op != token.MUL {
							return false
						}
						fa, ok := u.X.(*ssa.FieldAddr)
						if !ok {
							return false
						}
						return strings.HasPrefix(accessPath(fa.X, 0), "recv")
					}, false)
					if fromRecv {
						bad = true
						c.R.Bad(rule, key, cfg, p.Pos(st.Pos()), "the encoder stores into an element of a slice of the message it encodes")
					}
				}
			}
		}
		if !bad {
			c.R.Ok(rule, key, cfg, p.Pos(enc.Pos()), "no reordering call, no store into the message's slices")
		}
	}
	c.R.Floor(rule, cfg, n, 9)
}

// rulePrepareMethodSet (C01.prepare-methodset / C09.prepare-methodset): a column that can be encoded by value can be prepared by value.
func rulePrepareMethodSet(c *Ctx, p *core.Program, rule string) {
	c.R.Rule(rule, "for every named type of package proto whose value method set has the whole Column interface - Type, Rows, EncodeColumn, WriteColumn, DecodeColumn, Reset - (a column that can be put into a container by value: the library's own tuple tests build ColNamed elements that way), Prepare is in the value method set whenever the pointer has it: ColTuple.Prepare and Input find the capability through a type assertion on the element as it is held, so a pointer-only Prepare is silently skipped and the LowCardinality dictionary / Enum values of the element are encoded unprepared")
	cfg := p.Cfg.Name
	n := 0
	sc := p.Pkgs[core.PkgProto].Types.Scope()
	for _, name := range sc.Names() {
		tn, ok := sc.Lookup(name).(*types.TypeName)
		if !ok || tn.IsAlias() {
			continue
		}
		named, ok := tn.Type().(*types.Named)
		if !ok {
			continue
		}
		if _, isIface := named.Underlying().(*types.Interface); isIface {
			continue
		}
		ms := types.NewMethodSet(named)
		// usable as a column by value: the whole Column interface is in the value method set (ColArr, whose
		// DecodeColumn / Reset / Append need the pointer, is not such a type)
		whole := true
		for _, m := range []string{"Type", "Rows", "EncodeColumn", "WriteColumn", "DecodeColumn", "Reset"} {
			if ms.Lookup(tn.Pkg(), m) == nil {
				whole = false
			}
		}
		if !whole {
			continue
		}
		pms := types.NewMethodSet(types.NewPointer(named))
		if pms.Lookup(tn.Pkg(), "Prepare") == nil {
			continue
		}
		n++
		key := "value-methodset/" + name + "/Prepare"
		if ms.Lookup(tn.Pkg(), "Prepare") == nil {
			c.R.Bad(rule, key, cfg, p.Pos(tn.Pos()), name+" can be encoded by value but prepared only through a pointer: held by value in a tuple its inner column is never prepared and is written without its dictionary")
		} else {
			c.R.Ok(rule, key, cfg, p.Pos(tn.Pos()), "Prepare is in the value method set")
		}
	}
	c.R.Count("by-value encodable columns with Prepare", n)
	c.R.Floor(rule, cfg, n, 2)
}

// ruleNoCommaSplit (C18.comma-split): wrappers do not cut nested type strings at every comma.
func ruleNoCommaSplit(c *Ctx, p *core.Program, rule string) {
	c.R.Rule(rule, "an Infer method that forwards to the Infer of inner columns (Array, Map, Tuple, Named, Nullable, LowCardinality ...) never splits the type string it was given with strings.Split / SplitN / SplitAfter / FieldsFunc at \",\" (directly or in a package helper it calls): element types contain commas of their own (Map(K, V), Decimal(P, S), Enum8('a' = 1, 'b' = 2), DateTime64(3, 'UTC')), so a flat split hands `Map(String` to the element and an equal schema is refused; the depth-aware helpers (cutMapTypes) are the accepted idiom")
	cfg := p.Cfg.Name
	n := 0
	isSplit := func(f *types.Func) bool {
		if f.Pkg() == nil || f.Pkg().Path() != "strings" {
			return false
		}
		switch f.Name() {
		case "Split", "SplitN", "SplitAfter", "SplitAfterN":
			return true
		}
		return false
	}
	for _, ct := range columnTypes(p) {
		fn := methodOf(p, ct, "Infer")
		if fn == nil || fn.Blocks == nil || len(core.ForwardedInvokes(fn, "Infer")) == 0 {
			continue
		}
		n++
		key := "wrapper/" + ct.Obj().Name() + "/Infer"
		bad := false
		fns := []*ssa.Function{fn}
		for _, call := range core.Calls(fn) {
			if sf := core.StaticFn(call); sf != nil && sf.Blocks != nil && pkgOf(sf) != nil && pkgOf(sf).Path() == core.PkgProto && sf.Signature.Recv() == nil {
				fns = append(fns, sf)
			}
		}
		for _, g := range fns {
			for _, call := range core.Calls(g) {
				f := core.CalleeFunc(call)
				if f == nil || !isSplit(f) || len(call.Common().Args) < 2 {
					continue
				}
				if k, ok := call.Common().Args[1].(*ssa.Const); !ok || k.Value == nil || !strings.Contains(k.Value.ExactString(), ",") {
					continue
				}
				bad = true
				c.R.Bad(rule, key, cfg, p.Pos(call.Pos()), "the type string is cut at every comma ("+f.FullName()+"): an element type with a comma of its own (Map, Decimal, Enum, DateTime64 with a zone) is cut in the middle and an equal schema is refused")
			}
		}
		if !bad {
			c.R.Ok(rule, key, cfg, p.Pos(fn.Pos()), "no flat comma split of the type string")
		}
	}
	c.R.Count("wrapper Infer methods", n)
	c.R.Floor(rule, cfg, n, 3)
}

// ruleLimbPairs (C20.limbs / C01.limbs / C17.limbs): the wide-integer put and get helpers use the same byte offset for each limb.
func ruleLimbPairs(c *Ctx, p *core.Program, rule string) {
	c.R.Rule(rule, "for the 128- and 256-bit helpers of package proto (binPutUIntN writes the limbs of a value with PutUint64 into windows b[lo:hi] of its slice, binUIntN builds the value from Uint64 of such windows) the map limb -> offset of the put side equals the map of the get side, every window is 8 bytes and the offsets tile 0..N/8: crossed limbs round-trip only for values whose crossed limbs are equal (everything the small-integer tests use)")
	cfg := p.Cfg.Name
	isLE := func(f *types.Func, name string) bool {
		return f != nil && f.Pkg() != nil && f.Pkg().Path() == "encoding/binary" && f.Name() == name
	}
	window := func(v ssa.Value) (lo, hi int64, ok bool) {
		sl, isSl := v.(*ssa.Slice)
		if !isSl {
			return 0, 0, false
		}
		if _, isParam := sl.X.(*ssa.Parameter); !isParam {
			return 0, 0, false
		}
		lo = 0
		if sl.Low != nil {
			k, ok := intConstOf(sl.Low)
			if !ok {
				return 0, 0, false
			}
			lo = k
		}
		if sl.High == nil {
			return 0, 0, false
		}
		k, ok2 := intConstOf(sl.High)
		return lo, k, ok2
	}
	var valuePath func(v ssa.Value) (string, bool)
	valuePath = func(v ssa.Value) (string, bool) {
		switch x := v.(type) {
		case *ssa.Parameter:
			return "", true
		case *ssa.Field:
			base, ok := valuePath(x.X)
			return base + "." + fieldNameOnly(x.X.Type(), x.Field), ok
		case *ssa.UnOp:
			if x.Op == token.MUL {
				return addrPath(x.X)
			}
		}
		return "", false
	}
	n := 0
	for _, bits := range []string{"128", "256"} {
		put := p.Func(core.PkgProto, "binPutUInt"+bits)
		get := p.Func(core.PkgProto, "binUInt"+bits)
		if put == nil || get == nil || put.Blocks == nil || get.Blocks == nil {
			continue
		}
		n++
		key := "limbs/UInt" + bits
		putMap, getMap := map[string]int64{}, map[string]int64{}
		okAll := true
		for _, call := range core.Calls(put) {
			if !isLE(core.CalleeFunc(call), "PutUint64") {
				continue
			}
			args := call.Common().Args
			lo, hi, ok := window(args[len(args)-2])
			path, ok2 := valuePath(args[len(args)-1])
			if !ok || !ok2 || hi-lo != 8 {
				okAll = false
				continue
			}
			putMap[path] = lo
		}
		for _, b := range get.Blocks {
			for _, in := range b.Instrs {
				st, ok := in.(*ssa.Store)
				if !ok {
					continue
				}
				cl, ok := st.Val.(*ssa.Call)
				if !ok || !isLE(core.CalleeFunc(cl), "Uint64") {
					continue
				}
				args := cl.Call.Args
				lo, hi, ok := window(args[len(args)-1])
				path, ok2 := addrPath(st.Addr)
				if !ok || !ok2 || hi-lo != 8 {
					okAll = false
					continue
				}
				getMap[path] = lo
			}
		}
		if !okAll || len(putMap) == 0 || len(putMap) != len(getMap) {
			c.R.Unk(rule, key, cfg, p.Pos(put.Pos()), sprintf("helper pair not in the recognised form (put limbs %d, get limbs %d)", len(putMap), len(getMap)))
			continue
		}
		var diffs []string
		seen := map[int64]bool{}
		for path, lo := range putMap {
			seen[lo] = true
			if g, ok := getMap[path]; !ok || g != lo {
				diffs = append(diffs, sprintf("limb %s: written at byte %d, read from byte %d", strings.TrimPrefix(path, "."), lo, getMap[path]))
			}
		}
		if len(seen) != len(putMap) {
			diffs = append(diffs, "two limbs are written to the same window")
		}
		if len(diffs) > 0 {
			sortStrings(diffs)
			c.R.Bad(rule, key, cfg, p.Pos(put.Pos()), "put and get disagree: "+strings.Join(diffs, "; "))
		} else {
			c.R.Ok(rule, key, cfg, p.Pos(put.Pos()), sprintf("%d limbs, same offset on both sides", len(putMap)))
		}
	}
	c.R.Floor(rule, cfg, n, 2)
}

// addrPath is the field path of an address built from FieldAddr steps on a local.
func addrPath(v ssa.Value) (string, bool) {
	switch x := v.(type) {
	case *ssa.Alloc:
		return "", true
	case *ssa.FieldAddr:
		base, ok := addrPath(x.X)
		return base + "." + fieldNameOnly(x.X.Type(), x.Field), ok
	}
	return "", false
}

func sortStrings(s []string) {
	for i := 1; i < len(s); i++ {
		for j := i; j > 0 && s[j] < s[j-1]; j-- {
			s[j], s[j-1] = s[j-1], s[j]
		}
	}
}
