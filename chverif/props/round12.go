package props

import (
	"go/token"
	"go/types"
	"strings"

	"golang.org/x/tools/go/ssa"

	"chverif/core"
)

// Rules added in seeding round 12.

// handshakeGoroutine returns the closure of Client.handshake that reads the
// server hello (nil when the anchor is lost).
func handshakeGoroutine(c *Ctx, p *core.Program) *ssa.Function {
	hs := p.Method(core.PkgCh, "Client", "handshake")
	if !c.must(p, "(*ch.Client).handshake", hs != nil) {
		return nil
	}
	var hg *ssa.Function
	for _, a := range hs.AnonFuncs {
		if core.ReachesCallee(a, isClientMethod("packet"), 1) {
			hg = a
		}
	}
	if !c.must(p, "handshake goroutine (closure of handshake that calls packet())", hg != nil) {
		return nil
	}
	return hg
}

// nilErrEdge is an edge filter that cuts the non-nil edge of every error test.
func nilErrEdge(b *ssa.BasicBlock, i int) bool {
	if ifi, ok := b.Instrs[len(b.Instrs)-1].(*ssa.If); ok {
		if x, nonNil, ok := nilCmp(ifi.Cond); ok && isErrorTyped(x) {
			nn := 1
			if nonNil {
				nn = 0
			}
			if i == nn {
				return false
			}
		}
	}
	return true
}

// loadOfField reports whether v is a load (possibly converted) of the struct
// field called name, whatever the struct value is reached through.
func loadOfField(v ssa.Value, name string) bool {
	u, ok := stripConv(v).(*ssa.UnOp)
	if !ok || u.Op != token.MUL {
		return false
	}
	fa, ok := u.X.(*ssa.FieldAddr)
	return ok && fieldNameOnly(fa.X.Type(), fa.Field) == name
}

// ruleCallbackKept (C03.callback-kept): Do replaces the caller's OnResult only
// when the caller bound no Result.
func ruleCallbackKept(c *Ctx, p *core.Program, rule string) {
	c.R.Rule(rule, "Client.Do overwrites Query.OnResult (to collect the INSERT column info itself) only on paths where Query.Result == nil was established: a caller that binds Result and OnResult keeps its callback, so every data block still reaches it")
	cfg := p.Cfg.Name
	do := p.Method(core.PkgCh, "Client", "Do")
	if !c.must(p, "(*ch.Client).Do", do != nil) {
		return
	}
	n := 0
	fns := append([]*ssa.Function{do}, do.AnonFuncs...)
	// the set-up may live in a helper of package ch that Do calls
	for _, call := range core.Calls(do) {
		if sf := core.StaticFn(call); sf != nil && sf.Blocks != nil && pkgOf(sf) != nil && pkgOf(sf).Path() == core.PkgCh && sf != do {
			fns = append(fns, sf)
		}
	}
	for _, fn := range fns {
		for _, b := range fn.Blocks {
			for _, in := range b.Instrs {
				st, ok := in.(*ssa.Store)
				if !ok {
					continue
				}
				fa, ok := st.Addr.(*ssa.FieldAddr)
				if !ok || fieldNameOnly(fa.X.Type(), fa.Field) != "OnResult" || !core.IsNamed(derefType(fa.X.Type()), core.PkgCh, "Query") {
					continue
				}
				n++
				key := sprintf("%s/store-OnResult#%d", core.FuncName(fn), n)
				edges := core.CondEdges(fn, true, func(cond ssa.Value) (bool, bool) {
					x, nonNil, ok := nilCmp(cond)
					if !ok || !loadOfField(x, "Result") {
						return false, false
					}
					return !nonNil, true
				})
				if len(edges) > 0 && core.OnlyViaEdges(fn, st, edges) {
					c.R.Ok(rule, key, cfg, p.Pos(st.Pos()), "the callback is replaced only where Result == nil holds")
				} else {
					c.R.Bad(rule, key, cfg, p.Pos(st.Pos()), "Query.OnResult is overwritten on a path where the caller may have bound Result: the caller's callback never sees the blocks although Do returns nil")
				}
			}
		}
	}
	c.R.Count("stores to Query.OnResult in Do", n)
	c.R.Floor(rule, cfg, n, 1)
}

func derefType(t types.Type) types.Type {
	if pt, ok := t.Underlying().(*types.Pointer); ok {
		return pt.Elem()
	}
	return t
}

// rulePoolSingleDo (C09.no-replay): the pool runs a query once.
func rulePoolSingleDo(c *Ctx, p *core.Program, rule string) {
	c.R.Rule(rule, "Pool.Do hands the query to exactly one connection: after a call that reaches (*ch.Client).Do has returned, no second such call is reachable in Pool.Do (a retry on another connection replays a streamed INSERT: the OnInput callback is called again after it failed and rounds already sent are sent twice)")
	cfg := p.Cfg.Name
	pd := p.Method(core.PkgPool, "Pool", "Do")
	if !c.must(p, "(*chpool.Pool).Do", pd != nil) {
		return
	}
	isDo := func(f *types.Func) bool { return core.IsMethod(f, core.PkgCh, "Client", "Do") }
	var sites []ssa.Instruction
	for _, call := range core.Calls(pd) {
		if f := core.CalleeFunc(call); f != nil && isDo(f) {
			sites = append(sites, call.(ssa.Instruction))
			continue
		}
		if sf := core.StaticFn(call); sf != nil && sf.Blocks != nil && pkgOf(sf) != nil && pkgOf(sf).Path() == core.PkgPool && core.ReachesCallee(sf, isDo, 3) {
			sites = append(sites, call.(ssa.Instruction))
			continue
		}
		// the query handed over as a closure to a helper (withClient(ctx, func(c) { return c.Do(...) })):
		// the helper must run the closure once
		if sf := core.StaticFn(call); sf != nil && sf.Blocks != nil && pkgOf(sf) != nil && pkgOf(sf).Path() == core.PkgPool {
			for ai, a := range call.Common().Args {
				mc, ok := a.(*ssa.MakeClosure)
				if !ok {
					continue
				}
				cf, _ := mc.Fn.(*ssa.Function)
				if cf == nil || !core.ReachesCallee(cf, isDo, 3) {
					continue
				}
				sites = append(sites, call.(ssa.Instruction))
				pi := ai
				if sf.Signature.Recv() == nil && call.Common().IsInvoke() {
					pi = ai + 1
				}
				if pi >= len(sf.Params) {
					continue
				}
				prm := sf.Params[pi]
				var runs []ssa.Instruction
				for _, hc := range core.Calls(sf) {
					if hc.Common().Value == ssa.Value(prm) {
						runs = append(runs, hc.(ssa.Instruction))
					}
				}
				isRun := func(in ssa.Instruction) bool {
					for _, r := range runs {
						if r == in {
							return true
						}
					}
					return false
				}
				for _, r := range runs {
					if w := core.ReachAvoiding(core.PointOf(r), isRun, nil, nil); len(w) > 0 {
						c.R.Bad(rule, core.FuncName(sf), cfg, p.Pos(w[0].At.Pos()), "the helper can run the query closure a second time after it returned: a streamed INSERT is replayed", p.TrailString(w[0])...)
						return
					}
				}
			}
		}
	}
	if len(sites) == 0 {
		c.R.Unk(rule, core.FuncName(pd), cfg, p.Pos(pd.Pos()), "Pool.Do does not reach (*ch.Client).Do")
		return
	}
	isSite := func(in ssa.Instruction) bool {
		for _, s := range sites {
			if s == in {
				return true
			}
		}
		return false
	}
	bad := false
	for _, s := range sites {
		w := core.ReachAvoiding(core.PointOf(s), isSite, nil, nil)
		if len(w) > 0 {
			bad = true
			c.R.Bad(rule, core.FuncName(pd), cfg, p.Pos(w[0].At.Pos()), "the query can be executed a second time after the first execution returned: a streamed INSERT is replayed", p.TrailString(w[0])...)
			break
		}
	}
	if !bad {
		c.R.Ok(rule, core.FuncName(pd), cfg, p.Pos(sites[0].Pos()), sprintf("%d call site(s) reaching Client.Do, none followed by another", len(sites)))
	}
}

// ruleForwardEvery (C09.forward-every / C01.forward-every): a successful
// forward to one element goes on to the next element.
func ruleForwardEvery(c *Ctx, p *core.Program, rule string) {
	c.R.Rule(rule, "in the multi-element wrappers the loops that forward an optional capability to every element (EncodeState / DecodeState / Prepare / Infer / Reset) go on with the next element after an element that has the capability succeeded: from the passing edge of the type test, with the failing edge of every error test cut, the function exit is reachable only through the loop header - a `return err` that also runs for err == nil stops after the first capable element")
	cfg := p.Cfg.Name
	n := 0
	for _, ct := range columnTypes(p) {
		for _, mn := range []string{"EncodeState", "DecodeState", "Prepare", "Infer", "Reset"} {
			fn := methodOf(p, ct, mn)
			if fn == nil || fn.Blocks == nil {
				continue
			}
			k := 0
			// the capability test in a per-element helper called from the loop: after the helper
			// succeeded the loop goes on
			for _, call := range core.Calls(fn) {
				g := core.StaticFn(call)
				ci := call.(ssa.Instruction)
				if g == nil || g.Blocks == nil || !core.InLoop(ci) || pkgOf(g) == nil || pkgOf(g).Path() != core.PkgProto {
					continue
				}
				hasTest := false
				for _, gb := range g.Blocks {
					if gi, ok := gb.Instrs[len(gb.Instrs)-1].(*ssa.If); ok {
						if ex, ok := gi.Cond.(*ssa.Extract); ok && ex.Index == 1 {
							if ta, ok := ex.Tuple.(*ssa.TypeAssert); ok && ta.CommaOk {
								hasTest = true
							}
						}
					}
				}
				h := core.LoopHeader(ci)
				if !hasTest || h == nil {
					continue
				}
				n++
				k++
				key := sprintf("%s.%s/helper#%d", ct.Obj().Name(), mn, k)
				hits := core.ReachAvoiding(core.PointOf(ci), func(x ssa.Instruction) bool {
					_, isRet := x.(*ssa.Return)
					return isRet && x.Block().Comment != "recover"
				}, func(x ssa.Instruction) bool { return x.Block() == h }, nilErrEdge)
				if len(hits) > 0 {
					c.R.Bad(rule, key, cfg, p.Pos(hits[0].At.Pos()), "after the per-element helper succeeded the method returns instead of continuing with the next element", p.TrailString(hits[0])...)
				} else {
					c.R.Ok(rule, key, cfg, p.Pos(ci.Pos()), "a successful per-element helper call continues with the next element")
				}
			}
			for _, b := range fn.Blocks {
				ifi, ok := b.Instrs[len(b.Instrs)-1].(*ssa.If)
				if !ok || !core.InLoop(ifi) {
					continue
				}
				ex, ok := ifi.Cond.(*ssa.Extract)
				if !ok || ex.Index != 1 {
					continue
				}
				ta, ok := ex.Tuple.(*ssa.TypeAssert)
				if !ok || !ta.CommaOk {
					continue
				}
				h := core.LoopHeader(ifi)
				if h == nil {
					continue
				}
				n++
				k++
				key := sprintf("%s.%s/test#%d", ct.Obj().Name(), mn, k)
				hits := core.ReachAvoiding(core.Point{B: b.Succs[0], I: -1}, func(x ssa.Instruction) bool {
					_, isRet := x.(*ssa.Return)
					return isRet && x.Block().Comment != "recover"
				}, func(x ssa.Instruction) bool { return x.Block() == h }, nilErrEdge)
				if len(hits) > 0 {
					c.R.Bad(rule, key, cfg, p.Pos(hits[0].At.Pos()), "after an element with the capability succeeded the method returns instead of continuing: the elements after it are not forwarded to", p.TrailString(hits[0])...)
				} else {
					c.R.Ok(rule, key, cfg, p.Pos(ifi.Cond.Pos()), "a successful forward continues with the next element")
				}
			}
		}
	}
	c.R.Floor(rule, cfg, n, 3)
}

// ruleNoPrivateTimer (C08.timer): the idle timeout is only ever a read deadline.
func ruleNoPrivateTimer(c *Ctx, p *core.Program, rule string) {
	c.R.Rule(rule, "Client.readTimeout is consumed only as a read deadline on the connection (where an expiry between packets is retried by the receive loop): it never reaches time.NewTimer / time.After / time.AfterFunc / time.NewTicker / context.WithTimeout / context.WithDeadline in package ch - a private timer built from it runs down during an idle gap and is not retried by anybody")
	cfg := p.Cfg.Name
	n, bad := 0, 0
	isTimer := func(f *types.Func) bool {
		if f.Pkg() == nil {
			return false
		}
		switch f.Pkg().Path() + "." + f.Name() {
		case "time.NewTimer", "time.After", "time.AfterFunc", "time.NewTicker", "time.Tick", "context.WithTimeout", "context.WithDeadline":
			return true
		}
		return false
	}
	for _, fn := range p.Funcs() {
		if pkgOf(fn) == nil || pkgOf(fn).Path() != core.PkgCh || fn.Blocks == nil {
			continue
		}
		for _, call := range core.Calls(fn) {
			f := core.CalleeFunc(call)
			if f == nil || !isTimer(f) {
				continue
			}
			n++
			fromIdle := false
			for _, a := range call.Common().Args {
				if core.DependsOn(a, func(v ssa.Value) bool { return core.FieldOrigin(v, 0) == "Client.readTimeout" }, true) {
					fromIdle = true
				}
			}
			if fromIdle {
				bad++
				c.R.Bad(rule, core.CallKey(fn, call), cfg, p.Pos(call.Pos()), "a timer is armed with Client.readTimeout: an idle gap longer than ReadTimeout now fails the query although the receive loop retries the read")
			}
		}
	}
	c.R.Count("timer / context-timeout constructions in package ch", n)
	if bad == 0 {
		c.R.Ok(rule, "ch/timers", cfg, "", sprintf("%d timer constructions, none fed by Client.readTimeout", n))
	}
}

// ruleHeaderPerBlock (C02.header-per-block): every Data packet carries the table name it was asked to carry.
func ruleHeaderPerBlock(c *Ctx, p *core.Program, rule string) {
	c.R.Rule(rule, "Client.encodeBlock writes the packet header from its own tableName argument for every block: the store of ClientData.TableName takes the parameter, and the encoding that contains it lies on every path to a success exit (a header cached on the connection keeps the name of the first block for all later ones)")
	cfg := p.Cfg.Name
	eb := p.Method(core.PkgCh, "Client", "encodeBlock")
	if !c.must(p, "(*ch.Client).encodeBlock", eb != nil) {
		return
	}
	var tn *ssa.Parameter
	for _, prm := range eb.Params {
		if b, ok := prm.Type().Underlying().(*types.Basic); ok && b.Kind() == types.String {
			tn = prm
		}
	}
	if tn == nil {
		c.R.Unk(rule, core.FuncName(eb), cfg, p.Pos(eb.Pos()), "encodeBlock has no string parameter (table name)")
		return
	}
	site, found, fromArg, helperTotal := headerEncoding(eb, tn)
	if !found || site == nil {
		c.R.Unk(rule, core.FuncName(eb), cfg, p.Pos(eb.Pos()), "no store of ClientData.TableName found in encodeBlock, its closures or the helpers it calls")
		return
	}
	if !fromArg {
		c.R.Bad(rule, core.FuncName(eb)+"/TableName", cfg, p.Pos(site.Pos()), "ClientData.TableName is not taken from encodeBlock's table-name argument")
		return
	}
	if !helperTotal {
		c.R.Bad(rule, core.FuncName(eb), cfg, p.Pos(site.Pos()), "the helper that encodes the header can return without encoding it")
		return
	}
	w := core.ReachAvoiding(core.Entry(eb), func(in ssa.Instruction) bool {
		r, ok := in.(*ssa.Return)
		return ok && defaultSuccess(eb, r)
	}, func(in ssa.Instruction) bool { return in == site }, nilErrEdge)
	if len(w) > 0 {
		c.R.Bad(rule, core.FuncName(eb), cfg, p.Pos(w[0].At.Pos()), "a block can be written without encoding its header from the table-name argument (cached header): blocks with different table names on one connection all carry the first name", p.TrailString(w[0])...)
	} else {
		c.R.Ok(rule, core.FuncName(eb), cfg, p.Pos(site.Pos()), "the header is encoded from the argument on every success path")
	}
}

// ruleExternalPresence (C02.external-presence): a declared external table is sent whatever its row count.
func ruleExternalPresence(c *Ctx, p *core.Program, rule string) {
	c.R.Rule(rule, "Client.sendQuery sends the external-data block whenever Query.ExternalData has columns: under len(q.ExternalData) > 0 (folded through the CFG) no success exit is reachable without the call that is handed q.ExternalData (encodeBlock, or a helper in its place - which path it encodes on is C05.block-path) - a further condition on the contents (zero rows) drops the table's name and schema, which the statement refers to")
	cfg := p.Cfg.Name
	sq := p.Method(core.PkgCh, "Client", "sendQuery")
	if !c.must(p, "(*ch.Client).sendQuery", sq != nil) {
		return
	}
	var site ssa.Instruction
	for _, fn := range []*ssa.Function{sq} {
		for _, call := range core.Calls(fn) {
			if _, isBuiltin := call.Common().Value.(*ssa.Builtin); isBuiltin {
				continue
			}
			for _, a := range call.Common().Args {
				if loadOfField(a, "ExternalData") {
					site = call.(ssa.Instruction)
				}
			}
		}
	}
	if site == nil {
		c.R.Unk(rule, core.FuncName(sq), cfg, p.Pos(sq.Pos()), "no encodeBlock call taking Query.ExternalData in sendQuery")
		return
	}
	lenOfExt := func(v ssa.Value) bool {
		cl, ok := stripConv(v).(*ssa.Call)
		if !ok {
			return false
		}
		bi, ok := cl.Call.Value.(*ssa.Builtin)
		return ok && bi.Name() == "len" && loadOfField(cl.Call.Args[0], "ExternalData")
	}
	zero := func(v ssa.Value) bool {
		k, ok := intConstOf(v)
		return ok && k == 0
	}
	feas := core.FeasibleUnder(sq, func(cond ssa.Value) int {
		bo, ok := cond.(*ssa.BinOp)
		if !ok {
			return -1
		}
		switch {
		case lenOfExt(bo.X) && zero(bo.Y):
			switch bo.Op {
			case token.GTR, token.NEQ:
				return 1
			case token.EQL, token.LEQ:
				return 0
			}
		case zero(bo.X) && lenOfExt(bo.Y):
			switch bo.Op {
			case token.LSS, token.NEQ:
				return 1
			case token.EQL, token.GEQ:
				return 0
			}
		}
		return -1
	})
	edge := func(b *ssa.BasicBlock, i int) bool { return feas(b, i) && nilErrEdge(b, i) }
	w := core.ReachAvoiding(core.Entry(sq), func(in ssa.Instruction) bool {
		r, ok := in.(*ssa.Return)
		return ok && defaultSuccess(sq, r)
	}, func(in ssa.Instruction) bool { return in == site }, edge)
	if len(w) > 0 {
		c.R.Bad(rule, core.FuncName(sq), cfg, p.Pos(w[0].At.Pos()), "with external columns declared the query can be sent without the external-data block (an extra condition beside len(ExternalData) > 0)", p.TrailString(w[0])...)
	} else {
		c.R.Ok(rule, core.FuncName(sq), cfg, p.Pos(site.Pos()), "under len(ExternalData) > 0 every success path sends the external block")
	}
}

// ruleRowLoopBound (C07.row-loop): a per-row read loop of DecodeColumn runs for the announced number of rows.
func ruleRowLoopBound(c *Ctx, p *core.Program, rule string) {
	c.R.Rule(rule, "in every DecodeColumn(r, rows) of package proto a counted loop whose body reads from the wire is bounded by the rows parameter itself, never by a clamped copy of it (min(rows, K), or a merge of rows with a constant): a clamp that was meant for the allocation and reaches the loop accepts a prefix of the column as the whole column")
	cfg := p.Cfg.Name
	n, bad := 0, 0
	for _, fn := range p.Funcs() {
		if fn.Name() != "DecodeColumn" || pkgOf(fn) == nil || pkgOf(fn).Path() != core.PkgProto || fn.Blocks == nil || fn.Signature.Recv() == nil || len(fn.Params) != 3 {
			continue
		}
		rows := fn.Params[2]
		if b, ok := rows.Type().Underlying().(*types.Basic); !ok || b.Kind() != types.Int {
			continue
		}
		reads := map[*ssa.BasicBlock]bool{}
		for _, call := range core.Calls(fn) {
			cc := call.Common()
			isRead := false
			for _, a := range cc.Args {
				if core.IsNamed(derefType(a.Type()), core.PkgProto, "Reader") {
					isRead = true
				}
			}
			if cc.IsInvoke() {
				isRead = isRead || core.IsNamed(derefType(cc.Value.Type()), core.PkgProto, "Reader")
			}
			if isRead {
				reads[call.Block()] = true
			}
		}
		for _, l := range countedLoopHeaders(fn) {
			hasRead := false
			for b := range l.body {
				if reads[b] {
					hasRead = true
				}
			}
			if !hasRead {
				continue
			}
			bound := stripConv(l.bound)
			clamp := func(v ssa.Value) bool {
				v = stripConv(v)
				if cl, ok := v.(*ssa.Call); ok {
					if bi, ok := cl.Call.Value.(*ssa.Builtin); ok && (bi.Name() == "min" || bi.Name() == "max") {
						for _, a := range cl.Call.Args {
							if stripConv(a) == ssa.Value(rows) {
								return true
							}
						}
					}
				}
				if ph, ok := v.(*ssa.Phi); ok {
					hasRows, hasConst := false, false
					for _, e := range ph.Edges {
						if stripConv(e) == ssa.Value(rows) {
							hasRows = true
						}
						if _, ok := intConstOf(e); ok {
							hasConst = true
						}
					}
					return hasRows && hasConst
				}
				return false
			}
			key := sprintf("%s/loop@b%d", core.FuncName(fn), l.header.Index)
			switch {
			case bound == ssa.Value(rows):
				n++
				c.R.Ok(rule, key, cfg, p.Pos(fn.Pos()), "read loop bounded by rows")
			case clamp(bound):
				n++
				bad++
				c.R.Bad(rule, key, cfg, p.Pos(bound.Pos()), "the per-row read loop is bounded by a clamped copy of rows: a block with more rows than the clamp is accepted after reading only a prefix of the column")
			}
		}
	}
	c.R.Count("per-row read loops in DecodeColumn["+cfg+"]", n)
	if bad == 0 {
		c.R.Ok(rule, "proto/DecodeColumn", cfg, "", sprintf("%d per-row read loops bounded by rows, none clamped", n))
	}
}

// loopShape is a loop with a header test `counter < bound` (any comparison).
type loopShape struct {
	header *ssa.BasicBlock
	body   map[*ssa.BasicBlock]bool
	bound  ssa.Value
}

// countedLoopHeaders lists the loops of fn whose header compares a unit-step
// counter (a phi of the header, or the phi plus a constant) with a value.
func countedLoopHeaders(fn *ssa.Function) []loopShape {
	var out []loopShape
	for _, h := range fn.Blocks {
		if len(h.Instrs) == 0 || len(h.Succs) != 2 {
			continue
		}
		ifi, ok := h.Instrs[len(h.Instrs)-1].(*ssa.If)
		if !ok {
			continue
		}
		back := false
		body := map[*ssa.BasicBlock]bool{h: true}
		var work []*ssa.BasicBlock
		for _, pr := range h.Preds {
			if h.Dominates(pr) {
				back = true
				if !body[pr] {
					body[pr] = true
					work = append(work, pr)
				}
			}
		}
		if !back {
			continue
		}
		for len(work) > 0 {
			x := work[len(work)-1]
			work = work[:len(work)-1]
			for _, pr := range x.Preds {
				if !body[pr] {
					body[pr] = true
					work = append(work, pr)
				}
			}
		}
		cmp, ok := ifi.Cond.(*ssa.BinOp)
		if !ok {
			continue
		}
		isCounter := func(v ssa.Value) bool {
			v = stripConv(v)
			if bo, ok := v.(*ssa.BinOp); ok && (bo.Op == token.ADD || bo.Op == token.SUB) {
				v = stripConv(bo.X)
			}
			ph, ok := v.(*ssa.Phi)
			return ok && ph.Block() == h
		}
		switch {
		case isCounter(cmp.X):
			out = append(out, loopShape{h, body, cmp.Y})
		case isCounter(cmp.Y):
			out = append(out, loopShape{h, body, cmp.X})
		}
	}
	return out
}

// ruleStateMethodSet (C07.state-methodset): a column usable by value handles its state prefix in both directions.
func ruleStateMethodSet(c *Ctx, p *core.Program, rule string) {
	c.R.Rule(rule, "for every named type of package proto whose value method set has DecodeColumn and EncodeColumn (a column that can be put into a container by value: ColTuple, ColNamed, ColAuto ...), EncodeState and DecodeState are either both in the value method set or both absent: the containers find the state prefix through a type assertion on the element, so a pointer receiver on one side only makes the writer emit a prefix that the reader does not consume")
	cfg := p.Cfg.Name
	n := 0
	sc := p.Pkgs[core.PkgProto].Types.Scope()
	for _, name := range sc.Names() {
		tn, ok := sc.Lookup(name).(*types.TypeName)
		if !ok || tn.IsAlias() {
			continue
		}
		named, ok := tn.Type().(*types.Named)
		if !ok {
			continue
		}
		if _, isIface := named.Underlying().(*types.Interface); isIface {
			continue
		}
		ms := types.NewMethodSet(named)
		has := func(m string) bool { return ms.Lookup(tn.Pkg(), m) != nil }
		if !has("DecodeColumn") || !has("EncodeColumn") {
			continue
		}
		pms := types.NewMethodSet(types.NewPointer(named))
		phas := func(m string) bool { return pms.Lookup(tn.Pkg(), m) != nil }
		if !phas("EncodeState") && !phas("DecodeState") {
			continue
		}
		n++
		key := "value-methodset/" + name
		switch {
		case has("EncodeState") && !has("DecodeState"):
			c.R.Bad(rule, key, cfg, p.Pos(tn.Pos()), name+" used by value writes its state prefix (EncodeState) but does not expose DecodeState: inside a container the prefix is left in the stream and read as data")
		case !has("EncodeState") && has("DecodeState"):
			c.R.Bad(rule, key, cfg, p.Pos(tn.Pos()), name+" used by value consumes a state prefix (DecodeState) that its value never writes (EncodeState has a pointer receiver)")
		default:
			c.R.Ok(rule, key, cfg, p.Pos(tn.Pos()), "EncodeState and DecodeState agree on the value method set")
		}
	}
	c.R.Count("by-value columns with a state prefix", n)
	c.R.Floor(rule, cfg, n, 3)
}

// ruleCompressibleTable (C05.compressible-table): which packets are framed.
func ruleCompressibleTable(c *Ctx, p *core.Program, rule string) {
	c.R.Rule(rule, "ServerCode.Compressible, folded for every ServerCode constant, is true exactly for the packets the server frames when compression is on - Data, Totals, Extremes (protocol fact, frozen here) - and false for every other code, in particular Log and ProfileEvents whose blocks are always sent raw: a packet decoded on the wrong side of this table is parsed from compressed bytes, or skips checksum verification altogether")
	cfg := p.Cfg.Name
	fn := p.Method(core.PkgProto, "ServerCode", "Compressible")
	if !c.must(p, "proto.ServerCode.Compressible", fn != nil) {
		return
	}
	want := map[string]bool{"ServerCodeData": true, "ServerCodeTotals": true, "ServerCodeExtremes": true}
	sc := p.Pkgs[core.PkgProto].Types.Scope()
	n := 0
	seen := map[string]bool{}
	for _, name := range sc.Names() {
		k, ok := sc.Lookup(name).(*types.Const)
		if !ok || !strings.HasPrefix(name, "ServerCode") || !core.IsNamed(k.Type(), core.PkgProto, "ServerCode") {
			continue
		}
		v, ok := constOf(p, core.PkgProto, name)
		if !ok {
			continue
		}
		n++
		seen[name] = true
		key := "compressible/" + name
		res, ok := core.FoldFunc(fn, nil, map[int]int64{0: v})
		if !ok {
			c.R.Unk(rule, key, cfg, p.Pos(fn.Pos()), "Compressible() does not fold for this constant")
			continue
		}
		if (res != 0) != want[name] {
			c.R.Bad(rule, key, cfg, p.Pos(fn.Pos()), sprintf("Compressible(%s) = %v, the server frames it: %v", name, res != 0, want[name]))
		} else {
			c.R.Ok(rule, key, cfg, p.Pos(fn.Pos()), sprintf("Compressible(%s) = %v", name, res != 0))
		}
	}
	for name := range want {
		if !seen[name] {
			c.R.Unk(rule, "compressible/"+name, cfg, p.Pos(fn.Pos()), "constant not found")
		}
	}
	c.R.Floor(rule, cfg, n, 10)
}

// ruleInferNonNil (C06.infer-nonnil): inference never succeeds with a nil column.
func ruleInferNonNil(c *Ctx, p *core.Program, rule string) {
	c.R.Rule(rule, "every value ColAuto.Infer stores into ColAuto.Data is a column that exists: the result of a comma-ok type assertion is stored only behind its ok, and the result of a package helper that can return nil (a `return nil`, or the zero result of a failed comma-ok assertion) only behind a test that it is not nil - otherwise Infer reports success for a type it cannot build and the decoder dereferences nil on the first (even zero-row) block")
	cfg := p.Cfg.Name
	inf := p.Method(core.PkgProto, "ColAuto", "Infer")
	if !c.must(p, "(*proto.ColAuto).Infer", inf != nil) {
		return
	}
	var mayNil func(g *ssa.Function, d int) bool
	mayNilVal := func(v ssa.Value, d int) bool { return false }
	mayNilVal = func(v ssa.Value, d int) bool {
		if d > 4 {
			return false
		}
		switch x := v.(type) {
		case *ssa.Const:
			return x.IsNil()
		case *ssa.Extract:
			if ta, ok := x.Tuple.(*ssa.TypeAssert); ok && ta.CommaOk && x.Index == 0 {
				return true
			}
		case *ssa.Phi:
			for _, e := range x.Edges {
				if mayNilVal(e, d+1) {
					return true
				}
			}
		case *ssa.ChangeInterface:
			return mayNilVal(x.X, d+1)
		case *ssa.Call:
			if g := core.StaticFn(x); g != nil && g.Blocks != nil && pkgOf(g) != nil && pkgOf(g).Path() == core.PkgProto {
				return mayNil(g, d+1)
			}
		}
		return false
	}
	mayNil = func(g *ssa.Function, d int) bool {
		if g.Signature.Results().Len() != 1 {
			return false
		}
		if _, ok := g.Signature.Results().At(0).Type().Underlying().(*types.Interface); !ok {
			return false
		}
		for _, b := range g.Blocks {
			if r, ok := b.Instrs[len(b.Instrs)-1].(*ssa.Return); ok && len(r.Results) == 1 && mayNilVal(r.Results[0], d) {
				return true
			}
		}
		return false
	}
	n := 0
	for _, b := range inf.Blocks {
		for _, in := range b.Instrs {
			st, ok := in.(*ssa.Store)
			if !ok {
				continue
			}
			fa, ok := st.Addr.(*ssa.FieldAddr)
			if !ok || fieldNameOnly(fa.X.Type(), fa.Field) != "Data" || !core.IsNamed(derefType(fa.X.Type()), core.PkgProto, "ColAuto") {
				continue
			}
			n++
			v := st.Val
			if ci, ok := v.(*ssa.ChangeInterface); ok {
				v = ci.X
			}
			key := sprintf("%s/store-Data#%d", core.FuncName(inf), n)
			switch x := v.(type) {
			case *ssa.Extract:
				ta, ok := x.Tuple.(*ssa.TypeAssert)
				if !ok || !ta.CommaOk || x.Index != 0 {
					continue
				}
				edges := core.CondEdges(inf, true, func(cond ssa.Value) (bool, bool) {
					v, pol := core.StripNot(cond)
					e, ok := v.(*ssa.Extract)
					return pol, ok && e.Tuple == x.Tuple && e.Index == 1
				})
				if len(edges) == 0 || !core.OnlyViaEdges(inf, st, edges) {
					c.R.Bad(rule, key, cfg, p.Pos(st.Pos()), "the result of a comma-ok assertion is stored as the column without its ok having been tested: nil when the assertion fails")
				} else {
					c.R.Ok(rule, key, cfg, p.Pos(st.Pos()), "stored behind the assertion's ok")
				}
			case *ssa.Call:
				if !mayNilVal(x, 0) {
					continue
				}
				edges := core.CondEdges(inf, true, func(cond ssa.Value) (bool, bool) {
					y, nonNil, ok := nilCmp(cond)
					if !ok {
						return false, false
					}
					if ci, isCI := y.(*ssa.ChangeInterface); isCI {
						y = ci.X
					}
					return nonNil, y == ssa.Value(x)
				})
				if len(edges) == 0 || !core.OnlyViaEdges(inf, st, edges) {
					c.R.Bad(rule, key, cfg, p.Pos(st.Pos()), "the result of "+core.FuncName(core.StaticFn(x))+", which can be nil, is stored as the column without a nil test: Infer succeeds with no column")
				} else {
					c.R.Ok(rule, key, cfg, p.Pos(st.Pos()), "possibly-nil helper result stored behind a nil test")
				}
			}
		}
	}
	c.R.Count("stores to ColAuto.Data in Infer", n)
	c.R.Floor(rule, cfg, n, 10)
	c.R.Ok(rule, core.FuncName(inf), cfg, p.Pos(inf.Pos()), sprintf("%d stores examined", n))
}

// ruleHealthNonBlocking (C11.health-nonblocking): the periodic health check never waits for a dial.
func ruleHealthNonBlocking(c *Ctx, p *core.Program, rule string) {
	c.R.Rule(rule, "the goroutine that runs the periodic health check (the function of chpool with the ticker loop, and everything it calls synchronously - calls made by `go` statements excluded) never creates or acquires a connection itself: puddle Pool.CreateResource / Pool.Acquire and ch.Dial are reached from it only through a `go` statement - a dial whose server hello is slow would otherwise stall every later tick, and idle connections past MaxConnIdleTime / MaxConnLifetime stay in the pool and are handed out")
	cfg := p.Cfg.Name
	// the long-running goroutines of the pool: targets of `go` statements in package chpool whose body loops
	var roots []*ssa.Function
	for _, fn := range p.Funcs() {
		if pkgOf(fn) == nil || pkgOf(fn).Path() != core.PkgPool || fn.Blocks == nil {
			continue
		}
		for _, b := range fn.Blocks {
			for _, in := range b.Instrs {
				g, ok := in.(*ssa.Go)
				if !ok {
					continue
				}
				t := core.StaticFn(g)
				if t == nil || t.Blocks == nil || pkgOf(t) == nil || pkgOf(t).Path() != core.PkgPool {
					continue
				}
				loops := false
				for _, tb := range t.Blocks {
					for _, pr := range tb.Preds {
						if tb.Dominates(pr) {
							loops = true
						}
					}
				}
				if loops {
					roots = append(roots, t)
				}
			}
		}
	}
	if !c.must(p, "health-check goroutine (a looping function of chpool started with go)", len(roots) > 0) {
		return
	}
	root := roots[0]
	blocking := func(f *types.Func) bool {
		if f.Pkg() == nil {
			return false
		}
		if f.Pkg().Path() == pkgPuddle && (f.Name() == "CreateResource" || f.Name() == "Acquire") {
			return true
		}
		return f.Pkg().Path() == core.PkgCh && (f.Name() == "Dial" || f.Name() == "Connect")
	}
	seen := map[*ssa.Function]bool{}
	n := 0
	var walk func(fn *ssa.Function, trail []string) bool
	walk = func(fn *ssa.Function, trail []string) bool {
		if seen[fn] || len(trail) > 6 {
			return false
		}
		seen[fn] = true
		for _, b := range fn.Blocks {
			for _, in := range b.Instrs {
				call, ok := in.(ssa.CallInstruction)
				if !ok {
					continue
				}
				if _, isGo := in.(*ssa.Go); isGo {
					continue
				}
				n++
				if f := core.CalleeFunc(call); f != nil && blocking(f) {
					c.R.Bad(rule, core.FuncName(root), cfg, p.Pos(call.Pos()), "the health-check goroutine itself waits for "+f.FullName()+": while that dial is pending no tick runs and expired idle connections are kept and handed out", append(trail, core.FuncName(fn))...)
					return true
				}
				if sf := core.StaticFn(call); sf != nil && sf.Blocks != nil && pkgOf(sf) != nil && pkgOf(sf).Path() == core.PkgPool {
					if walk(sf, append(trail, core.FuncName(fn))) {
						return true
					}
				}
				// closures called in place
				for _, a := range call.Common().Args {
					if mc, ok := a.(*ssa.MakeClosure); ok {
						if cf, ok := mc.Fn.(*ssa.Function); ok && walk(cf, append(trail, core.FuncName(fn))) {
							return true
						}
					}
				}
			}
		}
		return false
	}
	found := false
	for _, r := range roots {
		root = r
		if walk(r, nil) {
			found = true
			break
		}
	}
	if !found {
		c.R.Ok(rule, core.FuncName(root), cfg, p.Pos(root.Pos()), sprintf("%d functions, %d synchronous calls: none creates, acquires or dials a connection", len(seen), n))
	}
}

// ruleEncodersPure (C17.encode-pure): encoding a message does not change it.
func ruleEncodersPure(c *Ctx, p *core.Program, rule string) {
	c.R.Rule(rule, "the encoder of every protocol message writes the message as it is: it calls nothing from package sort / slices that reorders, and stores through no element of a slice reached from its receiver - repeated elements (query parameters, settings) are decoded in the order they were given, and a value receiver does not protect the caller's backing array")
	cfg := p.Cfg.Name
	n := 0
	for _, mp := range messagePairs(p) {
		enc := mp.enc
		if enc == nil || enc.Blocks == nil {
			continue
		}
		n++
		key := "encoder/" + mp.name
		bad := false
		for _, fn := range append([]*ssa.Function{enc}, enc.AnonFuncs...) {
			for _, call := range core.Calls(fn) {
				f := core.CalleeFunc(call)
				if f == nil || f.Pkg() == nil {
					continue
				}
				pk := f.Pkg().Path()
				if pk == "sort" || (pk == "slices" && (strings.HasPrefix(f.Name(), "Sort") || f.Name() == "Reverse")) {
					bad = true
					c.R.Bad(rule, key, cfg, p.Pos(call.Pos()), "the encoder reorders with "+f.FullName()+": the peer decodes the elements in another order than the message holds them, and the caller's slice is permuted in place")
				}
			}
			for _, b := range fn.Blocks {
				for _, in := range b.Instrs {
					st, ok := in.(*ssa.Store)
					if !ok {
						continue
					}
					ia, ok := st.Addr.(*ssa.IndexAddr)
					if !ok {
						continue
					}
					fromRecv := core.DependsOn(ia.X, func(v ssa.Value) bool {
						u, ok := v.(*ssa.UnOp)
						if !ok || u.Op != token.MUL {
							return false
						}
						fa, ok := u.X.(*ssa.FieldAddr)
						if !ok {
							return false
						}
						return strings.HasPrefix(accessPath(fa.X, 0), "recv")
					}, false)
					if fromRecv {
						bad = true
						c.R.Bad(rule, key, cfg, p.Pos(st.Pos()), "the encoder stores into an element of a slice of the message it encodes")
					}
				}
			}
		}
		if !bad {
			c.R.Ok(rule, key, cfg, p.Pos(enc.Pos()), "no reordering call, no store into the message's slices")
		}
	}
	c.R.Floor(rule, cfg, n, 9)
}

// rulePrepareMethodSet (C01.prepare-methodset / C09.prepare-methodset): a column that can be encoded by value can be prepared by value.
func rulePrepareMethodSet(c *Ctx, p *core.Program, rule string) {
	c.R.Rule(rule, "for every named type of package proto whose value method set has the whole Column interface - Type, Rows, EncodeColumn, WriteColumn, DecodeColumn, Reset - (a column that can be put into a container by value: the library's own tuple tests build ColNamed elements that way), Prepare is in the value method set whenever the pointer has it: ColTuple.Prepare and Input find the capability through a type assertion on the element as it is held, so a pointer-only Prepare is silently skipped and the LowCardinality dictionary / Enum values of the element are encoded unprepared")
	cfg := p.Cfg.Name
	n := 0
	sc := p.Pkgs[core.PkgProto].Types.Scope()
	for _, name := range sc.Names() {
		tn, ok := sc.Lookup(name).(*types.TypeName)
		if !ok || tn.IsAlias() {
			continue
		}
		named, ok := tn.Type().(*types.Named)
		if !ok {
			continue
		}
		if _, isIface := named.Underlying().(*types.Interface); isIface {
			continue
		}
		ms := types.NewMethodSet(named)
		// usable as a column by value: the whole Column interface is in the value method set (ColArr, whose
		// DecodeColumn / Reset / Append need the pointer, is not such a type)
		whole := true
		for _, m := range []string{"Type", "Rows", "EncodeColumn", "WriteColumn", "DecodeColumn", "Reset"} {
			if ms.Lookup(tn.Pkg(), m) == nil {
				whole = false
			}
		}
		if !whole {
			continue
		}
		pms := types.NewMethodSet(types.NewPointer(named))
		if pms.Lookup(tn.Pkg(), "Prepare") == nil {
			continue
		}
		n++
		key := "value-methodset/" + name + "/Prepare"
		if ms.Lookup(tn.Pkg(), "Prepare") == nil {
			c.R.Bad(rule, key, cfg, p.Pos(tn.Pos()), name+" can be encoded by value but prepared only through a pointer: held by value in a tuple its inner column is never prepared and is written without its dictionary")
		} else {
			c.R.Ok(rule, key, cfg, p.Pos(tn.Pos()), "Prepare is in the value method set")
		}
	}
	c.R.Count("by-value encodable columns with Prepare", n)
	c.R.Floor(rule, cfg, n, 2)
}

// ruleNoCommaSplit (C18.comma-split): wrappers do not cut nested type strings at every comma.
func ruleNoCommaSplit(c *Ctx, p *core.Program, rule string) {
	c.R.Rule(rule, "an Infer method that forwards to the Infer of inner columns (Array, Map, Tuple, Named, Nullable, LowCardinality ...) never splits the type string it was given with strings.Split / SplitN / SplitAfter / FieldsFunc at \",\" (directly or in a package helper it calls): element types contain commas of their own (Map(K, V), Decimal(P, S), Enum8('a' = 1, 'b' = 2), DateTime64(3, 'UTC')), so a flat split hands `Map(String` to the element and an equal schema is refused; the depth-aware helpers (cutMapTypes) are the accepted idiom")
	cfg := p.Cfg.Name
	n := 0
	isSplit := func(f *types.Func) bool {
		if f.Pkg() == nil || f.Pkg().Path() != "strings" {
			return false
		}
		switch f.Name() {
		case "Split", "SplitN", "SplitAfter", "SplitAfterN":
			return true
		}
		return false
	}
	for _, ct := range columnTypes(p) {
		fn := methodOf(p, ct, "Infer")
		if fn == nil || fn.Blocks == nil || len(core.ForwardedInvokes(fn, "Infer")) == 0 {
			continue
		}
		n++
		key := "wrapper/" + ct.Obj().Name() + "/Infer"
		bad := false
		fns := []*ssa.Function{fn}
		for _, call := range core.Calls(fn) {
			if sf := core.StaticFn(call); sf != nil && sf.Blocks != nil && pkgOf(sf) != nil && pkgOf(sf).Path() == core.PkgProto && sf.Signature.Recv() == nil {
				fns = append(fns, sf)
			}
		}
		for _, g := range fns {
			for _, call := range core.Calls(g) {
				f := core.CalleeFunc(call)
				if f == nil || !isSplit(f) || len(call.Common().Args) < 2 {
					continue
				}
				if k, ok := call.Common().Args[1].(*ssa.Const); !ok || k.Value == nil || !strings.Contains(k.Value.ExactString(), ",") {
					continue
				}
				bad = true
				c.R.Bad(rule, key, cfg, p.Pos(call.Pos()), "the type string is cut at every comma ("+f.FullName()+"): an element type with a comma of its own (Map, Decimal, Enum, DateTime64 with a zone) is cut in the middle and an equal schema is refused")
			}
		}
		if !bad {
			c.R.Ok(rule, key, cfg, p.Pos(fn.Pos()), "no flat comma split of the type string")
		}
	}
	c.R.Count("wrapper Infer methods", n)
	c.R.Floor(rule, cfg, n, 3)
}

// ruleLimbPairs (C20.limbs / C01.limbs / C17.limbs): the wide-integer put and get helpers use the same byte offset for each limb.
func ruleLimbPairs(c *Ctx, p *core.Program, rule string) {
	c.R.Rule(rule, "for the 128- and 256-bit helpers of package proto (binPutUIntN writes the limbs of a value with PutUint64 into windows b[lo:hi] of its slice, binUIntN builds the value from Uint64 of such windows) the map limb -> offset of the put side equals the map of the get side, every window is 8 bytes and the offsets tile 0..N/8: crossed limbs round-trip only for values whose crossed limbs are equal (everything the small-integer tests use)")
	cfg := p.Cfg.Name
	isLE := func(f *types.Func, name string) bool {
		return f != nil && f.Pkg() != nil && f.Pkg().Path() == "encoding/binary" && f.Name() == name
	}
	window := func(v ssa.Value) (lo, hi int64, ok bool) {
		sl, isSl := v.(*ssa.Slice)
		if !isSl {
			return 0, 0, false
		}
		if _, isParam := sl.X.(*ssa.Parameter); !isParam {
			return 0, 0, false
		}
		lo = 0
		if sl.Low != nil {
			k, ok := intConstOf(sl.Low)
			if !ok {
				return 0, 0, false
			}
			lo = k
		}
		if sl.High == nil {
			return 0, 0, false
		}
		k, ok2 := intConstOf(sl.High)
		return lo, k, ok2
	}
	var valuePath func(v ssa.Value) (string, bool)
	valuePath = func(v ssa.Value) (string, bool) {
		switch x := v.(type) {
		case *ssa.Parameter:
			return "", true
		case *ssa.Field:
			base, ok := valuePath(x.X)
			return base + "." + fieldNameOnly(x.X.Type(), x.Field), ok
		case *ssa.UnOp:
			if x.Op == token.MUL {
				return addrPath(x.X)
			}
		}
		return "", false
	}
	n := 0
	putOf, getOf := map[*ssa.Function]map[string]int64{}, map[*ssa.Function]map[string]int64{}
	for _, bits := range []string{"128", "256"} {
		put := p.Func(core.PkgProto, "binPutUInt"+bits)
		get := p.Func(core.PkgProto, "binUInt"+bits)
		if put == nil || get == nil || put.Blocks == nil || get.Blocks == nil {
			continue
		}
		n++
		key := "limbs/UInt" + bits
		putMap, getMap := map[string]int64{}, map[string]int64{}
		putOf[put], getOf[get] = putMap, getMap
		okAll := true
		// a wide helper built from the narrower pair: the halves are composed with the narrower maps
		for _, call := range core.Calls(put) {
			sub, ok := putOf[core.StaticFn(call)]
			if !ok || core.StaticFn(call) == put {
				continue
			}
			args := call.Common().Args
			lo, _, okw := window(args[0])
			path, okp := valuePath(args[1])
			if !okw || !okp {
				okAll = false
				continue
			}
			for sp, off := range sub {
				putMap[path+sp] = lo + off
			}
		}
		for _, b := range get.Blocks {
			for _, in := range b.Instrs {
				st, ok := in.(*ssa.Store)
				if !ok {
					continue
				}
				cl, ok := st.Val.(*ssa.Call)
				if !ok {
					continue
				}
				sub, ok := getOf[core.StaticFn(cl)]
				if !ok || core.StaticFn(cl) == get {
					continue
				}
				lo, _, okw := window(cl.Call.Args[0])
				path, okp := addrPath(st.Addr)
				if !okw || !okp {
					okAll = false
					continue
				}
				for sp, off := range sub {
					getMap[path+sp] = lo + off
				}
			}
		}
		for _, call := range core.Calls(put) {
			if !isLE(core.CalleeFunc(call), "PutUint64") {
				continue
			}
			args := call.Common().Args
			lo, hi, ok := window(args[len(args)-2])
			path, ok2 := valuePath(args[len(args)-1])
			if !ok || !ok2 || hi-lo != 8 {
				okAll = false
				continue
			}
			putMap[path] = lo
		}
		for _, b := range get.Blocks {
			for _, in := range b.Instrs {
				st, ok := in.(*ssa.Store)
				if !ok {
					continue
				}
				cl, ok := st.Val.(*ssa.Call)
				if !ok || !isLE(core.CalleeFunc(cl), "Uint64") {
					continue
				}
				args := cl.Call.Args
				lo, hi, ok := window(args[len(args)-1])
				path, ok2 := addrPath(st.Addr)
				if !ok || !ok2 || hi-lo != 8 {
					okAll = false
					continue
				}
				getMap[path] = lo
			}
		}
		if !okAll || len(putMap) == 0 || len(putMap) != len(getMap) {
			c.R.Unk(rule, key, cfg, p.Pos(put.Pos()), sprintf("helper pair not in the recognised form (put limbs %d, get limbs %d)", len(putMap), len(getMap)))
			continue
		}
		var diffs []string
		seen := map[int64]bool{}
		for path, lo := range putMap {
			seen[lo] = true
			if g, ok := getMap[path]; !ok || g != lo {
				diffs = append(diffs, sprintf("limb %s: written at byte %d, read from byte %d", strings.TrimPrefix(path, "."), lo, getMap[path]))
			}
		}
		if len(seen) != len(putMap) {
			diffs = append(diffs, "two limbs are written to the same window")
		}
		if len(diffs) > 0 {
			sortStrings(diffs)
			c.R.Bad(rule, key, cfg, p.Pos(put.Pos()), "put and get disagree: "+strings.Join(diffs, "; "))
		} else {
			c.R.Ok(rule, key, cfg, p.Pos(put.Pos()), sprintf("%d limbs, same offset on both sides", len(putMap)))
		}
	}
	c.R.Floor(rule, cfg, n, 2)
}

// addrPath is the field path of an address built from FieldAddr steps on a local.
func addrPath(v ssa.Value) (string, bool) {
	switch x := v.(type) {
	case *ssa.Alloc:
		return "", true
	case *ssa.FieldAddr:
		base, ok := addrPath(x.X)
		return base + "." + fieldNameOnly(x.X.Type(), x.Field), ok
	}
	return "", false
}

func sortStrings(s []string) {
	for i := 1; i < len(s); i++ {
		for j := i; j > 0 && s[j] < s[j-1]; j-- {
			s[j], s[j-1] = s[j-1], s[j]
		}
	}
}

// tableNameStore finds, in host or one of its closures, the store of
// ClientData.TableName whose value is host's parameter prm (directly, through
// the closure binding, or through the cell the parameter was spilled to). It
// returns the store and the function that holds it; store is nil when no
// TableName store exists, fromParam tells whether the one found takes prm.
func tableNameStore(host *ssa.Function, prm *ssa.Parameter) (store *ssa.Store, in *ssa.Function, fromParam bool) {
	isPrm := func(fn *ssa.Function, v ssa.Value) bool {
		return core.DependsOn(v, func(x ssa.Value) bool {
			if x == ssa.Value(prm) {
				return true
			}
			if al, ok := x.(*ssa.Alloc); ok {
				return isParamCell(host, al, prm.Name())
			}
			if fv, ok := x.(*ssa.FreeVar); ok && fn.Parent() == host {
				bnd := freeVarBinding(host, fn, fv.Name())
				if bnd == ssa.Value(prm) {
					return true
				}
				return bnd != nil && isParamCell(host, bnd, prm.Name())
			}
			return false
		}, false)
	}
	for _, fn := range append([]*ssa.Function{host}, host.AnonFuncs...) {
		for _, b := range fn.Blocks {
			for _, i := range b.Instrs {
				st, ok := i.(*ssa.Store)
				if !ok {
					continue
				}
				fa, ok := st.Addr.(*ssa.FieldAddr)
				if !ok || fieldNameOnly(fa.X.Type(), fa.Field) != "TableName" || !core.IsNamed(derefType(fa.X.Type()), core.PkgProto, "ClientData") {
					continue
				}
				store, in = st, fn
				if isPrm(fn, st.Val) {
					return st, fn, true
				}
			}
		}
	}
	return store, in, false
}

// headerEncoding locates where encodeBlock (eb, table-name parameter tn)
// performs the header encoding: the instruction of eb that does it or hands it
// over (site), whether the name stored is eb's argument, and - when the
// encoding lives in a helper of package ch - whether the helper performs it on
// every path.
func headerEncoding(eb *ssa.Function, tn *ssa.Parameter) (site ssa.Instruction, found, fromArg, helperTotal bool) {
	siteOf := func(host *ssa.Function, st *ssa.Store, in *ssa.Function) ssa.Instruction {
		if in == host {
			return st
		}
		for _, b := range host.Blocks {
			for _, i := range b.Instrs {
				if cl, ok := i.(ssa.CallInstruction); ok {
					for _, a := range cl.Common().Args {
						if mc, ok := a.(*ssa.MakeClosure); ok && mc.Fn == ssa.Value(in) {
							return i
						}
					}
				}
			}
		}
		return nil
	}
	if st, in, ok := tableNameStore(eb, tn); st != nil {
		return siteOf(eb, st, in), true, ok, true
	}
	for _, call := range core.Calls(eb) {
		h := core.StaticFn(call)
		if h == nil || h.Blocks == nil || pkgOf(h) == nil || pkgOf(h).Path() != core.PkgCh {
			continue
		}
		args := call.Common().Args
		for pi, prm := range h.Params {
			if pi >= len(args) {
				continue
			}
			if b, ok := prm.Type().Underlying().(*types.Basic); !ok || b.Kind() != types.String {
				continue
			}
			st, in, ok := tableNameStore(h, prm)
			if st == nil {
				continue
			}
			hs := siteOf(h, st, in)
			total := hs != nil && len(core.ReachAvoiding(core.Entry(h), func(i ssa.Instruction) bool {
				_, isRet := i.(*ssa.Return)
				return isRet
			}, func(i ssa.Instruction) bool { return i == hs }, nilErrEdge)) == 0
			return call.(ssa.Instruction), true, ok && stripConv(args[pi]) == ssa.Value(tn), total
		}
	}
	return nil, false, false, false
}

// Rules added in seeding round 13.

// ruleValidateBeforeAlloc (C05.validate-first): both header size fields are checked before anything is allocated.
func ruleValidateBeforeAlloc(c *Ctx, p *core.Program, rule string) {
	c.R.Rule(rule, "in compress.Reader.readBlock (and the package helpers it calls, each anchored at its call site in readBlock) every limit test of a header size field (a comparison of a value read from the frame header with a constant, one side of which leads to an error exit) comes before every allocation sized by a header field: a frame whose compressed-size field is out of range is refused before the 128 MiB its data-size field may announce are allocated, and vice versa")
	cfg := p.Cfg.Name
	rb := p.Method(core.PkgCompress, "Reader", "readBlock")
	if !c.must(p, "compress.Reader.readBlock", rb != nil) {
		return
	}
	fns := []*ssa.Function{rb}
	for g := range core.StaticReach(rb, 2) {
		if g != rb && g.Blocks != nil && pkgOf(g) != nil && pkgOf(g).Path() == core.PkgCompress {
			fns = append(fns, g)
		}
	}
	sortFns(fns)
	isRead := func(x ssa.Value) bool {
		cl, ok := x.(*ssa.Call)
		if !ok {
			return false
		}
		f := core.CalleeFunc(cl)
		return f != nil && f.Pkg() != nil && f.Pkg().Path() == "encoding/binary" && (f.Name() == "Uint32" || f.Name() == "Uint64" || f.Name() == "Uint16")
	}
	var fromHeader func(fn *ssa.Function, v ssa.Value, d int) bool
	fromHeader = func(fn *ssa.Function, v ssa.Value, d int) bool {
		if core.DependsOn(v, isRead, false) || core.DependsOnResults(v, isRead) {
			return true
		}
		if d > 1 {
			return false
		}
		// a parameter fed with a header value at a call site
		found := false
		core.DependsOn(v, func(x ssa.Value) bool {
			prm, ok := x.(*ssa.Parameter)
			if !ok {
				return false
			}
			for pi, q := range fn.Params {
				if q != prm {
					continue
				}
				for _, g := range fns {
					for _, call := range core.Calls(g) {
						if core.StaticFn(call) == fn && pi < len(call.Common().Args) && fromHeader(g, call.Common().Args[pi], d+1) {
							found = true
						}
					}
				}
			}
			return false
		}, false)
		return found
	}
	type site struct {
		fn *ssa.Function
		in ssa.Instruction
	}
	var tests, allocs []site
	for _, fn := range fns {
		for _, b := range fn.Blocks {
			for _, in := range b.Instrs {
				if ms, ok := in.(*ssa.MakeSlice); ok && fromHeader(fn, ms.Len, 0) {
					allocs = append(allocs, site{fn, in})
				}
			}
			ifi, ok := b.Instrs[len(b.Instrs)-1].(*ssa.If)
			if !ok {
				continue
			}
			isTest := false
			cond, _ := core.StripNot(ifi.Cond)
			if bo, ok := cond.(*ssa.BinOp); ok {
				_, cx := intConstOf(bo.X)
				_, cy := intConstOf(bo.Y)
				if cx && fromHeader(fn, bo.Y, 0) || cy && fromHeader(fn, bo.X, 0) {
					switch bo.Op {
					case token.LSS, token.LEQ, token.GTR, token.GEQ:
						isTest = true
					}
				}
			}
			// a boolean predicate of the package applied to a header value (withinLimit(dataSize, max))
			if cl, ok := cond.(*ssa.Call); ok {
				if g := core.StaticFn(cl); g != nil && g.Blocks != nil && pkgOf(g) != nil && pkgOf(g).Path() == core.PkgCompress {
					if bt, isB := cl.Type().Underlying().(*types.Basic); isB && bt.Kind() == types.Bool {
						for _, a := range cl.Call.Args {
							if fromHeader(fn, a, 0) {
								isTest = true
							}
						}
					}
				}
			}
			if !isTest {
				continue
			}
			fails := false
			for _, s := range b.Succs {
				for _, x := range append([]*ssa.BasicBlock{s}, s.Succs...) {
					if r, ok := x.Instrs[len(x.Instrs)-1].(*ssa.Return); ok {
						if rv := core.ReturnErr(fn, r); rv != nil && !core.IsNilConst(rv) {
							fails = true
						}
					}
				}
			}
			if fails {
				tests = append(tests, site{fn, ifi})
			}
		}
	}
	c.R.Count("header limit tests in readBlock", len(tests))
	c.R.Count("header-sized allocations in readBlock", len(allocs))
	if len(tests) < 2 || len(allocs) == 0 {
		c.R.Unk(rule, core.FuncName(rb), cfg, p.Pos(rb.Pos()), sprintf("%d limit tests and %d header-sized allocations recognised in readBlock and its helpers (expected at least 2 and 1)", len(tests), len(allocs)))
		return
	}
	anchor := func(s site) ssa.Instruction {
		if s.fn == rb {
			return s.in
		}
		for _, call := range core.Calls(rb) {
			if g := core.StaticFn(call); g != nil && (g == s.fn || core.StaticReach(g, 2)[s.fn]) {
				return call.(ssa.Instruction)
			}
		}
		return nil
	}
	bad := false
	for i, a := range allocs {
		for _, t := range tests {
			aa, ta := anchor(a), anchor(t)
			ok := false
			switch {
			case aa == nil || ta == nil:
				ok = false
			case aa == ta && a.fn == t.fn:
				ok = t.in.Block() != a.in.Block() && t.in.Block().Dominates(a.in.Block())
			case aa == ta:
				ok = false
			default:
				ok = core.Dominates(ta, aa)
			}
			if !ok {
				bad = true
				c.R.Bad(rule, sprintf("%s/alloc#%d", core.FuncName(rb), i+1), cfg, p.Pos(a.in.Pos()), "this allocation is not preceded by the limit test at "+p.Pos(t.in.Pos())+": a header with one field in range and the other out of range is refused only after the in-range field's size has been allocated")
				break
			}
		}
	}
	if !bad {
		c.R.Ok(rule, core.FuncName(rb), cfg, p.Pos(rb.Pos()), sprintf("%d limit tests come before %d header-sized allocations", len(tests), len(allocs)))
	}
}

// ruleDialUnderContext (C10.dial-ctx): everything Dial waits for is under the caller's context.
func ruleDialUnderContext(c *Ctx, p *core.Program, rule string) {
	c.R.Rule(rule, "package ch and chpool establish connections only through context-taking calls: no net.Dial / net.DialTimeout / tls.Dial / tls.DialWithDialer / (*net.Dialer).Dial / (*tls.Dialer).Dial and no (*tls.Conn).Handshake (the context-less TLS handshake) - a peer that accepts the TCP connection and never answers the ClientHello would block Dial beyond cancellation and deadline, before the handshake watchdog exists; the context-taking calls that are made (DialContext, HandshakeContext) receive a context derived from the function's own")
	cfg := p.Cfg.Name
	n, bad := 0, 0
	for _, fn := range p.Funcs() {
		if pkgOf(fn) == nil || fn.Blocks == nil {
			continue
		}
		pk := pkgOf(fn).Path()
		if pk != core.PkgCh && pk != core.PkgPool {
			continue
		}
		for _, call := range core.Calls(fn) {
			cc := call.Common()
			name, owner := "", ""
			if cc.IsInvoke() {
				name = cc.Method.Name()
				if cc.Method.Pkg() != nil {
					owner = cc.Method.Pkg().Path()
				}
			} else if f := core.CalleeFunc(call); f != nil && f.Pkg() != nil {
				name, owner = f.Name(), f.Pkg().Path()
				if r := core.RecvNamed(f); r != nil {
					name = r.Obj().Name() + "." + name
				}
			}
			switch {
			case owner == "net" && (name == "Dial" || name == "DialTimeout" || name == "Dialer.Dial"),
				owner == "crypto/tls" && (name == "Dial" || name == "DialWithDialer" || name == "Dialer.Dial" || name == "Conn.Handshake"):
				bad++
				c.R.Bad(rule, core.CallKey(fn, call), cfg, p.Pos(call.Pos()), owner+"."+name+" waits for the peer without the caller's context: cancellation and deadline do not end it")
			case name == "DialContext" || name == "Dialer.DialContext" || name == "Conn.HandshakeContext":
				n++
			}
		}
	}
	c.R.Count("context-taking dial / handshake calls", n)
	c.R.Floor(rule, cfg, n, 1)
	if bad == 0 {
		c.R.Ok(rule, "ch/dial", cfg, "", sprintf("%d context-taking dial calls, no context-less one", n))
	}
}

// ruleClockKind (C11.clock-kind): a connection's age is compared with the lifetime limit and its idle time with the idle limit.
func ruleClockKind(c *Ctx, p *core.Program, rule string) {
	c.R.Rule(rule, "in package chpool every comparison with Options.MaxConnLifetime has, on its other side, a duration derived from the resource's CreationTime(), and every comparison with Options.MaxConnIdleTime one derived from IdleDuration() (or the constant 0) - a parameter of a shared predicate is resolved at each of its call sites; with the two swapped, an idle connection whose lifetime has run out is kept until it has also been idle that long")
	cfg := p.Cfg.Name
	want := map[string]string{"Options.MaxConnLifetime": "CreationTime", "Options.MaxConnIdleTime": "IdleDuration"}
	var fns []*ssa.Function
	for _, fn := range p.Funcs() {
		if pkgOf(fn) != nil && pkgOf(fn).Path() == core.PkgPool && fn.Blocks != nil {
			fns = append(fns, fn)
		}
	}
	isCall := func(name string) func(ssa.Value) bool {
		return func(v ssa.Value) bool {
			cl, ok := v.(*ssa.Call)
			if !ok {
				return false
			}
			if cl.Call.IsInvoke() {
				return cl.Call.Method.Name() == name
			}
			f := core.CalleeFunc(cl)
			return f != nil && f.Name() == name && f.Pkg() != nil && f.Pkg().Path() == pkgPuddle
		}
	}
	var kinds func(fn *ssa.Function, v ssa.Value, depth int) map[string]bool
	kinds = func(fn *ssa.Function, v ssa.Value, depth int) map[string]bool {
		out := map[string]bool{}
		if depth > 3 {
			return out
		}
		if k, ok := intConstOf(v); ok && k == 0 {
			out["zero"] = true
			return out
		}
		if prm, ok := stripConv(v).(*ssa.Parameter); ok {
			for pi, q := range fn.Params {
				if q != prm {
					continue
				}
				for _, g := range fns {
					for _, call := range core.Calls(g) {
						if core.StaticFn(call) == fn && pi < len(call.Common().Args) {
							for k := range kinds(g, call.Common().Args[pi], depth+1) {
								out[k] = true
							}
						}
					}
				}
			}
			return out
		}
		for _, name := range []string{"CreationTime", "IdleDuration"} {
			if core.DependsOn(v, isCall(name), true) {
				out[name] = true
			}
		}
		return out
	}
	n := 0
	for _, fn := range fns {
		for _, b := range fn.Blocks {
			for _, in := range b.Instrs {
				bo, ok := in.(*ssa.BinOp)
				if !ok {
					continue
				}
				switch bo.Op {
				case token.GTR, token.GEQ, token.LSS, token.LEQ:
				default:
					continue
				}
				for side, other := range map[ssa.Value]ssa.Value{bo.X: bo.Y, bo.Y: bo.X} {
					w, ok := want[core.FieldOrigin(side, 0)]
					if !ok {
						continue
					}
					n++
					key := sprintf("%s/cmp-%s#%d", core.FuncName(fn), strings.TrimPrefix(core.FieldOrigin(side, 0), "Options."), n)
					ks := kinds(fn, other, 0)
					opposite := "IdleDuration"
					if w == "IdleDuration" {
						opposite = "CreationTime"
					}
					switch {
					case ks[opposite]:
						c.R.Bad(rule, key, cfg, p.Pos(bo.Pos()), sprintf("%s is compared with a duration derived from %s(): the lifetime and idle clocks are swapped", strings.TrimPrefix(core.FieldOrigin(side, 0), "Options."), opposite))
					case ks[w] || (w == "IdleDuration" && ks["zero"] && len(ks) >= 1):
						c.R.Ok(rule, key, cfg, p.Pos(bo.Pos()), "compared with a duration derived from "+w+"()")
					default:
						c.R.Unk(rule, key, cfg, p.Pos(bo.Pos()), "the other side of the comparison is derived from neither CreationTime() nor IdleDuration()")
					}
				}
			}
		}
	}
	c.R.Count("comparisons with the lifetime / idle limits", n)
	c.R.Floor(rule, cfg, n, 2)
}

// rulePoolCtxDetached (C11.pool-ctx): the pool's life does not hang on the context of its construction.
func rulePoolCtxDetached(c *Ctx, p *core.Program, rule string) {
	c.R.Rule(rule, "no field of chpool.Pool is assigned a value derived from a context.Context parameter (the construction context passed to New / Dial, or anything built from it with context.With*): the background health check and the warm-up dials must keep running after a start-up timeout has fired, or idle connections past MaxConnIdleTime / MaxConnLifetime are never reaped again")
	cfg := p.Cfg.Name
	n, bad := 0, 0
	for _, fn := range p.Funcs() {
		if pkgOf(fn) == nil || pkgOf(fn).Path() != core.PkgPool || fn.Blocks == nil {
			continue
		}
		var ctxParams []*ssa.Parameter
		for _, prm := range fn.Params {
			if core.IsNamed(prm.Type(), "context", "Context") {
				ctxParams = append(ctxParams, prm)
			}
		}
		for _, b := range fn.Blocks {
			for _, in := range b.Instrs {
				st, ok := in.(*ssa.Store)
				if !ok {
					continue
				}
				fa, ok := st.Addr.(*ssa.FieldAddr)
				if !ok {
					continue
				}
				// the root of the address: p.options.HealthCheckPeriod is a field of the pool too
				for {
					up, isFA := fa.X.(*ssa.FieldAddr)
					if !isFA {
						break
					}
					fa = up
				}
				if !core.IsNamed(derefType(fa.X.Type()), core.PkgPool, "Pool") {
					continue
				}
				n++
				for _, prm := range ctxParams {
					if core.DependsOn(st.Val, func(v ssa.Value) bool { return v == ssa.Value(prm) }, true) {
						bad++
						c.R.Bad(rule, sprintf("%s/Pool.%s", core.FuncName(fn), fieldNameOnly(fa.X.Type(), fa.Field)), cfg, p.Pos(st.Pos()), "a field of the pool is derived from the context of its construction: when that context ends the pool's background work ends with it while the pool is still open")
					}
				}
			}
		}
	}
	c.R.Count("stores to Pool fields", n)
	c.R.Floor(rule, cfg, n, 3)
	if bad == 0 {
		c.R.Ok(rule, "chpool.Pool", cfg, "", sprintf("%d stores to Pool fields, none derived from a context parameter", n))
	}
}

// ruleHandshakeOwner (C12.handshake-owner): the goroutines of the handshake do not share what one of them writes.
func ruleHandshakeOwner(c *Ctx, p *core.Program, rule string) {
	c.R.Rule(rule, "among the closures of Client.handshake (the goroutine that writes the hello and decodes the server's answer, and the watchdog that closes the connection when the context ends - they run concurrently and nothing orders them) a field of ch.Client that one of them writes - assigns, or hands out by address to a call, as the decoder of the server hello does with Client.server - is not touched by another one; computed over every function each closure reaches through static calls; mux / closed are the lock rule's, conn is only ever called, never assigned")
	cfg := p.Cfg.Name
	hs := p.Method(core.PkgCh, "Client", "handshake")
	if !c.must(p, "(*ch.Client).handshake", hs != nil) {
		return
	}
	type eff struct {
		write bool
		at    ssa.Instruction
		fn    *ssa.Function
	}
	effects := func(root *ssa.Function) map[string]eff {
		out := map[string]eff{}
		for fn := range reachNoCallbacks(root) {
			if pkgOf(fn) == nil || pkgOf(fn).Path() != core.PkgCh || fn.Blocks == nil {
				continue
			}
			for _, b := range fn.Blocks {
				for _, in := range b.Instrs {
					f, ok := clientFieldAddr(in)
					if !ok {
						continue
					}
					fa := in.(*ssa.FieldAddr)
					w := false
					for _, r := range *fa.Referrers() {
						switch x := r.(type) {
						case *ssa.Store:
							if x.Addr == ssa.Value(fa) {
								w = true
							}
						case *ssa.MakeInterface:
							w = true // &c.field handed to a decoder
						case ssa.CallInstruction:
							for _, a := range x.Common().Args {
								if a == ssa.Value(fa) {
									w = true
								}
							}
						}
					}
					if old, seen := out[f]; !seen || (w && !old.write) {
						out[f] = eff{w, in, fn}
					}
				}
			}
		}
		return out
	}
	var gs []*ssa.Function
	for _, a := range hs.AnonFuncs {
		gs = append(gs, a)
	}
	if len(gs) < 2 {
		c.R.Unk(rule, core.FuncName(hs), cfg, p.Pos(hs.Pos()), sprintf("%d closures in handshake, expected the hello goroutine and the watchdog", len(gs)))
		return
	}
	effs := make([]map[string]eff, len(gs))
	for i, g := range gs {
		effs[i] = effects(g)
	}
	n, bad := 0, 0
	for i := range gs {
		for f, e := range effs[i] {
			if !e.write || f == "mux" || f == "closed" {
				continue
			}
			n++
			for j := range gs {
				if j == i {
					continue
				}
				if o, touched := effs[j][f]; touched {
					bad++
					c.R.Bad(rule, sprintf("handshake/Client.%s", f), cfg, p.Pos(o.at.Pos()), sprintf("Client.%s is written in %s (in %s) and touched in %s (in %s): the two closures of the handshake run concurrently", f, core.FuncName(gs[i]), core.FuncName(e.fn), core.FuncName(gs[j]), core.FuncName(o.fn)))
					break
				}
			}
		}
	}
	c.R.Count("Client fields written by a handshake closure", n)
	if bad == 0 {
		c.R.Ok(rule, core.FuncName(hs), cfg, p.Pos(hs.Pos()), sprintf("%d closures, %d fields written by one of them, none touched by another", len(gs), n))
	}
	c.R.Floor(rule, cfg, n, 1)
}

// ruleTraceStateInverse (C17.tracestate): the tracestate is decoded by the inverse of what encodes it.
func ruleTraceStateInverse(c *Ctx, p *core.Program, rule string) {
	c.R.Rule(rule, "the W3C tracestate travels as one string: package proto produces it with TraceState.String() and parses it with trace.ParseTraceState, the dependency's inverse of String; it never rebuilds the list member by member with TraceState.Insert (which puts every new member in front, so a list of two or more comes back reversed) or edits it with Delete")
	cfg := p.Cfg.Name
	n, bad := 0, 0
	for _, fn := range p.Funcs() {
		if pkgOf(fn) == nil || pkgOf(fn).Path() != core.PkgProto || fn.Blocks == nil {
			continue
		}
		for _, call := range core.Calls(fn) {
			f := core.CalleeFunc(call)
			if f == nil || f.Pkg() == nil || !strings.HasSuffix(f.Pkg().Path(), "otel/trace") {
				continue
			}
			r := core.RecvNamed(f)
			switch {
			case f.Name() == "ParseTraceState":
				n++
				c.R.Ok(rule, core.CallKey(fn, call), cfg, p.Pos(call.Pos()), "parsed by the dependency's inverse of String")
			case r != nil && r.Obj().Name() == "TraceState" && (f.Name() == "Insert" || f.Name() == "Delete"):
				bad++
				c.R.Bad(rule, core.CallKey(fn, call), cfg, p.Pos(call.Pos()), "the tracestate is rebuilt with TraceState."+f.Name()+": Insert prepends, so the decoded list is the reverse of the encoded one")
			}
		}
	}
	c.R.Floor(rule, cfg, n, 1)
	_ = bad
}

// ruleAutoTargetsKept (C18.targets-kept): the Auto result never forgets what it inferred.
func ruleAutoTargetsKept(c *Ctx, p *core.Program, rule string) {
	c.R.Rule(rule, "in the block decoders of package proto (Results.DecodeResult, Results.decodeAuto, autoResults.DecodeResult and their package helpers) the target list behind a *Results is only ever extended - every store through a *Results pointer is `append(*s, ...)` of the list it replaces: once targets were inferred, a block with another column count must meet them and be refused; truncating or replacing the list (`(*s)[:0]`) turns that mismatch into a silent re-inference")
	cfg := p.Cfg.Name
	n, bad := 0, 0
	for _, fn := range p.Funcs() {
		if pkgOf(fn) == nil || pkgOf(fn).Path() != core.PkgProto || fn.Blocks == nil {
			continue
		}
		for _, b := range fn.Blocks {
			for _, in := range b.Instrs {
				st, ok := in.(*ssa.Store)
				if !ok {
					continue
				}
				pt, ok := st.Addr.Type().Underlying().(*types.Pointer)
				if !ok || !core.IsNamed(pt.Elem(), core.PkgProto, "Results") {
					continue
				}
				if _, ptrToPtr := pt.Elem().Underlying().(*types.Pointer); ptrToPtr {
					continue // a field that holds a *Results, not the list
				}
				// stores to a local variable of type Results (a fresh list under construction) are not the shared list
				if _, isLocal := st.Addr.(*ssa.Alloc); isLocal {
					continue
				}
				n++
				key := sprintf("%s/store-Results#%d", core.FuncName(fn), n)
				okAppend := false
				if cl, isCall := stripConv(st.Val).(*ssa.Call); isCall {
					if bi, isB := cl.Call.Value.(*ssa.Builtin); isB && bi.Name() == "append" {
						if u, isLoad := stripConv(cl.Call.Args[0]).(*ssa.UnOp); isLoad && u.Op == token.MUL && u.X == st.Addr {
							okAppend = true
						}
					}
				}
				if okAppend {
					c.R.Ok(rule, key, cfg, p.Pos(st.Pos()), "the target list is extended by append")
				} else {
					bad++
					c.R.Bad(rule, key, cfg, p.Pos(st.Pos()), "the target list behind a *Results is replaced or truncated: a later block with another column count is accepted and the inferred targets are silently dropped")
				}
			}
		}
	}
	c.R.Count("stores through *Results", n)
	c.R.Floor(rule, cfg, n, 1)
}

// ruleElemFromEnd (C18.elem-last): the parameter list of a type ends at its last parenthesis.
func ruleElemFromEnd(c *Ctx, p *core.Program, rule string) {
	c.R.Rule(rule, "ColumnType.Elem - the helper every Infer uses to read the parameters of a type - finds the closing parenthesis from the end of the string (strings.LastIndex*): a forward scan that counts parentheses without regard to quoting ends at a `)` inside an enum value name ('a)' = 1) and hands the Infer hooks a truncated list, so an equal schema is refused")
	cfg := p.Cfg.Name
	fn := p.Method(core.PkgProto, "ColumnType", "Elem")
	if !c.must(p, "proto.ColumnType.Elem", fn != nil) {
		return
	}
	isLast := func(v ssa.Value) bool {
		cl, ok := v.(*ssa.Call)
		if !ok {
			return false
		}
		f := core.CalleeFunc(cl)
		return f != nil && f.Pkg() != nil && (f.Pkg().Path() == "strings" || f.Pkg().Path() == "bytes") && strings.HasPrefix(f.Name(), "LastIndex")
	}
	n := 0
	for _, b := range fn.Blocks {
		for _, in := range b.Instrs {
			sl, ok := in.(*ssa.Slice)
			if !ok || sl.High == nil {
				continue
			}
			if _, isConst := intConstOf(sl.High); isConst {
				continue
			}
			n++
			key := sprintf("%s/slice#%d", core.FuncName(fn), n)
			if core.DependsOn(sl.High, isLast, false) || core.DependsOnResults(sl.High, isLast) {
				c.R.Ok(rule, key, cfg, p.Pos(sl.Pos()), "upper bound found from the end of the string")
			} else {
				c.R.Bad(rule, key, cfg, p.Pos(sl.Pos()), "the end of the parameter list is not searched from the end of the string")
			}
		}
	}
	c.R.Floor(rule, cfg, n, 1)
}

// ruleCutBeforeChain (C14.cut-first): ChainWrite cuts the staging buffer before it records anything.
func ruleCutBeforeChain(c *Ctx, p *core.Program, rule string) {
	c.R.Rule(rule, "in Writer.ChainWrite every store into the vector (the net.Buffers field, or an element of it) is dominated by the call that cuts the staging buffer: bytes staged since the previous ChainWrite must get their place in the vector first, otherwise a slice that is recorded (or merged into its predecessor) without the cut overtakes them and the call order is lost")
	cfg := p.Cfg.Name
	cw := p.Method(core.PkgProto, "Writer", "ChainWrite")
	if !c.must(p, "(*proto.Writer).ChainWrite", cw != nil) {
		return
	}
	isVec := func(v ssa.Value) bool {
		fa, ok := v.(*ssa.FieldAddr)
		if !ok {
			return false
		}
		return core.IsNamed(fieldTypeOf(fa), "net", "Buffers")
	}
	var cuts []ssa.Instruction
	for _, call := range core.Calls(cw) {
		if f := core.CalleeFunc(call); f != nil && core.IsMethod(f, core.PkgProto, "Writer", "cutBuffer") {
			cuts = append(cuts, call.(ssa.Instruction))
		}
	}
	if len(cuts) == 0 {
		c.R.Bad(rule, core.FuncName(cw), cfg, p.Pos(cw.Pos()), "ChainWrite never cuts the staging buffer")
		return
	}
	n, bad := 0, 0
	for _, b := range cw.Blocks {
		for _, in := range b.Instrs {
			st, ok := in.(*ssa.Store)
			if !ok {
				continue
			}
			toVec := isVec(st.Addr)
			if ia, ok := st.Addr.(*ssa.IndexAddr); ok && core.DependsOn(ia.X, isVec, false) {
				toVec = true
			}
			if !toVec {
				continue
			}
			n++
			dom := false
			for _, cut := range cuts {
				if core.Dominates(cut, st) {
					dom = true
				}
			}
			if !dom {
				bad++
				c.R.Bad(rule, sprintf("%s/store#%d", core.FuncName(cw), n), cfg, p.Pos(st.Pos()), "the vector is changed on a path that has not cut the staging buffer: bytes staged before this call come out after the slice recorded here")
			}
		}
	}
	c.R.Floor(rule, cfg, n, 1)
	if bad == 0 {
		c.R.Ok(rule, core.FuncName(cw), cfg, p.Pos(cw.Pos()), sprintf("%d stores into the vector, all after the cut", n))
	}
}

func fieldTypeOf(fa *ssa.FieldAddr) types.Type {
	t := derefType(fa.X.Type())
	if st, ok := t.Underlying().(*types.Struct); ok && fa.Field < st.NumFields() {
		return st.Field(fa.Field).Type()
	}
	return types.Typ[types.Invalid]
}

// ruleSameAtomArgs (C14.same-args): the vectored and the buffered encoder put the same fields into the same places.
func ruleSameAtomArgs(c *Ctx, p *core.Program, rule string) {
	c.R.Rule(rule, "for a column type whose EncodeColumn and WriteColumn both emit scalar atoms (Buffer.Put* outside loops; WriteColumn's inside its ChainBuffer callbacks, in call order), the i-th atom of both takes its value from the same receiver fields: the two paths are chosen by compression alone, so a flags word that carries the key width in one and not in the other makes the reader of uncompressed INSERTs mis-frame the column; pairs with different atom counts or values computed by whole-receiver helpers are not compared")
	cfg := p.Cfg.Name
	n := 0
	for _, ct := range columnTypes(p) {
		enc, wr := methodOf(p, ct, "EncodeColumn"), methodOf(p, ct, "WriteColumn")
		if enc == nil || wr == nil || enc.Blocks == nil || wr.Blocks == nil {
			continue
		}
		isCol := func(t types.Type) bool {
			nn := core.NamedOf(derefType(t))
			return nn != nil && nn.Obj() == ct.Obj()
		}
		fieldsOf := func(v ssa.Value) (map[string]bool, bool) {
			out := map[string]bool{}
			whole := false
			core.DependsOn(v, func(x ssa.Value) bool {
				switch y := x.(type) {
				case *ssa.FieldAddr:
					if isCol(y.X.Type()) {
						out[fieldNameOnly(y.X.Type(), y.Field)] = true
					}
				case *ssa.Field:
					if isCol(y.X.Type()) {
						out[fieldNameOnly(y.X.Type(), y.Field)] = true
					}
				case *ssa.Call:
					for _, a := range y.Call.Args {
						if isCol(a.Type()) {
							whole = true
						}
					}
				}
				return false
			}, true)
			return out, whole
		}
		var atoms func(fn *ssa.Function, depth int) []ssa.Value
		atoms = func(fn *ssa.Function, depth int) []ssa.Value {
			var out []ssa.Value
			for _, b := range fn.Blocks {
				for _, in := range b.Instrs {
					call, ok := in.(ssa.CallInstruction)
					if !ok || core.InLoop(in) {
						continue
					}
					f := core.CalleeFunc(call)
					if f == nil {
						continue
					}
					if r := core.RecvNamed(f); r != nil && r.Obj().Name() == "Buffer" && strings.HasPrefix(f.Name(), "Put") && len(call.Common().Args) == 2 {
						out = append(out, call.Common().Args[1])
						continue
					}
					if core.IsMethod(f, core.PkgProto, "Writer", "ChainBuffer") && depth < 2 {
						if cb := core.ClosureArg(call, 1); cb != nil {
							out = append(out, atoms(cb, depth+1)...)
						}
					}
				}
			}
			return out
		}
		ea, wa := atoms(enc, 0), atoms(wr, 0)
		if len(ea) == 0 || len(ea) != len(wa) {
			continue
		}
		n++
		key := "pair/" + ct.Obj().Name()
		bad := false
		for i := range ea {
			ef, ew := fieldsOf(ea[i])
			wf, ww := fieldsOf(wa[i])
			if ew || ww {
				continue
			}
			same := len(ef) == len(wf)
			for f := range ef {
				if !wf[f] {
					same = false
				}
			}
			if !same {
				bad = true
				c.R.Bad(rule, sprintf("%s/atom#%d", key, i+1), cfg, p.Pos(wa[i].Pos()), sprintf("atom %d takes its value from fields %s in EncodeColumn and from %s in WriteColumn", i+1, strKeys(ef), strKeys(wf)))
			}
		}
		if !bad {
			c.R.Ok(rule, key, cfg, p.Pos(wr.Pos()), sprintf("%d scalar atoms take their values from the same fields in both encoders", len(ea)))
		}
	}
	c.R.Count("encoder pairs with comparable scalar atoms", n)
	c.R.Floor(rule, cfg, n, 1)
}

// ruleAddrStringDelegates (C20.addr-string): address text comes from the standard library.
func ruleAddrStringDelegates(c *Ctx, p *core.Program, rule string) {
	c.R.Rule(rule, "IPv4.String and IPv6.String are formatted by the standard library (net.IP.String / netip.Addr.String on the converted value): they contain no digit arithmetic of their own; a hand-written formatter is a form this check does not decide (String -> Parse -> To must stay the identity for every address, which no shape rule in reach establishes for custom digit code)")
	cfg := p.Cfg.Name
	n := 0
	for _, tn := range []string{"IPv4", "IPv6"} {
		fn := p.Method(core.PkgProto, tn, "String")
		if fn == nil || fn.Blocks == nil {
			continue
		}
		n++
		key := tn + ".String"
		delegated := false
		arith := false
		for g := range core.StaticReach(fn, 2) {
			if pkgOf(g) == nil || pkgOf(g).Path() != core.PkgProto || g.Blocks == nil {
				continue
			}
			for _, b := range g.Blocks {
				for _, in := range b.Instrs {
					switch x := in.(type) {
					case ssa.CallInstruction:
						if f := core.CalleeFunc(x); f != nil && f.Name() == "String" && f.Pkg() != nil && (f.Pkg().Path() == "net" || f.Pkg().Path() == "net/netip") {
							delegated = true
						}
					case *ssa.BinOp:
						if g == fn || strings.HasPrefix(strings.ToLower(g.Name()), "append") {
							if x.Op == token.REM || x.Op == token.QUO {
								arith = true
							}
						}
					}
				}
			}
		}
		switch {
		case delegated && !arith:
			c.R.Ok(rule, key, cfg, p.Pos(fn.Pos()), "formatted by the standard library")
		default:
			c.R.Unk(rule, key, cfg, p.Pos(fn.Pos()), "the address is formatted by hand-written digit code: not a recognised form")
		}
	}
	c.R.Floor(rule, cfg, n, 2)
}

// ruleInstantKept (C20.instant): a time column stores the instant it is given.
func ruleInstantKept(c *Ctx, p *core.Program, rule string) {
	c.R.Rule(rule, "in Append / AppendArr of the time columns (and the same-type helpers they call) the time.Time handed to ToDateTime / ToDateTime64 / ToDate / ToDate32 is the appended value itself - the parameter or an element of the slice parameter - never the result of a call (time.Date rebuilding the wall clock in the column's Location, In, Truncate ...): the column's zone is presentation, the stored ticks are the instant")
	cfg := p.Cfg.Name
	n := 0
	conv := map[string]bool{"ToDateTime": true, "ToDateTime64": true, "ToDate": true, "ToDate32": true}
	for _, ct := range columnTypes(p) {
		name := ct.Obj().Name()
		if !strings.HasPrefix(name, "ColDate") {
			continue
		}
		for _, mn := range []string{"Append", "AppendArr"} {
			fn := methodOf(p, ct, mn)
			if fn == nil || fn.Blocks == nil {
				continue
			}
			fns := []*ssa.Function{fn}
			for _, g := range core.StaticReachList(fn) {
				if g == nil || g == fn || g.Blocks == nil {
					continue
				}
				h := g
				if h.Synthetic != "" {
					for _, wc := range core.Calls(h) {
						if o := core.StaticFn(wc); o != nil && o.Blocks != nil && strings.HasPrefix(h.Name(), o.Name()) {
							h = o
						}
					}
				}
				if r := core.RecvNamed2(h); r != nil && r.Obj() == ct.Obj() {
					fns = append(fns, h)
				}
			}
			for _, g := range fns {
				for _, call := range core.Calls(g) {
					f := core.CalleeFunc(call)
					if f == nil || !conv[f.Name()] || f.Pkg() == nil || f.Pkg().Path() != core.PkgProto {
						continue
					}
					n++
					key := sprintf("%s.%s/%s", name, mn, core.CallKey(g, call))
					arg := call.Common().Args[0]
					if core.DependsOn(arg, func(v ssa.Value) bool { _, isCall := v.(*ssa.Call); return isCall }, false) {
						c.R.Bad(rule, key, cfg, p.Pos(call.Pos()), "the value converted to ticks is the result of a call, not the appended time itself: the stored instant depends on the column's or the value's zone")
					} else {
						c.R.Ok(rule, key, cfg, p.Pos(call.Pos()), "the appended value is converted as it is")
					}
				}
			}
		}
	}
	c.R.Count("time conversions in Append paths", n)
	c.R.Floor(rule, cfg, n, 4)
}

// ruleStringIndexGuard (C19.index-guard): a byte of a type-string fragment is read only when it exists.
func ruleStringIndexGuard(c *Ctx, p *core.Program, rule string) {
	c.R.Rule(rule, "in the Infer methods of package proto and the package helpers they call, s[k] with a constant k on a string is reached only through an edge that establishes len(s) > k (a test of len(s) against a constant, or s != \"\"): the fragments come from cutting and trimming a type string sent by the peer, and ` ` or `''` trims to nothing - reading its first byte before the length test panics inside Results.Auto on a malformed DateTime64( ) header")
	cfg := p.Cfg.Name
	n, bad := 0, 0
	seen := map[*ssa.Function]bool{}
	var fns []*ssa.Function
	for _, ct := range columnTypes(p) {
		inf := methodOf(p, ct, "Infer")
		if inf == nil || inf.Blocks == nil {
			continue
		}
		for g := range core.StaticReach(inf, 2) {
			if g.Blocks != nil && pkgOf(g) != nil && pkgOf(g).Path() == core.PkgProto && !seen[g] {
				seen[g] = true
				fns = append(fns, g)
			}
		}
	}
	sortFns(fns)
	for _, fn := range fns {
		for _, b := range fn.Blocks {
			for _, in := range b.Instrs {
				lk, ok := in.(*ssa.Index) // x/tools v0.29: s[i] on a string is an Index, not a Lookup
				if !ok {
					continue
				}
				if bt, isB := lk.X.Type().Underlying().(*types.Basic); !isB || bt.Info()&types.IsString == 0 {
					continue
				}
				k, isConst := intConstOf(lk.Index)
				if !isConst {
					// look-ahead s[y+d] with a constant d > 0: behind y+d' < len(s) (d' >= d) or y < len(s)-d'
					ad, ok := stripConv(lk.Index).(*ssa.BinOp)
					if !ok || ad.Op != token.ADD {
						continue
					}
					d, okd := intConstOf(ad.Y)
					if !okd || d <= 0 {
						continue
					}
					n++
					key := sprintf("%s/lookahead#%d", core.FuncName(fn), n)
					isLenS := func(v ssa.Value) bool {
						cl, ok := stripConv(v).(*ssa.Call)
						if !ok {
							return false
						}
						bi, ok := cl.Call.Value.(*ssa.Builtin)
						return ok && bi.Name() == "len" && cl.Call.Args[0] == lk.X
					}
					ahead := func(v ssa.Value) (int64, bool) { // v == y + d'
						b2, ok := stripConv(v).(*ssa.BinOp)
						if !ok || b2.Op != token.ADD || b2.X != ad.X {
							return 0, false
						}
						return intConstOf(b2.Y)
					}
					lenMinus := func(v ssa.Value) (int64, bool) { // v == len(s) - d'
						b2, ok := stripConv(v).(*ssa.BinOp)
						if !ok || b2.Op != token.SUB || !isLenS(b2.X) {
							return 0, false
						}
						return intConstOf(b2.Y)
					}
					edges := core.CondEdges(fn, true, func(cond ssa.Value) (bool, bool) {
						bo, ok := cond.(*ssa.BinOp)
						if !ok {
							return false, false
						}
						if d2, ok := ahead(bo.X); ok && isLenS(bo.Y) && d2 >= d {
							switch bo.Op {
							case token.LSS:
								return true, true
							case token.GEQ:
								return false, true
							}
						}
						if d2, ok := lenMinus(bo.Y); ok && bo.X == ad.X && d2 >= d {
							switch bo.Op {
							case token.LSS:
								return true, true
							case token.GEQ:
								return false, true
							}
						}
						return false, false
					})
					if len(edges) > 0 && core.OnlyViaEdges(fn, lk, edges) {
						c.R.Ok(rule, key, cfg, p.Pos(lk.Pos()), "look-ahead behind a length test")
					} else {
						bad++
						c.R.Bad(rule, key, cfg, p.Pos(lk.Pos()), sprintf("the scanner looks %d byte(s) ahead without having established that the string is that long: a type string cut off after a quote panics", d))
					}
					continue
				}
				n++
				key := sprintf("%s/index#%d", core.FuncName(fn), n)
				isLen := func(v ssa.Value) bool {
					cl, ok := stripConv(v).(*ssa.Call)
					if !ok {
						return false
					}
					bi, ok := cl.Call.Value.(*ssa.Builtin)
					return ok && bi.Name() == "len" && cl.Call.Args[0] == lk.X
				}
				edges := core.CondEdges(fn, true, func(cond ssa.Value) (bool, bool) {
					bo, ok := cond.(*ssa.BinOp)
					if !ok {
						return false, false
					}
					// s != "" / s == ""
					if (bo.X == lk.X || bo.Y == lk.X) && k == 0 {
						other := bo.Y
						if bo.Y == lk.X {
							other = bo.X
						}
						if cst, ok := other.(*ssa.Const); ok && cst.Value != nil && cst.Value.ExactString() == `""` {
							switch bo.Op {
							case token.NEQ:
								return true, true
							case token.EQL:
								return false, true
							}
						}
					}
					var cv int64
					var okc, lenLeft bool
					switch {
					case isLen(bo.X):
						cv, okc = intConstOf(bo.Y)
						lenLeft = true
					case isLen(bo.Y):
						cv, okc = intConstOf(bo.X)
					}
					if !okc {
						return false, false
					}
					op := bo.Op
					if !lenLeft { // c op len  ==  len op' c
						op = map[token.Token]token.Token{token.LSS: token.GTR, token.GTR: token.LSS, token.LEQ: token.GEQ, token.GEQ: token.LEQ, token.EQL: token.EQL, token.NEQ: token.NEQ}[op]
					}
					switch op {
					case token.GTR: // len > c
						return true, cv >= k
					case token.GEQ:
						return true, cv > k
					case token.LSS: // len < c : false edge gives len >= c
						return false, cv > k
					case token.LEQ:
						return false, cv >= k
					case token.EQL: // len == c : true edge gives len = c
						if cv > k {
							return true, true
						}
						return false, cv <= k && cv == 0 && k == 0
					case token.NEQ: // len != c : false edge gives len = c
						return false, cv > k
					}
					return false, false
				})
				if len(edges) > 0 && core.OnlyViaEdges(fn, lk, edges) {
					c.R.Ok(rule, key, cfg, p.Pos(lk.Pos()), "behind a test that the byte exists")
				} else {
					bad++
					c.R.Bad(rule, key, cfg, p.Pos(lk.Pos()), sprintf("byte %d of a type-string fragment is read on a path that has not established its length: an empty fragment (blank or quote-only parameter) panics", k))
				}
			}
		}
	}
	c.R.Count("constant string indexings on Infer paths", n)
	if bad == 0 {
		c.R.Ok(rule, "proto/Infer", cfg, "", sprintf("%d constant string indexings on Infer paths, all guarded", n))
	}
}

// Rules added in seeding round 14.

// ruleDecodedValueStored (C17.decoded-stored): what a message decoder reads for a field reaches the field.
func ruleDecodedValueStored(c *Ctx, p *core.Program, rule string) {
	c.R.Rule(rule, "in the decoder of every protocol message, a value read from the wire that is stored into a field of the message on some path is stored on every path from the read to a success exit (failing edges of error tests cut): a store made conditional on another decoded field (`if p.AppliedLimit { p.RowsBeforeLimit = v }`) consumes the bytes but drops the value, so decode(encode(x)) differs from x for the combinations the condition excludes")
	cfg := p.Cfg.Name
	n := 0
	for _, mp := range messagePairs(p) {
		dec := mp.dec
		if dec == nil || dec.Blocks == nil || len(dec.Params) == 0 {
			continue
		}
		recv := dec.Params[0]
		for _, b := range dec.Blocks {
			for _, in := range b.Instrs {
				st, ok := in.(*ssa.Store)
				if !ok {
					continue
				}
				fa, ok := st.Addr.(*ssa.FieldAddr)
				if !ok || fa.X != ssa.Value(recv) {
					continue
				}
				// the wire read the stored value comes from (directly, converted)
				var read ssa.Instruction
				v := stripConv(st.Val)
				if ex, ok := v.(*ssa.Extract); ok {
					v = ex.Tuple
				}
				if cl, ok := v.(*ssa.Call); ok && isWireRead(cl) {
					read = cl
				}
				if read == nil {
					continue
				}
				n++
				key := sprintf("message/%s/%s", mp.name, fieldNameOnly(fa.X.Type(), fa.Field))
				w := core.ReachAvoiding(core.PointOf(read), func(x ssa.Instruction) bool {
					r, ok := x.(*ssa.Return)
					return ok && defaultSuccess(dec, r)
				}, func(x ssa.Instruction) bool {
					s2, ok := x.(*ssa.Store)
					if !ok {
						return false
					}
					f2, ok := s2.Addr.(*ssa.FieldAddr)
					return ok && f2.X == ssa.Value(recv) && f2.Field == fa.Field
				}, nilErrEdge)
				if len(w) > 0 {
					c.R.Bad(rule, key, cfg, p.Pos(st.Pos()), "the value read for this field can be dropped on a success path: the store depends on something else that was decoded", p.TrailString(w[0])...)
				} else {
					c.R.Ok(rule, key, cfg, p.Pos(st.Pos()), "stored on every success path after the read")
				}
			}
		}
	}
	c.R.Count("wire reads stored into message fields", n)
	c.R.Floor(rule, cfg, n, 20)
}

// ruleNoPrepareInDecode (C18.no-prepare): binding a block to targets never runs the encode-side preparation.
func ruleNoPrepareInDecode(c *Ctx, p *core.Program, rule string) {
	c.R.Rule(rule, "the block decoders of package proto (Results.DecodeResult, Results.decodeAuto, autoResults.DecodeResult, ColInfoInput.DecodeResult and the package helpers they call) never call Prepare on a target: Prepare is the encode-side step that maps the values a column holds through its current definition - run on a target that still holds the previous block's rows, right after Infer replaced the definition, it fails a compatible block with `unknown enum value`")
	cfg := p.Cfg.Name
	n, bad := 0, 0
	for _, fn := range p.Funcs() {
		if pkgOf(fn) == nil || pkgOf(fn).Path() != core.PkgProto || fn.Blocks == nil || (fn.Name() != "DecodeResult" && fn.Name() != "decodeAuto") {
			continue
		}
		for g := range core.StaticReach(fn, 2) {
			if g.Blocks == nil || pkgOf(g) == nil || pkgOf(g).Path() != core.PkgProto {
				continue
			}
			if g != fn && (g.Signature.Recv() != nil && g.Name() != "DecodeResult" && g.Name() != "decodeAuto") {
				continue // methods of columns are not the decoder's own code
			}
			n++
			for _, call := range core.Calls(g) {
				cc := call.Common()
				if cc.IsInvoke() && cc.Method.Name() == "Prepare" {
					bad++
					c.R.Bad(rule, core.CallKey(g, call), cfg, p.Pos(call.Pos()), "a result decoder prepares its target: the values it still holds are mapped through the definition it has just adopted")
				}
			}
		}
	}
	c.R.Floor(rule, cfg, n, 3)
	if bad == 0 {
		c.R.Ok(rule, "proto/result-decoders", cfg, "", sprintf("%d decoder functions, none calls Prepare", n))
	}
}

// ruleArrayCtorElement (C01.ctor-elem): NewArr<T> builds an array of Col<T>.
func ruleArrayCtorElement(c *Ctx, p *core.Program, rule string) {
	c.R.Rule(rule, "every constructor NewArr<T> of package proto builds its array over a freshly allocated Col<T> - the element column named like the constructor: the time columns all satisfy ColumnOf[time.Time], so NewArrDate32 over new(ColDate) compiles, announces Array(Date) and stores 16-bit days")
	cfg := p.Cfg.Name
	n := 0
	for _, fn := range p.Funcs() {
		if pkgOf(fn) == nil || pkgOf(fn).Path() != core.PkgProto || fn.Blocks == nil || fn.Signature.Recv() != nil || !strings.HasPrefix(fn.Name(), "NewArr") || fn.Name() == "NewArray" || len(fn.Params) != 0 {
			continue
		}
		want := "Col" + strings.TrimPrefix(fn.Name(), "NewArr")
		var got []string
		for _, b := range fn.Blocks {
			for _, in := range b.Instrs {
				al, ok := in.(*ssa.Alloc)
				if !ok || !al.Heap {
					continue
				}
				if nn := core.NamedOf(derefType(al.Type())); nn != nil && strings.HasPrefix(nn.Obj().Name(), "Col") && !strings.HasPrefix(nn.Obj().Name(), "ColArr") {
					got = append(got, nn.Obj().Name())
				}
			}
		}
		if len(got) == 0 {
			continue
		}
		n++
		key := "ctor/" + fn.Name()
		ok := true
		for _, g := range got {
			if g != want {
				ok = false
			}
		}
		if ok {
			c.R.Ok(rule, key, cfg, p.Pos(fn.Pos()), "array over "+want)
		} else {
			c.R.Bad(rule, key, cfg, p.Pos(fn.Pos()), sprintf("%s allocates %s, expected %s: the array announces and encodes another element type", fn.Name(), strings.Join(got, ", "), want))
		}
	}
	c.R.Count("NewArr constructors", n)
	c.R.Floor(rule, cfg, n, 20)
}

// ruleReadTimeoutSource (C04.readtimeout-source): the idle timeout of a connection is what the options say.
func ruleReadTimeoutSource(c *Ctx, p *core.Program, rule string) {
	c.R.Rule(rule, "every store to Client.readTimeout in package ch takes Options.ReadTimeout: the field is never zeroed, saved and restored around a phase (a restore that sits behind an early return leaves the connection without a per-packet deadline for old revisions, and a silent server then parks the receive loop for ever)")
	cfg := p.Cfg.Name
	n := 0
	for _, fn := range p.Funcs() {
		if pkgOf(fn) == nil || pkgOf(fn).Path() != core.PkgCh || fn.Blocks == nil {
			continue
		}
		for _, b := range fn.Blocks {
			for _, in := range b.Instrs {
				st, ok := in.(*ssa.Store)
				if !ok {
					continue
				}
				if f, ok := clientFieldAddrOf(st.Addr); !ok || f != "readTimeout" {
					continue
				}
				n++
				key := sprintf("%s/store-readTimeout#%d", core.FuncName(fn), n)
				if o := core.FieldOrigin(st.Val, 0); o == "Options.ReadTimeout" {
					c.R.Ok(rule, key, cfg, p.Pos(st.Pos()), "readTimeout <- Options.ReadTimeout")
				} else {
					c.R.Bad(rule, key, cfg, p.Pos(st.Pos()), "Client.readTimeout is assigned something other than Options.ReadTimeout (zeroed, or restored from a saved copy): a path that skips the restore leaves reads without a deadline")
				}
			}
		}
	}
	c.R.Floor(rule, cfg, n, 1)
}

func clientFieldAddrOf(v ssa.Value) (string, bool) {
	in, ok := v.(ssa.Instruction)
	if !ok {
		return "", false
	}
	return clientFieldAddr(in)
}

// ruleHandleSlabFresh (C11.handle-slab): every pooled connection has its own handles.
func ruleHandleSlabFresh(c *Ctx, p *core.Program, rule string) {
	c.R.Rule(rule, "the slab of Client handles of a pooled connection (the slice-of-Client field of connResource) is assigned only a slice made in the assigning function or a reslice of the field itself: a slab captured from outside the puddle constructor is shared by all connections, so the n-th handle of two connections is one object and the second Acquire redirects the first holder")
	cfg := p.Cfg.Name
	n := 0
	for _, fn := range p.Funcs() {
		if pkgOf(fn) == nil || pkgOf(fn).Path() != core.PkgPool || fn.Blocks == nil {
			continue
		}
		for _, b := range fn.Blocks {
			for _, in := range b.Instrs {
				st, ok := in.(*ssa.Store)
				if !ok {
					continue
				}
				fa, ok := st.Addr.(*ssa.FieldAddr)
				if !ok || !core.IsNamed(derefType(fa.X.Type()), core.PkgPool, "connResource") {
					continue
				}
				sl, ok := fieldTypeOf(fa).Underlying().(*types.Slice)
				if !ok || !core.IsNamed(sl.Elem(), core.PkgPool, "Client") {
					continue
				}
				n++
				key := sprintf("%s/store-handles#%d", core.FuncName(fn), n)
				foreign := core.DependsOn(st.Val, func(v ssa.Value) bool {
					switch v.(type) {
					case *ssa.FreeVar, *ssa.Parameter, *ssa.Global:
						// the receiver / resource itself is fine (reslice of its own field)
						if prm, ok := v.(*ssa.Parameter); ok && core.IsNamed(derefType(prm.Type()), core.PkgPool, "connResource") {
							return false
						}
						return true
					}
					return false
				}, false)
				if foreign {
					c.R.Bad(rule, key, cfg, p.Pos(st.Pos()), "the handle slab comes from outside the function that builds the connection: connections share one backing array of handles")
				} else {
					c.R.Ok(rule, key, cfg, p.Pos(st.Pos()), "fresh or own slab")
				}
			}
		}
	}
	c.R.Floor(rule, cfg, n, 2)
}

// ruleNewPoolCloses (C11.newpool-closes): a pool that fails to start closes what it opened.
func ruleNewPoolCloses(c *Ctx, p *core.Program, rule string) {
	c.R.Rule(rule, "in the function of package chpool that creates the puddle pool, every exit that returns an error after the pool exists passes a call of Pool.Close (or puddle's Close) in the function body - a clean-up moved into a deferred closure counts only when the closure's condition reads a cell that the failing return stores its error into (named results; a shadowed `err` never reaches the cell): connections opened during a failed warm-up otherwise stay open with no pool to close them")
	cfg := p.Cfg.Name
	n := 0
	for _, fn := range p.Funcs() {
		if pkgOf(fn) == nil || pkgOf(fn).Path() != core.PkgPool || fn.Blocks == nil {
			continue
		}
		var mk ssa.CallInstruction
		for _, call := range core.Calls(fn) {
			if f := core.CalleeFunc(call); f != nil && f.Pkg() != nil && f.Pkg().Path() == pkgPuddle && f.Name() == "NewPool" {
				mk = call
			}
		}
		if mk == nil {
			continue
		}
		n++
		key := core.FuncName(fn)
		ev := core.ErrValue(mk)
		al := core.Aliases(fn, ev)
		okEdge := func(b *ssa.BasicBlock, i int) bool {
			if ifi, ok := b.Instrs[len(b.Instrs)-1].(*ssa.If); ok {
				if ns, ok := core.NilTest(ifi, al); ok && ns != i {
					return false // NewPool itself failed: nothing was opened
				}
			}
			return true
		}
		isClose := func(in ssa.Instruction) bool {
			return core.IsCallOf(in, func(f *types.Func) bool {
				return core.IsMethod(f, core.PkgPool, "Pool", "Close") || (f.Pkg() != nil && f.Pkg().Path() == pkgPuddle && f.Name() == "Close")
			})
		}
		// cells a deferred clean-up closure tests before closing
		cells := map[ssa.Value]bool{}
		for _, b := range fn.Blocks {
			for _, in := range b.Instrs {
				df, ok := in.(*ssa.Defer)
				if !ok {
					continue
				}
				mc, ok := df.Call.Value.(*ssa.MakeClosure)
				if !ok {
					continue
				}
				cl, _ := mc.Fn.(*ssa.Function)
				if cl == nil || len(core.FindCalls(cl, func(f *types.Func) bool { return core.IsMethod(f, core.PkgPool, "Pool", "Close") })) == 0 {
					continue
				}
				for i, fv := range cl.FreeVars {
					if pt, ok := fv.Type().Underlying().(*types.Pointer); ok && types.Identical(pt.Elem(), types.Universe.Lookup("error").Type()) && i < len(mc.Bindings) {
						cells[mc.Bindings[i]] = true
					}
				}
			}
		}
		w := core.ReachAvoiding(core.PointOf(mk.(ssa.Instruction)), func(in ssa.Instruction) bool {
			r, ok := in.(*ssa.Return)
			if !ok || len(r.Results) == 0 {
				return false
			}
			last := r.Results[len(r.Results)-1]
			if core.IsNilConst(last) || !isErrorTyped(last) {
				return false
			}
			// a failing return that hands its error to the cell the deferred clean-up tests is covered
			for cell := range cells {
				for _, x := range r.Block().Instrs {
					if st, ok := x.(*ssa.Store); ok && st.Addr == cell && !core.IsNilConst(st.Val) {
						return false
					}
				}
			}
			return true
		}, isClose, okEdge)
		if len(w) > 0 {
			c.R.Bad(rule, key, cfg, p.Pos(w[0].At.Pos()), "the pool can fail to start after connections were opened without closing them: there is no pool left to close them later", p.TrailString(w[0])...)
		} else {
			c.R.Ok(rule, key, cfg, p.Pos(mk.Pos()), "every failing exit after the pool exists closes it")
		}
	}
	c.R.Floor(rule, cfg, n, 1)
}

// ruleNoGlobalBuffers (C12.global-buffers): nothing is read into package-level memory.
func ruleNoGlobalBuffers(c *Ctx, p *core.Program, rule string) {
	c.R.Rule(rule, "no function of the library outside package initialisation hands a window of a package-level array or slice to something that fills it (Reader.ReadFull / Read, io.ReadFull, an io.Reader's Read, the destination of copy): every connection's receive goroutine would write the same memory - a scratch buffer belongs to the reader or the column")
	cfg := p.Cfg.Name
	n, bad := 0, 0
	fromGlobal := func(v ssa.Value) bool {
		return core.DependsOn(v, func(x ssa.Value) bool {
			g, ok := x.(*ssa.Global)
			if !ok || g.Pkg == nil || !strings.HasPrefix(g.Pkg.Pkg.Path(), core.PkgCh) {
				return false
			}
			switch derefType(g.Type()).Underlying().(type) {
			case *types.Array, *types.Slice:
				return true
			}
			return false
		}, false)
	}
	for _, fn := range p.Funcs() {
		if pkgOf(fn) == nil || fn.Blocks == nil || fn.Name() == "init" || strings.HasPrefix(fn.Name(), "init#") {
			continue
		}
		for _, call := range core.Calls(fn) {
			cc := call.Common()
			var dst ssa.Value
			if bi, ok := cc.Value.(*ssa.Builtin); ok && bi.Name() == "copy" {
				dst = cc.Args[0]
			} else if cc.IsInvoke() && cc.Method.Name() == "Read" && len(cc.Args) == 1 {
				dst = cc.Args[0]
			} else if f := core.CalleeFunc(call); f != nil {
				switch {
				case core.IsMethod(f, core.PkgProto, "Reader", "ReadFull"), core.IsMethod(f, core.PkgProto, "Reader", "Read"):
					dst = cc.Args[len(cc.Args)-1]
				case f.Pkg() != nil && f.Pkg().Path() == "io" && (f.Name() == "ReadFull" || f.Name() == "ReadAtLeast"):
					dst = cc.Args[1]
				}
			}
			if dst == nil {
				continue
			}
			n++
			if fromGlobal(dst) {
				bad++
				c.R.Bad(rule, core.CallKey(fn, call), cfg, p.Pos(call.Pos()), "bytes are read or copied into package-level memory: concurrent receive goroutines of different connections write it at the same time")
			}
		}
	}
	c.R.Count("fill calls examined", n)
	c.R.Floor(rule, cfg, n, 20)
	if bad == 0 {
		c.R.Ok(rule, "library/fill-destinations", cfg, "", sprintf("%d fill calls, none into package-level memory", n))
	}
}

// rulePoolPutOnce (C12.pool-put-once): an object goes back to a sync.Pool once.
func rulePoolPutOnce(c *Ctx, p *core.Program, rule string) {
	c.R.Rule(rule, "wherever the library uses a sync.Pool, a value that is Put is not Put again: a function with a deferred Put of a value has no further Put of it, and no Put is reachable from another Put of the same value - a double Put lets two goroutines Get the same object and decode into it concurrently (no sync.Pool is used for decode targets today; the rule is kept alive by a mutant)")
	cfg := p.Cfg.Name
	n, bad := 0, 0
	isPut := func(call ssa.CallInstruction) (ssa.Value, bool) {
		f := core.CalleeFunc(call)
		if f == nil || !core.IsMethod(f, "sync", "Pool", "Put") {
			return nil, false
		}
		args := call.Common().Args
		v := args[len(args)-1]
		if mi, ok := v.(*ssa.MakeInterface); ok {
			v = mi.X
		}
		// a variable captured by a closure lives in a cell: two loads of the cell are the same value
		if u, ok := v.(*ssa.UnOp); ok && u.Op == token.MUL {
			v = u.X
		}
		return v, true
	}
	for _, fn := range p.Funcs() {
		if pkgOf(fn) == nil || fn.Blocks == nil {
			continue
		}
		type put struct {
			in       ssa.Instruction
			v        ssa.Value
			deferred bool
		}
		var puts []put
		for _, b := range fn.Blocks {
			for _, in := range b.Instrs {
				call, ok := in.(ssa.CallInstruction)
				if !ok {
					continue
				}
				if v, ok := isPut(call); ok {
					_, d := in.(*ssa.Defer)
					puts = append(puts, put{in, v, d})
				}
			}
		}
		n += len(puts)
		for i, a := range puts {
			for j, b := range puts {
				if i >= j || a.v != b.v {
					continue
				}
				double := a.deferred || b.deferred
				if !double {
					w := core.ReachAvoiding(core.PointOf(a.in), func(x ssa.Instruction) bool { return x == b.in }, nil, nil)
					double = len(w) > 0
				}
				if double {
					bad++
					c.R.Bad(rule, core.FuncName(fn)+"/double-put", cfg, p.Pos(b.in.Pos()), "the same value is put into the pool twice on one path (a deferred Put plus an explicit one): two later Gets hand the same object to two goroutines")
				}
			}
		}
	}
	c.R.Count("sync.Pool.Put calls", n)
	if bad == 0 {
		c.R.Ok(rule, "library/sync.Pool", cfg, "", sprintf("%d Put calls, no value put twice", n))
	}
}

// ruleSpanContextUsed (C02.span-ctx): the query travels under the span that was started for it.
func ruleSpanContextUsed(c *Ctx, p *core.Program, rule string) {
	c.R.Rule(rule, "wherever package ch starts a span (Tracer.Start) the context it returns is used afterwards: sendQuery takes the trace context of the Query packet from the query's context, so a discarded result (`_, span := Start(...)`) sends the caller's span id, or none, instead of the Do span's")
	cfg := p.Cfg.Name
	n := 0
	for _, fn := range p.Funcs() {
		if pkgOf(fn) == nil || pkgOf(fn).Path() != core.PkgCh || fn.Blocks == nil {
			continue
		}
		for _, call := range core.Calls(fn) {
			cc := call.Common()
			if !cc.IsInvoke() || cc.Method.Name() != "Start" || cc.Method.Pkg() == nil || !strings.HasSuffix(cc.Method.Pkg().Path(), "otel/trace") {
				continue
			}
			n++
			used := false
			if v, ok := call.(ssa.Value); ok && v.Referrers() != nil {
				for _, r := range *v.Referrers() {
					if ex, ok := r.(*ssa.Extract); ok && ex.Index == 0 && ex.Referrers() != nil && len(*ex.Referrers()) > 0 {
						used = true
					}
				}
			}
			if used {
				c.R.Ok(rule, core.CallKey(fn, call), cfg, p.Pos(call.Pos()), "the context carrying the new span is used")
			} else {
				c.R.Bad(rule, core.CallKey(fn, call), cfg, p.Pos(call.Pos()), "the context returned by Tracer.Start is discarded: the Query packet does not carry this span")
			}
		}
	}
	c.R.Floor(rule, cfg, n, 1)
}

// ruleContentBlindCodecs (C15.content-blind): fixed-width codecs move bytes without looking at them.
func ruleContentBlindCodecs(c *Ctx, p *core.Program, rule string) {
	c.R.Rule(rule, "EncodeColumn / WriteColumn / DecodeColumn of the generated fixed-width columns (the Col* types whose files come in an unsafe and a pure-Go variant) call nothing from package bytes or strings: the memory-copy variant cannot look at the values, so a pure-Go variant that cuts, trims or searches them (copy up to the first NUL) emits different bytes for binary rows")
	cfg := p.Cfg.Name
	n, bad := 0, 0
	for _, ct := range columnTypes(p) {
		for _, mn := range []string{"EncodeColumn", "WriteColumn", "DecodeColumn"} {
			fn := methodOf(p, ct, mn)
			if fn == nil || fn.Blocks == nil {
				continue
			}
			file := p.Pos(fn.Pos())
			if !strings.Contains(file, "_gen.go") {
				continue
			}
			n++
			for _, g := range append([]*ssa.Function{fn}, fn.AnonFuncs...) {
				for _, call := range core.Calls(g) {
					f := core.CalleeFunc(call)
					if f != nil && f.Pkg() != nil && (f.Pkg().Path() == "bytes" || f.Pkg().Path() == "strings") {
						bad++
						c.R.Bad(rule, sprintf("%s.%s", ct.Obj().Name(), mn), cfg, p.Pos(call.Pos()), "a generated fixed-width codec inspects the values with "+f.FullName()+": its output depends on the content, unlike the memory-copy variant of the other build")
					}
				}
			}
		}
	}
	c.R.Count("generated codec methods["+cfg+"]", n)
	c.R.Floor(rule, cfg, n, 60)
	if bad == 0 {
		c.R.Ok(rule, "generated-codecs", cfg, "", sprintf("%d generated codec methods, none inspects the values", n))
	}
}

// ruleDictIndependentOfRows (C19.dict-rows): the dictionary of a LowCardinality block is not measured against its rows.
func ruleDictIndependentOfRows(c *Ctx, p *core.Program, rule string) {
	c.R.Rule(rule, "in ColLowCardinality.DecodeColumn (and ColLowCardinalityRaw.DecodeColumn) no ordering test (<, <=, >, >=) relates the row count of the column to a size read from the wire (the number of keys is compared for equality, which stays): the server ships the nested type's default value in dictionary slot 0 whether or not a row uses it, so a legal block of distinct values has rows+1 dictionary entries and `index > rows` refuses it")
	cfg := p.Cfg.Name
	n := 0
	for _, tn := range []string{"ColLowCardinality", "ColLowCardinalityRaw"} {
		fn := p.Method(core.PkgProto, tn, "DecodeColumn")
		if fn == nil || fn.Blocks == nil || len(fn.Params) < 3 {
			continue
		}
		n++
		rows := fn.Params[2]
		bad := false
		for _, b := range fn.Blocks {
			ifi, ok := b.Instrs[len(b.Instrs)-1].(*ssa.If)
			if !ok {
				continue
			}
			bo, ok := ifi.Cond.(*ssa.BinOp)
			if !ok {
				continue
			}
			isRows := func(v ssa.Value) bool { return stripConv(v) == ssa.Value(rows) }
			isWire := func(v ssa.Value) bool {
				return core.DependsOn(v, func(x ssa.Value) bool {
					if isWireRead(x) {
						return true
					}
					e, ok := x.(*ssa.Extract)
					return ok && isWireRead(e.Tuple)
				}, false)
			}
			// the number of keys must equal the row count (an equality test, made today); what is refused here is
			// an ordering between a wire size and the rows
			if bo.Op == token.EQL || bo.Op == token.NEQ {
				continue
			}
			if (isRows(bo.X) && isWire(bo.Y)) || (isRows(bo.Y) && isWire(bo.X)) {
				bad = true
				c.R.Bad(rule, tn+".DecodeColumn", cfg, p.Pos(ifi.Cond.Pos()), "a size read from the wire is compared with the row count: a dictionary larger than the column (default value in slot 0) is refused")
			}
		}
		if !bad {
			c.R.Ok(rule, tn+".DecodeColumn", cfg, p.Pos(fn.Pos()), "no test relates a wire size to the row count")
		}
	}
	c.R.Floor(rule, cfg, n, 2)
}

// ruleRangeOnShiftedDay (C20.range-shifted): day converters judge the calendar day, not the instant.
func ruleRangeOnShiftedDay(c *Ctx, p *core.Program, rule string) {
	c.R.Rule(rule, "a converter To<D>(time.Time) of package proto that takes the calendar day in the time's own zone (it adds the offset of Time.Zone) makes no range decision on the bare instant: it calls neither Before / After / Compare on its argument nor compares its Unix seconds before the offset is added - a saturation test on the unshifted instant puts the last evening of the range, seen from a zone west of UTC, on the next day")
	cfg := p.Cfg.Name
	n := 0
	for _, fn := range p.Funcs() {
		if pkgOf(fn) == nil || pkgOf(fn).Path() != core.PkgProto || fn.Signature.Recv() != nil || !strings.HasPrefix(fn.Name(), "To") || fn.Blocks == nil {
			continue
		}
		sig := fn.Signature
		if sig.Params().Len() < 1 || !core.IsNamed(sig.Params().At(0).Type(), "time", "Time") {
			continue
		}
		if !reachesInProto(fn, func(f *types.Func) bool { return core.IsMethod(f, "time", "Time", "Zone") }, 2) {
			continue
		}
		n++
		key := "proto." + fn.Name()
		bad := false
		for _, call := range core.Calls(fn) {
			f := core.CalleeFunc(call)
			if f == nil || !(core.IsMethod(f, "time", "Time", "Before") || core.IsMethod(f, "time", "Time", "After") || core.IsMethod(f, "time", "Time", "Compare")) {
				continue
			}
			bad = true
			c.R.Bad(rule, key, cfg, p.Pos(call.Pos()), "the converter decides on the bare instant ("+f.Name()+") although the day is taken in the value's own zone: near the ends of the range the two disagree by the zone offset")
		}
		if !bad {
			c.R.Ok(rule, key, cfg, p.Pos(fn.Pos()), "no decision on the unshifted instant")
		}
	}
	c.R.Floor(rule, cfg, n, 2)
}

// ruleRowsNeedTarget (C07.rows-need-target): a block with rows is never accepted without somewhere to put them.
func ruleRowsNeedTarget(c *Ctx, p *core.Program, rule string) {
	c.R.Rule(rule, "in Block.DecodeRawBlock a success exit on the path where the result target is nil (the header-only walk that reads names and types but no column data) is reachable only through an edge that establishes Block.Rows == 0: with rows announced the column data would stay in the stream and be read as the next packet")
	cfg := p.Cfg.Name
	fn := p.Method(core.PkgProto, "Block", "DecodeRawBlock")
	if !c.must(p, "(*proto.Block).DecodeRawBlock", fn != nil) {
		return
	}
	var target *ssa.Parameter
	for _, prm := range fn.Params {
		if core.IsNamed(prm.Type(), core.PkgProto, "Result") {
			target = prm
		}
	}
	if target == nil {
		c.R.Unk(rule, core.FuncName(fn), cfg, p.Pos(fn.Pos()), "no Result parameter")
		return
	}
	nilTarget := func(cond ssa.Value) int {
		x, nonNil, ok := nilCmp(cond)
		if !ok || stripConv(x) != ssa.Value(target) {
			if ok {
				if mi, isMI := x.(*ssa.ChangeInterface); isMI && mi.X == ssa.Value(target) {
					if nonNil {
						return 0
					}
					return 1
				}
			}
			return -1
		}
		if nonNil {
			return 0
		}
		return 1
	}
	feas := core.FeasibleUnder(fn, nilTarget)
	rowsZero := core.CondEdges(fn, true, func(cond ssa.Value) (bool, bool) {
		bo, ok := cond.(*ssa.BinOp)
		if !ok {
			return false, false
		}
		isRows := func(v ssa.Value) bool { return core.FieldOrigin(v, 0) == "Block.Rows" }
		zero := func(v ssa.Value) bool { k, ok := intConstOf(v); return ok && k == 0 }
		switch {
		case isRows(bo.X) && zero(bo.Y):
			switch bo.Op {
			case token.EQL, token.LEQ:
				return true, true
			case token.GTR, token.NEQ:
				return false, true
			}
		case zero(bo.X) && isRows(bo.Y):
			switch bo.Op {
			case token.EQL, token.GEQ:
				return true, true
			case token.LSS, token.NEQ:
				return false, true
			}
		}
		return false, false
	})
	// also the End() special case (no columns, no rows)
	endEdges := core.CondEdges(fn, true, func(cond ssa.Value) (bool, bool) {
		_, ok := core.CallTo(cond, func(f *types.Func) bool { return core.IsMethod(f, core.PkgProto, "Block", "End") })
		return true, ok
	})
	pass := append(rowsZero, endEdges...)
	isPass := func(b *ssa.BasicBlock, i int) bool {
		for _, e := range pass {
			if e.B == b && e.Succ == i {
				return true
			}
		}
		return false
	}
	edge := func(b *ssa.BasicBlock, i int) bool { return feas(b, i) && nilErrEdge(b, i) && !isPass(b, i) }
	w := core.ReachAvoiding(core.Entry(fn), func(in ssa.Instruction) bool {
		r, ok := in.(*ssa.Return)
		return ok && defaultSuccess(fn, r)
	}, nil, edge)
	if len(w) > 0 {
		c.R.Bad(rule, core.FuncName(fn), cfg, p.Pos(w[0].At.Pos()), "without a target the block can be accepted although it announces rows: the column data is left in the stream", p.TrailString(w[0])...)
	} else {
		c.R.Ok(rule, core.FuncName(fn), cfg, p.Pos(fn.Pos()), "with a nil target every success exit lies behind Rows == 0 (or the end marker)")
	}
}

// ruleEnumNameNotSentinel (C19.enum-sentinel): the empty string is a name, not "absent".
func ruleEnumNameNotSentinel(c *Ctx, p *core.Program, rule string) {
	c.R.Rule(rule, "in the methods of ColEnum (and the package helpers they call) a name taken from a lookup table (an element of a slice of strings or of a map) is never compared with \"\": '' is a legal enum name (Enum8('' = 0, 'a' = 1) is the usual not-set default), so presence has to come from the comma-ok form of the lookup")
	cfg := p.Cfg.Name
	ct := p.NamedType(core.PkgProto, "ColEnum")
	if !c.must(p, "type proto.ColEnum", ct != nil) {
		return
	}
	n, bad := 0, 0
	for i := 0; i < ct.NumMethods(); i++ {
		fn := p.Prog.FuncValue(ct.Method(i))
		if fn == nil || fn.Blocks == nil {
			continue
		}
		n++
		reach := map[*ssa.Function]bool{}
		for g := range core.StaticReach(fn, 2) {
			reach[g] = true
			// generic helpers are reached through instantiation wrappers
			if g.Synthetic != "" {
				for _, wc := range core.Calls(g) {
					if o := core.StaticFn(wc); o != nil && o.Blocks != nil {
						reach[o] = true
					}
				}
			}
		}
		for g := range reach {
			if g.Blocks == nil {
				continue
			}
			if pk := pkgOf(g); pk != nil && pk.Path() != core.PkgProto {
				continue
			}
			for _, b := range g.Blocks {
				for _, in := range b.Instrs {
					bo, ok := in.(*ssa.BinOp)
					if !ok || (bo.Op != token.EQL && bo.Op != token.NEQ) {
						continue
					}
					var other ssa.Value
					for _, pair := range [][2]ssa.Value{{bo.X, bo.Y}, {bo.Y, bo.X}} {
						if cst, ok := pair[0].(*ssa.Const); ok && cst.Value != nil && cst.Value.ExactString() == `""` {
							other = pair[1]
						}
					}
					if other == nil {
						continue
					}
					fromTable := core.DependsOn(other, func(v ssa.Value) bool {
						switch x := v.(type) {
						case *ssa.IndexAddr:
							_, isSl := x.X.Type().Underlying().(*types.Slice)
							return isSl
						case *ssa.Lookup:
							_, isMap := x.X.Type().Underlying().(*types.Map)
							return isMap
						}
						return false
					}, false)
					if fromTable {
						bad++
						c.R.Bad(rule, core.FuncName(g)+"/empty-name-test", cfg, p.Pos(bo.Pos()), "a name looked up in the column's table is compared with \"\" to detect absence: the element named '' is then reported as an unknown enum value")
					}
				}
			}
		}
	}
	c.R.Floor(rule, cfg, n, 5)
	if bad == 0 {
		c.R.Ok(rule, "ColEnum", cfg, "", sprintf("%d methods, no table entry compared with the empty string", n))
	}
}

// ruleBlockEncodePath (C05.block-path): every block the client sends goes through the one function that frames it.
func ruleBlockEncodePath(c *Ctx, p *core.Program, rule string) {
	c.R.Rule(rule, "on the client side of package ch, proto.Block.WriteBlock / EncodeBlock / EncodeRawBlock are called only from Client.encodeBlock (or from functions only encodeBlock calls): that is the one place that chooses between the plain vectored path and encode-then-compress according to the negotiated compression - a block written by a second path on a compressed connection goes out unframed and the peer reads its first bytes as a frame header")
	cfg := p.Cfg.Name
	eb := p.Method(core.PkgCh, "Client", "encodeBlock")
	if !c.must(p, "(*ch.Client).encodeBlock", eb != nil) {
		return
	}
	callers := map[*ssa.Function][]*ssa.Function{}
	var fns []*ssa.Function
	for _, fn := range p.Funcs() {
		if pkgOf(fn) == nil || pkgOf(fn).Path() != core.PkgCh || fn.Blocks == nil || isServerSide(fn) {
			continue
		}
		fns = append(fns, fn)
		for _, call := range core.Calls(fn) {
			if g := core.StaticFn(call); g != nil {
				callers[g] = append(callers[g], fn)
			}
		}
	}
	var owned func(fn *ssa.Function) bool
	owned = func(fn *ssa.Function) bool {
		if fn == eb {
			return true
		}
		if fn.Parent() != nil {
			return owned(fn.Parent()) // a closure belongs to whoever its function belongs to
		}
		cs := callers[fn]
		if len(cs) == 0 {
			return false
		}
		for _, cfn := range cs {
			if cfn != eb && cfn.Parent() != eb {
				return false
			}
		}
		return true
	}
	n, bad := 0, 0
	for _, fn := range fns {
		for _, call := range core.Calls(fn) {
			f := core.CalleeFunc(call)
			if f == nil || !(core.IsMethod(f, core.PkgProto, "Block", "WriteBlock") || core.IsMethod(f, core.PkgProto, "Block", "EncodeBlock") || core.IsMethod(f, core.PkgProto, "Block", "EncodeRawBlock")) {
				continue
			}
			n++
			if owned(fn) {
				c.R.Ok(rule, core.CallKey(fn, call), cfg, p.Pos(call.Pos()), "inside encodeBlock")
			} else {
				bad++
				c.R.Bad(rule, core.CallKey(fn, call), cfg, p.Pos(call.Pos()), "a block is encoded outside Client.encodeBlock: this path does not look at the negotiated compression, so on a compressed connection the block goes out without a frame")
			}
		}
	}
	c.R.Floor(rule, cfg, n, 2)
	_ = bad
}

// Rules added in the short seeding round 15.

// ruleWrapperHelperKeepsReceiver (C19.helper-receiver): Array() / Nullable() / LowCardinality() wrap the column they are called on.
func ruleWrapperHelperKeepsReceiver(c *Ctx, p *core.Program, rule string) {
	c.R.Rule(rule, "the helper methods Array / Nullable / LowCardinality of a column type return a wrapper built over their receiver: the value they return depends on the receiver - ColAuto.Infer infers the element first (time zone, precision, enum definition) and then calls the helper by reflection, so a helper that returns a wrapper over a fresh column drops what was inferred while Infer still reports success")
	cfg := p.Cfg.Name
	n := 0
	for _, ct := range columnTypes(p) {
		for _, mn := range []string{"Array", "Nullable", "LowCardinality"} {
			fn := methodOf(p, ct, mn)
			if fn == nil || fn.Blocks == nil || len(fn.Params) != 1 || fn.Signature.Results().Len() != 1 {
				continue
			}
			n++
			key := ct.Obj().Name() + "." + mn
			recv := fn.Params[0]
			uses := false
			for _, b := range fn.Blocks {
				ret, ok := b.Instrs[len(b.Instrs)-1].(*ssa.Return)
				if !ok || len(ret.Results) != 1 {
					continue
				}
				if core.DependsOn(ret.Results[0], func(v ssa.Value) bool { return v == ssa.Value(recv) }, true) || core.DependsOnResults(ret.Results[0], func(v ssa.Value) bool { return v == ssa.Value(recv) }) {
					uses = true
				}
			}
			// a composite literal: the receiver is stored into a field of the returned allocation
			if !uses && recv.Referrers() != nil {
				for _, r := range *recv.Referrers() {
					if st, ok := r.(*ssa.Store); ok && st.Val == ssa.Value(recv) {
						uses = true
					}
					if mi, ok := r.(*ssa.MakeInterface); ok && mi.Referrers() != nil && len(*mi.Referrers()) > 0 {
						uses = true
					}
					if _, ok := r.(ssa.CallInstruction); ok {
						uses = true
					}
				}
			}
			if uses {
				c.R.Ok(rule, key, cfg, p.Pos(fn.Pos()), "the wrapper is built over the receiver")
			} else {
				c.R.Bad(rule, key, cfg, p.Pos(fn.Pos()), "the helper does not use its receiver: the wrapper it returns holds a fresh element column, not the one that was configured or inferred")
			}
		}
	}
	c.R.Count("wrapper helper methods", n)
	c.R.Floor(rule, cfg, n, 30)
}

// ruleNormalizeKeepsBlanks (C18.normalize): type normalisation touches only the blanks after commas.
func ruleNormalizeKeepsBlanks(c *Ctx, p *core.Program, rule string) {
	c.R.Rule(rule, "ColumnType.normalizeCommas (the whitespace normalisation Conflicts compares with) removes blanks only next to commas: it calls nothing that deletes every blank of the string (strings.ReplaceAll / Replace / Fields / Map): the blank between the name and the type of a named tuple element is part of the type, `Tuple(U Int64)` is not `Tuple(UInt64)`")
	cfg := p.Cfg.Name
	fn := p.Method(core.PkgProto, "ColumnType", "normalizeCommas")
	if !c.must(p, "proto.ColumnType.normalizeCommas", fn != nil) {
		return
	}
	bad := false
	for g := range core.StaticReach(fn, 1) {
		if g.Blocks == nil || pkgOf(g) == nil || pkgOf(g).Path() != core.PkgProto {
			continue
		}
		for _, call := range core.Calls(g) {
			f := core.CalleeFunc(call)
			if f == nil || f.Pkg() == nil || f.Pkg().Path() != "strings" {
				continue
			}
			switch f.Name() {
			case "ReplaceAll", "Replace", "Fields", "Map", "NewReplacer":
				bad = true
				c.R.Bad(rule, core.CallKey(g, call), cfg, p.Pos(call.Pos()), "the normalisation rewrites the whole string with strings."+f.Name()+": blanks that separate a tuple element's name from its type disappear and different types compare equal")
			}
		}
	}
	if !bad {
		c.R.Ok(rule, core.FuncName(fn), cfg, p.Pos(fn.Pos()), "no whole-string blank removal")
	}
}

// rulePrepareAlwaysRebuilds (C09.prepare-rebuilds): Prepare never trusts what an earlier round left.
func rulePrepareAlwaysRebuilds(c *Ctx, p *core.Program, rule string) {
	c.R.Rule(rule, "ColLowCardinality.Prepare reaches a success exit only after it has cleared the dictionary (clear / delete on the value map, or Reset of the index column): an `already prepared` shortcut keyed on lengths sends the previous round's keys when a streamed round overwrites the values in place with the same row count")
	cfg := p.Cfg.Name
	fn := p.Method(core.PkgProto, "ColLowCardinality", "Prepare")
	if !c.must(p, "(*proto.ColLowCardinality).Prepare", fn != nil) {
		return
	}
	isClear := func(in ssa.Instruction) bool {
		call, ok := in.(ssa.CallInstruction)
		if !ok {
			return false
		}
		if bi, ok := call.Common().Value.(*ssa.Builtin); ok && (bi.Name() == "clear" || bi.Name() == "delete") {
			return true
		}
		cc := call.Common()
		if cc.IsInvoke() && cc.Method.Name() == "Reset" {
			return true
		}
		if f := core.CalleeFunc(call); f != nil && f.Name() == "Reset" {
			return true
		}
		// a package helper that clears (resetDict)
		if g := core.StaticFn(call); g != nil && g.Blocks != nil && pkgOf(g) != nil && pkgOf(g).Path() == core.PkgProto {
			for _, hc := range core.Calls(g) {
				if bi, ok := hc.Common().Value.(*ssa.Builtin); ok && (bi.Name() == "clear" || bi.Name() == "delete") {
					return true
				}
			}
			if g.Synthetic != "" {
				return false
			}
		}
		return false
	}
	w := core.ReachAvoiding(core.Entry(fn), func(in ssa.Instruction) bool {
		r, ok := in.(*ssa.Return)
		return ok && defaultSuccess(fn, r)
	}, isClear, nilErrEdge)
	if len(w) > 0 {
		c.R.Bad(rule, core.FuncName(fn), cfg, p.Pos(w[0].At.Pos()), "Prepare can succeed without rebuilding the dictionary: keys of an earlier round are encoded for the current values", p.TrailString(w[0])...)
	} else {
		c.R.Ok(rule, core.FuncName(fn), cfg, p.Pos(fn.Pos()), "every success path clears the dictionary first")
	}
}

// ruleStrLenSource (C06.strlen-source): a string length reaches the allocation only through the reader that rejects negative lengths.
func ruleStrLenSource(c *Ctx, p *core.Program, rule string) {
	c.R.Rule(rule, "in Reader.StrRaw (behind Str, StrBytes, StrAppend: every protocol string and every column name and type) the size handed to Buffer.Ensure / make comes from Reader.StrLen, the one reader that refuses a length that is negative after the conversion to int - read with Int or UVarInt directly, a 10-byte varint of 2^63 or more reaches make() as a negative number and the decoder panics (this is a different clause from the known finding at the same site, which is about the missing upper cap)")
	cfg := p.Cfg.Name
	fn := p.Method(core.PkgProto, "Reader", "StrRaw")
	if !c.must(p, "(*proto.Reader).StrRaw", fn != nil) {
		return
	}
	n := 0
	isStrLen := func(v ssa.Value) bool {
		cl, ok := v.(*ssa.Call)
		if !ok {
			return false
		}
		f := core.CalleeFunc(cl)
		return f != nil && core.IsMethod(f, core.PkgProto, "Reader", "StrLen")
	}
	type sink struct {
		in   ssa.Instruction
		size ssa.Value
	}
	sinksOf := func(g *ssa.Function) []sink {
		var out []sink
		for _, b := range g.Blocks {
			for _, in := range b.Instrs {
				switch x := in.(type) {
				case *ssa.MakeSlice:
					if _, isConst := intConstOf(x.Len); !isConst {
						out = append(out, sink{in, x.Len})
					}
				case *ssa.Call:
					if f := core.CalleeFunc(x); f != nil && core.IsMethod(f, core.PkgProto, "Buffer", "Ensure") {
						out = append(out, sink{in, x.Call.Args[1]})
					}
				}
			}
		}
		return out
	}
	all := sinksOf(fn)
	// the allocation may live in a helper StrRaw calls with the length (fill(n), readStr(n)): the argument is judged
	for _, call := range core.Calls(fn) {
		g := core.StaticFn(call)
		if g == nil || g.Blocks == nil || pkgOf(g) == nil || pkgOf(g).Path() != core.PkgProto {
			continue
		}
		for _, sk := range sinksOf(g) {
			for pi, prm := range g.Params {
				if stripConv(sk.size) == ssa.Value(prm) && pi < len(call.Common().Args) {
					all = append(all, sink{call.(ssa.Instruction), call.Common().Args[pi]})
				}
			}
		}
	}
	for _, sk := range all {
		{
			in, size := sk.in, sk.size
			n++
			key := sprintf("%s/size#%d", core.FuncName(fn), n)
			if core.DependsOn(size, isStrLen, false) {
				c.R.Ok(rule, key, cfg, p.Pos(in.Pos()), "sized by Reader.StrLen")
			} else {
				c.R.Bad(rule, key, cfg, p.Pos(in.Pos()), "the allocation is sized by a length that did not pass Reader.StrLen: a negative length is not refused before make()")
			}
		}
	}
	c.R.Floor(rule, cfg, n, 1)
}
