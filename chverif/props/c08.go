package props

import (
	"go/types"

	"golang.org/x/tools/go/ssa"

	"chverif/core"
)

func init() { register("C08", runC08) }

// isReadMethodSig: func([]byte) (int, error) named Read.
func isReadMethod(f *types.Func) bool {
	if f == nil || f.Name() != "Read" {
		return false
	}
	sig, ok := f.Type().(*types.Signature)
	if !ok || sig.Recv() == nil || sig.Params().Len() != 1 || sig.Results().Len() != 2 {
		return false
	}
	sl, ok := sig.Params().At(0).Type().Underlying().(*types.Slice)
	if !ok {
		return false
	}
	b, ok := sl.Elem().Underlying().(*types.Basic)
	return ok && b.Kind() == types.Byte
}

// ruleReadFull is shared by C08 and C07: partial Read results are never interpreted.
func ruleReadFull(c *Ctx, p *core.Program, rule string) {
	c.R.Rule(rule, "who-may-call: library code calls no method of *bufio.Reader that exposes partially arrived data (Peek, Buffered, Discard, ReadSlice, ...), and a Read([]byte)(int, error) method of any reader is called from library code only by a pure forwarder (a Read method that returns the callee's results unchanged); everything else obtains bytes through io.ReadFull / binary.ReadUvarint, so a short read is never interpreted as data; no library function uses io.Copy / io.ReadAll / io.LimitReader / io.ReadAtLeast / bytes.Buffer.ReadFrom, for which end-of-input is a normal end. ReadByte is built on a full read of one byte")
	cfg := p.Cfg.Name
	n, fwd := 0, 0
	for _, fn := range p.Funcs() {
		for _, call := range core.Calls(fn) {
			f := core.CalleeFunc(call)
			if !isReadMethod(f) {
				continue
			}
			n++
			key := core.CallKey(fn, call)
			// forwarder: fn is itself a Read method and returns the call's tuple components
			if fo, ok := fn.Object().(*types.Func); ok && isReadMethod(fo) && returnsCallDirectly(fn, call) {
				fwd++
				c.R.Ok(rule, key, cfg, p.Pos(call.Pos()), "pure forwarder")
				continue
			}
			c.R.Bad(rule, key, cfg, p.Pos(call.Pos()), "a raw Read is used outside a forwarder: its partial result is interpreted, so decoding depends on how the transport segments the stream")
		}
	}
	// bufio.Reader methods that expose partially arrived data
	for _, fn := range p.Funcs() {
		for _, call := range core.Calls(fn) {
			f := core.CalleeFunc(call)
			if f == nil {
				continue
			}
			if cc := call.Common(); cc.IsInvoke() && pkgOf(fn) != nil {
				// the same methods reached through an interface the source is asserted to (interface{ Peek(int) ([]byte, error) })
				sig := cc.Method.Type().(*types.Signature)
				peekLike := false
				switch cc.Method.Name() {
				case "Peek", "ReadSlice":
					peekLike = sig.Params().Len() == 1 && sig.Results().Len() == 2 && sig.Results().At(0).Type().String() == "[]byte"
				case "Buffered":
					peekLike = sig.Params().Len() == 0 && sig.Results().Len() == 1 && sig.Results().At(0).Type().String() == "int"
				}
				if peekLike {
					c.R.Bad(rule, core.CallKey(fn, call), cfg, p.Pos(call.Pos()), "library code calls "+cc.Method.Name()+" of a buffered source through an interface: it returns a window into the source's own buffer holding only the bytes that have arrived so far - the outcome depends on how the transport segments the stream, and the window is overwritten by the next refill")
				}
				continue
			}
			if !core.IsMethod(f, "bufio", "Reader", f.Name()) {
				continue
			}
			switch f.Name() {
			case "Peek", "Buffered", "Discard", "ReadSlice", "ReadLine", "ReadBytes", "ReadString", "UnreadByte", "ReadRune", "UnreadRune", "ReadByte", "Read":
				c.R.Bad(rule, core.CallKey(fn, call), cfg, p.Pos(call.Pos()), "library code calls (*bufio.Reader)."+f.Name()+": it sees only the bytes that have arrived so far, so the outcome depends on how the transport segments the stream (a value split across segments is mis-decoded or rejected)")
			}
		}
	}
	// standard-library helpers for which end-of-input is a normal end: a stream cut
	// short is indistinguishable from a complete one
	for _, fn := range p.Funcs() {
		pk := pkgOf(fn)
		if pk == nil || (pk.Path() != core.PkgProto && pk.Path() != core.PkgCompress && pk.Path() != core.PkgCh && pk.Path() != core.PkgPool) {
			continue
		}
		for _, call := range core.Calls(fn) {
			f := core.CalleeFunc(call)
			if f == nil || f.Pkg() == nil {
				continue
			}
			lossy := false
			switch f.Pkg().Path() {
			case "io":
				switch f.Name() {
				case "Copy", "CopyBuffer", "ReadAll", "LimitReader", "ReadAtLeast":
					lossy = true
				}
			case "io/ioutil":
				lossy = f.Name() == "ReadAll"
			case "bytes":
				lossy = core.IsMethod(f, "bytes", "Buffer", "ReadFrom")
			}
			if lossy {
				c.R.Bad(rule, core.CallKey(fn, call), cfg, p.Pos(call.Pos()), "library code reads wire data through "+f.FullName()+", which treats end-of-input as a normal end: a value cut short is accepted as complete (use io.ReadFull / io.CopyN, which fail on a short read)")
			}
		}
	}
	c.R.Count("raw Read call sites["+cfg+"]", n)
	if fwd == 0 {
		c.R.Unk(rule, "forwarder", cfg, "", "the proto.Reader.Read forwarder was not found (anchor lost)")
	}
	rb := p.Method(core.PkgProto, "Reader", "ReadByte")
	if rb == nil {
		c.R.Unk(rule, "proto.(*Reader).ReadByte", cfg, "", "anchor lost")
		return
	}
	if core.ReachesCallee(rb, func(f *types.Func) bool { return core.IsFunc(f, "io", "ReadFull") }, 3) {
		c.R.Ok(rule, "proto.(*Reader).ReadByte", cfg, p.Pos(rb.Pos()), "ReadByte -> readFull(1) -> io.ReadFull")
	} else {
		c.R.Bad(rule, "proto.(*Reader).ReadByte", cfg, p.Pos(rb.Pos()), "ReadByte is not built on io.ReadFull")
	}
}

func returnsCallDirectly(fn *ssa.Function, call ssa.CallInstruction) bool {
	v := call.Value()
	if v == nil {
		return false
	}
	for _, b := range fn.Blocks {
		for _, in := range b.Instrs {
			ret, ok := in.(*ssa.Return)
			if !ok {
				continue
			}
			for i, r := range ret.Results {
				e, ok := r.(*ssa.Extract)
				if !ok || e.Tuple != v || e.Index != i {
					return false
				}
			}
		}
	}
	return true
}

func runC08(c *Ctx) {
	for _, cfg := range c.Configs() {
		p := c.Prog(cfg)
		if p == nil {
			continue
		}
		ruleReadFull(c, p, "C08.readfull")
		ruleReaderSource(c, p, "C08.source")
		ruleDeadlineDisarmed(c, p, "C08.disarm")
	}
	p := c.Prog(core.CfgDefault)
	if p == nil {
		return
	}
	cfg := p.Cfg.Name
	r := resolveDo(c, p)
	if r == nil {
		return
	}

	rule := "C08.retry"
	ruleRetry(c, p, r, rule)
	rulePacketRead(c, p, rule)
	rulePacketDeadline(c, p, "C08.deadline")
	ruleNoPrivateTimer(c, p, "C08.timer")
	codes := serverCodes(p)
	okCodes := len(codes) > 0
	for n, v := range codes {
		if v < 0 || v >= 128 {
			okCodes = false
			c.R.Bad(rule, "codes/"+n, cfg, "", "packet code does not fit one uvarint byte")
		}
	}
	if okCodes {
		c.R.Ok(rule, "codes", cfg, "", sprintf("%d server packet codes, all < 128", len(codes)))
	}
	c.R.Assumptions = append(c.R.Assumptions,
		"io.ReadFull / bufio / binary.ReadUvarint loop until the requested bytes arrived",
		"decided: no partial read is interpreted, retry only between packets on unwrapped timeouts; not decided: identical results for all 2^(n-1) splits beyond these conditions")
}

// ruleReaderSource: the raw (undecompressed) stream of proto.Reader is touched only by the
// constructor and the compression switch; every read goes through the selected data stream.
func ruleReaderSource(c *Ctx, p *core.Program, rule string) {
	c.R.Rule(rule, "who-may-access: proto.Reader.raw (the undecompressed transport stream) is accessed only by NewReader and EnableCompression/DisableCompression; every read method goes through Reader.Read, i.e. through the currently selected data stream - a read that bypasses the selection returns compressed frame bytes when compression is on (and only the code path that uses it is affected)")
	cfg := p.Cfg.Name
	n := 0
	bad := false
	for _, fn := range p.Funcs() {
		for _, b := range fn.Blocks {
			for _, in := range b.Instrs {
				fa, ok := in.(*ssa.FieldAddr)
				if !ok || !core.IsNamed(fa.X.Type(), core.PkgProto, "Reader") {
					continue
				}
				f := fieldNameOnly(fa.X.Type(), fa.Field)
				if f != "raw" && f != "decompressed" {
					continue
				}
				n++
				switch fn.Name() {
				case "NewReader", "EnableCompression", "DisableCompression":
				default:
					bad = true
					c.R.Bad(rule, core.FuncName(fn)+"/"+f, cfg, p.Pos(fa.Pos()), "Reader."+f+" is used directly by "+core.FuncName(fn)+": the read bypasses the data-stream selection")
				}
			}
		}
	}
	if n < 3 {
		c.R.Unk(rule, "proto.Reader.raw", cfg, "", "accesses to Reader.raw not found (anchor lost)")
	} else if !bad {
		c.R.Ok(rule, "proto.Reader.raw", cfg, "", sprintf("%d accesses, all in NewReader / Enable- / DisableCompression", n))
	}
}

// rulePacketRead: packet() reads one code under a deadline that a defer resets.
func rulePacketRead(c *Ctx, p *core.Program, rule string) {
	cfg := p.Cfg.Name
	if rule != "C08.retry" {
		c.R.Rule(rule, "packet() performs exactly one wire read under the per-packet read deadline, and a defer that calls SetReadDeadline (with the zero time) is registered between setting the deadline and that read, so the bytes of the packet body are not governed by it")
	}
	pkf := p.Method(core.PkgCh, "Client", "packet")
	if c.must(p, "(*ch.Client).packet", pkf != nil) {
		rd := readerClass(p)
		n := 0
		loop := false
		for _, call := range core.Calls(pkf) {
			if rd(pkf, call) {
				n++
				if core.InLoop(call.(ssa.Instruction)) {
					loop = true
				}
			}
		}
		if n == 1 && !loop {
			c.R.Ok(rule, core.FuncName(pkf)+"/one-read", cfg, p.Pos(pkf.Pos()), "exactly one wire read under the deadline")
		} else {
			c.R.Bad(rule, core.FuncName(pkf)+"/one-read", cfg, p.Pos(pkf.Pos()), sprintf("packet() performs %d wire reads (in loop: %v): a timeout inside a packet would be retried mid-packet", n, loop))
		}
		// deadline reset is deferred right after it is set
		var set ssa.Instruction
		for _, call := range core.Calls(pkf) {
			cc := call.Common()
			if _, isDefer := call.(*ssa.Defer); !isDefer && cc.IsInvoke() && cc.Method.Name() == "SetReadDeadline" {
				set = call.(ssa.Instruction)
			}
		}
		if set != nil {
			w := core.ReachAvoiding(core.PointOf(set), func(x ssa.Instruction) bool {
				cl, ok := x.(ssa.CallInstruction)
				return ok && rd(pkf, cl)
			}, func(x ssa.Instruction) bool {
				d, ok := x.(*ssa.Defer)
				if !ok {
					return false
				}
				cf := core.StaticFn(d)
				if cf == nil {
					return false
				}
				for _, cc := range core.Calls(cf) {
					if cc.Common().IsInvoke() && cc.Common().Method.Name() == "SetReadDeadline" {
						return true
					}
				}
				return false
			}, nil)
			if len(w) > 0 {
				c.R.Bad(rule, core.FuncName(pkf)+"/reset", cfg, p.Pos(set.Pos()), "the read deadline is not reset by a defer: it would also govern the reads inside the packet body")
			} else {
				c.R.Ok(rule, core.FuncName(pkf)+"/reset", cfg, p.Pos(set.Pos()), "deadline reset deferred before the read")
			}
		}
	}
}

// ---- deadline arming is paired with disarming (shared by C08 and C10)
func isDeadlineSetter(call ssa.CallInstruction) string {
	cc := call.Common()
	name := ""
	if cc.IsInvoke() {
		name = cc.Method.Name()
	} else if f := core.CalleeFunc(call); f != nil {
		name = f.Name()
	}
	switch name {
	case "SetReadDeadline", "SetWriteDeadline", "SetDeadline":
		return name
	}
	return ""
}

func isZeroStruct(v ssa.Value) bool {
	switch x := v.(type) {
	case *ssa.Const:
		return x.Value == nil
	case *ssa.UnOp:
		if al, ok := x.X.(*ssa.Alloc); ok {
			for _, r := range *al.Referrers() {
				if s, ok := r.(*ssa.Store); ok && s.Addr == al {
					return false
				}
			}
			return true
		}
	}
	return false
}

func ruleDeadlineDisarmed(c *Ctx, p *core.Program, rule string) {
	c.R.Rule(rule, "a deadline armed on the connection never outlives the operation that armed it: in client code, every SetReadDeadline/SetWriteDeadline/SetDeadline call with a non-zero time is followed, on every path to an exit on which the call itself succeeded, by a disarming call of the same kind with the zero time (directly, through a helper, or in a deferred function) - a deadline left armed applies to every later read on the connection, which then fails at that instant regardless of ReadTimeout and of the later call's context. An unexported helper that returns with the deadline armed is an arming wrapper: the obligation moves to its call sites, where the paths on which its error is non-nil or its boolean 'armed' result is false are exempt (the result is verified to be true exactly on the arming paths)")
	cfg := p.Cfg.Name
	n := 0
	inScope := func(fn *ssa.Function) bool {
		pk := pkgOf(fn)
		return pk != nil && (pk.Path() == core.PkgCh || pk.Path() == core.PkgPool) && !isServerSide(fn) && fn.Blocks != nil
	}
	disarmCallOf := func(kind string) func(x ssa.CallInstruction) bool {
		return func(x ssa.CallInstruction) bool {
			k := isDeadlineSetter(x)
			a := x.Common().Args
			return (k == kind || k == "SetDeadline") && len(a) > 0 && isZeroStruct(a[len(a)-1])
		}
	}
	isDisarmFor := func(kind string) func(in ssa.Instruction) bool {
		disarmCall := disarmCallOf(kind)
		always := func(df *ssa.Function) bool {
			if df == nil || df.Blocks == nil {
				return false
			}
			return len(core.ReachAvoiding(core.Entry(df), core.IsExit, func(y ssa.Instruction) bool {
				cl, ok := y.(ssa.CallInstruction)
				return ok && disarmCall(cl)
			}, nil)) == 0
		}
		return func(in ssa.Instruction) bool {
			switch x := in.(type) {
			case *ssa.Defer:
				if disarmCall(x) {
					return true
				}
				var df *ssa.Function
				if mc, ok := x.Call.Value.(*ssa.MakeClosure); ok {
					df, _ = mc.Fn.(*ssa.Function)
				} else {
					df = core.StaticFn(x)
				}
				return always(df)
			case *ssa.Call:
				if disarmCall(x) {
					return true
				}
				if sf := core.StaticFn(x); sf != nil && inScope(sf) {
					return always(sf)
				}
			}
			return false
		}
	}
	errFilter := func(fn *ssa.Function, call ssa.CallInstruction) core.EdgeFilter {
		ev := core.ErrValue(call)
		if ev == nil {
			return nil
		}
		al := core.Aliases(fn, ev)
		return func(b *ssa.BasicBlock, i int) bool {
			if ifi, ok := b.Instrs[len(b.Instrs)-1].(*ssa.If); ok {
				if ns, ok := core.NilTest(ifi, al); ok && ns != i {
					return false
				}
			}
			return true
		}
	}
	callers := map[*ssa.Function][]ssa.CallInstruction{}
	for _, fn := range p.Funcs() {
		if !inScope(fn) {
			continue
		}
		for _, call := range core.Calls(fn) {
			if sf := core.StaticFn(call); sf != nil && inScope(sf) {
				if _, isDefer := call.(*ssa.Defer); !isDefer {
					callers[sf] = append(callers[sf], call)
				}
			}
		}
	}
	for _, fn := range p.Funcs() {
		if !inScope(fn) {
			continue
		}
		for _, call := range core.Calls(fn) {
			kind := isDeadlineSetter(call)
			args := call.Common().Args
			if kind == "" || len(args) == 0 || isZeroStruct(args[len(args)-1]) {
				continue
			}
			if _, isDefer := call.(*ssa.Defer); isDefer {
				continue
			}
			isDisarm := isDisarmFor(kind)
			key := core.CallKey(fn, call) + "/disarmed"
			w := core.ReachAvoiding(core.PointOf(call.(ssa.Instruction)), core.IsExit, isDisarm, errFilter(fn, call))
			if len(w) == 0 {
				n++
				c.R.Ok(rule, key, cfg, p.Pos(call.Pos()), kind+" is reset to the zero time on every path after it succeeded")
				continue
			}
			// an arming wrapper? unexported, named, called statically from client code
			sites := callers[fn]
			if fn.Parent() != nil || fn.Object() == nil || fn.Object().Exported() || len(sites) == 0 {
				n++
				c.R.Bad(rule, key, cfg, p.Pos(call.Pos()), kind+" arms a deadline that is still set when the function returns: every later read on the connection fails at that instant, whatever ReadTimeout and the later call's context say")
				continue
			}
			// the boolean result that tells the caller whether the deadline is armed
			bi := -1
			res := fn.Signature.Results()
			for i := 0; i < res.Len(); i++ {
				if b, ok := res.At(i).Type().Underlying().(*types.Basic); ok && b.Kind() == types.Bool {
					bi = i
				}
			}
			armedRet := map[ssa.Instruction]bool{}
			for _, wi := range w {
				armedRet[wi.At] = true
			}
			flagOK := bi >= 0
			if bi >= 0 {
				for _, b := range fn.Blocks {
					ret, ok := b.Instrs[len(b.Instrs)-1].(*ssa.Return)
					if !ok || len(ret.Results) <= bi {
						continue
					}
					k, isConst := ret.Results[bi].(*ssa.Const)
					if !isConst || k.Value == nil || (k.Value.String() == "true") != armedRet[ret] {
						flagOK = false
					}
				}
			}
			for _, cs := range sites {
				g := cs.Parent()
				n++
				skey := core.CallKey(g, cs) + "/disarmed"
				filters := []core.EdgeFilter{}
				if f := errFilter(g, cs); f != nil {
					filters = append(filters, f)
				}
				if flagOK {
					var flag ssa.Value
					if v := cs.Value(); v != nil {
						for _, r := range *v.Referrers() {
							if e, ok := r.(*ssa.Extract); ok && e.Index == bi {
								flag = e
							}
						}
						if res.Len() == 1 {
							flag = v
						}
					}
					if flag != nil {
						notArmed := core.CondEdges(g, false, func(cond ssa.Value) (bool, bool) {
							x, pol := core.StripNot(cond)
							return pol, x == flag
						})
						filters = append(filters, core.WithoutEdges(notArmed))
					}
				}
				filter := func(b *ssa.BasicBlock, i int) bool {
					for _, f := range filters {
						if !f(b, i) {
							return false
						}
					}
					return true
				}
				ww := core.ReachAvoiding(core.PointOf(cs.(ssa.Instruction)), core.IsExit, isDisarm, filter)
				if len(ww) == 0 {
					c.R.Ok(rule, skey, cfg, p.Pos(cs.Pos()), kind+" armed by "+fn.Name()+" is reset to the zero time on every path on which it reports having armed it")
				} else {
					c.R.Bad(rule, skey, cfg, p.Pos(cs.Pos()), kind+" armed through "+fn.Name()+" is still set when the function returns: every later read or write on the connection fails at that instant", p.TrailString(ww[0])...)
				}
			}
		}
	}
	c.R.Count("deadline arming obligations["+cfg+"]", n)
	c.R.Floor(rule, cfg, n, 3)
}

// ruleRetry (C08.retry / C03.retry): the receive loop retries exactly the timeouts between packets.
func ruleRetry(c *Ctx, p *core.Program, r *doRoles, rule string) {
	cfg := p.Cfg.Name
	c.R.Rule(rule, "in the receive loop the only way back to the next packet read from a failed packet() is through the true edges of an unwrapping test of that error (errors.As / errors.Is on the error itself - packet() wraps it) and of Timeout(); packet() performs exactly one wire read, outside any loop, and every packet code fits in one byte, so a timeout can only expire between packets")
	pk := core.FindCalls(r.Receiver, isClientMethod("packet"))
	if len(pk) != 1 {
		c.R.Unk(rule, core.FuncName(r.Receiver), cfg, p.Pos(r.Receiver.Pos()), sprintf("%d packet() calls in the receiver", len(pk)))
	} else {
		call := pk[0]
		in := call.(ssa.Instruction)
		ev := core.ErrValue(call)
		al := core.Aliases(r.Receiver, ev)
		unwrapTrue := core.PredEdges(r.Receiver, true, func(cond ssa.Value) (bool, bool) {
			cl, ok := core.CallTo(cond, func(f *types.Func) bool {
				if f.Pkg() == nil || (f.Pkg().Path() != "errors" && f.Pkg().Path() != "github.com/go-faster/errors") {
					return false
				}
				return f.Name() == "As" || f.Name() == "Is"
			})
			if !ok || len(cl.Call.Args) < 1 {
				return false, false
			}
			// the error itself, or - inside a boolean helper - the helper's error parameter
			if _, isParam := cl.Call.Args[0].(*ssa.Parameter); !al[cl.Call.Args[0]] && !(isParam && cl.Parent() != r.Receiver) {
				return false, false
			}
			return true, true
		})
		timeoutTrue := core.PredEdges(r.Receiver, true, func(cond ssa.Value) (bool, bool) {
			cl, ok := cond.(*ssa.Call)
			if !ok {
				return false, false
			}
			f := core.CalleeFunc(cl)
			return true, f != nil && f.Name() == "Timeout"
		})
		isDeadline := core.PredEdges(r.Receiver, true, func(cond ssa.Value) (bool, bool) {
			// errors.Is(err, os.ErrDeadlineExceeded) form needs no Timeout()
			cl, ok := core.CallTo(cond, func(f *types.Func) bool { return f.Name() == "Is" })
			if !ok || len(cl.Call.Args) != 2 {
				return false, false
			}
			u, ok := cl.Call.Args[1].(*ssa.UnOp)
			if !ok {
				return false, false
			}
			g, ok := u.X.(*ssa.Global)
			return true, ok && g.Name() == "ErrDeadlineExceeded"
		})
		// nil edge of the error
		nilEdge := func(b *ssa.BasicBlock, i int) bool {
			if ifi, ok := b.Instrs[len(b.Instrs)-1].(*ssa.If); ok {
				if ns, ok := core.NilTest(ifi, al); ok && ns == i {
					return false
				}
			}
			return true
		}
		key := core.CallKey(r.Receiver, call)
		// paths from the call, on its error branch, back to the call
		back := func(filter core.EdgeFilter) bool {
			w := core.ReachAvoiding(core.PointOf(in), func(x ssa.Instruction) bool { return x == in }, nil,
				func(b *ssa.BasicBlock, i int) bool { return nilEdge(b, i) && (filter == nil || filter(b, i)) })
			return len(w) > 0
		}
		switch {
		case !back(nil):
			c.R.Bad(rule, key, cfg, p.Pos(in.Pos()), "a read timeout between packets is no longer retried: no path leads from a failed packet() back to the next read")
		case back(core.WithoutEdges(unwrapTrue)):
			c.R.Bad(rule, key, cfg, p.Pos(in.Pos()), "the retry is reachable without an unwrapping test (errors.As / errors.Is) of the packet error: either every error is retried or - since packet() wraps its error - the timeout is never recognised")
		case len(isDeadline) == 0 && back(core.WithoutEdges(timeoutTrue)):
			c.R.Bad(rule, key, cfg, p.Pos(in.Pos()), "the retry does not depend on Timeout(): non-timeout network errors are retried forever")
		default:
			c.R.Ok(rule, key, cfg, p.Pos(in.Pos()), "retry <=> errors.As(err, *net.OpError) && Timeout()")
		}
		// once the error is recognised as a timeout, the only way out other than the next
		// read is the loop's own test of the context
		recognised := timeoutTrue
		if len(isDeadline) > 0 {
			recognised = append(append([]core.Edge{}, timeoutTrue...), isDeadline...)
		}
		for _, e := range recognised {
			hits := core.ReachAvoiding(core.Point{B: e.B.Succs[e.Succ], I: -1}, func(x ssa.Instruction) bool {
				ret, ok := x.(*ssa.Return)
				if !ok || x.Block().Comment == "recover" {
					return false
				}
				rv := core.ReturnErr(r.Receiver, ret)
				return !(rv != nil && chainKeeps(rv, isCtxErr, 0))
			}, func(x ssa.Instruction) bool { return x == in }, nil)
			if len(hits) > 0 {
				c.R.Bad(rule, key+"/timeout-exit", cfg, p.Pos(hits[0].At.Pos()), "after the read error has been recognised as a timeout the receive loop can still return something other than ctx.Err(): an idle gap between packets ends a live query although the context is not done")
			} else {
				c.R.Ok(rule, key+"/timeout-exit", cfg, p.Pos(in.Pos()), "from the timeout branch only the next read or `return ctx.Err()` is reachable")
			}
		}
	}
}
