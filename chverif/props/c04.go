package props

import (
	"go/token"
	"go/types"
	"strings"

	"golang.org/x/tools/go/ssa"

	"chverif/core"
)

func init() { register("C04", runC04) }

func runC04(c *Ctx) {
	p := c.Prog(core.CfgDefault)
	if p == nil {
		return
	}
	cfg := p.Cfg.Name
	ruleGuard(c, p)
	roles := resolveDo(c, p)
	if roles == nil {
		return
	}
	ruleWatch(c, p, roles, "C04")
	ruleDiscard(c, p, roles, "C04")
	ruleNoLeak(c, p, roles, "C04.leak")
	ruleWriterInvariant(c, p, "C04.writer")
	rulePacketRead(c, p, "C04.packet-read")
	ruleCloseMarks(c, p, "C04.close-marks")
	ruleChainComplete(c, p, "C04.chain")
	ruleNoAsyncConn(c, p, "C04.async")
	rulePacketDeadline(c, p, "C04.deadline")
	ruleDeadlineDisarmed(c, p, "C04.disarm")
	ruleCodeWidth(c, p, "C04.codewidth")
	ruleWhoCloses(c, p, "C04.who-closes")
	ruleSendOnce(c, p, roles, "C04.send-once")
	ruleWaiterWoken(c, p, roles, "C04.waiter-woken")
	ruleDeadlineKind(c, p, roles, "C04.deadline-kind")
	ruleNoLockAcrossIO(c, p, "C04.lock-io")
	ruleReadTimeoutSource(c, p, "C04.readtimeout-source")
	if hg := handshakeGoroutine(c, p); hg != nil {
		ruleAddendum(c, p, "C04.addendum", hg, nil, true)
	}
	c.R.Rule("C04.errors", "E6 (as C07.errors) restricted to package ch: a failed read or decode in the middle of a packet reaches only failure exits - swallowing it leaves the rest of the packet in the stream, where it is read as packet codes")
	{
		var fns []*ssa.Function
		for _, fn := range p.Funcs() {
			if pkgOf(fn) != nil && pkgOf(fn).Path() == core.PkgCh && !isServerSide(fn) {
				fns = append(fns, fn)
			}
		}
		nE := runErrDisc(c, p, fns, errDiscOpts{Rule: "C04.errors", Class: readerClass(p), Exempt: isDoReceiverPacket})
		c.R.Floor("C04.errors", cfg, nE, 12)
	}
	ruleFlushOwner(c, p, "C04.flush-owner")
	_ = cfg
	c.R.Assumptions = append(c.R.Assumptions,
		"errgroup cancels the shared context when a goroutine returns a non-nil error (x/sync contract)",
		"decided: closed-client guard, cancel-watch structure, close-on-failure and discard-of-pending-output on all paths; not decided: termination within the read timeout and byte-exact positions for a fault at every byte k (runtime schedules)")
}

// ---------------------------------------------------------------------------
// C04.guard

func ruleGuard(c *Ctx, p *core.Program) {
	rule := "C04.guard"
	c.R.Rule(rule, "in every exported method of *ch.Client from which the writer or reader is used, all such uses are reachable only through the false edge of an IsClosed() test whose true edge returns ErrClosed")
	named := p.NamedType(core.PkgCh, "Client")
	if !c.must(p, "type ch.Client", named != nil) {
		return
	}
	// functions that touch c.writer / c.reader (transitively, static calls)
	touches := ioTouchers(p)
	n := 0
	for i := 0; i < named.NumMethods(); i++ {
		m := named.Method(i)
		if !m.Exported() {
			continue
		}
		fn := p.Prog.FuncValue(m)
		if fn == nil || fn.Blocks == nil {
			continue
		}
		var uses []ssa.Instruction
		for _, b := range fn.Blocks {
			for _, in := range b.Instrs {
				if f, ok := clientFieldAddr(in); ok && (f == "writer" || f == "reader") {
					uses = append(uses, in)
				}
				if call, ok := in.(ssa.CallInstruction); ok {
					if sf := core.StaticFn(call); sf != nil && touches[sf] {
						uses = append(uses, in)
					}
					// closures handed to errgroup etc.
					for _, a := range call.Common().Args {
						if mc, ok := a.(*ssa.MakeClosure); ok {
							if cf, ok := mc.Fn.(*ssa.Function); ok && touchesIO(cf, touches) {
								uses = append(uses, in)
							}
						}
					}
				}
			}
		}
		if len(uses) == 0 {
			continue
		}
		n++
		key := core.FuncName(fn)
		falseEdges := core.CondEdges(fn, false, func(cond ssa.Value) (bool, bool) {
			_, ok := core.CallTo(cond, isClientMethod("IsClosed"))
			return true, ok
		})
		if len(falseEdges) == 0 {
			c.R.Bad(rule, key, p.Cfg.Name, p.Pos(fn.Pos()), "entry point uses the connection but never tests IsClosed()")
			continue
		}
		bad := false
		for _, u := range uses {
			if !core.OnlyViaEdges(fn, u, falseEdges) {
				c.R.Bad(rule, key, p.Cfg.Name, p.Pos(u.Pos()), "a use of the writer/reader is reachable without passing the false edge of IsClosed(): "+core.InstrString(u))
				bad = true
				break
			}
		}
		if bad {
			continue
		}
		// true edge must return ErrClosed
		trueEdges := core.CondEdges(fn, true, func(cond ssa.Value) (bool, bool) {
			_, ok := core.CallTo(cond, isClientMethod("IsClosed"))
			return true, ok
		})
		okRet := true
		for _, e := range trueEdges {
			start := core.Point{B: e.B.Succs[e.Succ], I: -1}
			w := core.ReachAvoiding(start, func(in ssa.Instruction) bool {
				r, ok := in.(*ssa.Return)
				if !ok {
					return false
				}
				return !isErrClosed(core.ReturnErr(fn, r))
			}, nil, nil)
			if len(w) > 0 {
				okRet = false
				c.R.Bad(rule, key, p.Cfg.Name, p.Pos(w[0].At.Pos()), "the closed branch can return something else than ErrClosed", p.TrailString(w[0])...)
			}
		}
		if okRet {
			c.R.Ok(rule, key, p.Cfg.Name, p.Pos(fn.Pos()), sprintf("%d writer/reader uses, all behind !IsClosed(); closed branch returns ErrClosed", len(uses)))
		}
	}
	c.R.Floor(rule, p.Cfg.Name, n, 2)
}

func isErrClosed(v ssa.Value) bool {
	if v == nil {
		return false
	}
	return core.DependsOn(v, func(x ssa.Value) bool {
		g, ok := x.(*ssa.Global)
		return ok && g.Name() == "ErrClosed" && g.Pkg.Pkg.Path() == core.PkgCh
	}, true)
}

func ioTouchers(p *core.Program) map[*ssa.Function]bool {
	set := map[*ssa.Function]bool{}
	for _, fn := range p.Funcs() {
		for _, b := range fn.Blocks {
			for _, in := range b.Instrs {
				if f, ok := clientFieldAddr(in); ok && (f == "writer" || f == "reader") {
					set[fn] = true
				}
			}
		}
	}
	changed := true
	for changed {
		changed = false
		for _, fn := range p.Funcs() {
			if set[fn] {
				continue
			}
			if touchesIO(fn, set) {
				set[fn] = true
				changed = true
			}
		}
	}
	return set
}

func touchesIO(fn *ssa.Function, set map[*ssa.Function]bool) bool {
	if set[fn] {
		return true
	}
	for _, call := range core.Calls(fn) {
		if sf := core.StaticFn(call); sf != nil && set[sf] {
			return true
		}
	}
	for _, a := range fn.AnonFuncs {
		if touchesIO(a, set) {
			return true
		}
	}
	return false
}

// ---------------------------------------------------------------------------
// C04.watch / C10.close (shared)

func isAtomicBool(name string) func(*types.Func) bool {
	return func(f *types.Func) bool { return core.IsMethod(f, "sync/atomic", "Bool", name) }
}

// flagOfCall: the captured variable of Do that an atomic.Bool Load/Store call inside goroutine g operates on.
// flagOfAny resolves the receiver of an atomic call anywhere under Do - in one of its
// closures, or in a method that a closure hands the flag's address to - to the variable of Do.
func flagOfAny(r *doRoles, call ssa.CallInstruction) ssa.Value {
	args := call.Common().Args
	if len(args) == 0 {
		return nil
	}
	fn := call.Parent()
	if pr, ok := args[0].(*ssa.Parameter); ok && fn.Parent() == nil {
		idx := -1
		for i, q := range fn.Params {
			if q == pr {
				idx = i
			}
		}
		var closures []*ssa.Function
		var collect func(f *ssa.Function)
		collect = func(f *ssa.Function) {
			for _, a := range f.AnonFuncs {
				closures = append(closures, a)
				collect(a)
			}
		}
		collect(r.Do)
		for _, cl := range closures {
			for _, cc := range core.Calls(cl) {
				if core.StaticFn(cc) != fn || idx < 0 || idx >= len(cc.Common().Args) {
					continue
				}
				if fv, ok := cc.Common().Args[idx].(*ssa.FreeVar); ok {
					g := cl
					for g != nil && g.Parent() != r.Do {
						g = g.Parent()
					}
					if g == nil {
						continue
					}
					// resolve fv of cl up to g, then to Do
					f2, v := cl, fv
					okc := true
					for f2 != g {
						b := freeVarBinding(f2.Parent(), f2, v.Name())
						nfv, ok := b.(*ssa.FreeVar)
						if !ok {
							okc = false
							break
						}
						v, f2 = nfv, f2.Parent()
					}
					if okc {
						return freeVarBinding(r.Do, g, v.Name())
					}
				}
			}
		}
		return nil
	}
	g := fn
	for g != nil && g.Parent() != r.Do {
		g = g.Parent()
	}
	if g == nil {
		return nil
	}
	return flagOfCall(r, g, call)
}

func flagOfCall(r *doRoles, g *ssa.Function, call ssa.CallInstruction) ssa.Value {
	args := call.Common().Args
	if len(args) == 0 {
		return nil
	}
	fv, ok := args[0].(*ssa.FreeVar)
	if !ok {
		return nil
	}
	// nested closure (deferred func inside the goroutine): resolve through the chain
	fn := call.Parent()
	for fn != nil && fn != g {
		b := freeVarBinding(fn.Parent(), fn, fv.Name())
		nfv, ok := b.(*ssa.FreeVar)
		if !ok {
			return nil
		}
		fv, fn = nfv, fn.Parent()
	}
	return freeVarBinding(r.Do, g, fv.Name())
}

// watchHost: the function that holds the cancel decision - the watch closure itself, or the one
// client method it delegates to after the wait.
func watchHost(r *doRoles) *ssa.Function {
	wh := r.Watch
	if len(core.FindCalls(r.Watch, isClientMethod("cancelQuery"))) == 0 {
		for _, cc := range core.Calls(r.Watch) {
			if g := core.StaticFn(cc); g != nil && g.Blocks != nil && pkgOf(g) != nil && pkgOf(g).Path() == core.PkgCh && len(core.FindCalls(g, isClientMethod("cancelQuery"))) == 1 {
				wh = g
			}
		}
	}
	return wh
}

func ruleWatch(c *Ctx, p *core.Program, r *doRoles, prop string) {
	cfg := p.Cfg.Name
	// the function that holds the decision: the watch closure itself, or the one client method it
	// delegates to after the wait (its flag parameters are resolved at the call site)
	wh := watchHost(r)
	flagIn := func(call ssa.CallInstruction) ssa.Value {
		if wh != r.Watch {
			return flagOfAny(r, call)
		}
		return flagOfCall(r, r.Watch, call)
	}
	// the two flags of the watch: loads whose true edge suppresses the cancel (exception flag)
	// and loads whose true edge leads to it (receiver-failed flag)
	var excFlag, failFlag ssa.Value
	for _, call := range core.FindCalls(wh, isAtomicBool("Load")) {
		v := call.Value()
		cq := core.FindCalls(wh, isClientMethod("cancelQuery"))
		if v == nil || len(cq) != 1 {
			continue
		}
		tr := core.CondEdges(wh, true, func(cond ssa.Value) (bool, bool) { return true, cond == v })
		fl := core.CondEdges(wh, false, func(cond ssa.Value) (bool, bool) { return true, cond == v })
		if len(fl) > 0 && core.OnlyViaEdges(wh, cq[0].(ssa.Instruction), fl) {
			excFlag = flagIn(call)
		} else if len(tr) > 0 {
			failFlag = flagIn(call)
		}
	}
	// (a) done channel: watch blocks on a channel that the receiver closes by a
	// defer installed before anything that can fail.
	rule := prop + ".watch-done"
	c.R.Rule(rule, "the cancel-watch goroutine of Do first waits on a channel; the receiver goroutine closes that same channel through a defer that is installed before any instruction that can fail or return, so the watch runs after every termination of the receive loop")
	func() {
		var recv *ssa.UnOp
		for _, in := range r.Watch.Blocks[0].Instrs {
			if u, ok := in.(*ssa.UnOp); ok && u.Op == token.ARROW {
				recv = u
				break
			}
			if _, isCall := in.(ssa.CallInstruction); isCall {
				break
			}
		}
		if recv == nil {
			c.R.Bad(rule, core.FuncName(r.Watch), cfg, p.Pos(r.Watch.Pos()), "the cancel-watch does not start by waiting on the done channel")
			return
		}
		// channel identity through the captured variable
		ld, _ := recv.X.(*ssa.UnOp)
		var watchBinding ssa.Value
		if ld != nil {
			if fv, ok := ld.X.(*ssa.FreeVar); ok {
				watchBinding = freeVarBinding(r.Do, r.Watch, fv.Name())
			}
		} else if fv, ok := recv.X.(*ssa.FreeVar); ok {
			watchBinding = freeVarBinding(r.Do, r.Watch, fv.Name())
		}
		if watchBinding == nil {
			c.R.Unk(rule, core.FuncName(r.Watch), cfg, p.Pos(recv.Pos()), "cannot identify the channel the watch waits on")
			return
		}
		rfv := freeVarOfBinding(r.Do, r.Receiver, watchBinding)
		if rfv == nil {
			c.R.Bad(rule, core.FuncName(r.Receiver), cfg, p.Pos(r.Receiver.Pos()), "the receiver does not capture the channel the cancel-watch waits on")
			return
		}
		// defer close(<that channel>) in the entry block before any call / branch
		found := false
		for _, in := range r.Receiver.Blocks[0].Instrs {
			if d, ok := in.(*ssa.Defer); ok {
				if bi, ok := d.Call.Value.(*ssa.Builtin); ok && bi.Name() == "close" {
					arg := d.Call.Args[0]
					if arg == ssa.Value(rfv) || isLoadOf(arg, rfv) {
						found = true
						break
					}
				}
				continue
			}
			if _, isCall := in.(*ssa.Call); isCall {
				break
			}
		}
		if !found {
			c.R.Bad(rule, core.FuncName(r.Receiver), cfg, p.Pos(r.Receiver.Pos()), "the receiver does not `defer close(done)` before its first call: an early exit would leave the cancel-watch (and Do) blocked, or the watch would run before the receive loop ended")
			return
		}
		c.R.Ok(rule, core.FuncName(r.Receiver), cfg, p.Pos(r.Receiver.Pos()), "defer close(done) is installed first; watch waits on the same captured channel")
	}()

	// (b) cancelQuery is reached exactly on ctx.Err()!=nil && !gotException
	rule = prop + ".watch-cancel"
	c.R.Rule(rule, "in the cancel-watch, after the wait, every path on which the shared context has an error and no server exception was seen reaches cancelQuery(); cancelQuery is reachable only on such paths")
	func() {
		calls := core.FindCalls(wh, isClientMethod("cancelQuery"))
		if len(calls) != 1 {
			c.R.Bad(rule, core.FuncName(r.Watch), cfg, p.Pos(r.Watch.Pos()), sprintf("expected one call of cancelQuery in the cancel-watch, found %d", len(calls)))
			return
		}
		cq := calls[0].(ssa.Instruction)
		ctxErrTrue := core.CondEdges(wh, true, func(cond ssa.Value) (bool, bool) {
			x, nonNil, ok := nilCmp(cond)
			if !ok || !isCtxErr(x) {
				return false, false
			}
			return nonNil, true
		})
		ctxErrFalse := core.CondEdges(wh, false, func(cond ssa.Value) (bool, bool) {
			x, nonNil, ok := nilCmp(cond)
			if !ok || !isCtxErr(x) {
				return false, false
			}
			return nonNil, true
		})
		excFalse := core.CondEdges(wh, false, func(cond ssa.Value) (bool, bool) {
			_, ok := core.CallTo(cond, isAtomicBool("Load"))
			return true, ok
		})
		excTrue := core.CondEdges(wh, true, func(cond ssa.Value) (bool, bool) {
			_, ok := core.CallTo(cond, isAtomicBool("Load"))
			return true, ok
		})
		// the exception flag is the one whose set value suppresses the cancel; other flags (receiver failed) are positive disjuncts
		isExc := func(cond ssa.Value) bool {
			cl, ok := core.CallTo(cond, isAtomicBool("Load"))
			return ok && flagIn(cl) == excFlag && excFlag != nil
		}
		excFalse = core.CondEdges(wh, false, func(cond ssa.Value) (bool, bool) { return true, isExc(cond) })
		excTrue = core.CondEdges(wh, true, func(cond ssa.Value) (bool, bool) { return true, isExc(cond) })
		posTrue := append([]core.Edge{}, ctxErrTrue...)
		posTrue = append(posTrue, core.CondEdges(wh, true, func(cond ssa.Value) (bool, bool) {
			cl, ok := core.CallTo(cond, isAtomicBool("Load"))
			return true, ok && failFlag != nil && flagIn(cl) == failFlag
		})...)
		if len(ctxErrTrue) == 0 || len(excFalse) == 0 {
			c.R.Bad(rule, core.FuncName(r.Watch), cfg, p.Pos(cq.Pos()), "the cancel-watch does not test ctx.Err() and the exception flag")
			return
		}
		if !core.OnlyViaEdges(wh, cq, posTrue) || !core.OnlyViaEdges(wh, cq, excFalse) {
			c.R.Bad(rule, core.FuncName(r.Watch), cfg, p.Pos(cq.Pos()), "cancelQuery is reachable without (ctx.Err()!=nil || receiver failed) && !gotException")
			return
		}
		// completeness: with the (ctx.Err()==nil) and (gotException) edges removed, no exit avoids cancelQuery
		w := core.ReachAvoiding(core.Entry(wh), core.IsExit, func(in ssa.Instruction) bool { return in == cq },
			core.WithoutEdges(append(append([]core.Edge{}, ctxErrFalse...), excTrue...)))
		if len(w) > 0 {
			c.R.Bad(rule, core.FuncName(r.Watch), cfg, p.Pos(w[0].At.Pos()), "a path with a failed context and no exception leaves the watch without calling cancelQuery", p.TrailString(w[0])...)
			return
		}
		c.R.Ok(rule, core.FuncName(r.Watch), cfg, p.Pos(cq.Pos()), "cancelQuery <=> (ctx.Err()!=nil || receiver failed) && !gotException.Load()")
	}()

	// (b2) the decision does not depend on the context alone
	rule = prop + ".watch-order"
	c.R.Rule(rule, "errgroup cancels the shared context only after a goroutine function has returned, i.e. after the receiver's deferred close(done) has already released the cancel-watch; so the watch must learn of a receiver failure from something ordered before that close: a flag stored by a defer of the receiver that was registered after `defer close(done)` (and therefore runs before it), stored from the receiver's own result, and tested by the watch as an alternative to ctx.Err()")
	func() {
		key := core.FuncName(r.Watch)
		if failFlag == nil {
			c.R.Bad(rule, key, cfg, p.Pos(r.Watch.Pos()), "the cancel-watch decides on ctx.Err() alone: when the receive loop fails (bad packet, decode error) the watch can run before errgroup has cancelled the context, sees no error, and leaves the client open in the middle of the server stream")
			return
		}
		// receiver: a defer of a closure storing to failFlag, registered after defer close(done)
		var closeIdx, storeIdx = -1, -1
		var stored ssa.Value
		for i, in := range r.Receiver.Blocks[0].Instrs {
			d, ok := in.(*ssa.Defer)
			if !ok {
				continue
			}
			if bi, ok := d.Call.Value.(*ssa.Builtin); ok && bi.Name() == "close" {
				closeIdx = i
				continue
			}
			cl := core.StaticFn(d)
			if cl == nil {
				continue
			}
			for _, sc := range core.FindCalls(cl, isAtomicBool("Store")) {
				if flagOfCall(r, r.Receiver, sc) == failFlag {
					storeIdx = i
					stored = sc.Common().Args[1]
				}
			}
		}
		switch {
		case closeIdx < 0 || storeIdx < 0:
			c.R.Bad(rule, key, cfg, p.Pos(r.Receiver.Pos()), "the receiver does not record its failure in the flag by a defer in its entry block")
		case storeIdx < closeIdx:
			c.R.Bad(rule, key, cfg, p.Pos(r.Receiver.Pos()), "the failure flag is stored by a defer registered before `defer close(done)`: it runs after the watch has been released")
		default:
			// the stored value is `result != nil`
			bo, ok := stored.(*ssa.BinOp)
			if ok && bo.Op == token.NEQ && (core.IsNilConst(bo.X) || core.IsNilConst(bo.Y)) {
				c.R.Ok(rule, key, cfg, p.Pos(r.Receiver.Pos()), "receiver stores (err != nil) to the flag before done is closed; the watch tests it besides ctx.Err()")
			} else if cst, ok := stored.(*ssa.Const); ok && cst.Value != nil && cst.Value.String() == "true" {
				c.R.Ok(rule, key, cfg, p.Pos(r.Receiver.Pos()), "receiver stores true to the flag before done is closed")
			} else {
				c.R.Bad(rule, key, cfg, p.Pos(r.Receiver.Pos()), "what the receiver stores to the failure flag is not its own result being non-nil")
			}
		}
	}()

	// (c) cancelQuery always closes
	rule = prop + ".cancel-closes"
	c.R.Rule(rule, "every path through cancelQuery, including the one on which writing the Cancel packet fails, calls (*Client).Close")
	func() {
		cq := p.Method(core.PkgCh, "Client", "cancelQuery")
		if !c.must(p, "(*ch.Client).cancelQuery", cq != nil) {
			return
		}
		w := core.ReachAvoiding(core.Entry(cq), core.IsExit, func(in ssa.Instruction) bool {
			return core.IsCallOf(in, isClientMethod("Close"))
		}, nil)
		if len(w) > 0 {
			c.R.Bad(rule, core.FuncName(cq), cfg, p.Pos(w[0].At.Pos()), "an exit of cancelQuery is reachable without Close()", p.TrailString(w[0])...)
			return
		}
		// the Cancel write is bounded: the context it runs under carries a deadline of its own
		// (flushBuf arms a write deadline only from the context's deadline; Background would block forever
		// behind a sender that is stuck in Write, and Close is never reached)
		nCtx := 0
		for _, call := range core.Calls(cq) {
			sf := core.StaticFn(call)
			if sf == nil || pkgOf(sf) == nil || pkgOf(sf).Path() != core.PkgCh {
				continue
			}
			for _, a := range call.Common().Args {
				if !core.IsNamed(a.Type(), "context", "Context") {
					continue
				}
				nCtx++
				bounded := false
				if ex, ok := a.(*ssa.Extract); ok && ex.Index == 0 {
					if wc, ok := ex.Tuple.(*ssa.Call); ok {
						if f := core.CalleeFunc(wc); f != nil && (core.IsFunc(f, "context", "WithTimeout") || core.IsFunc(f, "context", "WithDeadline")) {
							bounded = true
						}
					}
				}
				if bounded {
					c.R.Ok(rule, core.CallKey(cq, call)+"/bounded", cfg, p.Pos(call.Pos()), "the Cancel packet is written under a context with its own deadline")
				} else {
					c.R.Bad(rule, core.CallKey(cq, call)+"/bounded", cfg, p.Pos(call.Pos()), "the Cancel packet is written under a context without a deadline of its own: when the peer does not read (the sender is already stuck in Write) the write blocks forever, Close is never reached and Do never returns")
				}
			}
		}
		if nCtx == 0 {
			c.R.Unk(rule, core.FuncName(cq)+"/bounded", cfg, p.Pos(cq.Pos()), "no context-taking write found in cancelQuery")
		}
		// Close itself must close the conn on its first invocation
		cl := p.Method(core.PkgCh, "Client", "Close")
		if cl != nil {
			found := false
			for _, call := range core.Calls(cl) {
				cc := call.Common()
				if cc.IsInvoke() && cc.Method.Name() == "Close" && core.IsNamed(cc.Value.Type(), "net", "Conn") {
					found = true
				}
			}
			if !found {
				c.R.Bad(rule, core.FuncName(cl), cfg, p.Pos(cl.Pos()), "(*Client).Close does not close the connection")
				return
			}
		}
		c.R.Ok(rule, core.FuncName(cq), cfg, p.Pos(cq.Pos()), "Close() is on every path to every exit")
	}()

	// (d) gotException only for genuine exceptions
	rule = prop + ".exception-flag"
	c.R.Rule(rule, "the flag that suppresses cancel+close is set only on the true edge of IsException(err) for the error returned by the packet handler (a decoded server exception), never by packet code alone")
	func() {
		n := 0
		for _, fn := range core.StaticReachList(r.Do) {
			for _, call := range core.FindCalls(fn, isAtomicBool("Store")) {
				if excFlag == nil {
					continue
				}
				if flagOfAny(r, call) != excFlag {
					continue
				}
				n++
				in := call.(ssa.Instruction)
				edges := core.CondEdges(fn, true, func(cond ssa.Value) (bool, bool) {
					cl, ok := core.CallTo(cond, func(f *types.Func) bool {
						return core.IsFunc(f, core.PkgCh, "IsException")
					})
					if !ok {
						return false, false
					}
					// argument must be the error of handlePacket (or of a decode)
					return true, len(cl.Call.Args) == 1
				})
				if len(edges) == 0 || !core.OnlyViaEdges(fn, in, edges) {
					c.R.Bad(rule, core.CallKey(fn, call), cfg, p.Pos(in.Pos()), "gotException.Store is reachable without IsException(err) being true")
					continue
				}
				// the exception must be the one decoded from THIS connection: the store also lies behind a test
				// that the packet code is ServerCodeException - a user callback (OnProgress, OnLogs, ...) may fail
				// with an error that wraps a *ch.Exception of its own (a nested query on another client)
				excK, _ := constOf(p, core.PkgProto, "ServerCodeException")
				codeEdges := core.CondEdges(fn, true, func(cond ssa.Value) (bool, bool) {
					bo, ok := cond.(*ssa.BinOp)
					if !ok || (bo.Op != token.EQL && bo.Op != token.NEQ) {
						return false, false
					}
					for _, pair := range [][2]ssa.Value{{bo.X, bo.Y}, {bo.Y, bo.X}} {
						if k, okc := core.ConstInt(pair[1]); okc && k == excK && core.IsNamed(pair[0].Type(), core.PkgProto, "ServerCode") {
							return bo.Op == token.EQL, true
						}
					}
					return false, false
				})
				if len(codeEdges) == 0 || !core.OnlyViaEdges(fn, in, codeEdges) {
					c.R.Bad(rule, core.CallKey(fn, call)+"/own", cfg, p.Pos(in.Pos()), "the flag that suppresses cancel+close is set for any error that wraps a *ch.Exception, whatever packet was being handled: a user callback failing with such an error (from a nested query on another client) leaves this client open in the middle of the server stream")
				} else {
					c.R.Ok(rule, core.CallKey(fn, call)+"/own", cfg, p.Pos(in.Pos()), "only while handling a ServerCodeException packet")
				}
				c.R.Ok(rule, core.CallKey(fn, call), cfg, p.Pos(in.Pos()), "Store(true) only under IsException(err)")
			}
		}
		if n == 0 {
			c.R.Unk(rule, core.FuncName(r.Do), cfg, p.Pos(r.Do.Pos()), "no store to the exception flag found (anchor lost)")
		}
	}()

	// (e) the goroutines run under the errgroup's context
	rule = prop + ".group-ctx"
	c.R.Rule(rule, "the context captured by the three goroutines is the one returned by errgroup.WithContext (so the first failing goroutine cancels the others), and Do returns g.Wait()")
	func() {
		var gctx ssa.Value
		for _, ref := range *r.Group.Referrers() {
			if e, ok := ref.(*ssa.Extract); ok && e.Index == 1 {
				gctx = e
			}
		}
		if gctx == nil {
			c.R.Bad(rule, core.FuncName(r.Do), cfg, p.Pos(r.Group.Pos()), "the context of errgroup.WithContext is discarded")
			return
		}
		okAll := true
		for _, cl := range []*ssa.Function{r.Sender, r.Receiver, r.Watch} {
			b := freeVarBinding(r.Do, cl, "ctx")
			good := false
			if b == gctx {
				good = true
			} else if b != nil {
				// cell: the errgroup ctx must be stored into it, dominating the Go calls, with no later store
				var stores []*ssa.Store
				for _, ref := range *b.Referrers() {
					if s, ok := ref.(*ssa.Store); ok && s.Addr == b {
						stores = append(stores, s)
					}
				}
				for _, s := range stores {
					if s.Val != gctx {
						continue
					}
					good = true
					for _, g := range r.GoCalls {
						if !core.Dominates(s, g.(ssa.Instruction)) {
							good = false
						}
					}
					for _, s2 := range stores {
						if s2 != s && core.Dominates(s, s2) {
							good = false
						}
					}
				}
			}
			if !good {
				okAll = false
				c.R.Bad(rule, core.FuncName(cl), cfg, p.Pos(cl.Pos()), "goroutine does not run under the errgroup context")
			}
		}
		// Do returns Wait(): a return after Wait yields its error (possibly wrapped),
		// or nil only on the nil edge of a test of that error.
		wv := r.Wait.Value()
		wal := core.Aliases(r.Do, wv)
		nilEdges := core.CondEdges(r.Do, false, func(cond ssa.Value) (bool, bool) {
			x, nonNil, ok := nilCmp(cond)
			if !ok || !wal[x] {
				return false, false
			}
			return nonNil, true
		})
		for _, b := range r.Do.Blocks {
			for _, in := range b.Instrs {
				ret, ok := in.(*ssa.Return)
				if !ok || !core.Dominates(r.Wait.(ssa.Instruction), ret) {
					continue
				}
				rv := core.ReturnErr(r.Do, ret)
				switch {
				case wal[rv] || chainKeeps(rv, func(v ssa.Value) bool { return wal[v] }, 0):
				case core.IsNilConst(rv) && len(nilEdges) > 0 && core.OnlyViaEdges(r.Do, ret, nilEdges):
				default:
					okAll = false
					c.R.Bad(rule, core.FuncName(r.Do), cfg, p.Pos(ret.Pos()), "Do does not return the result of g.Wait()")
				}
			}
		}
		if okAll {
			c.R.Ok(rule, core.FuncName(r.Do), cfg, p.Pos(r.Group.Pos()), "sender, receiver and watch capture the errgroup context; Do returns g.Wait()")
		}
	}()
}

// ---------------------------------------------------------------------------
// C04.discard

func ruleDiscard(c *Ctx, p *core.Program, r *doRoles, prefix string) {
	cfg := p.Cfg.Name
	rule := prefix + ".discard-flush"
	c.R.Rule(rule, "every exit of (*Client).flush has passed through (*proto.Writer).Flush (which resets the writer unconditionally, C14) or an explicit discard of the pending output, so nothing encoded before a failed flush can be sent by a later request")
	isDiscard := func(in ssa.Instruction) bool {
		return core.IsCallOf(in, isWriterFlush) || core.IsCallOf(in, func(f *types.Func) bool {
			return core.IsMethod(f, core.PkgProto, "Writer", "Reset") || core.IsMethod(f, core.PkgProto, "Writer", "Discard")
		})
	}
	fl := p.Method(core.PkgCh, "Client", "flush")
	if c.must(p, "(*ch.Client).flush", fl != nil) {
		w := core.ReachAvoiding(core.Entry(fl), core.IsExit, isDiscard, nil)
		if len(w) > 0 {
			c.R.Bad(rule, core.FuncName(fl), cfg, p.Pos(w[0].At.Pos()), "flush can return (dead context / deadline error) with the encoded bytes still queued in the writer", p.TrailString(w[0])...)
		} else {
			c.R.Ok(rule, core.FuncName(fl), cfg, p.Pos(fl.Pos()), "every exit is preceded by Writer.Flush or a discard")
		}
	}
	rule = prefix + ".discard-do"
	c.R.Rule(rule, "in Do, every path from the return of g.Wait() with a possibly non-nil error to the exit passes through Close or a discard of the writer (the sender may have failed between encoding and flushing, e.g. on a server exception)")
	wv := r.Wait.Value()
	start := core.PointOf(r.Wait.(ssa.Instruction))
	al := core.Aliases(r.Do, wv)
	edge := func(b *ssa.BasicBlock, i int) bool {
		if ifi, ok := b.Instrs[len(b.Instrs)-1].(*ssa.If); ok {
			if nilSucc, ok := core.NilTest(ifi, al); ok && nilSucc == i {
				return false
			}
		}
		return true
	}
	w := core.ReachAvoiding(start, core.IsExit, func(in ssa.Instruction) bool {
		return isDiscard(in) || core.IsCallOf(in, isClientMethod("Close")) || core.IsCallOf(in, isClientMethod("discard"))
	}, edge)
	if len(w) > 0 {
		c.R.Bad(rule, core.FuncName(r.Do), cfg, p.Pos(w[0].At.Pos()), "Do returns the error of g.Wait() without closing the client or discarding the writer's pending output: bytes encoded for the failed query are sent in front of the next request")
	} else {
		c.R.Ok(rule, core.FuncName(r.Do), cfg, p.Pos(r.Wait.Pos()), "failed Wait() is followed by Close or discard on every path")
	}
	// anything Do's own body encodes into the writer (outside the goroutines, whose failures end in the
	// Wait() path above) must be discarded when it fails
	encodes := func(f *ssa.Function) bool {
		return f != nil && f.Blocks != nil && core.ReachesCallee(f, func(g *types.Func) bool {
			return core.IsMethod(g, core.PkgProto, "Writer", "ChainBuffer") || core.IsMethod(g, core.PkgProto, "Writer", "ChainWrite")
		}, 4)
	}
	for _, call := range core.Calls(r.Do) {
		sf := core.StaticFn(call)
		if sf == nil || pkgOf(sf) == nil || pkgOf(sf).Path() != core.PkgCh || !encodes(sf) {
			continue
		}
		ev := core.ErrValue(call)
		if ev == nil {
			continue
		}
		al2 := core.Aliases(r.Do, ev)
		nonNil := func(b *ssa.BasicBlock, i int) bool {
			if ifi, ok := b.Instrs[len(b.Instrs)-1].(*ssa.If); ok {
				if ns, ok := core.NilTest(ifi, al2); ok && ns == i {
					return false
				}
			}
			return true
		}
		key := core.CallKey(r.Do, call)
		w2 := core.ReachAvoiding(core.PointOf(call.(ssa.Instruction)), core.IsExit, func(in ssa.Instruction) bool {
			return isDiscard(in) || core.IsCallOf(in, isClientMethod("Close")) || in == r.Wait.(ssa.Instruction)
		}, nonNil)
		if len(w2) > 0 {
			c.R.Bad(rule, key, cfg, p.Pos(w2[0].At.Pos()), "Do encodes into the client's writer outside its goroutines and, when that fails, returns without discarding the pending output or closing the client: the partly encoded request is sent in front of the next one")
		} else {
			c.R.Ok(rule, key, cfg, p.Pos(call.Pos()), "failure is followed by Close / discard / the Wait path")
		}
	}
}

// ruleCloseMarks: Client.Close marks the client closed on every path that touched the transport.
func ruleCloseMarks(c *Ctx, p *core.Program, rule string) {
	c.R.Rule(rule, "Client.Close: no exit is reachable from the call of conn.Close() without the store closed = true having been executed (before or after it): when closing the transport reports an error (TLS close_notify on a dead link) the client must still count as closed, or later calls pass the IsClosed guard and use the dead connection, and a pool returns it to the idle set")
	cfg := p.Cfg.Name
	cl := p.Method(core.PkgCh, "Client", "Close")
	if !c.must(p, "(*ch.Client).Close", cl != nil) {
		return
	}
	isMark := func(in ssa.Instruction) bool {
		st, ok := in.(*ssa.Store)
		if !ok {
			return false
		}
		fa, ok := st.Addr.(*ssa.FieldAddr)
		if !ok {
			return false
		}
		f, ok := clientFieldAddr(fa)
		if !ok || f != "closed" {
			return false
		}
		k, isC := st.Val.(*ssa.Const)
		return isC && k.Value != nil && k.Value.String() == "true"
	}
	isConnClose := func(in ssa.Instruction) bool {
		call, ok := in.(ssa.CallInstruction)
		if !ok {
			return false
		}
		cc := call.Common()
		return cc.IsInvoke() && cc.Method.Name() == "Close" && core.IsNamed(cc.Value.Type(), "net", "Conn")
	}
	// conn.Close() calls reachable without the mark
	unmarked := core.ReachAvoiding(core.Entry(cl), isConnClose, isMark, nil)
	n := 0
	for _, b := range cl.Blocks {
		for _, in := range b.Instrs {
			if isConnClose(in) {
				n++
			}
		}
	}
	if n == 0 {
		c.R.Bad(rule, "Close", cfg, p.Pos(cl.Pos()), "Client.Close never closes the connection")
		return
	}
	bad := false
	for _, w := range unmarked {
		hits := core.ReachAvoiding(core.PointOf(w.At), func(in ssa.Instruction) bool {
			_, ok := in.(*ssa.Return)
			return ok && in.Block().Comment != "recover"
		}, isMark, nil)
		if len(hits) > 0 {
			bad = true
			c.R.Bad(rule, "Close", cfg, p.Pos(hits[0].At.Pos()), "Close can return after conn.Close() without having set closed = true (the error path of conn.Close leaves the client marked open)")
			break
		}
	}
	if !bad {
		c.R.Ok(rule, "Close", cfg, p.Pos(cl.Pos()), "closed = true on every path through conn.Close()")
	}
}

// ruleNoAsyncConn (C04.async): nothing manipulates the connection from a timer / context callback.
func ruleNoAsyncConn(c *Ctx, p *core.Program, rule string) {
	c.R.Rule(rule, "who-may-touch the transport asynchronously: in package ch no callback registered with context.AfterFunc / time.AfterFunc (or started by such a callback) calls a method of the connection (deadlines, Write, Close) - except a timer that only closes the connection, armed inside a function that closes the client on every path (the bound cancelQuery puts on its own write): inside Do the query context is the errgroup's, which is also cancelled by the one failure that keeps the client open (a server exception), so a callback that expires the write deadline on cancellation cuts the sender's write in the middle of a packet and leaves the client open at no packet boundary; cancellation is the cancel-watch goroutine's job (C04.watch-*)")
	cfg := p.Cfg.Name
	n, bad := 0, false
	for _, fn := range p.Funcs() {
		if pkgOf(fn) == nil || pkgOf(fn).Path() != core.PkgCh {
			continue
		}
		for _, call := range core.Calls(fn) {
			f := core.CalleeFunc(call)
			if f == nil || f.Name() != "AfterFunc" || f.Pkg() == nil || (f.Pkg().Path() != "context" && f.Pkg().Path() != "time") {
				continue
			}
			n++
			args := call.Common().Args
			cb := core.ClosureArg(call, len(args)-1)
			touches := cb == nil
			onlyClose := cb != nil
			if cb != nil {
				for g := range core.StaticReach(cb, 3) {
					for _, cc := range core.Calls(g) {
						if cm := cc.Common(); cm.IsInvoke() && core.IsNamed(cm.Value.Type(), "net", "Conn") {
							touches = true
							if cm.Method.Name() != "Close" {
								onlyClose = false
							}
						}
					}
				}
			}
			// a timer whose only effect is closing the connection, armed by a function that closes the
			// client on every path anyway (cancelQuery's bound on its own write), leaves no open client behind
			if touches && onlyClose && f.Pkg().Path() == "time" {
				always := len(core.ReachAvoiding(core.Entry(fn), core.IsExit, func(in ssa.Instruction) bool {
					return core.IsCallOf(in, isClientMethod("Close"))
				}, nil)) == 0
				if always {
					c.R.Ok(rule, core.CallKey(fn, call), cfg, p.Pos(call.Pos()), "timer that only closes the connection, in a function that closes the client on every path")
					continue
				}
			}
			if touches {
				bad = true
				c.R.Bad(rule, core.CallKey(fn, call), cfg, p.Pos(call.Pos()), "a "+f.Pkg().Path()+".AfterFunc callback manipulates the connection: it fires on any cancellation of the context, including the errgroup's cancellation after a server exception, and interrupts a write in mid-packet")
			}
		}
	}
	if !bad {
		c.R.Ok(rule, "ch", cfg, "", sprintf("%d AfterFunc registrations, none touching the connection", n))
	}
}

// ---- who-closes (C11 / C04): the client's transport is closed only through Client.Close
func ruleWhoCloses(c *Ctx, p *core.Program, rule string) {
	c.R.Rule(rule, "who-may-call: the transport held in Client.conn is closed only by (*Client).Close, which marks the client closed - IsClosed is what the pool's Release and the entry guards of Do / Ping look at. A direct conn.Close() elsewhere leaves a client that reports itself open over a dead socket, and the pool hands it to the next holder. Allowed besides Close itself: the handshake (a failed handshake never yields a client, C13.fail) and a timer armed by a function that calls Client.Close on every path (the bound on cancelQuery's own write)")
	cfg := p.Cfg.Name
	n := 0
	hs := p.Method(core.PkgCh, "Client", "handshake")
	cl := p.Method(core.PkgCh, "Client", "Close")
	for _, fn := range p.Funcs() {
		pk := pkgOf(fn)
		if pk == nil || pk.Path() != core.PkgCh || isServerSide(fn) || fn.Blocks == nil {
			continue
		}
		for _, call := range core.Calls(fn) {
			cc := call.Common()
			if !cc.IsInvoke() || cc.Method.Name() != "Close" || !core.IsNamed(cc.Value.Type(), "net", "Conn") {
				continue
			}
			if !strings.HasSuffix(core.FieldOrigin(cc.Value, 0), "Client.conn") {
				continue // a raw connection that is not (yet) a client's: Dial's failure path
			}
			n++
			key := core.CallKey(fn, call)
			root := fn
			for root.Parent() != nil {
				root = root.Parent()
			}
			switch {
			case fn == cl:
				c.R.Ok(rule, key, cfg, p.Pos(call.Pos()), "Client.Close itself")
			case root == hs || onlyFromHandshake(p, root, hs):
				c.R.Ok(rule, key, cfg, p.Pos(call.Pos()), "handshake watchdog: a failed handshake yields no client")
			case fn.Parent() != nil && len(core.ReachAvoiding(core.Entry(fn.Parent()), core.IsExit, func(in ssa.Instruction) bool {
				return core.IsCallOf(in, isClientMethod("Close"))
			}, nil)) == 0:
				c.R.Ok(rule, key, cfg, p.Pos(call.Pos()), "closure of a function that calls Client.Close on every path")
			case timerOnlyUse(p, fn):
				c.R.Ok(rule, key, cfg, p.Pos(call.Pos()), "used only as the function of a timer armed by a function that calls Client.Close on every path")
			default:
				c.R.Bad(rule, key, cfg, p.Pos(call.Pos()), "the client's transport is closed without marking the client closed: IsClosed stays false, so a pool returns the dead connection to its idle set and every later holder gets it")
			}
		}
	}
	c.R.Count("closes of Client.conn["+cfg+"]", n)
	c.R.Floor(rule, cfg, n, 2)
}

// onlyFromHandshake: fn is a helper whose only static callers in package ch are the handshake and its closures.
func onlyFromHandshake(p *core.Program, fn, hs *ssa.Function) bool {
	if hs == nil {
		return false
	}
	n := 0
	for _, g := range p.Funcs() {
		if pkgOf(g) == nil || pkgOf(g).Path() != core.PkgCh {
			continue
		}
		for _, call := range core.Calls(g) {
			if core.StaticFn(call) != fn {
				continue
			}
			n++
			root := g
			for root.Parent() != nil {
				root = root.Parent()
			}
			if root != hs {
				return false
			}
		}
	}
	return n > 0
}

// timerOnlyUse: fn (a client method that closes the transport) is never called directly; its only uses are
// as the function value of time.AfterFunc inside functions that call Client.Close on every path.
func timerOnlyUse(p *core.Program, fn *ssa.Function) bool {
	uses := 0
	for _, g := range p.Funcs() {
		if pkgOf(g) == nil || pkgOf(g).Path() != core.PkgCh || g.Blocks == nil {
			continue
		}
		for _, call := range core.Calls(g) {
			if core.StaticFn(call) == fn {
				// a bound-method wrapper calling it is the method value itself
				if g.Synthetic != "" {
					continue
				}
				return false
			}
			f := core.CalleeFunc(call)
			if f == nil || !core.IsFunc(f, "time", "AfterFunc") {
				continue
			}
			cb := core.ClosureArg(call, len(call.Common().Args)-1)
			if cb == nil {
				continue
			}
			reaches := cb == fn
			for h := range core.StaticReach(cb, 1) {
				if h == fn {
					reaches = true
				}
			}
			if !reaches {
				continue
			}
			uses++
			if len(core.ReachAvoiding(core.Entry(g), core.IsExit, func(in ssa.Instruction) bool {
				return core.IsCallOf(in, isClientMethod("Close"))
			}, nil)) > 0 {
				return false
			}
		}
	}
	return uses > 0
}

// ---------------------------------------------------------------------------
// C04.send-once: a per-packet callback hands a value to the sender at most once

// ruleSendOnce: the goroutines of Do exchange the column info of an INSERT through a channel of capacity 1
// that the sender reads once. The send sits in a callback the receive loop runs for every Data block the
// server cares to send; its select's other case is the errgroup context, which ends only on failure or
// cancellation. A third well-formed header block therefore parks the receive loop for ever (the sender has
// finished without error, nobody cancels), EndOfStream is never read and Do never returns - read timeout or
// not. The send must be guarded so that it executes at most once per call.
func ruleSendOnce(c *Ctx, p *core.Program, r *doRoles, rule string) {
	c.R.Rule(rule, "a channel send in a callback that Do installs for the receive loop (run once per received block) executes at most once per call: it is reachable only through the false edge of a test of a flag captured from the function that creates the callback (Do or its set-up helper), and that flag is set on every path from the callback's entry to the send - the sender receives once, the channel holds one more, and the select's ctx.Done() case does not fire when nothing failed")
	cfg := p.Cfg.Name
	n := 0
	// the callbacks are closures of Do itself or of a set-up helper Do calls
	var cbs []*ssa.Function
	cbs = append(cbs, r.Do.AnonFuncs...)
	for _, call := range core.Calls(r.Do) {
		if h := core.StaticFn(call); h != nil && h.Blocks != nil && pkgOf(h) != nil && pkgOf(h).Path() == core.PkgCh {
			cbs = append(cbs, h.AnonFuncs...)
		}
	}
	for _, fn := range cbs {
		if fn == r.Sender || fn == r.Receiver || fn == r.Watch {
			continue
		}
		var sends []ssa.Instruction
		for _, b := range fn.Blocks {
			for _, in := range b.Instrs {
				switch x := in.(type) {
				case *ssa.Send:
					sends = append(sends, in)
				case *ssa.Select:
					for _, st := range x.States {
						if st.Dir == types.SendOnly {
							sends = append(sends, in)
						}
					}
				}
			}
		}
		for i, snd := range sends {
			n++
			key := core.FuncName(fn) + sprintf("/send#%d", i+1)
			ok := false
			for _, fv := range fn.FreeVars {
				pt, isPtr := fv.Type().Underlying().(*types.Pointer)
				if !isPtr {
					continue
				}
				if bt, isB := pt.Elem().Underlying().(*types.Basic); !isB || bt.Kind() != types.Bool {
					continue
				}
				isFlagLoad := func(v ssa.Value) bool {
					u, ok := v.(*ssa.UnOp)
					return ok && u.Op == token.MUL && u.X == ssa.Value(fv)
				}
				edges := core.CondEdges(fn, false, func(cond ssa.Value) (bool, bool) {
					v, pol := core.StripNot(cond)
					return pol, isFlagLoad(v)
				})
				if len(edges) == 0 || !core.OnlyViaEdges(fn, snd, edges) {
					continue
				}
				// the flag is raised before the send on every path
				w := core.ReachAvoiding(core.Entry(fn), func(in ssa.Instruction) bool { return in == snd }, func(in ssa.Instruction) bool {
					st, ok := in.(*ssa.Store)
					if !ok || st.Addr != ssa.Value(fv) {
						return false
					}
					k, isC := st.Val.(*ssa.Const)
					return isC && k.Value != nil && k.Value.String() == "true"
				}, nil)
				if len(w) == 0 {
					ok = true
				}
			}
			if ok {
				c.R.Ok(rule, key, cfg, p.Pos(snd.Pos()), "send is behind a once-flag captured from Do")
			} else {
				c.R.Bad(rule, key, cfg, p.Pos(snd.Pos()), "the callback sends on every block it is run for: the sender receives once and the channel buffers one more, so a third well-formed header block parks the receive loop in this select for ever when nothing fails - later packets (EndOfStream) are never read and Do does not return")
			}
		}
	}
	c.R.Count("channel sends in receive-loop callbacks of Do", n)
	c.R.Floor(rule, cfg, n, 1)
}

// ruleWaiterWoken (C04 / C10): whoever waits for the receive loop's hand-over is released when the loop ends.
func ruleWaiterWoken(c *Ctx, p *core.Program, r *doRoles, rule string) {
	c.R.Rule(rule, "every channel that the sender goroutine of Do receives from (other than ctx.Done()) and that the receive side feeds is closed by a defer of the receive goroutine itself, registered on every path on which the channel exists (non-nil): the loop can end without an error and without ever having fed the channel (EndOfStream before the header block) - the group context is not cancelled then, and a sender parked in `select { <-ctx.Done(); <-ch }` waits for ever, whatever the read timeout")
	cfg := p.Cfg.Name
	// channels the sender receives from
	type chanUse struct {
		fv *ssa.FreeVar
		at ssa.Instruction
	}
	var uses []chanUse
	for _, b := range r.Sender.Blocks {
		for _, in := range b.Instrs {
			var chans []ssa.Value
			switch x := in.(type) {
			case *ssa.Select:
				for _, st := range x.States {
					if st.Dir == types.RecvOnly && !isCtxDone(st.Chan) {
						chans = append(chans, st.Chan)
					}
				}
			case *ssa.UnOp:
				if x.Op == token.ARROW && !isCtxDone(x.X) {
					chans = append(chans, x.X)
				}
			}
			for _, ch := range chans {
				if ld, ok := ch.(*ssa.UnOp); ok && ld.Op == token.MUL {
					if fv, ok := ld.X.(*ssa.FreeVar); ok {
						uses = append(uses, chanUse{fv, in})
					}
				}
				if fv, ok := ch.(*ssa.FreeVar); ok {
					uses = append(uses, chanUse{fv, in})
				}
			}
		}
	}
	// the wait may live in a helper that is handed the channel
	recvChans := func(fn *ssa.Function) []ssa.Value {
		var out []ssa.Value
		for _, b := range fn.Blocks {
			for _, in := range b.Instrs {
				switch x := in.(type) {
				case *ssa.Select:
					for _, st := range x.States {
						if st.Dir == types.RecvOnly && !isCtxDone(st.Chan) {
							out = append(out, st.Chan)
						}
					}
				case *ssa.UnOp:
					if x.Op == token.ARROW && !isCtxDone(x.X) {
						out = append(out, x.X)
					}
				}
			}
		}
		return out
	}
	for _, call := range core.Calls(r.Sender) {
		g := core.StaticFn(call)
		if g == nil || g.Blocks == nil || pkgOf(g) == nil || pkgOf(g).Path() != core.PkgCh {
			continue
		}
		for _, ch := range recvChans(g) {
			for i, pr := range g.Params {
				if stripConv(ch) != ssa.Value(pr) || i >= len(call.Common().Args) {
					continue
				}
				a := stripConv(call.Common().Args[i])
				if ct, ok := a.(*ssa.ChangeType); ok {
					a = ct.X
				}
				if ld, ok := a.(*ssa.UnOp); ok && ld.Op == token.MUL {
					if fv, ok := ld.X.(*ssa.FreeVar); ok {
						uses = append(uses, chanUse{fv, call.(ssa.Instruction)})
					}
				}
				if fv, ok := a.(*ssa.FreeVar); ok {
					uses = append(uses, chanUse{fv, call.(ssa.Instruction)})
				}
			}
		}
	}
	n := 0
	for _, u := range uses {
		n++
		key := core.FuncName(r.Sender) + "/waits-on-" + u.fv.Name()
		// the same captured variable in the receiver
		var rfv *ssa.FreeVar
		for _, fv := range r.Receiver.FreeVars {
			if fv.Name() == u.fv.Name() && types.Identical(fv.Type(), u.fv.Type()) {
				rfv = fv
			}
		}
		if rfv == nil {
			c.R.Bad(rule, key, cfg, p.Pos(u.at.Pos()), "the sender waits on a channel the receive goroutine does not even capture: nothing releases it when the loop ends")
			continue
		}
		isChanVal := func(v ssa.Value) bool {
			if v == ssa.Value(rfv) {
				return true
			}
			ld, ok := v.(*ssa.UnOp)
			return ok && ld.Op == token.MUL && ld.X == ssa.Value(rfv)
		}
		isDeferClose := func(in ssa.Instruction) bool {
			d, ok := in.(*ssa.Defer)
			if !ok {
				return false
			}
			bi, ok := d.Call.Value.(*ssa.Builtin)
			return ok && bi.Name() == "close" && len(d.Call.Args) == 1 && isChanVal(d.Call.Args[0])
		}
		// paths on which the channel is nil need no close
		nonNil := func(b *ssa.BasicBlock, i int) bool {
			ifi, ok := b.Instrs[len(b.Instrs)-1].(*ssa.If)
			if !ok {
				return true
			}
			x, nn, ok := nilCmp(ifi.Cond)
			if !ok || !isChanVal(x) {
				return true
			}
			// nn: condition is `x != nil`; the nil side is succ 1 then
			nilSucc := 0
			if nn {
				nilSucc = 1
			}
			return i != nilSucc
		}
		w := core.ReachAvoiding(core.Entry(r.Receiver), func(in ssa.Instruction) bool {
			// the first wire read or an exit reached without the deferred close
			if core.IsExit(in) {
				return true
			}
			return core.IsCallOf(in, isClientMethod("packet"))
		}, isDeferClose, nonNil)
		if len(w) > 0 {
			c.R.Bad(rule, key, cfg, p.Pos(w[0].At.Pos()), "the receive goroutine can start reading (and end) without having deferred close("+u.fv.Name()+"): a loop that ends cleanly before feeding the channel leaves the sender waiting for ever", p.TrailString(w[0])...)
		} else {
			c.R.Ok(rule, key, cfg, p.Pos(u.at.Pos()), "defer close("+u.fv.Name()+") is registered before the receive loop starts, wherever the channel exists")
		}
	}
	c.R.Count("channels the sender of Do waits on", n)
	c.R.Floor(rule, cfg, n, 1)
}

// ruleDeadlineKind (C04 / C08): each side of a query arms and clears only its own direction of the connection.
func ruleDeadlineKind(c *Ctx, p *core.Program, r *doRoles, rule string) {
	c.R.Rule(rule, "package ch never calls net.Conn.SetDeadline (both directions at once); functions reachable from the sender goroutine of Do set only the write deadline, functions reachable from the receive goroutine only the read deadline: the sender's flush and the receiver's packet() run concurrently on one connection - a flush that clears the deadline with SetDeadline(time.Time{}) also disarms the read deadline the receiver has just armed, and with a silent server nothing ever wakes the receive loop again (Do does not return, read timeout or not)")
	cfg := p.Cfg.Name
	isConn := func(call ssa.CallInstruction, name string) bool {
		cc := call.Common()
		return cc.IsInvoke() && cc.Method.Name() == name && core.IsNamed(cc.Value.Type(), "net", "Conn")
	}
	n := 0
	bad := false
	side := func(root *ssa.Function) map[*ssa.Function]bool {
		out := map[*ssa.Function]bool{}
		for fn := range reachNoCallbacks(root) {
			if pkgOf(fn) != nil && pkgOf(fn).Path() == core.PkgCh {
				out[fn] = true
			}
		}
		return out
	}
	sender, receiver := side(r.Sender), side(r.Receiver)
	for _, fn := range p.Funcs() {
		if pkgOf(fn) == nil || pkgOf(fn).Path() != core.PkgCh || fn.Blocks == nil || isServerSide(fn) {
			continue
		}
		for _, call := range core.Calls(fn) {
			switch {
			case isConn(call, "SetDeadline"):
				n++
				bad = true
				c.R.Bad(rule, core.CallKey(fn, call), cfg, p.Pos(call.Pos()), "SetDeadline sets (or clears) the read and the write deadline together: the other direction belongs to the other goroutine of the query")
			case isConn(call, "SetReadDeadline"):
				n++
				if sender[fn] && !receiver[fn] {
					bad = true
					c.R.Bad(rule, core.CallKey(fn, call), cfg, p.Pos(call.Pos()), "a function of the sending side touches the read deadline")
				}
			case isConn(call, "SetWriteDeadline"):
				n++
				if receiver[fn] && !sender[fn] {
					bad = true
					c.R.Bad(rule, core.CallKey(fn, call), cfg, p.Pos(call.Pos()), "a function of the receiving side touches the write deadline")
				}
			}
		}
	}
	if !bad {
		c.R.Ok(rule, "package ch", cfg, "", sprintf("%d deadline calls, each on its own direction; no SetDeadline", n))
	}
	c.R.Count("deadline calls in package ch", n)
	c.R.Floor(rule, cfg, n, 3)
}

// ruleFlushOwner (C04 / C14): only the client decides when staged output goes to the connection.
func ruleFlushOwner(c *Ctx, p *core.Program, rule string) {
	c.R.Rule(rule, "proto.Writer.Flush is called only from package ch (Client.flush, which tests the query context and arms the write deadline first), never from package proto itself: a block encoder that flushes part of a Data packet on its own writes it without that test and leaves the rest for the regular flush - when the query fails in between, the client stays open with half a packet on the wire and the next request is swallowed as column data")
	cfg := p.Cfg.Name
	n := 0
	bad := false
	for _, fn := range p.Funcs() {
		if pkgOf(fn) == nil || fn.Blocks == nil {
			continue
		}
		for _, call := range core.Calls(fn) {
			f := core.CalleeFunc(call)
			if f == nil || !core.IsMethod(f, core.PkgProto, "Writer", "Flush") {
				continue
			}
			n++
			if pkgOf(fn).Path() != core.PkgCh {
				bad = true
				c.R.Bad(rule, core.CallKey(fn, call), cfg, p.Pos(call.Pos()), "the staged output is flushed from inside package "+pkgOf(fn).Name()+": a packet can reach the wire in two instalments with the query's fate decided in between")
			}
		}
	}
	if !bad {
		c.R.Ok(rule, "Writer.Flush", cfg, "", sprintf("%d call(s), all in package ch", n))
	}
	c.R.Count("calls of proto.Writer.Flush", n)
	c.R.Floor(rule, cfg, n, 1)
}
